#!/usr/bin/env python3
"""footprint.py — the C19 translator: shared-state footprint of the codec entry points.

Regenerates  coq/Gen/Footprint.v  from a fresh build of the CURRENT working tree of /repo
(or $DRACO_REPO):

  1. tools/build_repo.sh O1        (library built with -ffunction-sections -fdata-sections)
  2. compile harness/probe_C19.cc (references only Encoder / ExpertEncoder / Decoder /
     KeyframeAnimationEncoder/Decoder entry points and the geometry classes they need) and link it
     against libdraco.a with  -Wl,--gc-sections -Wl,-Map=<map>
  3. from `readelf -S -s` of the linked image + the link map: every symbol (and every symbol-less
     input section) that lives in a WRITABLE, non-TLS data section of the image
     (.data*, .bss*, ... ; excluded: .data.rel.ro/.got/.dynamic/.init_array = relocation-only,
     read-only after start-up) is attributed to the object it came from:
        libdraco.a(member) or the probe object (= draco headers)  -> codec_shared_writable
        the same but a libstdc++ name (std::__ioinit ...)          -> codec_toolchain_writable
        crt*/libc_nonshared                                        -> codec_toolchain_writable
     TLS (.tdata/.tbss) symbols are per-thread, hence NOT shared: codec_thread_local.
  4. imported (undefined, dynamic) functions of the image that have hidden process-global state
     (fixed list below) -> codec_hidden_state_calls; the locale-READING ones -> codec_locale_reads
  5. whole-archive scan (no link): every writable non-TLS data symbol of every member ->
     library_shared_writable; restricted to the members the probe link pulled in ->
     codec_members_writable (the cheap, member-granular constness scan).

Self-test on every run: a canary object (one global, one static array, one function-local static,
one thread_local) is linked in and must be classified exactly (shared / TLS), and the import table
must be readable — otherwise exit 3, so a toolchain format change cannot silently yield "empty".

The file is written only when its content changes (so `make` does not rebuild needlessly).
A JSON copy of everything (with timings) goes to .cache/work/footprint.json for props/C19.py.
With DRACO_REPO=<scratch tree> the outputs go to that tree's private dirs (.cache/coq-<h>/Gen, .cache/work-<h>).

usage: tools/footprint.py [--out <coq dir>/Gen/Footprint.v] [--json <path>] [--quiet]
exit 0 = generated (whatever the content); exit 3 = build/link/parse failure (nothing written).
"""
import argparse
import hashlib
import json
import os
import re
import subprocess
import sys
import time

ROOT = os.path.dirname(os.path.dirname(os.path.abspath(__file__)))
REPO = os.environ.get("DRACO_REPO", "/repo")
# scratch trees (DRACO_REPO=...) get their own work dir and their own copy of the Coq development
# (lib/vcheck.py exports VERIF_COQ_DIR); same naming as lib/vcheck.py so one `rm -rf .cache/*-<hash>*` cleans up.
_H = hashlib.md5((REPO + "\n").encode()).hexdigest()[:8]
WORK = os.path.join(ROOT, ".cache", "work" if REPO == "/repo" else "work-" + _H)
COQ = os.environ.get("VERIF_COQ_DIR") or (os.path.join(ROOT, "coq") if REPO == "/repo" else os.path.join(ROOT, ".cache", "coq-" + _H))

# libc / libstdc++ entry points with hidden process-global mutable state (calling them from two
# threads is a race or cross-talk even though the caller owns all its arguments).
HIDDEN_STATE = {
    "rand", "srand", "random", "srandom", "initstate", "setstate",
    "drand48", "erand48", "lrand48", "nrand48", "mrand48", "jrand48", "srand48", "seed48", "lcong48",
    "strtok", "localtime", "gmtime", "asctime", "ctime", "setlocale", "uselocale", "strerror",
    "getenv", "secure_getenv", "setenv", "putenv", "unsetenv", "clearenv",
    "tmpnam", "tempnam", "mktemp", "tmpfile",
    "readdir", "getpwnam", "getpwuid", "getgrnam", "getgrgid", "gethostbyname", "gethostbyaddr",
    "getservbyname", "getprotobyname", "ttyname", "ctermid", "cuserid", "getlogin", "crypt", "getopt", "getopt_long",
    "lgamma", "lgammaf", "lgammal", "ecvt", "fcvt", "gcvt", "basename", "dirname", "nl_langinfo", "l64a", "ptsname",
    "signal", "sigaction", "atexit", "chdir", "umask",
    "_ZNSt6locale6globalERKS_",            # std::locale::global(std::locale const&)
    "_ZSt15set_new_handlerPFvvE", "_ZSt13set_terminatePFvvE",
}
# functions that only READ the process-global locale (a concurrent setlocale elsewhere changes them)
LOCALE_READS = {
    "atof", "strtod", "strtof", "strtold", "strtol", "strtoul", "strtoll", "strtoull", "atoi", "atol", "atoll",
    "printf", "fprintf", "sprintf", "snprintf", "vprintf", "vfprintf", "vsprintf", "vsnprintf",
    "scanf", "fscanf", "sscanf", "vsscanf", "__isoc99_sscanf", "__isoc23_sscanf", "__isoc99_fscanf",
    "__isoc23_strtol", "__isoc23_strtoul", "__isoc23_strtoll", "__isoc23_strtoull",
    "__printf_chk", "__fprintf_chk", "__sprintf_chk", "__snprintf_chk", "__vsnprintf_chk", "__vsprintf_chk",
    "isalpha", "isdigit", "isspace", "isalnum", "isupper", "islower", "ispunct", "isprint", "toupper", "tolower",
    "strcoll", "strxfrm", "strftime", "mblen", "mbtowc", "wctomb", "mbstowcs", "wcstombs", "localeconv",
    "__ctype_b_loc", "__ctype_tolower_loc", "__ctype_toupper_loc",
    "_ZNSt6localeC1Ev", "_ZNSt6localeC2Ev",   # std::locale::locale(): copies the global locale
    "_ZNSt6locale7classicEv",
}
# sections that carry the W flag only because the dynamic loader relocates them; read-only afterwards
RELOC_ONLY = re.compile(r"^\.(data\.rel\.ro|got|got\.plt|dynamic|init_array|fini_array|preinit_array|ctors|dtors|jcr|"
                        r"tm_clone_table|eh_frame|gcc_except_table)(\.|$)")
FORBIDDEN_IN_V = re.compile(r"\b(Admitted|admit|Axiom|Axioms|Parameter|Parameters|Conjecture|Conjectures)\b")


class Fail(Exception):
    pass


def sh(cmd, **kw):
    p = subprocess.run(cmd, stdout=subprocess.PIPE, stderr=subprocess.STDOUT, text=True, **kw)
    return p.returncode, p.stdout


def must(cmd, what, **kw):
    rc, out = sh(cmd, **kw)
    if rc != 0:
        raise Fail("%s failed (rc %d):\n%s" % (what, rc, out[-4000:]))
    return out


def demangle(names):
    names = list(names)
    if not names:
        return {}
    p = subprocess.run(["c++filt"], input="\n".join(names) + "\n", stdout=subprocess.PIPE, text=True)
    dem = p.stdout.splitlines()
    if len(dem) != len(names):
        return {n: n for n in names}
    return dict(zip(names, dem))


def is_toolchain_name(dem):
    d = dem
    for pre in ("guard variable for ", "vtable for ", "typeinfo for ", "typeinfo name for "):
        if d.startswith(pre):
            d = d[len(pre):]
    # DW.ref.* = compiler-generated indirect pointer to the EH personality routine (never written by the program)
    return d.startswith(("std::", "__gnu_cxx::", "__cxxabiv1::", "__gnu_internal::", "DW.ref."))


# ------------------------------------------------------------------ readelf parsing
SEC_RE = re.compile(r"^\s*\[\s*(\d+)\]\s+(\S*)\s+([A-Z_0-9a-z]+)\s+([0-9a-f]+)\s+([0-9a-f]+)\s+([0-9a-f]+)\s+([0-9a-f]+)\s+([A-Za-z]*)\s+\d+\s+\d+\s+\d+\s*$")
SYM_RE = re.compile(r"^\s*(\d+):\s+([0-9a-f]+)\s+(\d+|0x[0-9a-f]+)\s+(\S+)\s+(\S+)\s+(\S+)\s+(\S+)\s*(.*)$")


def parse_readelf(text):
    """-> list of files: dict(name, sections{idx:(name,type,addr,size,flags)}, symbols[(name,value,size,type,bind,ndx)])
    Works for one ELF file or an archive (several 'File:' blocks)."""
    files = []
    cur = None
    in_dyn = False
    for line in text.splitlines():
        if line.startswith("File: "):
            cur = {"name": line[6:].strip(), "sections": {}, "symbols": []}
            files.append(cur)
            in_dyn = False
            continue
        if cur is None:
            cur = {"name": "", "sections": {}, "symbols": []}
            files.append(cur)
        if line.startswith("Symbol table '"):
            in_dyn = ".dynsym" in line
            continue
        m = SEC_RE.match(line)
        if m:
            idx, name, typ, addr, off, size, es, flags = m.groups()
            cur["sections"][int(idx)] = (name, typ, int(addr, 16), int(size, 16), flags)
            continue
        if in_dyn:
            continue
        m = SYM_RE.match(line)
        if m:
            num, val, size, typ, bind, vis, ndx, name = m.groups()
            size = int(size, 16) if size.startswith("0x") else int(size)
            cur["symbols"].append((name.split(" ")[0] if name else "", int(val, 16), size, typ, bind, ndx))
    return files


def sec_class(name, typ, flags):
    """'shared' = writable process-shared data; 'tls' = thread-local; None = not writable data."""
    if "A" not in flags or "W" not in flags:
        return None
    if typ not in ("PROGBITS", "NOBITS"):
        return None
    if "T" in flags:
        return "tls"
    if RELOC_ONLY.match(name):
        return None
    return "shared"


# ------------------------------------------------------------------ link map parsing
def parse_map(path):
    """-> [(addr, size, input_section_name, origin_file)] for all input-section contributions."""
    txt = open(path, errors="replace").read()
    k = txt.find("Linker script and memory map")
    if k < 0:
        raise Fail("link map has no 'Linker script and memory map' part")
    res = []
    pending = None
    line_re = re.compile(r"^ (\S+)\s+0x([0-9a-f]+)\s+0x([0-9a-f]+)\s+(\S.*)$")
    name_only = re.compile(r"^ (\S+)$")
    cont_re = re.compile(r"^\s+0x([0-9a-f]+)\s+0x([0-9a-f]+)\s+(\S.*)$")
    for line in txt[k:].splitlines():
        if pending is not None:
            m = cont_re.match(line)
            if m:
                res.append((int(m.group(1), 16), int(m.group(2), 16), pending, m.group(3).strip()))
            pending = None
            if m:
                continue
        m = line_re.match(line)
        if m and not m.group(1).startswith("*"):
            res.append((int(m.group(2), 16), int(m.group(3), 16), m.group(1), m.group(4).strip()))
            continue
        m = name_only.match(line)
        if m and m.group(1).startswith("."):
            pending = m.group(1)
    return res


def origin_kind(origin, libpath, probe_obj):
    """-> ('draco', member) | ('probe', 'probe_C19.o') | ('toolchain', file)"""
    m = re.match(r"^(.*)\(([^()]+)\)$", origin)
    if m and os.path.realpath(m.group(1)) == os.path.realpath(libpath):
        return "draco", m.group(2)
    if os.path.basename(origin) == os.path.basename(probe_obj):
        return "probe", os.path.basename(origin)
    if os.path.basename(origin) == "footprint_canary.o":
        return "canary", os.path.basename(origin)
    return "toolchain", os.path.basename(origin)


# ------------------------------------------------------------------ main analysis
def analyse(quiet=False):
    t0 = time.time()
    out = must([os.path.join(ROOT, "tools", "build_repo.sh"), "O1"], "build of %s (O1)" % REPO)
    libdir = out.strip().splitlines()[-1]
    lib = os.path.join(libdir, "libdraco.a")
    t_build = time.time() - t0
    work = os.path.join(WORK, "footprint")
    os.makedirs(work, exist_ok=True)
    import fcntl
    lock = open(os.path.join(work, "lock"), "w")   # two checks may run at once (held until exit)
    fcntl.flock(lock, fcntl.LOCK_EX)
    analyse._lock = lock
    probe_src = os.path.join(ROOT, "harness", "probe_C19.cc")
    obj = os.path.join(work, "probe_C19.o")
    exe = os.path.join(work, "probe_C19")
    mapf = os.path.join(work, "probe_C19.map")
    # self-test canary: an object with one shared-writable and one thread-local cell, kept by --undefined.
    # The scan below must find exactly these (else the parsing is broken and an empty footprint would mean nothing).
    can_src = os.path.join(work, "footprint_canary.cc")
    can_obj = os.path.join(work, "footprint_canary.o")
    open(can_src, "w").write(
        "int verif_canary_cell = 0;\nthread_local int verif_canary_tls = 0;\n"
        "static int verif_canary_local[4];\n"
        "extern \"C\" int verif_canary_touch(int i) { static int calls; verif_canary_local[i & 3]++; "
        "return ++verif_canary_cell + ++verif_canary_tls + ++calls; }\n")
    for f in (obj, exe, mapf, can_obj):
        if os.path.exists(f):
            os.remove(f)
    t1 = time.time()
    must(["g++", "-std=c++17", "-O1", "-DNDEBUG", "-DDRACO_VERIF", "-ffunction-sections", "-fdata-sections",
          "-I" + os.path.join(REPO, "src"), "-I" + libdir, "-c", probe_src, "-o", obj],
         "compiling the link probe against the current tree")
    must(["g++", "-std=c++17", "-O1", "-ffunction-sections", "-fdata-sections", "-c", can_src, "-o", can_obj], "compiling the canary")
    must(["g++", obj, can_obj, lib, "-lpthread", "-Wl,--gc-sections", "-Wl,--undefined=verif_canary_touch",
          "-Wl,-Map=" + mapf, "-o", exe], "linking the probe with --gc-sections")
    t_link = time.time() - t1

    # ---- linked image
    img = parse_readelf(must(["readelf", "-SW", "-sW", exe], "readelf of the probe"))[0]
    secs = img["sections"]
    if not secs or not img["symbols"]:
        raise Fail("could not parse readelf output of the linked probe")
    wsecs = {i: (s, sec_class(s[0], s[1], s[4])) for i, s in secs.items() if sec_class(s[0], s[1], s[4])}
    contrib = parse_map(mapf)
    if not any(o.endswith(")") for (_, _, _, o) in contrib):
        raise Fail("link map lists no archive member contribution (format changed?)")
    # contributions that fall inside a writable output section
    wcon = []
    for (a, sz, sn, org) in contrib:
        if sz == 0:
            continue
        for i, (s, cls) in wsecs.items():
            if s[2] <= a < s[2] + max(s[3], 1):
                wcon.append((a, sz, sn, org, cls, s[0]))
                break
    members = sorted({origin_kind(o, lib, obj)[1] for (_, _, _, o) in contrib if origin_kind(o, lib, obj)[0] == "draco"})

    syms = []
    typ_of = {}
    for (name, val, size, typ, bind, ndx) in img["symbols"]:
        if not ndx.isdigit() or int(ndx) not in wsecs or typ in ("SECTION", "FILE") or not name:
            continue
        s, cls = wsecs[int(ndx)]
        if cls == "tls":
            addr = s[2] + val          # TLS symbol values are offsets into the TLS segment
        else:
            addr = val
        syms.append((name, addr, size, cls, s[0]))
        typ_of[(name, addr)] = typ
    dm = demangle({n for (n, _, _, _, _) in syms})

    def find_origin(addr, cls):
        for (a, sz, sn, org, c, osn) in wcon:
            if c == cls and a <= addr < a + sz:
                return sn, org, a
        return None, None, None

    codec_shared, codec_tool, codec_tls = [], [], []
    canary = {"shared": set(), "tls": set()}
    covered = set()
    for (name, addr, size, cls, osn) in sorted(syms, key=lambda x: (x[1], x[0])):
        if typ_of.get((name, addr)) == "NOTYPE" and size == 0:
            continue                   # linker-defined markers (_edata, __bss_start, _end ...): no storage
        isec, org, ca = find_origin(addr, cls)
        if org is None:
            kind, who = "toolchain", "?"
            isec = osn
        else:
            kind, who = origin_kind(org, lib, obj)
            covered.add(ca)
        d = dm.get(name, name)
        label = "%s [%s] @ %s" % (d, osn, who)
        if kind == "canary":
            canary[cls].add(d)
            continue
        if cls == "tls":
            (codec_tls if kind != "toolchain" and not is_toolchain_name(d) else codec_tool).append(label + (" (thread-local)" if kind == "toolchain" or is_toolchain_name(d) else ""))
        elif kind == "toolchain" or is_toolchain_name(d):
            codec_tool.append(label)
        else:
            codec_shared.append(label)
    # writable contributions of draco/probe origin that no symbol names (anonymous data)
    for (a, sz, sn, org, cls, osn) in wcon:
        kind, who = origin_kind(org, lib, obj)
        if kind in ("toolchain", "canary") or a in covered:
            continue
        label = "<no symbol> %s (%d bytes) [%s] @ %s" % (sn, sz, osn, who)
        if re.search(r"_ZStL8__ioinit|_ZGVNSt|_ZNSt|\.DW\.ref\.", sn):
            codec_tool.append(label)
        elif cls == "tls":
            codec_tls.append(label)
        else:
            codec_shared.append(label)

    want_sh = {"verif_canary_cell", "verif_canary_local", "verif_canary_touch::calls"}
    if not (want_sh <= canary["shared"]) or "verif_canary_tls" not in canary["tls"] or "verif_canary_tls" in canary["shared"]:
        raise Fail("self-test failed: the writable-data scan did not classify the canary cells correctly "
                   "(found shared=%s tls=%s); toolchain output format changed?" % (sorted(canary["shared"]), sorted(canary["tls"])))

    # ---- imported functions with hidden state
    dyn = must(["readelf", "--dyn-syms", "-W", exe], "readelf --dyn-syms")
    imports = set()
    for line in dyn.splitlines():
        m = SYM_RE.match(line)
        if m and m.group(7) == "UND" and m.group(8):
            imports.add(m.group(8).split("@")[0].split(" ")[0])
    if "__libc_start_main" not in imports or len(imports) < 10:
        raise Fail("self-test failed: could not read the import table of the linked probe (%d imports)" % len(imports))
    hidden = sorted(imports & HIDDEN_STATE)
    locale_reads = sorted(imports & LOCALE_READS)
    # attribution (information only): which pulled-in members reference them
    att = {}
    if hidden or locale_reads:
        rc, nmout = sh(["nm", "-A", "-u", lib])
        for line in nmout.splitlines():
            m = re.match(r"^[^:]*:([^:]+):\s+U\s+(\S+)$", line)
            if m and m.group(1) in members and m.group(2) in (set(hidden) | set(locale_reads)):
                att.setdefault(m.group(2), []).append(m.group(1))
    dmi = demangle(hidden + locale_reads)

    def with_att(n):
        a = sorted(set(att.get(n, [])))
        return dmi.get(n, n) + (" <- " + ",".join(a) if a else "")
    hidden_l = [with_att(n) for n in hidden]
    locale_l = [with_att(n) for n in locale_reads]

    # ---- whole archive
    t2 = time.time()
    arch = parse_readelf(must(["readelf", "-SW", "-sW", lib], "readelf of libdraco.a"))
    lib_w, lib_tool, lib_tls, mem_w = [], [], [], []
    allsyms = []
    for f in arch:
        m = re.match(r"^.*\(([^()]+)\)$", f["name"])
        mem = m.group(1) if m else f["name"]
        for (name, val, size, typ, bind, ndx) in f["symbols"]:
            if not ndx.isdigit() or typ in ("SECTION", "FILE") or not name:
                continue
            s = f["sections"].get(int(ndx))
            if not s:
                continue
            cls = sec_class(s[0], s[1], s[4])
            if cls:
                allsyms.append((mem, name, cls, s[0]))
    dma = demangle({n for (_, n, _, _) in allsyms})
    seen = set()
    for (mem, name, cls, sn) in sorted(allsyms):
        d = dma.get(name, name)
        base = re.sub(r"^(\.[a-z]+)\..*$", r"\1", sn)
        label = "%s [%s] @ %s" % (d, base, mem)
        if label in seen:
            continue
        seen.add(label)
        if is_toolchain_name(d):
            lib_tool.append(label)
        elif cls == "tls":
            lib_tls.append(label)
        else:
            lib_w.append(label)
            if mem in members:
                mem_w.append(label)
    if len(arch) < 20:
        raise Fail("libdraco.a has only %d members?" % len(arch))
    t_arch = time.time() - t2
    res = {
        "repo": REPO, "libdir": libdir,
        "codec_shared_writable": codec_shared,
        "codec_thread_local": codec_tls,
        "codec_toolchain_writable": sorted(set(codec_tool)),
        "codec_hidden_state_calls": hidden_l,
        "codec_locale_reads": locale_l,
        "codec_archive_members": members,
        "codec_members_writable": mem_w,
        "library_shared_writable": lib_w,
        "library_thread_local": lib_tls,
        "library_toolchain_writable_count": len(lib_tool),
        "archive_members_total": len(arch),
        "image_writable_sections": {s[0]: s[3] for (s, cls) in wsecs.values()},
        "imports_total": len(imports),
        "selftest_canary": {"shared": sorted(canary["shared"]), "tls": sorted(canary["tls"])},
        "timing_s": {"repo_build": round(t_build, 2), "probe_compile_link": round(t_link, 2), "archive_scan": round(t_arch, 2)},
    }
    return res


def coq_string(s):
    s = FORBIDDEN_IN_V.sub(lambda m: m.group(0)[0] + "_" + m.group(0)[1:], s)
    s = "".join(ch if 32 <= ord(ch) < 127 else "?" for ch in s)
    return '"' + s.replace('"', '""') + '"'


def coq_list(name, items, doc):
    body = "[]" if not items else "[\n    " + ";\n    ".join(coq_string(x) for x in items) + "\n  ]"
    return "(** %s *)\nDefinition %s : list string :=\n  %s.\n" % (doc, name, body)


def render(res):
    parts = [
        "(** GENERATED by tools/footprint.py from the current build of the library -- do not edit, not committed.\n"
        "    Regenerated by every `./check C19` (and by tools/setup.sh) before the Coq files are checked.\n"
        "    Entry format:  <demangled symbol> [<output section>] @ <archive member or probe object>. *)\n"
        "From Coq Require Import String List.\nImport ListNotations.\nLocal Open Scope string_scope.\n",
        coq_list("codec_shared_writable", res["codec_shared_writable"],
                 "Writable, process-shared (non thread-local) data of libdraco / draco headers that survives "
                 "--gc-sections in an image referencing only the codec entry points (harness/probe_C19.cc)."),
        coq_list("codec_hidden_state_calls", res["codec_hidden_state_calls"],
                 "Imported libc/libstdc++ functions of that image which keep hidden process-global mutable state."),
        coq_list("codec_locale_reads", res["codec_locale_reads"],
                 "Imported functions that only READ the process-global locale (listed, not an obligation)."),
        coq_list("codec_thread_local", res["codec_thread_local"],
                 "Thread-local (.tdata/.tbss) data of libdraco in the image: per thread, hence not shared."),
        coq_list("codec_toolchain_writable", res["codec_toolchain_writable"],
                 "Writable data in the image owned by the toolchain (libstdc++'s std::__ioinit per object, crt): "
                 "written during start-up only; listed separately, not an obligation."),
        coq_list("codec_members_writable", res["codec_members_writable"],
                 "Member-granular scan: writable draco data defined anywhere in an archive member that the probe link "
                 "pulled in (before --gc-sections).  Superset of codec_shared_writable."),
        coq_list("library_shared_writable", res["library_shared_writable"],
                 "Whole library, no reachability: every writable non-TLS draco data symbol of every member of libdraco.a."),
        coq_list("codec_archive_members", res["codec_archive_members"],
                 "Archive members with at least one section in the image."),
    ]
    return "\n".join(parts)


def main():
    ap = argparse.ArgumentParser()
    ap.add_argument("--out", default=os.path.join(COQ, "Gen", "Footprint.v"))
    ap.add_argument("--json", default=os.path.join(WORK, "footprint.json"))
    ap.add_argument("--quiet", action="store_true")
    a = ap.parse_args()
    try:
        res = analyse(a.quiet)
    except Fail as e:
        print("footprint.py: " + str(e), file=sys.stderr)
        return 3
    txt = render(res)
    os.makedirs(os.path.dirname(a.out), exist_ok=True)
    old = open(a.out).read() if os.path.exists(a.out) else None
    res["changed"] = old != txt
    if old != txt:
        tmp = a.out + ".tmp%d" % os.getpid()
        open(tmp, "w").write(txt)
        os.replace(tmp, a.out)
    os.makedirs(os.path.dirname(a.json), exist_ok=True)
    json.dump(res, open(a.json, "w"), indent=1)
    if not a.quiet:
        print("footprint: %d members in image, codec_shared_writable=%d hidden_state_calls=%d locale_reads=%d tls=%d; "
              "library_shared_writable=%d; %s %s" % (
                  len(res["codec_archive_members"]), len(res["codec_shared_writable"]), len(res["codec_hidden_state_calls"]),
                  len(res["codec_locale_reads"]), len(res["codec_thread_local"]), len(res["library_shared_writable"]),
                  "wrote" if res["changed"] else "unchanged", os.path.relpath(a.out, ROOT)))
        for x in res["codec_shared_writable"]:
            print("  SHARED WRITABLE:", x)
        for x in res["codec_hidden_state_calls"]:
            print("  HIDDEN STATE CALL:", x)
    return 0


if __name__ == "__main__":
    sys.exit(main())
