#!/usr/bin/env python3
"""Regenerates seeded/README.md from seeded/*/meta.json (one row per seeded breaking change)."""
import json, os, glob, re
ROOT = os.path.dirname(os.path.dirname(os.path.abspath(__file__)))
rows = []
for m in sorted(glob.glob(os.path.join(ROOT, "seeded", "*", "meta.json"))):
    d = json.load(open(m))
    sd = os.path.dirname(m)
    files = []
    try:
        for l in open(os.path.join(sd, "patch.diff")):
            if l.startswith("+++ b/"):
                files.append(os.path.basename(l[6:].strip()))
    except OSError:
        pass
    log = ""
    try:
        log = open(os.path.join(sd, "check.log")).read()
    except OSError:
        pass
    kinds = sorted(set(re.findall(r"replays/[A-Za-z0-9]+/([a-z_]+?)_(?:quick|thorough)", " ".join(d.get("violation_lines", [])))))
    nofail = "no-failing-input-found" in " ".join(d.get("violation_lines", []))
    c = d.get("confirmed", {})
    ok = c.get("unit_tests_on_changed_tree") == "pass" and str(c.get("demo_exit_changed")) not in ("0", "skip") and str(c.get("demo_exit_unchanged")) == "0"
    rows.append((d["name"], d["property"], ", ".join(files), "yes" if ok else "partly (%s/%s/%s)" % (c.get("unit_tests_on_changed_tree"), c.get("demo_exit_changed"), c.get("demo_exit_unchanged")),
                 "caught" if d.get("caught") else "MISSED", ", ".join(kinds) + (" (no failing input)" if nofail and not [k for k in kinds if k != "proof"] else ""),
                 d.get("remark", "")))
with open(os.path.join(ROOT, "seeded", "README.md"), "w") as f:
    f.write("# Seeded breaking changes\n\n"
            "Each directory holds one change to google/draco written by an independent sub-agent that saw only the text of the property\n"
            "and a scratch worktree of /repo (nothing from /verif): `patch.diff`, the agent's demonstration (`demo.cc`, `build.sh`,\n"
            "`notes.txt`), and what we did with it (`meta.json`, `check.log`, `check.rc`). `tools/try_seed.sh` applies the patch in a\n"
            "scratch worktree, confirms that the pinned unit tests still pass on the changed tree and that the demonstration fails with\n"
            "the change and passes without it, runs `DRACO_REPO=<worktree> ./check <property>` and records the outcome. None of these\n"
            "changes was ever committed to /repo. Regenerate this table with `tools/gen_seeded_readme.py`.\n\n"
            "| change | property | touches | confirmed (tests pass / demo fails with / passes without) | check | parts of the check that fired | remark |\n|---|---|---|---|---|---|---|\n")
    for r in rows:
        f.write("| " + " | ".join(r) + " |\n")
    n = len(rows); c = sum(1 for r in rows if r[4] == "caught")
    f.write("\n%d changes, %d caught by the quick tier of the property's check.\n" % (n, c))
print("seeded/README.md: %d rows" % len(rows))
