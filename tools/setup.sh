#!/bin/bash
# MANIFEST.setup_cmd: build the framework offline from files on disk.
set -e
cd "$(dirname "$0")/.."
mkdir -p .cache evidence replays
tools/build_repo.sh O1 >/dev/null
tools/footprint.py --quiet || true
python3 - <<'PY'
import sys, os
sys.path.insert(0, "lib")
import vcheck
vcheck.coq_makefile()
PY
if [ -x tools/cxx2v.py ]; then tools/cxx2v.py || true; fi
timeout 3000 make -C coq -k -j"$(nproc)" >.cache/coq_setup.log 2>&1 || { tail -30 .cache/coq_setup.log; echo "setup: coq build reported errors (checks will report them per property)"; }
# harness binaries and model drivers (cached by content hash; the checks rebuild them when /repo or the harness sources change)
timeout 3000 python3 tools/prebuild.py >.cache/prebuild.log 2>&1 || { tail -5 .cache/prebuild.log; echo "setup: prebuild reported errors (checks will rebuild / report)"; }
echo setup done
