#!/usr/bin/env python3
"""Rebuild /repo/_build in its stock configuration (no -DDRACO_VERIF: hooks OFF) and run the
repository's test binaries; exit 0 iff every test of /root/.vp/BASELINE.json's stable_pass passes."""
import json, os, subprocess, sys, tempfile
B = "/repo/_build"
if not os.path.exists(os.path.join(B, "build.ninja")):
    subprocess.check_call(["cmake", "-G", "Ninja", "-S", "/repo", "-B", B, "-DCMAKE_BUILD_TYPE=RelWithDebInfo",
                           "-DDRACO_TESTS=ON", "-DCMAKE_CXX_FLAGS=-Wno-error"])
subprocess.check_call(["cmake", "--build", B, "-j", str(os.cpu_count() or 8)])
passed = set(); failed = set()
for exe in ("draco_tests", "draco_factory_tests"):
    with tempfile.NamedTemporaryFile(suffix=".json") as tf:
        subprocess.run([os.path.join(B, exe), "--gtest_output=json:" + tf.name], cwd=B,
                       stdout=subprocess.DEVNULL, stderr=subprocess.DEVNULL)
        r = json.load(open(tf.name))
    for s in r["testsuites"]:
        for t in s["testsuite"]:
            name = s["name"] + "::" + t["name"]
            (failed if t.get("failures") else passed).add(name)
want = set(json.load(open("/root/.vp/BASELINE.json"))["stable_pass"]) if os.path.exists("/root/.vp/BASELINE.json") else passed
missing = sorted(want - passed)
print("passed=%d failed=%d baseline=%d missing_from_baseline=%d" % (len(passed), len(failed), len(want), len(missing)))
for m in missing: print("NOT PASSING:", m)
sys.exit(1 if missing else 0)
