#!/usr/bin/env python3
"""Translator driver: regenerates coq/Gen/*.v from /repo's current working tree.
   part 1: Constants.v  (tools/gen_constants.cc compiled against the current headers + library)
   part 2: Leaf.v       (selected loop-free leaf functions via clang's JSON AST; tools/leaf_translate.py)
Files are rewritten only when their content changes (so make does not rebuild needlessly).
Exit status 0 even if a part is unsupported: the caller inspects coq/Gen/STATUS.json."""
import json, os, subprocess, sys
ROOT = os.path.dirname(os.path.dirname(os.path.abspath(__file__)))
REPO = os.environ.get("DRACO_REPO", "/repo")
GEN = os.path.join(os.environ.get("VERIF_COQ_DIR", os.path.join(ROOT, "coq")), "Gen")
os.makedirs(GEN, exist_ok=True)

def write_if_changed(path, txt):
    if os.path.exists(path) and open(path).read() == txt:
        return False
    open(path, "w").write(txt)
    return True

import re
def cexpr_to_coq(e, var="n"):
    """Tiny translator for integer constant expressions over sizeof(IntTypeT), literals, + - * >> << and parentheses."""
    toks = re.findall(r"sizeof\s*\(\s*\w+\s*\)|\d+|>>|<<|[-+*()]", e)
    if "".join(toks).replace(" ", "") != re.sub(r"\s+", "", e):
        raise ValueError("unsupported expression: " + e)
    pos = [0]
    def peek(): return toks[pos[0]] if pos[0] < len(toks) else None
    def eat():
        t = toks[pos[0]]; pos[0] += 1; return t
    def atom():
        t = eat()
        if t == "(":
            v = shift(); assert eat() == ")"; return "(" + v + ")"
        if t.startswith("sizeof"): return var
        return t
    def mul():
        v = atom()
        while peek() == "*": eat(); v = "(%s * %s)" % (v, atom())
        return v
    def add():
        v = mul()
        while peek() in ("+", "-"):
            o = eat(); v = "(%s %s %s)" % (v, o, mul())
        return v
    def shift():
        v = add()
        while peek() in (">>", "<<"):
            o = eat(); v = "(Z.%s %s %s)" % ("shiftr" if o == ">>" else "shiftl", v, add())
        return v
    r = shift()
    assert pos[0] == len(toks)
    return r

def source_constants():
    """Constants that are macros #undef'd at the end of their header, or file-local: taken from the source text."""
    out = ["(* --- from source text --- *)"]
    def grab(path, rx, name, conv=lambda m: m.group(1)):
        txt = open(os.path.join(REPO, "src", "draco", path)).read()
        m = re.search(rx, txt)
        if not m:
            out.append("(* NOT FOUND: %s in %s *)" % (name, path)); return
        out.append("Definition %s : Z := %s." % (name, conv(m)))
    grab("compression/entropy/ans.h", r"#define\s+DRACO_ANS_P8_PRECISION\s+\(?(\d+)u?\)?", "DRACO_ANS_P8_PRECISION_")
    grab("compression/entropy/ans.h", r"#define\s+DRACO_ANS_L_BASE\s+\(?(\d+)u?\)?", "DRACO_ANS_L_BASE_")
    grab("compression/entropy/ans.h", r"#define\s+DRACO_ANS_IO_BASE\s+\(?(\d+)u?\)?", "DRACO_ANS_IO_BASE_")
    grab("compression/entropy/ans.h", r"#define\s+DRACO_ANS_DIVIDE_BY_MULTIPLY\s+(\d+)", "DRACO_ANS_DIVIDE_BY_MULTIPLY_")
    grab("compression/entropy/symbol_encoding.cc", r"kMaxTagSymbolBitLength\s*=\s*(\d+)\s*;", "kMaxTagSymbolBitLength_")
    grab("compression/entropy/symbol_encoding.cc", r"kMaxRawEncodingBitLength\s*=\s*(\d+)\s*;", "kMaxRawEncodingBitLength_")
    grab("metadata/metadata_decoder.cc", r"kMaxSubmetadataLevel\s*=\s*(\d+)\s*;", "kMaxSubmetadataLevel_decoder")
    grab("metadata/metadata_encoder.cc", r"kMaxSubmetadataLevel\s*=\s*(\d+)\s*;", "kMaxSubmetadataLevel_encoder")
    txt = open(os.path.join(REPO, "src", "draco", "core/varint_decoding.h")).read()
    m = re.search(r"(?:constexpr|const)\s+[\w:<> ]+?\s+max_depth\s*=\s*([^;]+);", txt)
    try:
        out.append("Definition varint_max_depth_of_sizeof (n : Z) : Z := %s." % cexpr_to_coq(m.group(1).strip()))
    except Exception as e:
        out.append("(* UNSUPPORTED varint max_depth: %s *)" % e)
    return "\n".join(out) + "\n"

def main():
    status = {}
    lib = subprocess.check_output([os.path.join(ROOT, "tools", "build_repo.sh"), "O1"], text=True).strip().splitlines()[-1]
    exe = os.path.join(lib, "gen_constants")
    p = subprocess.run(["g++", "-std=c++17", "-O0", "-DNDEBUG", "-I" + os.path.join(REPO, "src"), "-I" + lib,
                        os.path.join(ROOT, "tools", "gen_constants.cc"), os.path.join(lib, "libdraco.a"), "-o", exe],
                       stdout=subprocess.PIPE, stderr=subprocess.STDOUT, text=True)
    if p.returncode != 0:
        status["Constants"] = {"ok": False, "error": p.stdout[-3000:]}
    else:
        txt = subprocess.check_output([exe], text=True)
        txt += source_constants()
        status["Constants"] = {"ok": True, "changed": write_if_changed(os.path.join(GEN, "Constants.v"), txt)}
    lt = os.path.join(ROOT, "tools", "leaf_translate.py")
    if os.path.exists(lt):
        q = subprocess.run([sys.executable, lt], stdout=subprocess.PIPE, stderr=subprocess.STDOUT, text=True)
        try:
            status["Leaf"] = json.loads(q.stdout.strip().splitlines()[-1])
        except Exception:
            status["Leaf"] = {"ok": False, "error": q.stdout[-3000:]}
    json.dump(status, open(os.path.join(GEN, "STATUS.json"), "w"), indent=1)
    print(json.dumps(status))

if __name__ == "__main__":
    main()
