#!/usr/bin/env python3
"""Translator driver: regenerates coq/Gen/*.v from /repo's current working tree.
   part 1: Constants.v  (tools/gen_constants.cc compiled against the current headers + library)
   part 2: Leaf.v       (selected loop-free leaf functions via clang's JSON AST; tools/leaf_translate.py)
Files are rewritten only when their content changes (so make does not rebuild needlessly).
Exit status 0 even if a part is unsupported: the caller inspects coq/Gen/STATUS.json."""
import json, os, subprocess, sys
ROOT = os.path.dirname(os.path.dirname(os.path.abspath(__file__)))
REPO = os.environ.get("DRACO_REPO", "/repo")
GEN = os.path.join(os.environ.get("VERIF_COQ_DIR", os.path.join(ROOT, "coq")), "Gen")
os.makedirs(GEN, exist_ok=True)

def write_if_changed(path, txt):
    if os.path.exists(path) and open(path).read() == txt:
        return False
    open(path, "w").write(txt)
    return True

import re

def strip_cxx_comments(txt):
    txt = re.sub(r"/\*.*?\*/", " ", txt, flags=re.S)
    return re.sub(r"//[^\n]*", "", txt)

def source_constants(lib):
    """Constants that are macros #undef'd at the end of their header, or file-local to a .cc file, and the varint depth limit.
    Nothing is parsed here beyond LOCATING the text: the right-hand sides are pasted into a probe translation unit and
    EVALUATED BY THE COMPILER against the current headers (so `256u`, `(1u << 8)`, `8 * sizeof(uint32_t)`, `kFoo{18}` all work);
    the varint depth limit is MEASURED on the compiled DecodeVarint<T> (how many bytes it accepts), not read from an expression.
    A constant whose text cannot be located or whose probe does not compile is reported NOT FOUND (the proofs that use it then fail
    loudly: there is no fallback value)."""
    out = ["(* --- evaluated by the compiler from right-hand sides located in the source text --- *)"]
    probe = ["#include <cstdint>", "#include <cstddef>", "#include <cstdio>", "#include <vector>",
             '#include "draco/core/decoder_buffer.h"', '#include "draco/core/varint_decoding.h"']
    body = []
    ans = strip_cxx_comments(open(os.path.join(REPO, "src", "draco", "compression/entropy/ans.h")).read())
    # every object-like DRACO_ANS_* macro of ans.h, verbatim (they may refer to each other), under a private prefix
    wanted = {"DRACO_ANS_P8_PRECISION": "DRACO_ANS_P8_PRECISION_", "DRACO_ANS_L_BASE": "DRACO_ANS_L_BASE_",
              "DRACO_ANS_IO_BASE": "DRACO_ANS_IO_BASE_", "DRACO_ANS_DIVIDE_BY_MULTIPLY": "DRACO_ANS_DIVIDE_BY_MULTIPLY_"}
    found = set()
    for m in re.finditer(r"^[ \t]*#[ \t]*define[ \t]+(DRACO_ANS_\w+)[ \t]+((?:[^\n\\]|\\\n)+)$", ans, re.M):
        name, rhs = m.group(1), m.group(2).replace("\\\n", " ").strip()
        if "(" in name:
            continue
        probe.append("#define VP_%s %s" % (name, re.sub(r"\bDRACO_ANS_", "VP_DRACO_ANS_", rhs)))
        if name in wanted:
            found.add(name); body.append('  printf("Definition %s : Z := %%lld.\\n", (long long)(VP_%s));' % (wanted[name], name))
    for name in wanted:
        if name not in found:
            out.append("(* NOT FOUND: %s in compression/entropy/ans.h *)" % name)
    def local_const(path, cname, coqname):
        txt = strip_cxx_comments(open(os.path.join(REPO, "src", "draco", path)).read())
        m = re.search(r"\b%s\b\s*(?:=\s*([^;]+);|\{([^}]*)\}\s*;)" % re.escape(cname), txt)
        if not m:
            out.append("(* NOT FOUND: %s in %s *)" % (cname, path)); return
        rhs = (m.group(1) if m.group(1) is not None else m.group(2)).strip()
        body.append('  printf("Definition %s : Z := %%lld.\\n", (long long)(%s));' % (coqname, rhs))
    local_const("compression/entropy/symbol_encoding.cc", "kMaxTagSymbolBitLength", "kMaxTagSymbolBitLength_")
    local_const("compression/entropy/symbol_encoding.cc", "kMaxRawEncodingBitLength", "kMaxRawEncodingBitLength_")
    local_const("metadata/metadata_decoder.cc", "kMaxSubmetadataLevel", "kMaxSubmetadataLevel_decoder")
    local_const("metadata/metadata_encoder.cc", "kMaxSubmetadataLevel", "kMaxSubmetadataLevel_encoder")
    # the varint depth limit, measured: the largest number of bytes DecodeVarint<T> accepts (k continuation bytes 0x80 + a final 0x00)
    body.append("""  { auto depth = [](auto tag) { typedef decltype(tag) T; long best = 0; for (int n = 1; n <= 40; n++) { std::vector<char> b(n, (char)0x80); b[n - 1] = 0;
        draco::DecoderBuffer db; db.Init(b.data(), b.size()); T v; if (draco::DecodeVarint<T>(&v, &db) && db.remaining_size() == 0) best = n; } return best; };
    printf("Definition varint_max_depth_of_sizeof (n : Z) : Z := if n =? 1 then %ld else if n =? 2 then %ld else if n =? 4 then %ld else if n =? 8 then %ld else 0.\\n",
           depth((uint8_t)0), depth((uint16_t)0), depth((uint32_t)0), depth((uint64_t)0)); }""")
    src = os.path.join(lib, "vp_source_constants.cc"); exe = os.path.join(lib, "vp_source_constants")
    open(src, "w").write("\n".join(probe) + "\nint main() {\n" + "\n".join(body) + "\n  return 0;\n}\n")
    p = subprocess.run(["g++", "-std=c++17", "-O0", "-DNDEBUG", "-I" + os.path.join(REPO, "src"), "-I" + lib, src,
                        os.path.join(lib, "libdraco.a"), "-o", exe], stdout=subprocess.PIPE, stderr=subprocess.STDOUT, text=True)
    if p.returncode != 0:
        # find out which right-hand side is to blame: compile them one at a time
        out.append("(* probe did not compile as a whole; constants evaluated one by one *)")
        for line in body:
            open(src, "w").write("\n".join(probe) + "\nint main() {\n" + line + "\n  return 0;\n}\n")
            q = subprocess.run(["g++", "-std=c++17", "-O0", "-DNDEBUG", "-I" + os.path.join(REPO, "src"), "-I" + lib, src,
                                os.path.join(lib, "libdraco.a"), "-o", exe], stdout=subprocess.PIPE, stderr=subprocess.STDOUT, text=True)
            if q.returncode == 0:
                out.append(subprocess.check_output([exe], text=True).strip())
            else:
                nm = re.search(r"Definition (\w+)", line)
                out.append("(* NOT EVALUABLE: %s *)" % (nm.group(1) if nm else "?"))
    else:
        out.append(subprocess.check_output([exe], text=True).strip())
    return "\n".join(out) + "\n"

def main():
    status = {}
    lib = subprocess.check_output([os.path.join(ROOT, "tools", "build_repo.sh"), "O1"], text=True).strip().splitlines()[-1]
    exe = os.path.join(lib, "gen_constants")
    p = subprocess.run(["g++", "-std=c++17", "-O0", "-DNDEBUG", "-I" + os.path.join(REPO, "src"), "-I" + lib,
                        os.path.join(ROOT, "tools", "gen_constants.cc"), os.path.join(lib, "libdraco.a"), "-o", exe],
                       stdout=subprocess.PIPE, stderr=subprocess.STDOUT, text=True)
    if p.returncode != 0:
        # no fallback: a stale Constants.v must not survive a translator that no longer compiles against the current headers.  The file
        # is replaced by a comment, so everything that uses a generated constant stops compiling and the check reports the broken tie.
        err = p.stdout[-3000:]
        write_if_changed(os.path.join(GEN, "Constants.v"), "(* tools/gen_constants.cc does not compile against the current tree:\n%s\n*)\n" % err.replace("*)", "* )").replace("(*", "( *"))
        status["Constants"] = {"ok": False, "error": err}
    else:
        txt = subprocess.check_output([exe], text=True)
        txt += source_constants(lib)
        status["Constants"] = {"ok": True, "changed": write_if_changed(os.path.join(GEN, "Constants.v"), txt)}
    lt = os.path.join(ROOT, "tools", "leaf_translate.py")
    if os.path.exists(lt):
        q = subprocess.run([sys.executable, lt], stdout=subprocess.PIPE, stderr=subprocess.STDOUT, text=True)
        try:
            status["Leaf"] = json.loads(q.stdout.strip().splitlines()[-1])
        except Exception:
            status["Leaf"] = {"ok": False, "error": q.stdout[-3000:]}
    json.dump(status, open(os.path.join(GEN, "STATUS.json"), "w"), indent=1)
    print(json.dumps(status))

if __name__ == "__main__":
    main()
