#!/usr/bin/env python3
"""Part of MANIFEST.setup_cmd: builds every harness binary (all sanitizer flavours) and every extracted-model driver once, in
parallel, so that the quick checks find them in the content-hashed cache (lib/vcheck.py build_harness / build_driver rebuild
them whenever the harness sources, the library or a header of /repo change).  Failures are ignored here: the checks report them."""
import os, sys, importlib, multiprocessing
ROOT = os.path.dirname(os.path.dirname(os.path.abspath(__file__)))
sys.path.insert(0, os.path.join(ROOT, "lib")); sys.path.insert(0, os.path.join(ROOT, "props"))
import vcheck as V

def jobs():
    ctx = V.Ctx("PREBUILD", "quick", 1)
    seen = set(); out = []
    mods = ["C%02d" % i for i in range(1, 21)] + ["KD", "PRED", "TRAV", "EBENC", "TRAVS", "EB", "HOSTILE"]
    for m in mods:
        try:
            mod = importlib.import_module(m)
        except Exception:
            continue
        runs = []
        try:
            runs = list(mod.corr_runs(ctx)) if hasattr(mod, "corr_runs") else []
        except Exception:
            pass
        for r in runs:
            k = ("h", r["harness"], r.get("flavour", "O1"))
            if k not in seen:
                seen.add(k); out.append(k + (tuple(r.get("cxx_extra", ())),))
            if r.get("driver"):
                k = ("d", r["driver"], tuple(r.get("needs_vo", ())))
                if k not in seen:
                    seen.add(k); out.append(k)
    for fl in ("asan", "O1"):          # the byte-level decoder search of C02 / C03 / C18
        k = ("h", "dec", fl)
        if k not in seen:
            seen.add(k); out.append(k + ((),))
    return out

def build(j):
    ctx = V.Ctx("PREBUILD", "quick", 1)
    try:
        if j[0] == "h":
            lib = V.build_repo(ctx, j[2]) if j[2] != "O1" else os.path.join(ROOT, ".cache", "build-O1")
            V.build_harness(ctx, j[1], lib, j[2], extra=j[3])
        else:
            V.build_driver(ctx, j[1], needs_vo=j[2])
        return (j[:2], "ok")
    except Exception as e:
        return (j[:2], "failed: %s" % str(e)[:200])

if __name__ == "__main__":
    js = jobs()
    ctx = V.Ctx("PREBUILD", "quick", 1)
    for fl in sorted({j[2] for j in js if j[0] == "h"}):
        try:
            V.build_repo(ctx, fl)      # libraries first (serial: they use all cores themselves)
        except Exception as e:
            print("prebuild: library", fl, "failed:", str(e)[:200])
    with multiprocessing.Pool(8) as p:
        for (k, st) in p.imap_unordered(build, js):
            if st != "ok":
                print("prebuild:", k, st)
    print("prebuild done: %d targets" % len(js))
