#!/bin/bash
# tools/try_seed.sh <property> <seed dir containing patch.diff demo.cc build.sh> <name>
# Confirms a seeded breaking change in a scratch worktree (tests pass, demo fails with / passes without the change),
# runs ./check <property> against it, and files it under seeded/<name>/.
set -u
P=$1; SD=$2; NAME=$3
ROOT=$(cd "$(dirname "$0")/.." && pwd)
WT=/tmp/wt_seed_$NAME
OUT=$ROOT/seeded/$NAME
mkdir -p "$OUT"
git -C /repo worktree remove --force "$WT" >/dev/null 2>&1
git -C /repo worktree add "$WT" HEAD >/dev/null 2>&1 || { echo "worktree failed"; exit 2; }
cp -r /repo/third_party/. "$WT/third_party/" 2>/dev/null
if ! git -C "$WT" apply "$SD/patch.diff"; then echo "PATCH DOES NOT APPLY"; git -C /repo worktree remove --force "$WT"; exit 3; fi
cp "$SD/patch.diff" "$OUT/patch.diff"; cp "$SD"/demo.cc "$SD"/build.sh "$OUT/" 2>/dev/null; cp "$SD/notes.txt" "$OUT/notes.txt" 2>/dev/null
# 1. unit tests on the changed tree
B=$WT/_b
cmake -G Ninja -S "$WT" -B "$B" -DCMAKE_BUILD_TYPE=Release -DDRACO_TESTS=ON -DCMAKE_CXX_FLAGS=-Wno-error >/dev/null 2>&1
if ! ninja -C "$B" >"$B.log" 2>&1; then echo "CHANGED TREE DOES NOT BUILD"; tail -5 "$B.log"; TESTS="build-failed"; else
  (cd "$B" && ./draco_tests --gtest_output=json:t1.json >/dev/null 2>&1; ./draco_factory_tests --gtest_output=json:t2.json >/dev/null 2>&1)
  TESTS=$(python3 - "$B" <<'PY'
import json,sys
b=sys.argv[1]; passed=set()
for f in ("t1.json","t2.json"):
    try: r=json.load(open(b+"/"+f))
    except Exception: continue
    for s in r["testsuites"]:
        for t in s["testsuite"]:
            if not t.get("failures"): passed.add(s["name"]+"::"+t["name"])
want=set(json.load(open("/root/.vp/BASELINE.json"))["stable_pass"])
miss=sorted(want-passed)
print("pass" if not miss else "FAIL:"+",".join(miss[:5]))
PY
)
fi
echo "unit tests on changed tree: $TESTS"
# 2./3. demo with and without the change
DEMO_CH=skip; DEMO_UN=skip
if [ -f "$SD/build.sh" ] && [ "$TESTS" != build-failed ]; then
  (cd "$SD" && rm -f demo && bash build.sh "$B" "$WT" >/dev/null 2>&1 && (timeout 600 ./demo >/dev/null 2>&1; echo $? > /tmp/seed_rc_ch)) ; DEMO_CH=$(cat /tmp/seed_rc_ch 2>/dev/null || echo build-failed)
  UB=$ROOT/.cache/build-O1
  (cd "$SD" && rm -f demo && bash build.sh "$UB" /repo >/dev/null 2>&1 && (timeout 600 ./demo >/dev/null 2>&1; echo $? > /tmp/seed_rc_un)) ; DEMO_UN=$(cat /tmp/seed_rc_un 2>/dev/null || echo build-failed)
  rm -f /tmp/seed_rc_ch /tmp/seed_rc_un "$SD/demo"
fi
echo "demo exit code: changed=$DEMO_CH unchanged=$DEMO_UN"
rm -rf "$B" "$B.log"
# 4. our check against the changed tree
(cd "$ROOT" && DRACO_REPO=$WT timeout 3000 ./check "$P" > "$OUT/check.log" 2>&1; echo $? > "$OUT/check.rc")
RC=$(cat "$OUT/check.rc"); grep -E "VIOLATION|KNOWN-FINDING|proofs:|cases," "$OUT/check.log" | head -12
echo "check exit code: $RC"
H=$(echo "$WT" | md5sum | cut -c1-8)
python3 - "$OUT" "$P" "$NAME" "$TESTS" "$DEMO_CH" "$DEMO_UN" "$RC" <<'PY'
import json,sys,os,re
out,p,name,tests,dch,dun,rc=sys.argv[1:]
log=open(os.path.join(out,"check.log")).read()
notes=open(os.path.join(out,"notes.txt")).read() if os.path.exists(os.path.join(out,"notes.txt")) else ""
meta={"property":p,"name":name,
 "confirmed":{"unit_tests_on_changed_tree":tests,"demo_exit_changed":dch,"demo_exit_unchanged":dun},
 "needs_to_manifest":notes[:1500],
 "what_we_ran":["tools/try_seed.sh %s <seed dir> %s  (scratch worktree of /repo HEAD + patch; DRACO_REPO=<worktree> ./check %s)"%(p,name,p)],
 "check_exit_code":int(rc),"violation_lines":re.findall(r"^VIOLATION.*$",log,re.M)[:6],
 "caught":int(rc)==1 and "VIOLATION" in log}
json.dump(meta,open(os.path.join(out,"meta.json"),"w"),indent=1)
print("caught" if meta["caught"] else "MISSED")
PY
git -C /repo worktree remove --force "$WT" >/dev/null 2>&1
rm -rf "$ROOT"/.cache/*-"$H"*
