#!/bin/bash
# Build /repo's CURRENT working tree as a static library into /verif/.cache/build-<flavour>.
# usage: build_repo.sh [O1|asan|tsan]     prints the build dir on the last line.
set -e
FL=${1:-O1}
ROOT=$(cd "$(dirname "$0")/.." && pwd)
REPO=${DRACO_REPO:-/repo}
if [ "$REPO" = "/repo" ]; then B=$ROOT/.cache/build-$FL; else B=$ROOT/.cache/build-$FL-$(echo "$REPO" | md5sum | cut -c1-8); fi
mkdir -p "$ROOT/.cache"
case $FL in
  O1)   FLAGS="-O1 -DNDEBUG -DDRACO_VERIF -ffunction-sections -fdata-sections" ;;
  asan) FLAGS="-O1 -g -DNDEBUG -DDRACO_VERIF -fsanitize=address,undefined -fno-sanitize-recover=all" ;;
  tsan) FLAGS="-O1 -g -DNDEBUG -DDRACO_VERIF -fsanitize=thread" ;;
  *) echo "unknown flavour $FL" >&2; exit 2 ;;
esac
(
  flock 9
  if [ ! -f "$B/build.ninja" ]; then
    cmake -G Ninja -S "$REPO" -B "$B" -DCMAKE_BUILD_TYPE=Release \
      -DCMAKE_CXX_FLAGS="$FLAGS" -DCMAKE_CXX_FLAGS_RELEASE="" -DDRACO_TESTS=OFF >"$B.cmake.log" 2>&1 \
      || { cat "$B.cmake.log" >&2; exit 3; }
  fi
  ninja -C "$B" draco_static >"$B.ninja.log" 2>&1 || { tail -40 "$B.ninja.log" >&2; exit 3; }
) 9>"$B.lock"
echo "$B"
