// Decoder robustness search on the real library (all methods, legacy files): properties C02, C03, C18, C05, C06.
//   h_dec <tier> <seed> <out>      env: DEC_TESTDATA=/repo/testdata
// Runs every decode in a forked worker; a crash / sanitizer abort / hang is attributed to the exact input.
// Emits '!' lines for violations and '# STATS' lines for the evidence; no correspondence cases.
#include "common.h"
#include <dirent.h>
#include <signal.h>
#include <sys/mman.h>
#include <sys/wait.h>
#include <unistd.h>
#include <atomic>
#include <cmath>
#include <fstream>
#include <map>
#include <new>
#include <set>
#include "draco/animation/keyframe_animation.h"
#include "draco/animation/keyframe_animation_decoder.h"
#include "draco/compression/decode.h"
#include "draco/compression/encode.h"
#include "draco/compression/expert_encode.h"
#include "draco/mesh/mesh.h"
#include "draco/mesh/triangle_soup_mesh_builder.h"
#include "draco/point_cloud/point_cloud_builder.h"
#include "draco/metadata/geometry_metadata.h"
using namespace draco;

// ------------------------------------------------------------------ allocation monitor (C18)
static std::atomic<uint64_t> g_live{0}, g_peak{0}, g_maxreq{0};
static std::atomic<bool> g_track{false};
static uint64_t g_declared = 0;
static uint64_t g_kd_dim = 0;   // total number of components a kd-tree attribute block declares (sizes the tree decoder's stacks)
// only the size of the geometry justifies memory (points, faces, vertices, attribute components); the NUMBER of attributes is a side
// table count that the remaining input must justify (C18's second clause), so it is reported but not added
extern "C" void DracoVerifDeclaredCount(const char *what, uint64_t c) { if (!g_track) return; if (!(what && !strcmp(what, "num_attributes"))) g_declared += c; if (what && !strcmp(what, "kd_tree_dimension")) g_kd_dim = c; }
static void *track_alloc(size_t n) {
  void *p = malloc(n + 16);
  if (!p) return nullptr;
  *(uint64_t *)p = n;
  if (g_track) {
    uint64_t l = (g_live += n); uint64_t pk = g_peak.load(); while (l > pk && !g_peak.compare_exchange_weak(pk, l)) {}
    uint64_t m = g_maxreq.load(); while (n > m && !g_maxreq.compare_exchange_weak(m, n)) {}
  }
  return (char *)p + 16;
}
static void track_free(void *q) { if (!q) return; char *p = (char *)q - 16; uint64_t n = *(uint64_t *)p; if (g_track) g_live -= n; free(p); }
// Requests above 1 GiB (or a live total above 3 GiB) are refused with bad_alloc: "failure to allocate an array whose length is
// a declared element count" is the one tolerated abnormal exit, and this keeps such cases fast and bounded (also under ASan,
// whose malloc underneath still checks every access).
static const uint64_t CAP_ONE = 1ull << 30, CAP_LIVE = 3ull << 30;
void *operator new(size_t n) { if (n > CAP_ONE || g_live + n > CAP_LIVE) throw std::bad_alloc(); void *p = track_alloc(n); if (!p) throw std::bad_alloc(); return p; }
void *operator new[](size_t n) { if (n > CAP_ONE || g_live + n > CAP_LIVE) throw std::bad_alloc(); void *p = track_alloc(n); if (!p) throw std::bad_alloc(); return p; }
void *operator new(size_t n, const std::nothrow_t &) noexcept { if (n > CAP_ONE || g_live + n > CAP_LIVE) return nullptr; return track_alloc(n); }
void *operator new[](size_t n, const std::nothrow_t &) noexcept { if (n > CAP_ONE || g_live + n > CAP_LIVE) return nullptr; return track_alloc(n); }
void operator delete(void *p, const std::nothrow_t &) noexcept { track_free(p); }
void operator delete[](void *p, const std::nothrow_t &) noexcept { track_free(p); }
void operator delete(void *p) noexcept { track_free(p); }
void operator delete[](void *p) noexcept { track_free(p); }
void operator delete(void *p, size_t) noexcept { track_free(p); }
void operator delete[](void *p, size_t) noexcept { track_free(p); }

// ------------------------------------------------------------------ geometry generation
static std::unique_ptr<Mesh> gen_mesh(Rng &r, int flavor) {
  TriangleSoupMeshBuilder mb;
  int w = (int)r.range(2, 7), h = (int)r.range(2, 7);
  std::vector<std::array<int, 3>> faces;   // indices into grid points
  auto id = [&](int x, int y) { return y * (w + 1) + x; };
  for (int y = 0; y < h; y++) for (int x = 0; x < w; x++) {
    if (r.chance(12)) continue;   // hole
    faces.push_back({id(x, y), id(x + 1, y), id(x + 1, y + 1)});
    faces.push_back({id(x, y), id(x + 1, y + 1), id(x, y + 1)});
  }
  int npts = (w + 1) * (h + 1);
  int extra = flavor == 1 ? (int)r.below(5) : 0;   // non-manifold / duplicated / degenerate extras
  for (int i = 0; i < extra; i++) { int a = (int)r.below(npts), b = (int)r.below(npts), c = r.chance(20) ? a : (int)r.below(npts); faces.push_back({a, b, c}); }
  if (faces.empty()) faces.push_back({0, 1, w + 2});
  mb.Start((int)faces.size());
  const bool ipos = r.chance(30);   // integer positions: decoded by the plain integer attribute decoder (no transform of their own)
  int pos = mb.AddAttribute(GeometryAttribute::POSITION, 3, ipos ? DT_INT32 : DT_FLOAT32);
  int tex = r.chance(70) ? mb.AddAttribute(GeometryAttribute::TEX_COORD, 2, DT_FLOAT32) : -1;
  int nor = r.chance(50) ? mb.AddAttribute(GeometryAttribute::NORMAL, 3, DT_FLOAT32) : -1;
  int gen = r.chance(50) ? mb.AddAttribute(GeometryAttribute::GENERIC, 1, DT_UINT8) : -1;
  std::vector<std::array<float, 3>> P(npts); for (int i = 0; i < npts; i++) { int x = i % (w + 1), y = i / (w + 1); P[i] = {(float)x + (float)r.range(-20, 20) / 100.f, (float)y + (float)r.range(-20, 20) / 100.f, (float)r.range(-50, 50) / 25.f}; }
  int seam_col = r.chance(50) ? (int)r.range(1, w) : -1;
  for (size_t f = 0; f < faces.size(); f++) {
    auto &F = faces[f];
    if (ipos) { int32_t q[3][3]; for (int k = 0; k < 3; k++) for (int c = 0; c < 3; c++) q[k][c] = (int32_t)std::lround(P[F[k]][c] * 100.f); mb.SetAttributeValuesForFace(pos, FaceIndex((uint32_t)f), q[0], q[1], q[2]); }
    else mb.SetAttributeValuesForFace(pos, FaceIndex((uint32_t)f), P[F[0]].data(), P[F[1]].data(), P[F[2]].data());
    if (tex >= 0) { float uv[3][2]; for (int k = 0; k < 3; k++) { int x = F[k] % (w + 1), y = F[k] / (w + 1); bool right = (F[0] % (w + 1) >= seam_col) && seam_col >= 0; uv[k][0] = (float)x / (w + 1) + (right ? 0.5f : 0.f); uv[k][1] = (float)y / (h + 1); } mb.SetAttributeValuesForFace(tex, FaceIndex((uint32_t)f), uv[0], uv[1], uv[2]); }
    if (nor >= 0) { float n[3][3]; for (int k = 0; k < 3; k++) { float a = (float)(F[k] * 37 % 100) / 100.f; n[k][0] = std::sin(a * 6.f); n[k][1] = std::cos(a * 6.f) * 0.6f; n[k][2] = 0.8f * std::cos(a * 6.f); } mb.SetAttributeValuesForFace(nor, FaceIndex((uint32_t)f), n[0], n[1], n[2]); }
    if (gen >= 0) { uint8_t v = (uint8_t)(f % 5); mb.SetPerFaceAttributeValueForFace(gen, FaceIndex((uint32_t)f), &v); }
  }
  return mb.Finalize();
}
static std::unique_ptr<PointCloud> gen_pc(Rng &r, bool force_wide = false) {
  PointCloudBuilder pb; int n = (int)r.range(1, 120); pb.Start(n);
  int pos = pb.AddAttribute(GeometryAttribute::POSITION, 3, DT_FLOAT32);
  int col = r.chance(60) ? pb.AddAttribute(GeometryAttribute::COLOR, 3, DT_UINT8) : -1;
  int gen = r.chance(40) ? pb.AddAttribute(GeometryAttribute::GENERIC, 2, DT_INT16) : -1;
  int g32 = r.chance(35) ? pb.AddAttribute(GeometryAttribute::GENERIC, 1, DT_INT32) : -1;
  // an attribute whose values are 256 bytes or more each (64..100 x uint32)
  int widec = (force_wide || r.chance(8)) ? (int)r.range(64, 100) : 0; int wide = widec ? pb.AddAttribute(GeometryAttribute::GENERIC, (int8_t)widec, DT_UINT32) : -1;
  for (int i = 0; i < n; i++) {
    if (wide >= 0) { std::vector<uint32_t> w(widec); for (auto &x : w) x = (uint32_t)r.below(50); pb.SetAttributeValueForPoint(wide, PointIndex(i), w.data()); }
    if (g32 >= 0) { int32_t g = (int32_t)r.range(-70000, 70000); pb.SetAttributeValueForPoint(g32, PointIndex(i), &g); }
    float p[3] = {(float)r.range(-500, 500) / 10.f, (float)r.range(-500, 500) / 10.f, (float)r.range(-100, 100) / 4.f}; pb.SetAttributeValueForPoint(pos, PointIndex(i), p);
    if (col >= 0) { uint8_t c[3] = {(uint8_t)r.below(256), (uint8_t)r.below(8), (uint8_t)(i % 256)}; pb.SetAttributeValueForPoint(col, PointIndex(i), c); }
    if (gen >= 0) { int16_t g[2] = {(int16_t)r.range(-300, 300), (int16_t)r.range(-5, 5)}; pb.SetAttributeValueForPoint(gen, PointIndex(i), g); }
  }
  return pb.Finalize(r.chance(50));
}

struct Stream { std::vector<uint8_t> bytes; std::string label; bool mesh; bool legacy = false; };

// geometry + attribute metadata with nested sub-metadata (the metadata block sits right behind the header)
static void add_metadata(Rng &r, PointCloud *pc) {
  std::unique_ptr<GeometryMetadata> gm(new GeometryMetadata()); gm->AddEntryString("name", "m" + S((int64_t)r.below(100))); gm->AddEntryInt("i", (int32_t)r.next());
  std::unique_ptr<Metadata> sub(new Metadata()); sub->AddEntryDouble("d", 1.25); std::unique_ptr<Metadata> sub2(new Metadata()); sub2->AddEntryString("k", "v"); sub->AddSubMetadata("inner", std::move(sub2)); gm->AddSubMetadata("sub", std::move(sub));
  if (pc->num_attributes() > 0) { std::unique_ptr<AttributeMetadata> am(new AttributeMetadata()); am->set_att_unique_id(pc->attribute(0)->unique_id()); am->AddEntryString("a", "b"); std::unique_ptr<Metadata> s3(new Metadata()); s3->AddEntryInt("z", 7); am->AddSubMetadata("s", std::move(s3)); gm->AddAttributeMetadata(std::move(am)); }
  pc->AddMetadata(std::move(gm));
}
static void encode_mesh_variants(Rng &r, const Mesh &m, std::vector<Stream> &out, int k) {
  struct V { int method, speed, sub, pred; bool builtin; };
  std::vector<V> vs = {{MESH_SEQUENTIAL_ENCODING, 3, 0, -1, true}, {MESH_EDGEBREAKER_ENCODING, 0, MESH_EDGEBREAKER_STANDARD_ENCODING, -1, true},
                       {MESH_EDGEBREAKER_ENCODING, 1, MESH_EDGEBREAKER_VALENCE_ENCODING, -1, true}, {MESH_EDGEBREAKER_ENCODING, 5, MESH_EDGEBREAKER_STANDARD_ENCODING, -1, true},
                       {MESH_EDGEBREAKER_ENCODING, 7, MESH_EDGEBREAKER_STANDARD_ENCODING, -1, true}, {MESH_EDGEBREAKER_ENCODING, 3, MESH_EDGEBREAKER_VALENCE_ENCODING, MESH_PREDICTION_CONSTRAINED_MULTI_PARALLELOGRAM, true},
                       {MESH_EDGEBREAKER_ENCODING, 10, MESH_EDGEBREAKER_STANDARD_ENCODING, -1, false}, {MESH_SEQUENTIAL_ENCODING, 10, 0, -1, false}};
  for (int i = 0; i < k; i++) {
    V v = vs[(size_t)r.below(vs.size())];
    Encoder enc; enc.SetEncodingMethod(v.method); enc.SetSpeedOptions(v.speed, v.speed);
    enc.SetAttributeQuantization(GeometryAttribute::POSITION, (int)r.range(8, 14)); enc.SetAttributeQuantization(GeometryAttribute::TEX_COORD, (int)r.range(8, 12)); enc.SetAttributeQuantization(GeometryAttribute::NORMAL, (int)r.range(5, 10));
    if (v.method == MESH_EDGEBREAKER_ENCODING) enc.options().SetGlobalInt("edgebreaker_method", v.sub);
    if (v.pred >= 0) enc.SetAttributePredictionScheme(GeometryAttribute::POSITION, v.pred);
    if (!v.builtin) enc.options().SetGlobalBool("use_built_in_attribute_compression", false);
    EncoderBuffer eb; if (!enc.EncodeMeshToBuffer(m, &eb).ok()) continue;
    out.push_back({std::vector<uint8_t>(eb.data(), eb.data() + eb.size()), "mesh m" + S(v.method) + " s" + S(v.speed) + " sub" + S(v.sub) + " p" + S(v.pred) + " b" + S(v.builtin), true});
  }
}
static void encode_pc_variants(Rng &r, const PointCloud &pc, std::vector<Stream> &out, int k) {
  for (int i = 0; i < k; i++) {
    int method = r.chance(50) ? POINT_CLOUD_KD_TREE_ENCODING : POINT_CLOUD_SEQUENTIAL_ENCODING; int speed = (int)r.below(11);
    Encoder enc; enc.SetEncodingMethod(method); enc.SetSpeedOptions(speed, speed); enc.SetAttributeQuantization(GeometryAttribute::POSITION, (int)r.range(8, 14));
    EncoderBuffer eb; if (!enc.EncodePointCloudToBuffer(pc, &eb).ok()) continue;
    out.push_back({std::vector<uint8_t>(eb.data(), eb.data() + eb.size()), "pc m" + S(method) + " s" + S(speed), false});
  }
}
// sequential meshes whose point count sits at the boundaries of the four index encodings (uint8 / uint16 / varint / uint32):
// a few faces using the highest point ids, one constant uint8 position attribute (tiny stream, many declared points)
static void boundary_meshes(std::vector<Stream> &out, bool thorough) {
  std::vector<uint32_t> ns = {255, 256, 257, 65535, 65536, 65537, 70000, 2097151, 2097152};
  if (!thorough) ns = {256, 257, 65536, 65537, 70000, 2097152};
  for (uint32_t n : ns) {
    Mesh m; m.set_num_points(n);
    GeometryAttribute ga; ga.Init(GeometryAttribute::POSITION, nullptr, 3, DT_UINT8, false, 3, 0);
    int id = m.AddAttribute(ga, true, n); std::vector<uint8_t> z(3 * (size_t)n, 0); m.attribute(id)->buffer()->Update(z.data(), z.size());
    Mesh::Face f; f[0] = PointIndex(n - 1); f[1] = PointIndex(0); f[2] = PointIndex(n - 2); m.AddFace(f); f[0] = PointIndex(n / 2); f[1] = PointIndex(n - 1); f[2] = PointIndex(1); m.AddFace(f);
    Encoder enc; enc.SetEncodingMethod(MESH_SEQUENTIAL_ENCODING); enc.SetSpeedOptions(5, 5);
    EncoderBuffer eb; if (!enc.EncodeMeshToBuffer(m, &eb).ok()) continue;
    out.push_back({std::vector<uint8_t>(eb.data(), eb.data() + eb.size()), "boundary-mesh n=" + U(n), true});
  }
}
static void load_legacy(std::vector<Stream> &out) {
  const char *dir = getenv("DEC_TESTDATA"); std::string d = dir ? dir : "/repo/testdata";
  DIR *dp = opendir(d.c_str()); if (!dp) return;
  std::vector<std::string> names; while (dirent *e = readdir(dp)) { std::string n = e->d_name; if (n.size() > 4 && n.substr(n.size() - 4) == ".drc") names.push_back(n); }
  closedir(dp); std::sort(names.begin(), names.end());
  for (auto &n : names) {
    std::ifstream f(d + "/" + n, std::ios::binary); std::vector<uint8_t> b((std::istreambuf_iterator<char>(f)), std::istreambuf_iterator<char>());
    if (b.size() < 11 || b.size() > 400000) continue;
    out.push_back({b, "legacy " + n + " v" + S(b[5]) + "." + S(b[6]), b[7] == 1, true});
  }
}

// ------------------------------------------------------------------ corruptions
static std::vector<uint8_t> corrupt(Rng &r, const std::vector<uint8_t> &in, const std::vector<Stream> &pool, std::string &what) {
  std::vector<uint8_t> b = in; size_t n = b.size();
  auto pos = [&]() { return r.chance(40) ? r.below(std::min<size_t>(n, 64)) : r.below(n); };   // bias to the framing at the start
  switch (r.below(11)) {
    case 10: { // extreme varints in the last bytes (where trailing parameter blocks live: kd-tree signed minima, quantization data)
      static const uint8_t pats[][5] = {{0xfe, 0xff, 0xff, 0xff, 0x0f}, {0xff, 0xff, 0xff, 0xff, 0x0f}, {0xff, 0xff, 0xff, 0xff, 0x07}, {0x80, 0x80, 0x80, 0x80, 0x08}, {0xfd, 0xff, 0xff, 0xff, 0x0f}};
      size_t back = 1 + r.below(std::min<size_t>(n, 10)); size_t p = n - back; const uint8_t *pt = pats[r.below(5)]; std::vector<uint8_t> tail(b.begin() + p + 1, b.end());
      b.resize(p); b.insert(b.end(), pt, pt + 5); if (r.chance(70)) b.insert(b.end(), tail.begin(), tail.end()); what = "tailvarint@" + U(p); break; }
    case 0: { size_t k = r.below(n); b.resize(k); what = "truncate@" + U(k); break; }
    case 1: { size_t p = pos(); static const uint8_t pat[] = {0x00, 0xff, 0x80, 0x7f, 0x01, 0xfe}; b[p] = pat[r.below(6)]; what = "byte@" + U(p); break; }
    case 2: { size_t p = pos(); b[p] ^= (uint8_t)(1u << r.below(8)); what = "bit@" + U(p); break; }
    case 3: { size_t p = pos(); uint32_t v = r.chance(50) ? 0xffffffffu : (uint32_t)r.biased(32); for (int k = 0; k < 4 && p + k < n; k++) b[p + k] = (uint8_t)(v >> (8 * k)); what = "u32@" + U(p); break; }
    case 4: { size_t p = pos(); int len = (int)r.range(1, 5); for (int k = 0; k < len && p + k < n; k++) b[p + k] = (k == len - 1) ? (uint8_t)r.below(128) : (uint8_t)(0x80 | r.below(128)); what = "varint@" + U(p); break; }
    case 5: { int k = (int)r.range(2, 6); for (int i = 0; i < k; i++) b[r.below(n)] = (uint8_t)r.next(); what = "multi" + S(k); break; }
    case 6: { if (n > 6) { b[5] = (uint8_t)r.range(0, 3); b[6] = (uint8_t)r.range(0, 5); } what = "version"; break; }
    case 7: { if (n > 8) { b[7] = (uint8_t)r.below(3); b[8] = (uint8_t)r.below(3); } what = "type/method"; break; }
    case 8: { const Stream &o = pool[(size_t)r.below(pool.size())]; size_t cut = r.below(n), oc = r.below(o.bytes.size()); b.resize(cut); b.insert(b.end(), o.bytes.begin() + oc, o.bytes.end()); what = "splice@" + U(cut); break; }
    default: { size_t p = pos(); if (r.chance(50)) b.insert(b.begin() + p, (uint8_t)r.next()); else b.erase(b.begin() + p); what = "indel@" + U(p); break; }
  }
  return b;
}

// ------------------------------------------------------------------ one decode under observation
struct Shared { volatile long cur; volatile long done; volatile long accepted; volatile long rejected; volatile long invalid; volatile uint64_t worst_alloc_ratio_x1000; };
static std::string validate(const PointCloud &pc, const Mesh *m) {
  if (m) for (FaceIndex f(0); f < m->num_faces(); ++f) for (int j = 0; j < 3; j++) if (m->face(f)[j].value() >= pc.num_points()) return "face index >= num_points";
  for (int i = 0; i < pc.num_attributes(); i++) {
    const PointAttribute *a = pc.attribute(i);
    if (a->num_components() <= 0) return "num_components <= 0";
    if (a->byte_stride() < (int64_t)a->num_components() * DataTypeLength(a->data_type())) return "byte stride smaller than one value";
    if (!a->is_mapping_identity() && a->indices_map_size() != pc.num_points()) return "point map size != num_points";
    if ((uint64_t)a->buffer()->data_size() < (uint64_t)a->size() * a->byte_stride()) return "attribute buffer too small";
    for (PointIndex p(0); p < pc.num_points(); ++p) if (a->mapped_index(p).value() >= a->size()) return "point maps to a missing value";
    // reading every value through the public accessor must be safe (ASan watches)
    std::vector<uint8_t> buf(a->byte_stride() + 8); volatile uint8_t sink = 0;
    for (PointIndex p(0); p < pc.num_points(); ++p) { a->GetMappedValue(p, buf.data()); sink ^= buf[0]; }
  }
  return "";
}
struct Case { std::vector<uint8_t> bytes; std::string label; int entry; };   // entry: 0 mesh, 1 pc, 2 generic, 3 type query, 4 mesh+skip

static const uint64_t K_PER_BYTE = 4096, K_PER_ELEMENT = 4096, C_FIXED = 24ull << 20;   // C18 bound: max single request and live peak

static void run_case(FILE *out, const Case &c, Shared *sh) {
  std::vector<uint8_t> copy = c.bytes;
  g_declared = 0; g_kd_dim = 0; g_live = 0; g_peak = 0; g_maxreq = 0; g_track = true;
  std::string res, bad; bool ok = false;
  {
    DecoderBuffer db; db.Init((const char *)copy.data(), copy.size()); Decoder d;
    try {
      if (c.entry == 3) { auto t = Decoder::GetEncodedGeometryType(&db); ok = t.ok(); }
      else if (c.entry == 0 || c.entry == 4) { if (c.entry == 4) { d.SetSkipAttributeTransform(GeometryAttribute::POSITION); d.SetSkipAttributeTransform(GeometryAttribute::NORMAL); }
        auto m = d.DecodeMeshFromBuffer(&db); ok = m.ok(); if (ok) bad = validate(*m.value(), m.value().get()); }
      else if (c.entry == 1) { auto p = d.DecodePointCloudFromBuffer(&db); ok = p.ok(); if (ok) bad = validate(*p.value(), nullptr); }
      else { auto t = Decoder::GetEncodedGeometryType(&db); if (t.ok() && t.value() == TRIANGULAR_MESH) { Mesh m; ok = d.DecodeBufferToGeometry(&db, &m).ok(); if (ok) bad = validate(m, &m); } else if (t.ok() && t.value() == POINT_CLOUD) { PointCloud p; ok = d.DecodeBufferToGeometry(&db, &p).ok(); if (ok) bad = validate(p, nullptr); } }
    } catch (const std::bad_alloc &) { res = "bad_alloc"; } catch (const std::length_error &) { res = "length_error"; }
  }
  g_track = false;
  if (copy != c.bytes) fprintf(out, "! C02 decoder modified its input bytes: %s %s\n", c.label.c_str(), hex(c.bytes.data(), c.bytes.size()).c_str());
  if (!bad.empty()) { fprintf(out, "! C03 decode returned ok with an invalid geometry (%s): %s %s\n", bad.c_str(), c.label.c_str(), hex(c.bytes.data(), c.bytes.size()).c_str()); sh->invalid++; }
  // C18: single request and live peak against the stream length and the counts the stream declared
  const uint64_t bound = K_PER_BYTE * c.bytes.size() + K_PER_ELEMENT * g_declared + C_FIXED;
  const uint64_t worst = std::max<uint64_t>(g_maxreq, g_peak);
  // known finding: DynamicIntegerPointsKdTreeDecoder's two stacks hold (32 D + 1) vectors of D uint32 each, D = declared total number of
  // components: quadratic in a declared count.  An excess fully explained by exactly those stacks is tagged with that call site.
  const uint64_t kd_stacks = 2 * (32 * g_kd_dim + 1) * (4 * g_kd_dim + 32);
  if (res.empty() && worst > bound) fprintf(out, "! %s allocation not justified by input length + declared counts: max_request=%llu peak=%llu bound=%llu declared=%llu kd_dimension=%llu len=%zu %s %s\n",
                               (g_kd_dim > 0 && worst <= bound + kd_stacks) ? "C18-kdtree-decoder-stacks-quadratic-in-declared-dimension" : "C18",
                               (unsigned long long)g_maxreq.load(), (unsigned long long)g_peak.load(), (unsigned long long)bound, (unsigned long long)g_declared, (unsigned long long)g_kd_dim, c.bytes.size(), c.label.c_str(), hex(c.bytes.data(), c.bytes.size()).c_str());
  if (!res.empty() && K_PER_ELEMENT * g_declared + K_PER_BYTE * c.bytes.size() < (1ull << 28))   // an allocation failure is tolerated only for arrays sized by a declared count
  { fprintf(out, "! C02 %s without a large declared element count (declared=%llu): %s %s\n", res.c_str(), (unsigned long long)g_declared, c.label.c_str(), hex(c.bytes.data(), c.bytes.size()).c_str());
    // the same event seen from C18: memory grew until the allocator (here: the monitor's cap) refused, with nothing declared to justify it
    fprintf(out, "! C18 allocation grew to the monitor's cap (%s) although the stream declares few elements: max_request=%llu peak=%llu bound=%llu declared=%llu len=%zu %s %s\n", res.c_str(),
            (unsigned long long)g_maxreq.load(), (unsigned long long)g_peak.load(), (unsigned long long)bound, (unsigned long long)g_declared, c.bytes.size(), c.label.c_str(), hex(c.bytes.data(), c.bytes.size()).c_str()); }
  uint64_t ratio = worst * 1000 / (bound ? bound : 1); if (ratio > sh->worst_alloc_ratio_x1000) sh->worst_alloc_ratio_x1000 = ratio;
  if (ok) sh->accepted++; else sh->rejected++;
  fflush(out);
}

// C18 on VALID streams: decoding a geometry of the same kind with 9 times as many elements must not need more than ~9 times the
// memory (a side table sized by a PRODUCT of two declared counts would grow 81-fold).  Grids with regularly spaced holes (many
// topology split symbols), plain grids, point clouds; measured with the allocation monitor of this harness.
static uint64_t peak_of_valid_decode(const EncoderBuffer &eb, bool mesh) {
  g_declared = 0; g_kd_dim = 0; g_live = 0; g_peak = 0; g_maxreq = 0; g_track = true;
  { DecoderBuffer db; db.Init(eb.data(), eb.size()); Decoder d; if (mesh) { auto m = d.DecodeMeshFromBuffer(&db); (void)m; } else { auto p = d.DecodePointCloudFromBuffer(&db); (void)p; } }
  g_track = false; return g_peak.load();
}
static void scaling_probe(FILE *out) {
  auto grid = [](int n, int hole_every) { TriangleSoupMeshBuilder mb; std::vector<std::array<int, 3>> fs;
    for (int y = 0; y < n; y++) for (int x = 0; x < n; x++) { if (hole_every && x % hole_every == 1 && y % hole_every == 1) continue; fs.push_back({y * (n + 1) + x, y * (n + 1) + x + 1, (y + 1) * (n + 1) + x + 1}); fs.push_back({y * (n + 1) + x, (y + 1) * (n + 1) + x + 1, (y + 1) * (n + 1) + x}); }
    mb.Start((int)fs.size()); int pos = mb.AddAttribute(GeometryAttribute::POSITION, 3, DT_FLOAT32);
    for (size_t f = 0; f < fs.size(); f++) { float P[3][3]; for (int k = 0; k < 3; k++) { P[k][0] = (float)(fs[f][k] % (n + 1)); P[k][1] = (float)(fs[f][k] / (n + 1)); P[k][2] = 0.01f * (float)((fs[f][k] * 7) % 13); } mb.SetAttributeValuesForFace(pos, FaceIndex((uint32_t)f), P[0], P[1], P[2]); }
    return mb.Finalize(); };
  struct K { const char *name; int hole; int method; int speed; } kinds[] = {{"edgebreaker grid with a hole every 4 quads", 4, MESH_EDGEBREAKER_ENCODING, 5}, {"edgebreaker grid with a hole every 3 quads (valence)", 3, MESH_EDGEBREAKER_ENCODING, 1},
                                                                  {"edgebreaker plain grid", 0, MESH_EDGEBREAKER_ENCODING, 3}, {"sequential plain grid", 0, MESH_SEQUENTIAL_ENCODING, 5}};
  for (auto &k : kinds) { uint64_t pk[2] = {0, 0}; size_t len[2] = {0, 0};
    for (int big = 0; big < 2; big++) { auto m = grid(big ? 90 : 30, k.hole); if (!m) continue; Encoder enc; enc.SetEncodingMethod(k.method); enc.SetSpeedOptions(k.speed, k.speed); enc.SetAttributeQuantization(GeometryAttribute::POSITION, 11);
      EncoderBuffer eb; if (!enc.EncodeMeshToBuffer(*m, &eb).ok()) continue; len[big] = eb.size(); pk[big] = peak_of_valid_decode(eb, true); }
    if (pk[0] && pk[1]) { fprintf(out, "# SCALING %s: peak %llu bytes (stream %zu) -> %llu bytes (stream %zu) for 9x the elements\n", k.name, (unsigned long long)pk[0], len[0], (unsigned long long)pk[1], len[1]);
      if (pk[1] > 14 * pk[0] + (1ull << 20)) fprintf(out, "! C18 decoder memory grows faster than linearly on valid streams (%s): peak %llu bytes for a 30x30 grid, %llu bytes for a 90x90 grid (9x the elements)\n", k.name, (unsigned long long)pk[0], (unsigned long long)pk[1]); } }
  for (int method : {POINT_CLOUD_KD_TREE_ENCODING, POINT_CLOUD_SEQUENTIAL_ENCODING}) { uint64_t pk[2] = {0, 0};
    for (int big = 0; big < 2; big++) { int n = big ? 9000 : 1000; PointCloudBuilder pb; pb.Start(n); int pos = pb.AddAttribute(GeometryAttribute::POSITION, 3, DT_FLOAT32);
      for (int i = 0; i < n; i++) { float p[3] = {(float)((i * 37) % 101), (float)((i * 53) % 211) * 0.5f, (float)(i % 17)}; pb.SetAttributeValueForPoint(pos, PointIndex(i), p); }
      auto pc = pb.Finalize(false); Encoder enc; enc.SetEncodingMethod(method); enc.SetSpeedOptions(3, 3); enc.SetAttributeQuantization(GeometryAttribute::POSITION, 11); EncoderBuffer eb; if (!pc || !enc.EncodePointCloudToBuffer(*pc, &eb).ok()) continue; pk[big] = peak_of_valid_decode(eb, false); }
    if (pk[0] && pk[1]) { fprintf(out, "# SCALING point cloud method %d: peak %llu -> %llu bytes for 9x the points\n", method, (unsigned long long)pk[0], (unsigned long long)pk[1]);
      if (pk[1] > 14 * pk[0] + (1ull << 20)) fprintf(out, "! C18 decoder memory grows faster than linearly on valid streams (point cloud method %d): %llu -> %llu bytes for 9x the points\n", method, (unsigned long long)pk[0], (unsigned long long)pk[1]); } }
  fflush(out);
}

int main(int argc, char **argv) {
  if (argc < 4) { fprintf(stderr, "usage: h_dec quick|thorough seed out\n"); return 2; }
  if (!strcmp(argv[1], "one")) {   // replay: h_dec one <file with the hex bytes> <out>: the bytes through every entry point, each in a forked worker
    std::ifstream hf(argv[2]); std::string hx; hf >> hx; std::vector<uint8_t> bytes = unhex(hx);
    FILE *out = fopen(argv[3], "w"); if (!out) return 2;
    Shared *sh = (Shared *)mmap(nullptr, sizeof(Shared), PROT_READ | PROT_WRITE, MAP_SHARED | MAP_ANONYMOUS, -1, 0); memset((void *)sh, 0, sizeof(Shared));
    for (int e = 0; e < 5; e++) { Case c{bytes, "replay", e}; pid_t pid = fork(); if (pid == 0) { alarm(60); run_case(out, c, sh); fflush(out); _exit(0); }
      int st = 0; waitpid(pid, &st, 0); if (!(WIFEXITED(st) && WEXITSTATUS(st) == 0)) { fprintf(out, "! C02 decoder %s (status %d) on entry %d: replay %s\n", (WIFSIGNALED(st) && WTERMSIG(st) == SIGALRM) ? "did not return within the time limit (hang)" : "crashed / sanitizer abort", st, e, hx.c_str()); fflush(out); } }
    fprintf(out, "# STATS replay accepted=%ld rejected=%ld\n", sh->accepted, sh->rejected); fclose(out); return 0;
  }
  bool thorough = !strcmp(argv[1], "thorough");
  Rng r(strtoull(argv[2], 0, 10));
  std::vector<Stream> streams;
  int ng = thorough ? 60 : 14;
  for (int i = 0; i < ng; i++) { auto m = gen_mesh(r, i % 2); if (m && i % 4 == 3) add_metadata(r, m.get()); if (m) encode_mesh_variants(r, *m, streams, thorough ? 5 : 3); }
  for (int i = 0; i < ng; i++) { auto p = gen_pc(r, i == 2); if (p && i % 4 == 1) add_metadata(r, p.get()); if (p) encode_pc_variants(r, *p, streams, thorough ? 4 : 2); }
  boundary_meshes(streams, thorough);
  // kd-tree streams at the highest compression level (speed 0: the decoder reads a 4-bit split axis per node) with >= 64 points; every
  // single bit of these streams is flipped below
  for (int dim2 = 0; dim2 < 2; dim2++) { PointCloudBuilder pb; int n = 80 + dim2 * 30; pb.Start(n); int pos = pb.AddAttribute(GeometryAttribute::POSITION, 3, DT_FLOAT32); int col = dim2 ? pb.AddAttribute(GeometryAttribute::COLOR, 3, DT_UINT8) : -1;
    for (int i = 0; i < n; i++) { float p[3] = {(float)r.range(-500, 500) / 10.f, (float)r.range(-500, 500) / 10.f, (float)r.range(-100, 100) / 4.f}; pb.SetAttributeValueForPoint(pos, PointIndex(i), p); if (col >= 0) { uint8_t c[3] = {(uint8_t)r.below(256), (uint8_t)r.below(8), (uint8_t)i}; pb.SetAttributeValueForPoint(col, PointIndex(i), c); } }
    auto pc = pb.Finalize(false); Encoder enc; enc.SetEncodingMethod(POINT_CLOUD_KD_TREE_ENCODING); enc.SetSpeedOptions(0, 0); enc.SetAttributeQuantization(GeometryAttribute::POSITION, 10);
    EncoderBuffer eb; if (pc && enc.EncodePointCloudToBuffer(*pc, &eb).ok()) streams.push_back({std::vector<uint8_t>(eb.data(), eb.data() + eb.size()), "kd-level6 pc dims=" + S(3 + 3 * dim2), false}); }
  size_t ngen = streams.size();
  load_legacy(streams);
  std::vector<Case> cases; int metadata_sweeps = 0;
  for (auto &s : streams) {   // the valid stream through every entry point, then corruptions
    cases.push_back({s.bytes, "valid " + s.label, s.mesh ? 0 : 1}); cases.push_back({s.bytes, "valid " + s.label, 2}); cases.push_back({s.bytes, "valid " + s.label, 3});
    if (s.mesh) cases.push_back({s.bytes, "valid+skip " + s.label, 4});
    int nc = thorough ? 400 : (s.legacy ? 40 : 60);
    if (s.bytes.size() > 20000) nc /= 4;
    for (int k = 0; k < nc; k++) { std::string what; auto b = corrupt(r, s.bytes, streams, what); int e = (int)r.below(10); cases.push_back({b, what + " of " + s.label, e < 5 ? (s.mesh ? 0 : 1) : (e < 8 ? 2 : (e < 9 ? 3 : (s.mesh ? 4 : 1)))}); }
    if (s.label.compare(0, 9, "kd-level6") == 0)   // every single-bit flip
      for (size_t p = 0; p < s.bytes.size(); p++) for (int bit = 0; bit < 8; bit++) { std::vector<uint8_t> b = s.bytes; b[p] ^= (uint8_t)(1u << bit); cases.push_back({b, "bitflip@" + U(p) + "." + S(bit) + " of " + s.label, 1}); }
    if (s.label.compare(0, 13, "boundary-mesh") == 0)   // deterministic sweep over the framing + connectivity bytes
      for (size_t p = 0; p < std::min<size_t>(s.bytes.size(), 44); p++) { const uint8_t o = s.bytes[p]; const uint8_t pats[] = {0x00, 0x7f, 0x80, 0xff, (uint8_t)(o ^ 1), (uint8_t)(o ^ 0x40), (uint8_t)(o + 1), (uint8_t)(o | 0x0f)};
        for (uint8_t v : pats) if (v != o) { std::vector<uint8_t> b = s.bytes; b[p] = v; cases.push_back({b, "sweep@" + U(p) + "=" + U(v) + " of " + s.label, 0}); } }
    // counts that guards multiply before comparing (n * k > remaining): values that wrap to something small under a 32-bit multiplication
    // by k = 2..8, 12, 16, 24, as 5-byte varints at every offset of the metadata block of streams that carry metadata
    if (s.bytes.size() >= 12 && s.bytes.size() < 700 && (s.bytes[10] & 0x80) && !s.legacy && metadata_sweeps < (thorough ? 6 : 2)) { metadata_sweeps++;
      for (size_t p = 11; p < std::min<size_t>(s.bytes.size(), 150); p++) for (uint32_t k : {2u, 3u, 4u, 5u, 6u, 7u, 8u, 12u, 16u, 24u}) for (uint32_t j = 1; j < k && j <= 2; j++) for (uint32_t add : {0u, 1u}) {
        uint32_t v = (uint32_t)((((uint64_t)j << 32) + k - 1) / k) + add; std::vector<uint8_t> b(s.bytes.begin(), s.bytes.begin() + p); uint32_t x = v; for (int t = 0; t < 5; t++) { uint8_t byte = x & 0x7f; x >>= 7; if (t < 4) byte |= 0x80; b.push_back(byte); }
        b.insert(b.end(), s.bytes.begin() + p + 1, s.bytes.end()); cases.push_back({b, "wrapcount*" + U(k) + "@" + U(p) + " of " + s.label, s.mesh ? 0 : 1}); } }
    // old bitstream versions store sizes and counts as fixed 32- and 64-bit fields where the current one uses varints: on the small
    // legacy streams every offset gets a 32-bit and a 64-bit value with the top bit set and an all-ones value
    if (s.legacy && s.bytes.size() >= 11 && s.bytes.size() < 1200 && !(s.bytes[5] == 2 && s.bytes[6] >= 2))
      for (size_t p = 11; p < s.bytes.size(); p++) for (int w : {4, 8}) for (int pat = 0; pat < 2; pat++) { std::vector<uint8_t> b = s.bytes;
        for (int k = 0; k < w && p + k < b.size(); k++) b[p + k] = pat ? 0xff : (k == 0 ? 0x01 : (k == w - 1 ? 0x80 : 0x00));
        cases.push_back({b, "field" + S(8 * w) + (pat ? "=ones@" : "=topbit@") + U(p) + " of " + s.label, s.mesh ? 0 : 1}); }
    if (thorough && s.bytes.size() < 600) for (size_t k = 0; k < s.bytes.size(); k++) { std::vector<uint8_t> b(s.bytes.begin(), s.bytes.begin() + k); cases.push_back({b, "truncate@" + U(k) + " of " + s.label, 2}); }
  }
  { // known finding D23 made visible on every run: a VALID kd-tree stream of 4 points with 3 x 200 uint8 components (D = 600)
    PointCloud pc; pc.set_num_points(4);
    for (int a = 0; a < 3; a++) { GeometryAttribute ga; ga.Init(a == 0 ? GeometryAttribute::POSITION : GeometryAttribute::GENERIC, nullptr, 200, DT_UINT8, false, 200, 0); int id = pc.AddAttribute(ga, true, 4);
      for (int p = 0; p < 4; p++) { std::vector<uint8_t> v(200); for (int k = 0; k < 200; k++) v[k] = (uint8_t)((p * 7 + k * 3 + a) & 0xff); pc.attribute(id)->SetAttributeValue(AttributeValueIndex(p), v.data()); } }
    Encoder enc; enc.SetEncodingMethod(POINT_CLOUD_KD_TREE_ENCODING); EncoderBuffer eb;
    if (enc.EncodePointCloudToBuffer(pc, &eb).ok()) cases.push_back({std::vector<uint8_t>(eb.data(), eb.data() + eb.size()), "valid kd-tree stream, 4 points, 3 attributes x 200 components", 1}); }
  // distinct inputs
  std::set<size_t> hs; for (auto &c : cases) hs.insert(std::hash<std::string>()(std::string(c.bytes.begin(), c.bytes.end()) + (char)c.entry));
  FILE *out = fopen(argv[3], "w"); if (!out) return 2;
  fprintf(out, "# h_dec tier=%s seed=%s streams=%zu (generated %zu, legacy %zu) cases=%zu distinct=%zu\n", argv[1], argv[2], streams.size(), ngen, streams.size() - ngen, cases.size(), hs.size());
  for (size_t i = 0; i < streams.size(); i += std::max<size_t>(1, streams.size() / 12)) fprintf(out, "# SAMPLE %s len=%zu\n", streams[i].label.c_str(), streams[i].bytes.size());
  fflush(out);
  scaling_probe(out);
  Shared *sh = (Shared *)mmap(nullptr, sizeof(Shared), PROT_READ | PROT_WRITE, MAP_SHARED | MAP_ANONYMOUS, -1, 0);
  memset((void *)sh, 0, sizeof(Shared));
  long start = 0; int crashes = 0;
  while (start < (long)cases.size()) {
    pid_t pid = fork();
    if (pid == 0) {
      for (long i = start; i < (long)cases.size(); i++) { sh->cur = i; alarm(thorough ? 60 : 30); run_case(out, cases[i], sh); sh->done = i + 1; }
      alarm(0); fflush(out); _exit(0);
    }
    int st = 0; waitpid(pid, &st, 0);
    if (WIFEXITED(st) && WEXITSTATUS(st) == 0) break;
    long i = sh->cur; const Case &c = cases[i];
    const char *why = (WIFSIGNALED(st) && WTERMSIG(st) == SIGALRM) ? "did not return within the time limit (hang)" : "crashed / sanitizer abort";
    fprintf(out, "! C02 decoder %s (status %d) on entry %d: %s %s\n", why, st, c.entry, c.label.c_str(), hex(c.bytes.data(), c.bytes.size()).c_str());
    fflush(out); start = i + 1; if (++crashes > 50) { fprintf(out, "! C02 more than 50 crashing inputs; stopping\n"); break; }
  }
  fprintf(out, "# STATS evaluations=%zu distinct=%zu accepted=%ld rejected=%ld invalid=%ld crashes=%d worst_alloc_ratio_x1000=%llu\n", cases.size(), hs.size(), sh->accepted, sh->rejected, sh->invalid, crashes, (unsigned long long)sh->worst_alloc_ratio_x1000);
  fclose(out);
  fprintf(stderr, "h_dec: %zu cases, %d crashes\n", cases.size(), crashes);
  return 0;
}
