// Shared by all correspondence/search harnesses: one PRNG, hex printing, case output.
#pragma once
#include <cstdint>
#include <cstdio>
#include <cstdlib>
#include <cstring>
#include <string>
#include <vector>
#include <cinttypes>

struct Rng {  // splitmix64: every random choice of a run derives from VERIF_SEED
  uint64_t s;
  // the state is one OUTPUT of the generator started at the seed, not an affine function of it: otherwise seeds k and k+1 would
  // give the same stream shifted by one call
  explicit Rng(uint64_t seed) : s(seed * 0x9E3779B97F4A7C15ull + 0x1234567ull) { uint64_t a = next(), b = next(); s = a ^ (b << 1) ^ (seed * 0xD6E8FEB86659FD93ull); }
  uint64_t next() {
    uint64_t z = (s += 0x9E3779B97F4A7C15ull);
    z = (z ^ (z >> 30)) * 0xBF58476D1CE4E5B9ull;
    z = (z ^ (z >> 27)) * 0x94D049BB133111EBull;
    return z ^ (z >> 31);
  }
  uint64_t below(uint64_t n) { return n ? next() % n : 0; }
  int64_t range(int64_t lo, int64_t hi) { return lo + (int64_t)below((uint64_t)(hi - lo + 1)); }
  bool chance(int pct) { return (int)below(100) < pct; }
  // value biased to the boundaries of a w-bit unsigned type
  uint64_t biased(int w) {
    uint64_t mask = w >= 64 ? ~0ull : ((1ull << w) - 1);
    switch (below(6)) {
      case 0: { int k = (int)below(w + 1); uint64_t p = k >= 64 ? 0 : (1ull << k); return (p + (uint64_t)range(-2, 2)) & mask; }
      case 1: return below(300) & mask;
      case 2: return (mask - below(300)) & mask;
      case 3: { int k = (int)below(w) + 1; return next() & (k >= 64 ? ~0ull : ((1ull << k) - 1)) & mask; }
      default: return next() & mask;
    }
  }
};

inline std::string hex(const void *p, size_t n) {
  if (n == 0) return "-";
  static const char *d = "0123456789abcdef";
  std::string s; s.resize(2 * n);
  const unsigned char *b = (const unsigned char *)p;
  for (size_t i = 0; i < n; i++) { s[2*i] = d[b[i] >> 4]; s[2*i+1] = d[b[i] & 15]; }
  return s;
}
inline std::vector<uint8_t> unhex(const std::string &s) {
  std::vector<uint8_t> v; if (s == "-") return v;
  auto hv = [](char c) { return c <= '9' ? c - '0' : (c | 32) - 'a' + 10; };
  for (size_t i = 0; i + 1 < s.size(); i += 2) v.push_back((uint8_t)(hv(s[i]) * 16 + hv(s[i+1])));
  return v;
}

struct Out {
  FILE *f; long cases = 0, fails = 0;
  explicit Out(const char *path) { f = fopen(path, "w"); if (!f) { perror(path); exit(2); } }
  ~Out() { if (f) fclose(f); }
  // a correspondence case: "<kind args> | <impl result>"
  void c(const std::string &lhs, const std::string &rhs) { fprintf(f, "%s | %s\n", lhs.c_str(), rhs.c_str()); cases++; }
  // a direct failure of the property on the implementation
  void fail(const std::string &what) { fprintf(f, "! %s\n", what.c_str()); fails++; }
  void note(const std::string &what) { fprintf(f, "# %s\n", what.c_str()); }
};
inline std::string S(int64_t v) { return std::to_string(v); }
inline std::string U(uint64_t v) { return std::to_string(v); }
