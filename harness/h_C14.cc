// C14 correspondence + search harness: attribute value / point id deduplication, MeshCleanup, the two
// builders (TriangleSoupMeshBuilder, PointCloudBuilder) against the Coq model (Model/Dedup.v, Model/Cleanup.v),
// and MeshStripifier against Model/Strips.v (the library's opposite-corner table is an input of that model) plus a direct
// decode of the library's strip stream.
//
// Line protocol (see driver/d_C14.ml):
//   GEO  := <np> <na> ( <ncomp> <dtype> <ident> <VALS> <MAP> ){na} <FACES>
//   dv <ncomp> <dtype> <ident> <VALS> <MAP> | <ret> <ident'> <VALS'> <MAP'>
//   dav <GEO> | <ok> <GEO'>
//   dpi <GEO> | <GEO'>
//   cl <dgen dup unused manifold> <pos> <GEO> | fail  or  ok <GEO'>
//   soup <nf> <na> ( <ncomp> <dtype> <VALS 3*nf> ){na} | null or <GEO'>
//   pcb <np> <dedup> <na> ( <ncomp> <dtype> <VALS np> ){na} | <GEO'>
//   strip <r|d> <FACES> <OPP: Opposite(c) for every corner, -1 = none, or 'null' if no corner table> | <index stream, R = restart> or fail
#include "common.h"
#include <algorithm>
#include <array>
#include <map>
#include <memory>
#include <set>
#include "draco/attributes/point_attribute.h"
#include "draco/point_cloud/point_cloud.h"
#include "draco/point_cloud/point_cloud_builder.h"
#include "draco/mesh/mesh.h"
#include "draco/mesh/mesh_cleanup.h"
#include "draco/mesh/mesh_stripifier.h"
#include "draco/mesh/triangle_soup_mesh_builder.h"
using namespace draco;

typedef std::vector<uint8_t> Bytes;
typedef std::array<uint32_t, 3> Tri;
struct AttSpec {
  int type = GeometryAttribute::GENERIC;
  int ncomp = 1, dtype = 2;
  bool ident = true;
  std::vector<Bytes> vals;        // the first size() values
  std::vector<uint32_t> map;      // indices_map_ (empty for identity)
};
struct GeoSpec {
  uint32_t np = 0;
  std::vector<AttSpec> atts;
  std::vector<Tri> faces;
};
struct InSpec { int type = GeometryAttribute::GENERIC; int ncomp = 1, dtype = 2; std::vector<Bytes> vals; };

static int stride_of(int dtype, int ncomp) { return DataTypeLength((DataType)dtype) * ncomp; }
static bool dtype_supported(int dt) { return dt == 1 || dt == 2 || dt == 3 || dt == 4 || dt == 5 || dt == 6 || dt == 9 || dt == 11; }
static bool in_guard(const AttSpec &a) { return dtype_supported(a.dtype) && a.ncomp >= 1 && a.ncomp <= 4; }

// ------------------------------------------------------------------------------------------- printing
static std::string vals_str(const std::vector<Bytes> &v) {
  if (v.empty()) return "-";
  std::string s;
  for (size_t i = 0; i < v.size(); i++) { if (i) s += ","; s += hex(v[i].data(), v[i].size()); }
  return s;
}
static std::string list_str(const std::vector<uint32_t> &v) {
  if (v.empty()) return "-";
  std::string s;
  for (size_t i = 0; i < v.size(); i++) { if (i) s += ","; s += U(v[i]); }
  return s;
}
static std::string faces_str(const std::vector<Tri> &f) {
  if (f.empty()) return "-";
  std::string s;
  for (size_t i = 0; i < f.size(); i++) { if (i) s += ","; s += U(f[i][0]) + "," + U(f[i][1]) + "," + U(f[i][2]); }
  return s;
}
static std::string att_str(const AttSpec &a) {
  return S(a.ncomp) + " " + S(a.dtype) + " " + (a.ident ? "1" : "0") + " " + vals_str(a.vals) + " " +
         (a.ident ? std::string("-") : list_str(a.map));
}
static std::string geo_str(const GeoSpec &g) {
  std::string s = U(g.np) + " " + U(g.atts.size());
  for (auto &a : g.atts) s += " " + att_str(a);
  return s + " " + faces_str(g.faces);
}
static std::string in_str(const std::vector<InSpec> &ins) {
  std::string s = U(ins.size());
  for (auto &a : ins) s += " " + S(a.ncomp) + " " + S(a.dtype) + " " + vals_str(a.vals);
  return s;
}

// ------------------------------------------------------------------------- spec <-> library objects
static std::unique_ptr<PointAttribute> make_att(const AttSpec &a) {
  auto pa = std::unique_ptr<PointAttribute>(new PointAttribute());
  pa->Init((GeometryAttribute::Type)a.type, (int8_t)a.ncomp, (DataType)a.dtype, false, a.vals.size());
  for (size_t i = 0; i < a.vals.size(); i++) pa->SetAttributeValue(AttributeValueIndex((uint32_t)i), a.vals[i].data());
  if (!a.ident) {
    pa->SetExplicitMapping(a.map.size());
    for (size_t i = 0; i < a.map.size(); i++) pa->SetPointMapEntry(PointIndex((uint32_t)i), AttributeValueIndex(a.map[i]));
  }
  return pa;
}
static AttSpec snap_att(const PointAttribute &pa) {
  AttSpec a;
  a.type = pa.attribute_type(); a.ncomp = pa.num_components(); a.dtype = pa.data_type();
  a.ident = pa.is_mapping_identity();
  const int st = stride_of(a.dtype, a.ncomp);
  for (uint32_t i = 0; i < pa.size(); i++) {
    const uint8_t *p = pa.GetAddress(AttributeValueIndex(i));
    a.vals.push_back(Bytes(p, p + st));
  }
  for (uint32_t i = 0; i < pa.indices_map_size(); i++) a.map.push_back(pa.mapped_index(PointIndex(i)).value());
  return a;
}
static std::unique_ptr<Mesh> build_mesh(const GeoSpec &g) {
  std::unique_ptr<Mesh> m(new Mesh());
  m->set_num_points(g.np);
  for (auto &a : g.atts) m->AddAttribute(make_att(a));
  for (auto &f : g.faces) m->AddFace({{PointIndex(f[0]), PointIndex(f[1]), PointIndex(f[2])}});
  return m;
}
static GeoSpec snap_geo(const PointCloud &pc, const Mesh *m) {
  GeoSpec g;
  g.np = pc.num_points();
  for (int i = 0; i < pc.num_attributes(); i++) g.atts.push_back(snap_att(*pc.attribute(i)));
  if (m) for (FaceIndex f(0); f < m->num_faces(); ++f) {
    const Mesh::Face &fc = m->face(f);
    g.faces.push_back(Tri{{fc[0].value(), fc[1].value(), fc[2].value()}});
  }
  return g;
}
static int pos_index(const GeoSpec &g) {
  for (size_t i = 0; i < g.atts.size(); i++) if (g.atts[i].type == GeometryAttribute::POSITION) return (int)i;
  return -1;
}

// ------------------------------------------------------------------ oracle helpers (on snapshots only)
// value index of point p; false when the snapshot is not well formed there
static bool midx(const AttSpec &a, uint32_t p, uint32_t *out) {
  uint32_t v;
  if (a.ident) v = p; else { if (p >= a.map.size()) return false; v = a.map[p]; }
  if (v >= a.vals.size()) return false;
  *out = v; return true;
}
// the bytes of point p over all attributes ("" + flag on malformed)
static bool ptuple(const GeoSpec &g, uint32_t p, std::string *out) {
  out->clear();
  for (auto &a : g.atts) {
    uint32_t v; if (!midx(a, p, &v)) return false;
    out->append((const char *)a.vals[v].data(), a.vals[v].size());
  }
  return true;
}
static bool has_dups(const AttSpec &a) {
  std::set<Bytes> s(a.vals.begin(), a.vals.end());
  return s.size() < a.vals.size();
}
static Tri canon_tri(Tri t) {
  Tri b = t;
  for (int k = 0; k < 2; k++) { t = Tri{{t[1], t[2], t[0]}}; if (t < b) b = t; }
  return b;
}
typedef std::array<std::string, 3> FaceBytes;
static FaceBytes canon_fb(FaceBytes t) {
  FaceBytes b = t;
  for (int k = 0; k < 2; k++) { t = FaceBytes{{t[1], t[2], t[0]}}; if (t < b) b = t; }
  return b;
}
static bool face_bytes(const GeoSpec &g, const Tri &f, FaceBytes *out) {
  for (int c = 0; c < 3; c++) if (f[c] >= g.np || !ptuple(g, f[c], &(*out)[c])) return false;
  return true;
}

struct Stats {
  long dv = 0, dav = 0, dpi = 0, cl = 0, soup = 0, pcb = 0;
  long dv_changed = 0, dv_minus1 = 0, dav_changed = 0, dpi_merged = 0, cl_fail = 0, cl_faces_removed = 0,
       cl_points_removed = 0, cl_values_removed = 0, cl_dup_degenerate_kept = 0, soup_merged = 0, pcb_merged = 0, strips = 0, strip_multi = 0,
       strips_skipped_degenerate = 0, strip_seam = 0, strip_parity_fix = 0, strip_closed = 0, strip_nonmanifold = 0, strip_posdeg = 0,
       strip_zero = 0, strip_one = 0, strip_components = 0, strip_designed = 0, strip_no_table = 0, known_d14 = 0, known_unsup = 0, known_d14_seen = 0, known_unsup_seen = 0;
} st;

// the checks shared by dv and dav on one attribute; npoints = number of points whose value must be preserved
static void check_dedup_att(Out &o, const AttSpec &b, const AttSpec &a, uint32_t npoints, const std::string &lhs) {
  if (a.ncomp != b.ncomp || a.dtype != b.dtype) { o.fail("dedup changed the attribute format: " + lhs); return; }
  for (uint32_t p = 0; p < npoints; p++) {
    uint32_t vb, va;
    if (!midx(b, p, &vb)) return;  // malformed input: generator bug, not the library's
    if (!midx(a, p, &va)) { o.fail("dedup: point " + U(p) + " maps outside the values afterwards: " + lhs); return; }
    if (b.vals[vb] != a.vals[va]) { o.fail("dedup: value of point " + U(p) + " changed: " + lhs); return; }
  }
  if (has_dups(a)) {
    if (in_guard(a)) o.fail("dedup: equal values remain: " + lhs);
    else if (a.dtype == 7 || a.dtype == 8 || a.dtype == 10) {
      st.known_unsup_seen++;
      if (st.known_unsup < 3) { st.known_unsup++; o.fail("KNOWN dedup-unsupported-data-type: " + lhs); }
    } else if (dtype_supported(a.dtype) && a.ncomp > 4) {
      st.known_d14_seen++;
      if (st.known_d14 < 3) { st.known_d14++; o.fail("KNOWN-D14 dedup-more-than-4-components: " + lhs); }
    } else o.fail("dedup: equal values remain (unexpected format): " + lhs);
  }
}

// ------------------------------------------------------------------------------------------- cases
static void case_dv(Out &o, const AttSpec &b) {
  std::string lhs = "dv " + att_str(b);
  auto pa = make_att(b);
  int32_t ret = (int32_t)pa->DeduplicateValues(*pa);
  AttSpec a = snap_att(*pa);
  o.c(lhs, S(ret) + " " + (a.ident ? "1" : "0") + " " + vals_str(a.vals) + " " + (a.ident ? std::string("-") : list_str(a.map)));
  st.dv++;
  if (ret == -1) st.dv_minus1++;
  if (a.vals.size() != b.vals.size()) st.dv_changed++;
  const bool expect_minus1 = !in_guard(b) || b.vals.empty();
  if (expect_minus1 ? ret != -1 : (ret != (int32_t)a.vals.size() || ret <= 0)) o.fail("dv: returned count " + S(ret) + " vs size " + U(a.vals.size()) + ": " + lhs);
  uint32_t npoints = b.ident ? (uint32_t)b.vals.size() : (uint32_t)b.map.size();
  check_dedup_att(o, b, a, npoints, lhs);
  // idempotence
  int32_t ret2 = (int32_t)pa->DeduplicateValues(*pa);
  AttSpec a2 = snap_att(*pa);
  if (att_str(a2) != att_str(a) || ret2 != ret) o.fail("dv: second DeduplicateValues changed the attribute: " + lhs);
}

static GeoSpec case_dav(Out &o, const GeoSpec &b) {
  std::string lhs = "dav " + geo_str(b);
  auto m = build_mesh(b);
  bool ok = m->DeduplicateAttributeValues();
  GeoSpec a = snap_geo(*m, m.get());
  o.c(lhs, std::string(ok ? "1" : "0") + " " + geo_str(a));
  st.dav++;
  if (geo_str(a) != geo_str(b)) st.dav_changed++;
  if (!ok) o.fail("dav: DeduplicateAttributeValues returned false: " + lhs);
  if (a.np != b.np || a.atts.size() != b.atts.size() || a.faces != b.faces) { o.fail("dav: points/faces/attribute count changed: " + lhs); return a; }
  if (b.np > 0) for (size_t i = 0; i < b.atts.size(); i++) check_dedup_att(o, b.atts[i], a.atts[i], b.np, lhs);
  bool ok2 = m->DeduplicateAttributeValues();
  GeoSpec a2 = snap_geo(*m, m.get());
  if (geo_str(a2) != geo_str(a) || ok2 != ok) o.fail("dav: second DeduplicateAttributeValues changed the geometry: " + lhs);
  return a;
}

// what DeduplicatePointIds must preserve / achieve, on snapshots
static void check_dpi(Out &o, const GeoSpec &b, const GeoSpec &a, const std::string &lhs, const char *who) {
  std::string w = std::string(who) + ": ";
  if (a.faces.size() != b.faces.size()) { o.fail(w + "number of faces changed: " + lhs); return; }
  for (size_t f = 0; f < b.faces.size(); f++) {
    FaceBytes fb, fa;
    if (!face_bytes(b, b.faces[f], &fb)) return;
    if (!face_bytes(a, a.faces[f], &fa)) { o.fail(w + "face " + U(f) + " refers outside the points/values afterwards: " + lhs); return; }
    if (fb != fa) { o.fail(w + "corner values of face " + U(f) + " changed: " + lhs); return; }
  }
  std::set<std::string> sb, sa;
  std::string t;
  for (uint32_t p = 0; p < b.np; p++) { if (!ptuple(b, p, &t)) return; sb.insert(t); }
  for (uint32_t p = 0; p < a.np; p++) { if (!ptuple(a, p, &t)) { o.fail(w + "point " + U(p) + " maps outside the values afterwards: " + lhs); return; } sa.insert(t); }
  if (sa != sb) { o.fail(w + "the set of point value tuples changed: " + lhs); return; }
  std::set<std::vector<uint32_t>> keys;
  for (uint32_t p = 0; p < a.np; p++) {
    std::vector<uint32_t> k;
    for (auto &at : a.atts) { uint32_t v = 0; midx(at, p, &v); k.push_back(v); }
    if (!keys.insert(k).second) { o.fail(w + "two points with identical value indices remain: " + lhs); return; }
  }
}

static GeoSpec case_dpi(Out &o, const GeoSpec &b) {
  std::string lhs = "dpi " + geo_str(b);
  auto m = build_mesh(b);
  m->DeduplicatePointIds();
  GeoSpec a = snap_geo(*m, m.get());
  o.c(lhs, geo_str(a));
  st.dpi++;
  if (a.np != b.np) st.dpi_merged++;
  check_dpi(o, b, a, lhs, "dpi");
  m->DeduplicatePointIds();
  GeoSpec a2 = snap_geo(*m, m.get());
  if (geo_str(a2) != geo_str(a)) o.fail("dpi: second DeduplicatePointIds changed the geometry: " + lhs);
  return a;
}

static void case_cl(Out &o, const GeoSpec &b, int mask) {
  MeshCleanupOptions opt;
  opt.remove_degenerated_faces = mask & 8; opt.remove_duplicate_faces = mask & 4;
  opt.remove_unused_attributes = mask & 2; opt.make_geometry_manifold = mask & 1;
  const int pos = pos_index(b);
  std::string ms; for (int k = 3; k >= 0; k--) ms += (mask >> k) & 1 ? "1" : "0";
  std::string lhs = "cl " + ms + " " + S(pos) + " " + geo_str(b);
  auto m = build_mesh(b);
  Status s = MeshCleanup::Cleanup(m.get(), opt);
  GeoSpec a = snap_geo(*m, m.get());
  o.c(lhs, s.ok() ? "ok " + geo_str(a) : "fail");
  st.cl++;
  if (mask == 0) {
    if (!s.ok()) o.fail("cl: Cleanup without options failed: " + lhs);
    if (geo_str(a) != geo_str(b)) o.fail("cl: Cleanup without options changed the mesh: " + lhs);
    return;
  }
  if (pos < 0) { st.cl_fail++; if (s.ok()) o.fail("cl: Cleanup succeeded without POSITION attribute: " + lhs); return; }
  if (!s.ok()) { o.fail("cl: Cleanup failed: " + lhs); return; }
  // expected faces from the documented semantics
  std::vector<Tri> keep;
  for (auto &f : b.faces) {
    if (opt.remove_degenerated_faces) {
      uint32_t i0, i1, i2;
      if (!midx(b.atts[pos], f[0], &i0) || !midx(b.atts[pos], f[1], &i1) || !midx(b.atts[pos], f[2], &i2)) return;
      if (i0 == i1 || i0 == i2 || i1 == i2) continue;
    }
    keep.push_back(f);
  }
  // Duplicates: equal point ids up to rotation.  For a face whose smallest point id occurs twice ((m,x,m) vs
  // (m,m,x)) the library's rotation loop stops at the first corner holding the minimum, so it keeps such rotated
  // copies of a point-degenerate face; both results are accepted for those faces (keep2 = the library's reading).
  std::vector<Tri> keep2 = keep;
  if (opt.remove_duplicate_faces) {
    std::set<Tri> seen; std::vector<Tri> k2;
    for (auto &f : keep) if (seen.insert(canon_tri(f)).second) k2.push_back(f);
    keep.swap(k2);
    seen.clear(); k2.clear();
    for (auto &f : keep2) {
      Tri t = f;
      for (int k = 0; k < 3 && (t[0] > t[1] || t[0] > t[2]); k++) t = Tri{{t[1], t[2], t[0]}};
      if (seen.insert(t).second) k2.push_back(f);
    }
    keep2.swap(k2);
    if (keep2.size() != keep.size()) { st.cl_dup_degenerate_kept++; if (a.faces.size() == keep2.size()) keep = keep2; }
  }
  if (keep.size() != b.faces.size()) st.cl_faces_removed++;
  if (a.np != b.np) st.cl_points_removed++;
  for (size_t i = 0; i < a.atts.size() && i < b.atts.size(); i++) if (a.atts[i].vals.size() != b.atts[i].vals.size()) { st.cl_values_removed++; break; }
  if (a.atts.size() != b.atts.size()) { o.fail("cl: number of attributes changed: " + lhs); return; }
  if (a.faces.size() != keep.size()) { o.fail("cl: " + U(a.faces.size()) + " faces remain, expected " + U(keep.size()) + ": " + lhs); return; }
  for (size_t f = 0; f < keep.size(); f++) {
    FaceBytes fb, fa;
    if (!face_bytes(b, keep[f], &fb)) return;
    if (!face_bytes(a, a.faces[f], &fa)) { o.fail("cl: face " + U(f) + " refers outside the points/values afterwards: " + lhs); return; }
    if (canon_fb(fb) != canon_fb(fa)) { o.fail("cl: face " + U(f) + " is not the expected face (corner values, up to rotation): " + lhs); return; }
  }
  if (opt.remove_unused_attributes) {
    std::vector<char> used(a.np, 0);
    for (auto &f : a.faces) for (int c = 0; c < 3; c++) if (f[c] < a.np) used[f[c]] = 1;
    for (uint32_t p = 0; p < a.np; p++) if (!used[p]) { o.fail("cl: point " + U(p) + " is unused after remove_unused_attributes: " + lhs); return; }
    for (size_t i = 0; i < a.atts.size(); i++) {
      std::vector<char> vu(a.atts[i].vals.size(), 0);
      for (uint32_t p = 0; p < a.np; p++) { uint32_t v; if (midx(a.atts[i], p, &v)) vu[v] = 1; }
      for (size_t v = 0; v < vu.size(); v++) if (!vu[v]) { o.fail("cl: value " + U(v) + " of attribute " + U(i) + " is unused after remove_unused_attributes: " + lhs); return; }
    }
  }
}

// decode an index stream into triangles; restart: strips are separated by ridx
static std::vector<Tri> decode_strips(const std::vector<uint32_t> &s, bool restart, uint32_t ridx, bool drop_degenerate) {
  std::vector<Tri> out;
  std::vector<std::vector<uint32_t>> segs(1);
  for (uint32_t v : s) { if (restart && v == ridx) segs.emplace_back(); else segs.back().push_back(v); }
  for (auto &g : segs)
    for (size_t j = 0; j + 2 < g.size(); j++) {
      Tri t = (j & 1) ? Tri{{g[j + 1], g[j], g[j + 2]}} : Tri{{g[j], g[j + 1], g[j + 2]}};
      if (drop_degenerate && (t[0] == t[1] || t[0] == t[2] || t[1] == t[2])) continue;
      out.push_back(canon_tri(t));
    }
  std::sort(out.begin(), out.end());
  return out;
}

// the per-corner attribute bytes of a list of point-id triangles, each face rotation-canonical, sorted
static bool tri_bytes(const GeoSpec &g, const std::vector<Tri> &ts, bool drop_degenerate, std::vector<FaceBytes> *out) {
  out->clear();
  for (auto &t : ts) {
    if (drop_degenerate && (t[0] == t[1] || t[0] == t[2] || t[1] == t[2])) continue;
    FaceBytes fb;
    if (!face_bytes(g, t, &fb)) return false;
    out->push_back(canon_fb(fb));
  }
  std::sort(out->begin(), out->end());
  return true;
}
// raw (unsorted, not canonicalised) decode, for the attribute-bytes comparison
static std::vector<Tri> decode_raw(const std::vector<uint32_t> &s, bool restart, uint32_t ridx) {
  std::vector<Tri> out;
  std::vector<std::vector<uint32_t>> segs(1);
  for (uint32_t v : s) { if (restart && v == ridx) segs.emplace_back(); else segs.back().push_back(v); }
  for (auto &g : segs)
    for (size_t j = 0; j + 2 < g.size(); j++)
      out.push_back((j & 1) ? Tri{{g[j + 1], g[j], g[j + 2]}} : Tri{{g[j], g[j + 1], g[j + 2]}});
  return out;
}

// THE STRIP CLAUSE, checked directly on the implementation for both modes: the real index stream is decoded
// (restart: split at the restart index, alternating winding per run; degenerate: ONE strip, alternating winding,
// triangles with two equal indices dropped) and must give the mesh's triangles as a multiset up to rotation
// (orientation kept), in point ids AND in per-corner attribute bytes.
static void check_strips(Out &o, const Mesh &m, const std::string &lhs) {
  if (m.GetNamedAttribute(GeometryAttribute::POSITION) == nullptr) return;
  GeoSpec g = snap_geo(m, &m);
  std::vector<Tri> all, nondeg;
  for (auto &f : g.faces) {
    all.push_back(canon_tri(f));
    if (f[0] != f[1] && f[0] != f[2] && f[1] != f[2]) nondeg.push_back(canon_tri(f));
  }
  std::sort(all.begin(), all.end()); std::sort(nondeg.begin(), nondeg.end());
  if (all.size() != nondeg.size()) st.strips_skipped_degenerate++;
  if (g.faces.empty()) st.strip_zero++;
  if (g.faces.size() == 1) st.strip_one++;
  std::vector<FaceBytes> all_b, nondeg_b;
  const bool bytes_ok = tri_bytes(g, g.faces, false, &all_b) && tri_bytes(g, g.faces, true, &nondeg_b);
  const uint32_t ridx = 0xFFFFFFFFu;
  // correspondence with Model/Strips.v: the model takes the library's opposite-corner table as an input
  std::string opp_s = "null";
  {
    auto ct = CreateCornerTableFromPositionAttribute(&m);
    if (ct) {
      opp_s.clear();
      bool seam = false, boundary = false, posdeg = false;
      for (uint32_t c = 0; c < 3 * m.num_faces(); c++) {
        CornerIndex ci(c), oc = ct->Opposite(ci);
        if (c) opp_s += ",";
        opp_s += (oc == kInvalidCornerIndex) ? std::string("-1") : U(oc.value());
        if (oc == kInvalidCornerIndex) { boundary = true; continue; }
        // an attribute seam: the two faces use different point ids along the shared edge
        if (m.CornerToPointId(ct->Next(ci)) != m.CornerToPointId(ct->Previous(oc)) ||
            m.CornerToPointId(ct->Previous(ci)) != m.CornerToPointId(ct->Next(oc))) seam = true;
      }
      for (FaceIndex f(0); f < m.num_faces(); ++f) {
        const Mesh::Face &fc = m.face(f);
        if (ct->IsDegenerated(f) && fc[0] != fc[1] && fc[0] != fc[2] && fc[1] != fc[2]) posdeg = true;
      }
      if (m.num_faces() == 0) opp_s = "-";
      if (seam) st.strip_seam++;
      if (!boundary && m.num_faces() > 0) st.strip_closed++;
      if (posdeg) st.strip_posdeg++;
      if (ct->NumNewVertices() > 0) st.strip_nonmanifold++;
    } else st.strip_no_table++;
  }
  auto idx_str = [&](const std::vector<uint32_t> &v) {
    if (v.empty()) return std::string("-");
    std::string s; for (size_t i = 0; i < v.size(); i++) { if (i) s += ","; s += (v[i] == ridx) ? std::string("R") : U(v[i]); } return s; };
  size_t rsize = 0; int nstrips = 0; bool r_ok = false;
  {
    MeshStripifier sp; std::vector<uint32_t> idx;
    bool ok = sp.GenerateTriangleStripsWithPrimitiveRestart(m, ridx, std::back_inserter(idx));
    o.c("strip r " + faces_str(g.faces) + " " + opp_s, ok ? idx_str(idx) : "fail");
    if (!ok) { if (opp_s != "null") o.fail("strips restart: generation failed although a corner table exists: " + lhs); }
    else {
      // a face with two equal point ids is emitted as it is; compare all faces
      if (decode_strips(idx, true, ridx, false) != all) o.fail("strips restart: decoded triangles differ from the mesh faces: " + lhs);
      std::vector<FaceBytes> db;
      if (bytes_ok && (!tri_bytes(g, decode_raw(idx, true, ridx), false, &db) || db != all_b))
        o.fail("strips restart: decoded per-corner attribute bytes differ from the mesh's: " + lhs);
      for (uint32_t v : idx) if (v != ridx && v >= g.np) { o.fail("strips restart: index is not a point id: " + lhs); break; }
      if (sp.num_strips() > 1) st.strip_multi++;
      size_t nr = std::count(idx.begin(), idx.end(), ridx);
      if (!g.faces.empty() && (int)nr + 1 != sp.num_strips()) o.fail("strips restart: num_strips() does not match the restart indices: " + lhs);
      if (g.faces.empty() && !idx.empty()) o.fail("strips restart: output for a mesh without faces: " + lhs);
      rsize = idx.size(); nstrips = sp.num_strips(); r_ok = true;
    }
  }
  {
    MeshStripifier sp; std::vector<uint32_t> idx;
    bool ok = sp.GenerateTriangleStripsWithDegenerateTriangles(m, std::back_inserter(idx));
    o.c("strip d " + faces_str(g.faces) + " " + opp_s, ok ? idx_str(idx) : "fail");
    if (!ok) { if (opp_s != "null") o.fail("strips degenerate: generation failed although a corner table exists: " + lhs); }
    else {
      if (decode_strips(idx, false, ridx, true) != nondeg) o.fail("strips degenerate: decoded triangles differ from the non-degenerate mesh faces: " + lhs);
      std::vector<FaceBytes> db;
      if (bytes_ok && (!tri_bytes(g, decode_raw(idx, false, ridx), true, &db) || db != nondeg_b))
        o.fail("strips degenerate: decoded per-corner attribute bytes differ from the mesh's: " + lhs);
      for (uint32_t v : idx) if (v >= g.np) { o.fail("strips degenerate: index is not a point id: " + lhs); break; }
      if (g.faces.empty() && !idx.empty()) o.fail("strips degenerate: output for a mesh without faces: " + lhs);
      if (r_ok && sp.num_strips() != nstrips) o.fail("strips: the two modes made a different number of strips: " + lhs);
      // length = restart length + one more index per separator + one per parity fix-up
      if (r_ok && nstrips > 0) {
        long fix = (long)idx.size() - (long)rsize - (nstrips - 1);
        if (fix < 0 || fix > nstrips - 1) o.fail("strips degenerate: stream length is not restart length + separators + parity fix-ups: " + lhs);
        else if (fix > 0) st.strip_parity_fix++;
      }
    }
  }
  st.strips++;
}

struct SoupResult { bool ok = false; GeoSpec g; };
static SoupResult case_soup(Out &o, Rng &r, uint32_t nf, const std::vector<InSpec> &ins) {
  std::string lhs = "soup " + U(nf) + " " + in_str(ins);
  TriangleSoupMeshBuilder mb;
  mb.Start((int)nf);
  std::vector<int> ids;
  for (auto &a : ins) ids.push_back(mb.AddAttribute((GeometryAttribute::Type)a.type, (int8_t)a.ncomp, (DataType)a.dtype));
  std::vector<uint32_t> order(nf);
  for (uint32_t i = 0; i < nf; i++) order[i] = i;
  for (uint32_t i = nf; i > 1; i--) std::swap(order[i - 1], order[r.below(i)]);
  for (uint32_t f : order)
    for (size_t k = 0; k < ins.size(); k++) {
      const Bytes &v0 = ins[k].vals[3 * f], &v1 = ins[k].vals[3 * f + 1], &v2 = ins[k].vals[3 * f + 2];
      if (v0 == v1 && v0 == v2 && r.chance(50)) mb.SetPerFaceAttributeValueForFace(ids[k], FaceIndex(f), v0.data());
      else mb.SetAttributeValuesForFace(ids[k], FaceIndex(f), v0.data(), v1.data(), v2.data());
    }
  std::unique_ptr<Mesh> m = mb.Finalize();
  SoupResult res;
  st.soup++;
  if (!m) { o.c(lhs, "null"); o.fail("soup: Finalize returned nullptr: " + lhs); return res; }
  GeoSpec a = snap_geo(*m, m.get());
  o.c(lhs, geo_str(a));
  res.ok = true; res.g = a;
  if (a.np != 3 * nf) st.soup_merged++;
  // the mesh carries exactly the given corner values
  bool fine = a.faces.size() == nf && a.atts.size() == ins.size();
  if (!fine) o.fail("soup: number of faces/attributes differs: " + lhs);
  for (uint32_t f = 0; fine && f < nf; f++)
    for (int c = 0; fine && c < 3; c++)
      for (size_t k = 0; fine && k < ins.size(); k++) {
        uint32_t v;
        if (a.faces[f][c] >= a.np || !midx(a.atts[k], a.faces[f][c], &v) || a.atts[k].vals[v] != ins[k].vals[3 * f + c]) {
          o.fail("soup: face " + U(f) + " corner " + S(c) + " attribute " + U(k) + " does not carry the given value: " + lhs); fine = false;
        }
      }
  if (fine) {
    // the builder's result is fully deduplicated
    GeoSpec start; start.np = 3 * nf;
    for (auto &x : ins) { AttSpec s; s.type = x.type; s.ncomp = x.ncomp; s.dtype = x.dtype; s.ident = true; s.vals = x.vals; start.atts.push_back(s); }
    for (uint32_t f = 0; f < nf; f++) start.faces.push_back(Tri{{3 * f, 3 * f + 1, 3 * f + 2}});
    check_dpi(o, start, a, lhs, "soup");
    bool all_guard = true;
    for (size_t k = 0; k < ins.size(); k++) {
      if (nf > 0) check_dedup_att(o, start.atts[k], a.atts[k], 0, lhs);
      if (!in_guard(a.atts[k])) all_guard = false;
    }
    if (all_guard && nf > 0) {
      std::set<std::string> seen; std::string t;
      for (uint32_t p = 0; p < a.np; p++) { ptuple(a, p, &t); if (!seen.insert(t).second) { o.fail("soup: two points with identical values remain: " + lhs); break; } }
    }
    check_strips(o, *m, lhs);
  }
  return res;
}

static void case_pcb(Out &o, Rng &r, uint32_t np, bool dedup, const std::vector<InSpec> &ins) {
  std::string lhs = "pcb " + U(np) + " " + (dedup ? "1" : "0") + " " + in_str(ins);
  PointCloudBuilder pb;
  pb.Start(np);
  std::vector<int> ids;
  for (auto &a : ins) ids.push_back(pb.AddAttribute((GeometryAttribute::Type)a.type, (int8_t)a.ncomp, (DataType)a.dtype));
  for (size_t k = 0; k < ins.size(); k++) {
    const int sz = stride_of(ins[k].dtype, ins[k].ncomp);
    int how = np == 0 ? 0 : (int)r.below(4);
    if (how == 1) {           // all at once, tight
      Bytes all; for (auto &v : ins[k].vals) all.insert(all.end(), v.begin(), v.end());
      pb.SetAttributeValuesForAllPoints(ids[k], all.data(), r.chance(50) ? 0 : sz);
    } else if (how == 2) {    // all at once, padded stride
      const int pad = sz + 1 + (int)r.below(5);
      Bytes all((size_t)pad * np, 0xEE);
      for (uint32_t i = 0; i < np; i++) memcpy(all.data() + (size_t)pad * i, ins[k].vals[i].data(), sz);
      pb.SetAttributeValuesForAllPoints(ids[k], all.data(), pad);
    } else {                  // point by point in a random order
      std::vector<uint32_t> order(np);
      for (uint32_t i = 0; i < np; i++) order[i] = i;
      for (uint32_t i = np; i > 1; i--) std::swap(order[i - 1], order[r.below(i)]);
      for (uint32_t i : order) pb.SetAttributeValueForPoint(ids[k], PointIndex(i), ins[k].vals[i].data());
    }
  }
  std::unique_ptr<PointCloud> pc = pb.Finalize(dedup);
  st.pcb++;
  if (!pc) { o.c(lhs, "null"); o.fail("pcb: Finalize returned nullptr: " + lhs); return; }
  GeoSpec a = snap_geo(*pc, nullptr);
  o.c(lhs, geo_str(a));
  if (a.np != np) st.pcb_merged++;
  if (a.atts.size() != ins.size()) { o.fail("pcb: number of attributes differs: " + lhs); return; }
  GeoSpec start; start.np = np;
  for (auto &x : ins) { AttSpec s; s.type = x.type; s.ncomp = x.ncomp; s.dtype = x.dtype; s.ident = true; s.vals = x.vals; start.atts.push_back(s); }
  if (!dedup) {
    if (a.np != np) { o.fail("pcb: number of points changed without deduplication: " + lhs); return; }
    for (uint32_t p = 0; p < np; p++) {
      std::string tb, ta;
      ptuple(start, p, &tb);
      if (!ptuple(a, p, &ta) || ta != tb) { o.fail("pcb: point " + U(p) + " does not carry the given values: " + lhs); return; }
    }
  } else {
    check_dpi(o, start, a, lhs, "pcb");
    bool all_guard = true;
    for (size_t k = 0; k < ins.size(); k++) {
      if (np > 0) check_dedup_att(o, start.atts[k], a.atts[k], 0, lhs);
      if (!in_guard(a.atts[k])) all_guard = false;
    }
    if (all_guard && np > 0) {
      std::set<std::string> seen; std::string t;
      for (uint32_t p = 0; p < a.np; p++) { ptuple(a, p, &t); if (!seen.insert(t).second) { o.fail("pcb: two points with identical values remain: " + lhs); break; } }
    }
  }
}

// ------------------------------------------------------------------------------------------ generators
static void put_le(Bytes &b, uint64_t v, int len) { for (int i = 0; i < len; i++) b.push_back((uint8_t)(v >> (8 * i))); }
static uint64_t gen_component(Rng &r, int dtype) {
  static const uint32_t f32[] = {0x00000000u, 0x80000000u, 0x7fc00000u, 0x7fc00001u, 0x3f800000u, 0xbf800000u, 0x7f800000u, 0x00000001u};
  static const uint64_t f64[] = {0ull, 0x8000000000000000ull, 0x7ff8000000000000ull, 0x7ff8000000000001ull, 0x3ff0000000000000ull};
  switch (dtype) {
    case 9: return r.chance(75) ? f32[r.below(8)] : r.biased(32);
    case 10: return r.chance(75) ? f64[r.below(5)] : r.biased(64);
    case 11: return r.chance(92) ? r.below(2) : r.below(256);
    default: return r.biased(DataTypeLength((DataType)dtype) * 8);
  }
}
static Bytes gen_value(Rng &r, int dtype, int ncomp) {
  Bytes b; const int len = DataTypeLength((DataType)dtype);
  for (int c = 0; c < ncomp; c++) put_le(b, gen_component(r, dtype), len);
  return b;
}
// a small pool of values, some of them differing from another one in a single component / single byte
static std::vector<Bytes> gen_pool(Rng &r, int dtype, int ncomp, int k) {
  std::vector<Bytes> pool; const int len = DataTypeLength((DataType)dtype);
  for (int i = 0; i < k; i++) {
    if (i > 0 && r.chance(45)) {
      Bytes v = pool[r.below(i)];
      int c = (int)r.below(ncomp);
      if (r.chance(50)) { Bytes nc; put_le(nc, gen_component(r, dtype), len); memcpy(v.data() + c * len, nc.data(), len); }
      else v[c * len + r.below(len)] ^= (uint8_t)(1u << r.below(8));
      pool.push_back(v);
    } else pool.push_back(gen_value(r, dtype, ncomp));
  }
  return pool;
}
static void gen_format(Rng &r, int *ncomp, int *dtype) {
  int x = (int)r.below(100);
  *ncomp = x < 60 ? 1 + (int)r.below(4) : x < 80 ? 3 : x < 90 ? 5 : 1 + (int)r.below(5);
  static const int sup[] = {1, 2, 3, 4, 5, 6, 9, 9, 9, 11};
  int y = (int)r.below(100);
  *dtype = y < 78 ? sup[r.below(10)] : y < 90 ? 1 + (int)r.below(11) : (y < 94 ? 7 : y < 97 ? 8 : 10);
}
static std::vector<Bytes> gen_values(Rng &r, int dtype, int ncomp, size_t n) {
  std::vector<Bytes> v;
  if (r.chance(15)) { for (size_t i = 0; i < n; i++) v.push_back(gen_value(r, dtype, ncomp)); return v; }  // (mostly) all distinct
  auto pool = gen_pool(r, dtype, ncomp, 1 + (int)r.below(6));
  for (size_t i = 0; i < n; i++) v.push_back(pool[r.below(pool.size())]);
  return v;
}
// an attribute valid for np points
static AttSpec gen_att(Rng &r, uint32_t np, int force_ident /* -1 free, 0 explicit, 1 identity */) {
  AttSpec a;
  gen_format(r, &a.ncomp, &a.dtype);
  a.ident = force_ident < 0 ? r.chance(40) : force_ident == 1;
  size_t nvals;
  if (a.ident) nvals = np + (r.chance(25) ? r.below(6) : 0);
  else {
    switch (r.below(4)) {
      case 0: nvals = 1 + r.below(4); break;
      case 1: nvals = 1 + r.below(np + 4); break;
      case 2: nvals = np + r.below(4); break;
      default: nvals = 1 + r.below(np / 2 + 2); break;
    }
  }
  if (nvals == 0) nvals = 1;
  a.vals = gen_values(r, a.dtype, a.ncomp, nvals);
  if (!a.ident) {
    size_t ml = np + (r.chance(10) ? r.below(4) : 0);
    uint32_t lim = (uint32_t)(r.chance(30) ? 1 + r.below(nvals) : nvals);   // sometimes only a prefix of the values is used
    bool seq = r.chance(15);                                                // sometimes the explicit map is the identity
    for (size_t i = 0; i < ml; i++) a.map.push_back(seq ? (uint32_t)(i % nvals) : (uint32_t)r.below(lim));
  }
  return a;
}
static uint32_t gen_np(Rng &r) {
  int x = (int)r.below(100);
  return x < 3 ? 0 : x < 15 ? 1 + (uint32_t)r.below(4) : x < 94 ? 3 + (uint32_t)r.below(38) : 40 + (uint32_t)r.below(210);
}
static void assign_types(Rng &r, GeoSpec &g, bool with_pos) {
  static const int other[] = {GeometryAttribute::NORMAL, GeometryAttribute::COLOR, GeometryAttribute::TEX_COORD, GeometryAttribute::GENERIC};
  for (auto &a : g.atts) a.type = other[r.below(4)];
  if (with_pos && !g.atts.empty()) {
    size_t p = r.chance(60) ? 0 : r.below(g.atts.size());
    g.atts[p].type = GeometryAttribute::POSITION;
    if (r.chance(15)) g.atts[r.below(g.atts.size())].type = GeometryAttribute::POSITION;   // a second POSITION attribute
  }
}
static void gen_faces(Rng &r, GeoSpec &g, uint32_t nf) {
  if (g.np == 0) return;
  const int pos = pos_index(g);
  uint32_t lim = r.chance(40) ? std::max<uint32_t>(1, g.np * 6 / 10) : g.np;   // leaves isolated points
  auto pt = [&]() { return (uint32_t)r.below(lim); };
  for (uint32_t i = 0; i < nf; i++) {
    int k = (int)r.below(100);
    Tri f;
    if (k < 22 && !g.faces.empty()) {
      Tri e = g.faces[r.below(g.faces.size())];
      switch (r.below(4)) {
        case 0: f = e; break;
        case 1: f = Tri{{e[1], e[2], e[0]}}; break;
        case 2: f = Tri{{e[2], e[0], e[1]}}; break;
        default: f = Tri{{e[0], e[2], e[1]}}; break;   // mirrored: NOT a duplicate
      }
    } else if (k < 30) { uint32_t a = pt(), b = pt(); f = r.chance(50) ? Tri{{a, a, b}} : r.chance(50) ? Tri{{a, b, a}} : Tri{{b, a, a}}; }
    else if (k < 33) { uint32_t a = pt(); f = Tri{{a, a, a}}; }
    else if (k < 43 && pos >= 0) {
      // two different points sharing the POSITION value index, when there are any
      uint32_t a = pt(), b = a, ia, ib;
      if (midx(g.atts[pos], a, &ia))
        for (uint32_t t = 0; t < g.np; t++) { uint32_t q = (a + 1 + t) % g.np; if (q != a && midx(g.atts[pos], q, &ib) && ib == ia) { b = q; break; } }
      uint32_t c = pt();
      f = r.chance(50) ? Tri{{a, b, c}} : Tri{{c, a, b}};
    } else {
      uint32_t a = pt(), b = pt(), c = pt();
      if (lim >= 3) { while (b == a) b = pt(); while (c == a || c == b) c = pt(); }
      f = Tri{{a, b, c}};
    }
    g.faces.push_back(f);
  }
}
// a random well-formed geometry
static GeoSpec gen_geo(Rng &r, bool faces, bool with_pos, bool allow_no_atts) {
  GeoSpec g;
  g.np = gen_np(r);
  size_t na = (allow_no_atts && r.chance(4)) ? 0 : 1 + r.below(5);
  const bool cloned = r.chance(50);   // all attributes explicit and later points copy an earlier point: duplicate points
  for (size_t i = 0; i < na; i++) g.atts.push_back(gen_att(r, g.np, cloned ? 0 : -1));
  if (cloned && g.np > 1) {
    uint32_t first = 1 + (uint32_t)r.below(g.np - 1);
    for (uint32_t p = first; p < g.np; p++) if (r.chance(70)) { uint32_t q = (uint32_t)r.below(p); for (auto &a : g.atts) a.map[p] = a.map[q]; }
  }
  assign_types(r, g, with_pos);
  if (faces) {
    int x = (int)r.below(100);
    uint32_t nf = x < 5 ? 0 : x < 85 ? 1 + (uint32_t)r.below(30) : x < 97 ? 30 + (uint32_t)r.below(40) : 70 + (uint32_t)r.below(50);
    gen_faces(r, g, nf);
  }
  return g;
}
static std::vector<InSpec> gen_inputs(Rng &r, size_t n, bool pos_first) {
  std::vector<InSpec> ins;
  size_t na = 1 + r.below(r.chance(70) ? 3 : 5);
  for (size_t i = 0; i < na; i++) {
    InSpec a; gen_format(r, &a.ncomp, &a.dtype);
    a.type = (i == 0 && pos_first) ? GeometryAttribute::POSITION : (int)GeometryAttribute::NORMAL + (int)r.below(4);
    a.vals = gen_values(r, a.dtype, a.ncomp, n);
    ins.push_back(a);
  }
  return ins;
}
// corner values of a soup: shared vertices (so the result has real connectivity), per-face attributes
static uint32_t gen_soup(Rng &r, std::vector<InSpec> &ins) {
  int shape = (int)r.below(10);
  std::vector<Tri> tris;   // vertex ids of an abstract indexed mesh
  uint32_t nv = 0;
  if (shape < 3) {         // grid
    uint32_t w = 1 + (uint32_t)r.below(5), h = 1 + (uint32_t)r.below(5);
    nv = (w + 1) * (h + 1);
    for (uint32_t y = 0; y < h; y++) for (uint32_t x = 0; x < w; x++) {
      uint32_t a = y * (w + 1) + x, b = a + 1, c = a + w + 1, d = c + 1;
      if (r.chance(85)) { tris.push_back(Tri{{a, b, c}}); tris.push_back(Tri{{b, d, c}}); }
      else { tris.push_back(Tri{{a, b, d}}); tris.push_back(Tri{{a, d, c}}); }
    }
  } else if (shape < 5) {  // fan (closed or open)
    uint32_t n = 3 + (uint32_t)r.below(12); nv = n + 1;
    bool closed = r.chance(50);
    for (uint32_t i = 0; i + 1 < n; i++) tris.push_back(Tri{{0, 1 + i, 2 + i}});
    if (closed) tris.push_back(Tri{{0, n, 1}});
  } else if (shape < 6) {  // one long strip
    uint32_t n = 1 + (uint32_t)r.below(30); nv = n + 2;
    for (uint32_t i = 0; i < n; i++) tris.push_back((i & 1) ? Tri{{i + 1, i, i + 2}} : Tri{{i, i + 1, i + 2}});
  } else {                 // random indexed mesh over few vertices (non-manifold, duplicates, degenerate faces)
    nv = 1 + (uint32_t)r.below(12);
    int x = (int)r.below(100);
    uint32_t nf = x < 4 ? 0 : x < 90 ? 1 + (uint32_t)r.below(25) : 25 + (uint32_t)r.below(55);
    for (uint32_t i = 0; i < nf; i++) tris.push_back(Tri{{(uint32_t)r.below(nv), (uint32_t)r.below(nv), (uint32_t)r.below(nv)}});
  }
  // drop / shuffle / flip some faces
  if (r.chance(30) && tris.size() > 1) tris.erase(tris.begin() + r.below(tris.size()));
  if (r.chance(30)) for (size_t i = tris.size(); i > 1; i--) std::swap(tris[i - 1], tris[r.below(i)]);
  if (r.chance(15) && !tris.empty()) { Tri &t = tris[r.below(tris.size())]; std::swap(t[1], t[2]); }
  if (r.chance(15) && !tris.empty()) tris.push_back(tris[r.below(tris.size())]);
  const uint32_t nf = (uint32_t)tris.size();
  size_t na = 1 + r.below(r.chance(75) ? 3 : 5);
  for (size_t k = 0; k < na; k++) {
    InSpec a; gen_format(r, &a.ncomp, &a.dtype);
    a.type = k == 0 ? (r.chance(92) ? (int)GeometryAttribute::POSITION : (int)GeometryAttribute::GENERIC) : (int)GeometryAttribute::NORMAL + (int)r.below(4);
    int mode = k == 0 ? (r.chance(85) ? 0 : 3) : (int)r.below(4);
    // 0: one value per vertex (vertex values distinct-ish), 1: per face, 2: per corner from a pool, 3: per vertex from a pool
    std::vector<Bytes> pv;
    if (mode == 0) for (uint32_t v = 0; v < nv; v++) {
      Bytes b = gen_value(r, a.dtype, a.ncomp);
      if (r.chance(90)) { if (a.dtype == 9) { float fv = (float)v; memcpy(b.data(), &fv, 4); } else if (a.dtype != 11) b[0] = (uint8_t)v; }
      pv.push_back(b);
    }
    else if (mode == 3) pv = gen_values(r, a.dtype, a.ncomp, nv);
    std::vector<Bytes> pf = gen_values(r, a.dtype, a.ncomp, nf);
    std::vector<Bytes> pc = gen_values(r, a.dtype, a.ncomp, 3 * (size_t)nf);
    for (uint32_t f = 0; f < nf; f++) for (int c = 0; c < 3; c++)
      a.vals.push_back(mode == 1 ? pf[f] : mode == 2 ? pc[3 * f + c] : pv[tris[f][c]]);
    ins.push_back(a);
  }
  return nf;
}

// ---- meshes for the strip clause: an abstract indexed mesh over POSITION value ids, then point ids with seams
static void strip_shape(Rng &r, int shape, uint32_t base, std::vector<Tri> &tris, uint32_t *nv_out) {
  uint32_t nv = 0;
  auto add = [&](uint32_t a, uint32_t b, uint32_t c) { tris.push_back(Tri{{base + a, base + b, base + c}}); };
  switch (shape) {
    case 0: {  // grid with boundary
      uint32_t w = 1 + (uint32_t)r.below(6), h = 1 + (uint32_t)r.below(5);
      nv = (w + 1) * (h + 1);
      for (uint32_t y = 0; y < h; y++) for (uint32_t x = 0; x < w; x++) {
        uint32_t a = y * (w + 1) + x, b = a + 1, c = a + w + 1, d = c + 1;
        if (r.chance(80)) { add(a, b, c); add(b, d, c); } else { add(a, b, d); add(a, d, c); }
      }
      break; }
    case 1: {  // fan, open or closed
      uint32_t n = 3 + (uint32_t)r.below(12); nv = n + 1;
      for (uint32_t i = 0; i + 1 < n; i++) add(0, 1 + i, 2 + i);
      if (r.chance(50)) add(0, n, 1);
      break; }
    case 2: {  // one long strip, every length parity
      uint32_t n = 1 + (uint32_t)r.below(40); nv = n + 2;
      for (uint32_t i = 0; i < n; i++) { if (i & 1) add(i + 1, i, i + 2); else add(i, i + 1, i + 2); }
      break; }
    case 3: {  // closed band (cylinder wall): a strip that runs into its own start
      uint32_t n = 2 + (uint32_t)r.below(8); nv = 2 * n;
      for (uint32_t i = 0; i < n; i++) { uint32_t j = (i + 1) % n; add(i, n + i, j); add(j, n + i, n + j); }
      break; }
    case 4: {  // torus: closed manifold, no boundary at all
      uint32_t w = 3 + (uint32_t)r.below(4), h = 3 + (uint32_t)r.below(3); nv = w * h;
      for (uint32_t y = 0; y < h; y++) for (uint32_t x = 0; x < w; x++) {
        uint32_t a = y * w + x, b = y * w + (x + 1) % w, c = ((y + 1) % h) * w + x, d = ((y + 1) % h) * w + (x + 1) % w;
        add(a, b, c); add(b, d, c);
      }
      break; }
    case 5: {  // tetrahedron / octahedron
      if (r.chance(50)) { nv = 4; add(0, 1, 2); add(0, 3, 1); add(1, 3, 2); add(2, 3, 0); }
      else { nv = 6; for (uint32_t i = 0; i < 4; i++) { uint32_t j = (i + 1) % 4; add(4, i, j); add(5, j, i); } }
      break; }
    case 6: {  // Moebius band: not orientable, the corner table has to cut it somewhere
      uint32_t n = 3 + (uint32_t)r.below(6); nv = 2 * n;
      for (uint32_t i = 0; i + 1 < n; i++) { add(i, n + i, i + 1); add(i + 1, n + i, n + i + 1); }
      add(n - 1, 2 * n - 1, n); add(n, 2 * n - 1, 0);
      break; }
    case 7: {  // random soup over few vertices: non-manifold edges and vertices, duplicates, degenerate faces
      nv = 1 + (uint32_t)r.below(10);
      uint32_t nf = 1 + (uint32_t)r.below(r.chance(85) ? 20 : 60);
      for (uint32_t i = 0; i < nf; i++) add((uint32_t)r.below(nv), (uint32_t)r.below(nv), (uint32_t)r.below(nv));
      break; }
    case 8: {  // k faces on one edge, bow-tie
      if (r.chance(50)) { uint32_t k = 3 + (uint32_t)r.below(4); nv = 2 + k; for (uint32_t i = 0; i < k; i++) { if (r.chance(50)) add(0, 1, 2 + i); else add(1, 0, 2 + i); } }
      else { nv = 5; add(0, 1, 2); add(0, 3, 4); if (r.chance(50)) { nv = 7; add(0, 5, 6); } }
      break; }
    default: {  // tiny
      switch (r.below(4)) {
        case 0: nv = 3; break;                                   // no face
        case 1: nv = 3; add(0, 1, 2); break;                     // one face
        case 2: nv = 4; add(0, 1, 2); add(2, 1, 3); break;       // two faces sharing an edge
        default: nv = 3; add(0, 1, 2); add(0, 2, 1); break;      // a face and its mirror image
      }
      break; }
  }
  *nv_out = nv;
}
static GeoSpec gen_strip_mesh(Rng &r, std::string *what) {
  std::vector<Tri> tris; uint32_t nv = 0;
  int ncomp = r.chance(70) ? 1 : 2 + (int)r.below(2);
  *what = "";
  for (int k = 0; k < ncomp; k++) {
    int shape = (int)r.below(10); uint32_t n1 = 0;
    strip_shape(r, shape, nv, tris, &n1);
    nv += n1; *what += (k ? "+" : "") + S(shape);
  }
  if (ncomp > 1) st.strip_components++;
  // drop / shuffle / flip / duplicate some faces; add degenerate ones
  if (r.chance(30) && tris.size() > 1) { size_t nd = 1 + r.below(std::max<size_t>(1, tris.size() / 4)); for (size_t i = 0; i < nd && tris.size() > 1; i++) tris.erase(tris.begin() + r.below(tris.size())); }
  if (r.chance(40)) for (size_t i = tris.size(); i > 1; i--) std::swap(tris[i - 1], tris[r.below(i)]);
  if (r.chance(15) && !tris.empty()) { Tri &t = tris[r.below(tris.size())]; std::swap(t[1], t[2]); }
  if (r.chance(10) && !tris.empty()) tris.insert(tris.begin() + r.below(tris.size() + 1), tris[r.below(tris.size())]);
  if (r.chance(15) && nv > 1) { uint32_t a = (uint32_t)r.below(nv), b = (uint32_t)r.below(nv); tris.insert(tris.begin() + r.below(tris.size() + 1), r.chance(50) ? Tri{{a, a, b}} : Tri{{a, b, a}}); }
  if (nv == 0) nv = 1;
  // point ids: point (v, 0) for every vertex; faces of a random region use (v, 1) for the vertices of a random set
  std::vector<char> in_b(tris.size(), 0), split(nv, 0);
  const bool seams = r.chance(55);
  if (seams) {
    int pf = 10 + (int)r.below(60), pv = 20 + (int)r.below(80);
    if (r.chance(50)) { size_t cut = r.below(tris.size() + 1); for (size_t f = cut; f < tris.size(); f++) in_b[f] = 1; }   // a contiguous run of faces
    else for (size_t f = 0; f < tris.size(); f++) in_b[f] = r.chance(pf);
    for (uint32_t v = 0; v < nv; v++) split[v] = r.chance(pv);
  }
  std::map<std::pair<uint32_t, int>, uint32_t> pid;
  std::vector<uint32_t> pos_of;
  auto point = [&](uint32_t v, int variant) {
    auto k = std::make_pair(v, variant);
    auto it = pid.find(k);
    if (it != pid.end()) return it->second;
    uint32_t id = (uint32_t)pos_of.size(); pid[k] = id; pos_of.push_back(v); return id;
  };
  const bool vertex_order = r.chance(50);   // point ids in vertex order first (identity-like) or in order of use
  if (vertex_order) for (uint32_t v = 0; v < nv; v++) point(v, 0);
  GeoSpec g;
  for (size_t f = 0; f < tris.size(); f++) {
    Tri t;
    for (int c = 0; c < 3; c++) t[c] = point(tris[f][c], (in_b[f] && split[tris[f][c]]) ? 1 : 0);
    // a face whose point ids differ but whose positions coincide (position-degenerate)
    if (r.chance(3)) { uint32_t v = tris[f][0]; t[1] = point(v, 2); }
    g.faces.push_back(t);
  }
  if (r.chance(10)) { point(0, 7); }   // an isolated point
  g.np = (uint32_t)pos_of.size();
  if (g.np == 0) { g.np = 1; pos_of.push_back(0); }
  AttSpec pa; pa.type = GeometryAttribute::POSITION; pa.ncomp = 1; pa.dtype = 4 /* UINT16 */;
  for (uint32_t v = 0; v < nv; v++) pa.vals.push_back(Bytes{(uint8_t)(v & 255), (uint8_t)(v >> 8)});
  bool ident_possible = (g.np == nv);
  for (uint32_t q = 0; ident_possible && q < g.np; q++) if (pos_of[q] != q) ident_possible = false;
  if (ident_possible && r.chance(60)) pa.ident = true; else { pa.ident = false; pa.map = pos_of; }
  AttSpec ta; ta.type = GeometryAttribute::TEX_COORD; ta.ncomp = 1; ta.dtype = 4; ta.ident = true;   // one value per point: what a seam separates
  for (uint32_t q = 0; q < g.np; q++) ta.vals.push_back(Bytes{(uint8_t)(q & 255), (uint8_t)((q >> 8) | 0x80)});
  if (r.chance(50)) { g.atts.push_back(pa); g.atts.push_back(ta); } else { g.atts.push_back(ta); g.atts.push_back(pa); }
  return g;
}
static void case_strip_mesh(Out &o, const GeoSpec &g, const std::string &what) {
  auto m = build_mesh(g);
  check_strips(o, *m, "stripmesh[" + what + "] " + geo_str(g));
  st.strip_designed++;
}

int main(int argc, char **argv) {
  if (argc < 4) { fprintf(stderr, "usage: h_C14 quick|thorough seed out\n"); return 2; }
  const bool thorough = !strcmp(argv[1], "thorough");
  Rng r(strtoull(argv[2], 0, 10));
  Out o(argv[3]);
  o.note("C14 tier=" + std::string(argv[1]) + " seed=" + argv[2]);
  const int K = thorough ? 20 : 1;

  // ---- dv: single attributes
  for (int i = 0; i < 700 * K; i++) {
    uint32_t n = gen_np(r);
    AttSpec a = gen_att(r, n, -1);
    if (i % 97 == 0) { a.ident = true; a.vals.clear(); a.map.clear(); }   // no values at all: "unexpected error" -1
    case_dv(o, a);
  }
  // the format matrix: every data type x 1..5 components, with and without duplicates, both mappings
  for (int dt = 1; dt <= 11; dt++) for (int nc = 1; nc <= 5; nc++) for (int v = 0; v < 4; v++) {
    AttSpec a; a.ncomp = nc; a.dtype = dt; a.ident = v & 1;
    size_t n = 2 + r.below(8);
    if (v & 2) { auto pool = gen_pool(r, dt, nc, 1 + (int)r.below(3)); for (size_t i = 0; i < n; i++) a.vals.push_back(pool[r.below(pool.size())]); }
    else for (size_t i = 0; i < n; i++) { Bytes b = gen_value(r, dt, nc); b[0] = (uint8_t)i; if (dt == 11) b[0] = (uint8_t)i; a.vals.push_back(b); }
    if (!a.ident) { size_t ml = 1 + r.below(12); for (size_t i = 0; i < ml; i++) a.map.push_back((uint32_t)r.below(n)); }
    case_dv(o, a);
  }
  // ---- dav, dav -> dpi
  for (int i = 0; i < 350 * K; i++) {
    GeoSpec g = gen_geo(r, r.chance(50), r.chance(70), true);
    GeoSpec a = case_dav(o, g);
    if (r.chance(60)) case_dpi(o, a);
  }
  // ---- dpi on arbitrary geometries
  for (int i = 0; i < 350 * K; i++) case_dpi(o, gen_geo(r, r.chance(60), r.chance(70), true));
  // ---- cl: all 16 option subsets on each mesh
  for (int i = 0; i < 60 * K; i++) {
    GeoSpec g = gen_geo(r, true, !r.chance(12), false);
    if (r.chance(30)) { auto m = build_mesh(g); m->DeduplicateAttributeValues(); m->DeduplicatePointIds(); g = snap_geo(*m, m.get()); }
    for (int mask = 0; mask < 16; mask++) case_cl(o, g, mask);
  }
  // ---- soup, soup -> cl
  for (int i = 0; i < 350 * K; i++) {
    std::vector<InSpec> ins;
    uint32_t nf;
    if (r.chance(20)) { int x = (int)r.below(100); nf = x < 6 ? 0 : 1 + (uint32_t)r.below(x < 92 ? 14 : 70); ins = gen_inputs(r, 3 * (size_t)nf, r.chance(80)); }
    else nf = gen_soup(r, ins);
    SoupResult s = case_soup(o, r, nf, ins);
    if (s.ok && i % 5 == 0) {
      if (i % 20 == 0) for (int mask = 0; mask < 16; mask++) case_cl(o, s.g, mask);
      else { case_cl(o, s.g, 14); case_cl(o, s.g, (int)r.below(16)); }
    }
  }
  // ---- strip clause on designed meshes (boundaries, closed surfaces, closed bands, Moebius, non-manifold, seams,
  //      degenerate faces, several components, 0/1 faces) and on arbitrary geometries with a POSITION attribute
  for (int i = 0; i < 500 * K; i++) {
    std::string what; GeoSpec g = gen_strip_mesh(r, &what);
    case_strip_mesh(o, g, what);
  }
  for (int i = 0; i < 150 * K; i++) {
    GeoSpec g = gen_geo(r, true, true, false);
    if (pos_index(g) < 0) continue;
    // the stripifier needs every point to have a POSITION value: keep the well-formed ones
    bool wf = true;
    for (auto &f : g.faces) for (int c = 0; c < 3; c++) { uint32_t v; if (f[c] >= g.np || !midx(g.atts[pos_index(g)], f[c], &v)) wf = false; }
    if (wf) case_strip_mesh(o, g, "geo");
  }
  // ---- pcb
  for (int i = 0; i < 350 * K; i++) {
    uint32_t np = gen_np(r);
    case_pcb(o, r, np, r.chance(65), gen_inputs(r, np, r.chance(70)));
  }
  o.note("cases dv=" + S(st.dv) + " dav=" + S(st.dav) + " dpi=" + S(st.dpi) + " cl=" + S(st.cl) + " soup=" + S(st.soup) + " pcb=" + S(st.pcb));
  o.note("dv: values removed in " + S(st.dv_changed) + ", returned -1 in " + S(st.dv_minus1) + "; dav changed the geometry in " + S(st.dav_changed) +
         "; dpi merged points in " + S(st.dpi_merged));
  o.note("cl: failed (no POSITION) " + S(st.cl_fail) + ", faces removed in " + S(st.cl_faces_removed) + ", points removed in " + S(st.cl_points_removed) +
         ", values removed in " + S(st.cl_values_removed) +
         ", rotated copies of point-degenerate faces kept by remove_duplicate_faces in " + S(st.cl_dup_degenerate_kept));
  o.note("soup merged points in " + S(st.soup_merged) + "; pcb merged points in " + S(st.pcb_merged));
  o.note("known classes seen: more-than-4-components " + S(st.known_d14_seen) + " (reported " + S(st.known_d14) + "), unsupported data type " +
         S(st.known_unsup_seen) + " (reported " + S(st.known_unsup) + ")");
  o.note("strips checked=" + S(st.strips) + " (designed/geo meshes: " + S(st.strip_designed) + ", more than one strip: " + S(st.strip_multi) + ", meshes with point-degenerate faces: " + S(st.strips_skipped_degenerate) +
         ", with position-degenerate faces: " + S(st.strip_posdeg) + ", with attribute seams: " + S(st.strip_seam) + ", without any boundary: " + S(st.strip_closed) +
         ", non-manifold (vertices split by the corner table): " + S(st.strip_nonmanifold) + ", several components: " + S(st.strip_components) +
         ", 0 faces: " + S(st.strip_zero) + ", 1 face: " + S(st.strip_one) + ", parity fix-up used: " + S(st.strip_parity_fix) + ", no corner table: " + S(st.strip_no_table) + ")");
  fprintf(stderr, "h_C14: %ld cases, %ld direct failures\n", o.cases, o.fails);
  return 0;
}
