// EB correspondence + search harness: the Edgebreaker connectivity decoder state machine
// (MeshEdgebreakerDecoderImpl<TD>::DecodeConnectivity) of /repo against coq/Model/Edgebreaker.v.
//
// The REAL decoder template is instantiated here (the .cc is included) with two traversal decoders of our own:
//   RecordingTD : the real MeshEdgebreakerTraversalDecoder, recording every symbol / start-face bit it returns
//                 (valid streams produced by the real encoder from meshes of many shapes);
//   ScriptedTD  : returns a scripted symbol / start-face-bit sequence (hostile scripts).
// Case kinds (one line each, "<lhs> | <impl result>"):
//   core <maxv> <nf> <rm> <syms> <events> <bits>     DecodeConnectivity(int num_symbols) called on a freshly Reset table
//   full <nev> <nf> <nsplit> <syms> <events> <bits>  DecodeConnectivity() parsing a crafted 2.2 connectivity header
// result:  rej | acc n=<returned> nv=<table vertices> c2v=.. opp=.. vc=.. hole=.. init=..
// Every scripted case runs in a forked child with an alarm() watchdog, so a crash (ASan/UBSan abort, SIGSEGV) or a
// hang of the real decoder becomes a '!' line carrying the exact script.
#include "common.h"
#include <algorithm>
#include <array>
#include <atomic>
#include <bitset>
#include <cmath>
#include <deque>
#include <fstream>
#include <functional>
#include <iostream>
#include <iterator>
#include <limits>
#include <list>
#include <map>
#include <memory>
#include <mutex>
#include <numeric>
#include <queue>
#include <set>
#include <sstream>
#include <stack>
#include <thread>
#include <tuple>
#include <type_traits>
#include <unordered_map>
#include <unordered_set>
#include <utility>
#include <signal.h>
#include <sys/wait.h>
#include <unistd.h>
#include "draco/compression/encode.h"
#include "draco/compression/expert_encode.h"
#include "draco/compression/decode.h"
#include "draco/mesh/mesh.h"
#include "draco/mesh/triangle_soup_mesh_builder.h"
#include "draco/core/varint_encoding.h"
#define private public
#define protected public
#include "draco/compression/mesh/mesh_edgebreaker_decoder.h"
#include "draco/compression/mesh/mesh_edgebreaker_decoder_impl.cc"
#undef private
#undef protected
using namespace draco;

struct Ev { uint32_t src, spl, edge; };
struct Script {
  bool full = false;
  int64_t a = 0;      // core: maxv        full: nev
  int64_t nf = 0;
  int64_t b = 0;      // core: rm (0/1)    full: nsplit
  std::vector<uint32_t> syms;
  std::vector<Ev> evs;
  std::vector<bool> bits;
  int natt = 0;            // kind fulla: num_attribute_data (1..3), attribute seam bits = hostile pseudo-random stream
  uint64_t seam_seed = 0;  //   derived from this seed with probability seam_pct
  int seam_pct = 50;
};

template <typename T, typename F>
static std::string join(const std::vector<T> &v, F f) {
  if (v.empty()) return "-";
  std::string s;
  for (size_t i = 0; i < v.size(); i++) { if (i) s += ","; s += f(v[i]); }
  return s;
}
static std::string lhs_of(const Script &s) {
  std::string t = s.natt ? "fulla " : s.full ? "full " : "core ";
  t += S(s.a) + " " + S(s.nf) + " " + S(s.b) + " ";
  t += join(s.syms, [](uint32_t x) { return U(x); }) + " ";
  t += join(s.evs, [](const Ev &e) { return U(e.src) + ":" + U(e.spl) + ":" + U(e.edge); }) + " ";
  std::string bs; for (bool x : s.bits) bs += x ? '1' : '0';
  t += bs.empty() ? "-" : bs;
  return t;
}

// ---------------------------------------------------------------- traversal decoders
struct ScriptedTD {
  std::vector<uint32_t> syms; size_t si = 0;
  std::vector<bool> bits; size_t bi = 0;
  DecoderBuffer buffer_;
  void Init(MeshEdgebreakerDecoderImplInterface *d) {
    buffer_.Init(d->GetDecoder()->buffer()->data_head(), d->GetDecoder()->buffer()->remaining_size(),
                 d->GetDecoder()->buffer()->bitstream_version());
  }
  void SetNumEncodedVertices(int) {}
  void SetNumAttributeData(int) {}
  bool Start(DecoderBuffer *out) { *out = buffer_; return true; }
  bool DecodeStartFaceConfiguration() { bool r = bi < bits.size() ? (bool)bits[bi] : false; bi++; return r; }
  uint32_t DecodeSymbol() { uint32_t r = si < syms.size() ? syms[si] : 0xdeadu; si++; return r; }
  void NewActiveCornerReached(CornerIndex) {}
  void MergeVertices(VertexIndex, VertexIndex) {}
  Rng seam_rng{0}; int seam_pct = 0; long seams_asked = 0;
  bool DecodeAttributeSeam(int) { seams_asked++; return seam_rng.chance(seam_pct); }
  bool done_called = false;
  void Done() { done_called = true; }
};

struct RecordingTD;
typedef MeshEdgebreakerDecoderImpl<RecordingTD> RecImpl;
struct RecordingTD : public MeshEdgebreakerTraversalDecoder {
  std::vector<uint32_t> syms; std::vector<bool> bits; std::vector<Ev> evs;
  MeshEdgebreakerDecoderImplInterface *impl = nullptr;
  void Init(MeshEdgebreakerDecoderImplInterface *d) { impl = d; MeshEdgebreakerTraversalDecoder::Init(d); }
  bool Start(DecoderBuffer *out);   // snapshots topology_split_data_ (defined below, needs RecImpl complete)
  uint32_t DecodeSymbol() { uint32_t s = MeshEdgebreakerTraversalDecoder::DecodeSymbol(); syms.push_back(s); return s; }
  bool DecodeStartFaceConfiguration() {
    bool b = MeshEdgebreakerTraversalDecoder::DecodeStartFaceConfiguration(); bits.push_back(b); return b;
  }
};
bool RecordingTD::Start(DecoderBuffer *out) {
  RecImpl *ri = static_cast<RecImpl *>(impl);
  evs.clear();
  for (const TopologySplitEventData &e : ri->topology_split_data_) evs.push_back({e.source_symbol_id, e.split_symbol_id, e.source_edge});
  return MeshEdgebreakerTraversalDecoder::Start(out);
}
typedef MeshEdgebreakerDecoderImpl<ScriptedTD> ScrImpl;

// ---------------------------------------------------------------- result text + direct checks of the property
template <class Impl>
static std::string table_text(const Impl &impl, int ret, std::string *violation, int num_symbols, bool *edge_mismatch_at_start_face) {
  const CornerTable *ct = impl.corner_table_.get();
  const int nc = ct->num_corners(), nv = ct->num_vertices();
  auto I = [](uint32_t x) { return x == 0xFFFFFFFFu ? std::string("-1") : U(x); };
  std::string t = "acc n=" + S(ret) + " nv=" + S(nv) + " c2v=";
  std::vector<uint32_t> c2v(nc), opp(nc), vc(nv);
  for (int c = 0; c < nc; c++) { c2v[c] = ct->corner_to_vertex_map_[CornerIndex(c)].value(); opp[c] = ct->opposite_corners_[CornerIndex(c)].value(); }
  for (int v = 0; v < nv; v++) vc[v] = ct->vertex_corners_[VertexIndex(v)].value();
  t += join(c2v, I) + " opp=" + join(opp, I) + " vc=" + join(vc, I) + " hole=";
  std::string h; for (size_t i = 0; i < impl.is_vert_hole_.size(); i++) h += impl.is_vert_hole_[i] ? '1' : '0';
  t += (h.empty() ? "-" : h) + " init=";
  std::string in;
  for (size_t i = 0; i < impl.init_corners_.size(); i++) {
    if (i) in += ",";
    in += std::string(impl.init_face_configurations_[i] ? "1" : "0") + ":" + S(impl.init_corners_[i].value());
  }
  t += in.empty() ? "-" : in;
  // the property, checked on the implementation itself (clauses of C03_eb_accept_valid)
  if (violation) {
    auto nx = [](uint32_t k) { return (k % 3 == 2) ? k - 2 : k + 1; };
    auto pv = [](uint32_t k) { return (k % 3 == 0) ? k + 2 : k - 1; };
    for (int c = 0; c < nc && violation->empty(); c++) {
      if (c2v[c] >= (uint32_t)ret) *violation = "corner " + S(c) + " maps to vertex " + I(c2v[c]) + " >= returned count " + S(ret);
      uint32_t o = opp[c];
      if (o != 0xFFFFFFFFu) {
        if (o >= (uint32_t)nc) *violation = "opposite out of range at corner " + S(c);
        else if (o == (uint32_t)c || opp[o] != (uint32_t)c) *violation = "opposite not a fixed-point-free involution at corner " + S(c);
        else if (o / 3 == (uint32_t)c / 3) *violation = "opposite corner in the same face at corner " + S(c);
      }
    }
    for (int v = 0; v < ret && violation->empty(); v++) {
      if (vc[v] == 0xFFFFFFFFu) *violation = "vertex " + S(v) + " below the returned count is isolated";
      else if (vc[v] >= (uint32_t)nc || c2v[vc[v]] != (uint32_t)v) *violation = "left-most corner of vertex " + S(v) + " is not a corner of it";
    }
    // opposite corners share their edge: for every pair made by a symbol (searched here) and, since the decoder tests
    // Vertex(Previous(corner_a)) == vert_p (/repo a3a73f7, defect D24), for every interior START face as well
    // (C03_eb_start_faces_share_edges: the start-face phase preserves the property); any mismatch is a failure now
    for (int c = 0; c < nc && violation->empty(); c++) {
      uint32_t o = opp[c];
      if (o == 0xFFFFFFFFu || o >= (uint32_t)nc) continue;
      if (c2v[nx(c)] != c2v[pv(o)] || c2v[pv(c)] != c2v[nx(o)]) {
        if ((int)(c / 3) < num_symbols && (int)(o / 3) < num_symbols) *violation = "opposite corners of two SYMBOL faces do not share their edge at corner " + S(c);
        else { *violation = "opposite corners at an interior START face do not share their edge at corner " + S(c); if (edge_mismatch_at_start_face) *edge_mismatch_at_start_face = true; }
      }
    }
  }
  return t;
}

// ---------------------------------------------------------------- running a script on the real decoder
static std::vector<char> header_bytes(const Script &s) {
  EncoderBuffer eb;
  EncodeVarint<uint32_t>((uint32_t)s.a, &eb);
  EncodeVarint<uint32_t>((uint32_t)s.nf, &eb);
  eb.Encode((uint8_t)s.natt);
  EncodeVarint<uint32_t>((uint32_t)s.syms.size(), &eb);
  EncodeVarint<uint32_t>((uint32_t)s.b, &eb);
  EncodeVarint<uint32_t>((uint32_t)s.evs.size(), &eb);
  uint32_t last = 0;
  for (const Ev &e : s.evs) {           // caller guarantees src nondecreasing and spl <= src (else not encodable in 2.2)
    EncodeVarint<uint32_t>(e.src - last, &eb);
    EncodeVarint<uint32_t>(e.src - e.spl, &eb);
    last = e.src;
  }
  if (!s.evs.empty()) {
    eb.StartBitEncoding(s.evs.size(), false);
    for (const Ev &e : s.evs) eb.EncodeLeastSignificantBits32(1, e.edge);
    eb.EndBitEncoding();
  }
  std::vector<char> v(eb.data(), eb.data() + eb.size());
  for (int i = 0; i < 8; i++) v.push_back(0);
  return v;
}

static std::string run_script(const Script &s, std::string *violation, std::string *extra = nullptr) {
  Mesh mesh;
  MeshEdgebreakerDecoder dec;
  DecoderOptions opts;
  DecoderBuffer db;
  std::vector<char> bytes;
  dec.mesh_ = &mesh; dec.point_cloud_ = &mesh; dec.options_ = &opts;
  dec.version_major_ = 2; dec.version_minor_ = 2; dec.buffer_ = &db;
  ScrImpl impl;
  impl.Init(&dec);
  impl.traversal_decoder_.syms = s.syms;
  impl.traversal_decoder_.bits = s.bits;
  impl.traversal_decoder_.seam_rng = Rng(s.seam_seed); impl.traversal_decoder_.seam_pct = s.seam_pct;
  int ret;
  bool late_reject = false;
  if (s.full) {
    bytes = header_bytes(s);
    db.Init(bytes.data(), bytes.size(), DRACO_BITSTREAM_VERSION(2, 2));
    if (!impl.DecodeConnectivity()) {
      // with attribute data the (unmodelled) attribute stage can still fail after the connectivity was accepted:
      // Done() is called exactly when DecodeConnectivity(int) succeeded
      if (!(s.natt && impl.traversal_decoder_.done_called)) return "rej";
      late_reject = true;
    }
    ret = s.natt ? impl.corner_table_->num_vertices() : (int)mesh.num_points();
    // the mesh handed to the user: every face index must be a point
    // (model: eb_decode_mesh = (returned count, the corner-to-vertex array); C03_eb_faces_valid)
    for (FaceIndex f(0); !late_reject && f < mesh.num_faces() && violation->empty(); ++f)
      for (int k = 0; k < 3; k++) {
        if (mesh.face(f)[k].value() >= mesh.num_points()) *violation = "mesh face " + S(f.value()) + " references point >= num_points";
        else if (!s.natt && mesh.face(f)[k].value() != impl.corner_table_->corner_to_vertex_map_[CornerIndex(3 * f.value() + k)].value())
          *violation = "mesh face " + S(f.value()) + " differs from the corner table";
      }
    if (!late_reject && violation->empty() && (int)mesh.num_faces() != impl.corner_table_->num_faces()) *violation = "mesh face count differs from the corner table";
  } else {
    bytes.assign(8, 0);
    db.Init(bytes.data(), bytes.size(), DRACO_BITSTREAM_VERSION(2, 2));
    // what DecodeConnectivity() does before the call (lines 376-409, 448)
    impl.corner_table_ = std::unique_ptr<CornerTable>(new CornerTable());
    impl.attribute_data_.clear();
    impl.attribute_data_.resize(s.b ? 0 : 1);
    if (!impl.corner_table_->Reset((int)s.nf, (int)s.a)) return "rej";
    impl.is_vert_hole_.assign((size_t)s.a, true);
    impl.topology_split_data_.clear();
    for (const Ev &e : s.evs) { TopologySplitEventData d; d.source_symbol_id = e.src; d.split_symbol_id = e.spl; d.source_edge = e.edge & 1; impl.topology_split_data_.push_back(d); }
    impl.traversal_decoder_.Init(&impl);
    ret = impl.DecodeConnectivity((int)s.syms.size());
    if (ret == -1) return "rej";
  }
  if (s.natt && extra && !late_reject && s.full) {
    // kind apc: AssignPointsToCorners' deduplication path against the model, inputs = the corner table + the attribute corner tables
    const CornerTable *ct = impl.corner_table_.get();
    const int nc = ct->num_corners(), nv = ct->num_vertices();
    auto I = [](uint32_t x) { return x == 0xFFFFFFFFu ? std::string("-1") : U(x); };
    std::vector<uint32_t> opp(nc), vc(nv);
    for (int c = 0; c < nc; c++) opp[c] = ct->opposite_corners_[CornerIndex(c)].value();
    for (int v = 0; v < nv; v++) vc[v] = ct->vertex_corners_[VertexIndex(v)].value();
    std::string h; for (size_t i = 0; i < impl.is_vert_hole_.size(); i++) h += impl.is_vert_hole_[i] ? '1' : '0';
    std::string atts;
    for (size_t a = 0; a < impl.attribute_data_.size(); a++) {
      const MeshAttributeCornerTable &at = impl.attribute_data_[a].connectivity_data;
      if (a) atts += ";";
      std::string sb; std::vector<uint32_t> av(nc);
      for (int c = 0; c < nc; c++) { sb += at.IsCornerOnSeam(CornerIndex(c)) ? '1' : '0'; av[c] = at.Vertex(CornerIndex(c)).value(); }
      atts += (sb.empty() ? "-" : sb) + "/" + join(av, I);
    }
    std::vector<uint32_t> fl;
    for (FaceIndex f(0); f < mesh.num_faces(); ++f) for (int k = 0; k < 3; k++) fl.push_back(mesh.face(f)[k].value());
    *extra = "apc " + S(nc) + " " + S((int64_t)impl.is_vert_hole_.size()) + " " + join(opp, I) + " " + join(vc, I) + " " + (h.empty() ? "-" : h) + " " + atts +
             "\t" + "np=" + S((int64_t)mesh.num_points()) + " faces=" + join(fl, I);
  }
  bool mm = false;
  std::string t = table_text(impl, ret, ((!s.full && !s.b) || s.natt) ? nullptr : violation, (int)s.syms.size(), &mm);

  if (mm && violation->empty()) *violation = "~";   // statistic only
  return t;
}

// Runs all scripts in forked children (batches); a child that dies or hangs identifies the script.
static long g_apc = 0, g_startmm = 0, g_crashes = 0, g_hangs = 0, g_acc = 0, g_rej = 0, g_viol = 0;
static void run_all(Out &o, const std::vector<Script> &scripts, const std::string &tmp) {
  size_t i = 0;
  while (i < scripts.size()) {
    fflush(o.f);
    pid_t pid = fork();
    if (pid < 0) { perror("fork"); exit(2); }
    if (pid == 0) {
      FILE *f = fopen(tmp.c_str(), "w");
      for (size_t k = i; k < scripts.size(); k++) {
        alarm(20);
        std::string viol;
        std::string extra;
        std::string r = run_script(scripts[k], &viol, &extra);
        alarm(0);
        fprintf(f, "%zu\t%s\t%s\n", k, viol.empty() ? "-" : viol.c_str(), r.c_str());
        if (!extra.empty()) fprintf(f, "X\t%s\n", extra.c_str());
        fflush(f);
      }
      fclose(f);
      _exit(0);
    }
    int status = 0; waitpid(pid, &status, 0);
    std::ifstream in(tmp);
    std::string line; size_t done = i;
    while (std::getline(in, line)) {
      size_t t1 = line.find('\t'), t2 = line.find('\t', t1 + 1);
      if (t1 == std::string::npos || t2 == std::string::npos) break;    // truncated last line
      if (line[0] == 'X') { o.c(line.substr(t1 + 1, t2 - t1 - 1), line.substr(t2 + 1)); g_apc++; continue; }
      size_t k = std::stoul(line.substr(0, t1));
      std::string viol = line.substr(t1 + 1, t2 - t1 - 1), r = line.substr(t2 + 1);
      o.c(lhs_of(scripts[k]), r);
      if (r == "rej") g_rej++; else g_acc++;
      if (viol == "~") g_startmm++;
      else if (viol != "-") { o.fail("ACCEPT-INVALID " + viol + " :: " + lhs_of(scripts[k])); g_viol++; }
      done = k + 1;
    }
    if (WIFEXITED(status) && WEXITSTATUS(status) == 0 && done == scripts.size()) break;
    if (done >= scripts.size()) break;
    // the child died while running scripts[done]
    std::string how;
    if (WIFSIGNALED(status) && WTERMSIG(status) == SIGALRM) { how = "HANG (watchdog 20s)"; g_hangs++; }
    else { how = std::string("CRASH ") + (WIFSIGNALED(status) ? "signal " + S(WTERMSIG(status)) : "exit " + S(WEXITSTATUS(status))); g_crashes++; }
    o.c(lhs_of(scripts[done]), how);
    o.fail(how + " of the real decoder :: " + lhs_of(scripts[done]));
    i = done + 1;
  }
  unlink(tmp.c_str());
}

// ---------------------------------------------------------------- meshes for the valid stream
typedef std::vector<std::array<int, 3>> Faces;
struct MeshSpec { Faces f; int nv = 0; std::string name; };

static void add_grid(MeshSpec &m, Rng &r, int w, int h, bool wrapx, bool wrapy, int hole_pct, bool rand_diag) {
  int base = m.nv, cols = wrapx ? w : w + 1, rows = wrapy ? h : h + 1;
  auto id = [&](int x, int y) { return base + (y % rows) * cols + (x % cols); };
  for (int y = 0; y < h; y++) for (int x = 0; x < w; x++) {
    if ((int)r.below(100) < hole_pct) continue;
    int a = id(x, y), b = id(x + 1, y), c = id(x + 1, y + 1), d = id(x, y + 1);
    bool dg = rand_diag && r.chance(50);
    std::array<int, 3> f1 = dg ? std::array<int, 3>{a, b, d} : std::array<int, 3>{a, b, c};
    std::array<int, 3> f2 = dg ? std::array<int, 3>{b, c, d} : std::array<int, 3>{a, c, d};
    bool k1 = hole_pct == 0 || !r.chance(hole_pct / 2), k2 = hole_pct == 0 || !r.chance(hole_pct / 2);
    auto nondeg = [](const std::array<int, 3> &f) { return f[0] != f[1] && f[1] != f[2] && f[0] != f[2]; };
    if (k1 && nondeg(f1)) m.f.push_back(f1);
    if (k2 && nondeg(f2)) m.f.push_back(f2);
  }
  m.nv += cols * rows;
}
static void add_faces(MeshSpec &m, std::initializer_list<std::array<int, 3>> fs, int nv) {
  for (auto f : fs) m.f.push_back({f[0] + m.nv, f[1] + m.nv, f[2] + m.nv});
  m.nv += nv;
}
static void add_tetra(MeshSpec &m) { add_faces(m, {{0, 1, 2}, {0, 3, 1}, {1, 3, 2}, {2, 3, 0}}, 4); }
static void add_octa(MeshSpec &m) { add_faces(m, {{0, 2, 4}, {2, 1, 4}, {1, 3, 4}, {3, 0, 4}, {2, 0, 5}, {1, 2, 5}, {3, 1, 5}, {0, 3, 5}}, 6); }
static void add_fan(MeshSpec &m, int n, bool closed) {
  int base = m.nv;
  for (int i = 0; i < n; i++) { if (!closed && i == n - 1) break; m.f.push_back({base, base + 1 + i, base + 1 + (i + 1) % n}); }
  m.nv += n + 1;
}

static MeshSpec gen_mesh(Rng &r, int idx, bool thorough) {
  MeshSpec m;
  int big = thorough ? 14 : 8;
  switch (idx) {
    case 0: add_tetra(m); m.name = "tetrahedron"; return m;
    case 1: add_octa(m); m.name = "octahedron"; return m;
    case 2: add_faces(m, {{0, 1, 2}}, 3); m.name = "triangle"; return m;
    case 3: add_grid(m, r, 3, 3, false, false, 0, false); m.f.erase(m.f.begin() + 8, m.f.begin() + 10); m.name = "grid3x3-hole"; return m;
    case 4: add_grid(m, r, 3, 3, true, true, 0, false); m.name = "torus3x3"; return m;
    case 5: add_grid(m, r, 4, 3, true, false, 0, false); m.name = "cylinder4x3"; return m;
    case 6: add_tetra(m); add_tetra(m); add_octa(m); m.name = "tetra+tetra+octa"; return m;
    case 7: add_fan(m, 6, true); m.name = "closedfan6"; return m;
    case 8: add_grid(m, r, 4, 4, true, true, 0, false); m.f.erase(m.f.begin() + 5, m.f.begin() + 7); m.name = "torus4x4-hole"; return m;
    default: break;
  }
  int parts = 1 + (int)r.below(3);
  for (int p = 0; p < parts; p++) {
    switch (r.below(6)) {
      case 0: add_tetra(m); break;
      case 1: add_octa(m); break;
      case 2: add_fan(m, 3 + (int)r.below(7), r.chance(50)); break;
      default: {
        int w = 1 + (int)r.below(big), h = 1 + (int)r.below(big);
        bool wx = w >= 3 && r.chance(35), wy = h >= 3 && r.chance(35);
        add_grid(m, r, w, h, wx, wy, r.chance(50) ? 0 : (int)r.below(30), r.chance(50));
      }
    }
  }
  // non-manifold input: identify two vertices / flip a face (the encoder's corner table splits them)
  if (r.chance(25) && m.nv > 3) {
    int k = 1 + (int)r.below(3);
    for (int i = 0; i < k; i++) {
      int a = (int)r.below(m.nv), b = (int)r.below(m.nv);
      for (auto &f : m.f) for (int j = 0; j < 3; j++) if (f[j] == a) f[j] = b;
    }
    Faces g; for (auto &f : m.f) if (f[0] != f[1] && f[1] != f[2] && f[0] != f[2]) g.push_back(f);
    m.f = g;
  }
  if (r.chance(15) && !m.f.empty()) { auto &f = m.f[r.below(m.f.size())]; std::swap(f[1], f[2]); }
  if (r.chance(30)) { for (size_t i = m.f.size(); i > 1; i--) std::swap(m.f[i - 1], m.f[r.below(i)]); }
  m.name = "random";
  return m;
}

// encode with the real encoder (standard Edgebreaker, positions only), decode with the recording traversal decoder
struct RecDecoder : public MeshEdgebreakerDecoder {
  bool InitializeDecoder() override {
    uint8_t t;
    if (!buffer()->Decode(&t)) return false;
    if (t != MESH_EDGEBREAKER_STANDARD_ENCODING) return false;
    impl_ = std::unique_ptr<MeshEdgebreakerDecoderImplInterface>(new RecImpl());
    return impl_->Init(this);
  }
};

static bool valid_case(Out &o, const MeshSpec &ms, Script *out_script) {
  if (ms.f.empty()) return false;
  TriangleSoupMeshBuilder mb;
  mb.Start((int)ms.f.size());
  int pos = mb.AddAttribute(GeometryAttribute::POSITION, 3, DT_FLOAT32);
  for (size_t i = 0; i < ms.f.size(); i++) {
    float p[3][3];
    for (int k = 0; k < 3; k++) { int v = ms.f[i][k]; p[k][0] = (float)v; p[k][1] = (float)((v * 7) % 13); p[k][2] = (float)((v * v) % 31); }
    mb.SetAttributeValuesForFace(pos, FaceIndex((uint32_t)i), p[0], p[1], p[2]);
  }
  std::unique_ptr<Mesh> mesh = mb.Finalize();
  if (!mesh) return false;
  Encoder enc;
  enc.SetEncodingMethod(MESH_EDGEBREAKER_ENCODING);
  enc.SetSpeedOptions(5, 5);
  enc.SetAttributeQuantization(GeometryAttribute::POSITION, 14);
  EncoderBuffer eb;
  if (!enc.EncodeMeshToBuffer(*mesh, &eb).ok()) { o.note("encode failed for " + ms.name); return false; }
  DecoderBuffer db; db.Init(eb.data(), eb.size());
  RecDecoder dec; Mesh outm; DecoderOptions opts;
  Status st = dec.Decode(opts, &db, &outm);
  if (!st.ok()) { o.fail("DECODE-OF-ENCODER-OUTPUT failed (" + ms.name + "): " + st.error_msg_string()); return false; }
  RecImpl *ri = static_cast<RecImpl *>(dec.impl_.get());
  Script s; s.full = false; s.a = (int64_t)ri->is_vert_hole_.size(); s.nf = ri->corner_table_->num_faces(); s.b = 1;
  s.syms = ri->traversal_decoder_.syms; s.evs = ri->traversal_decoder_.evs; s.bits = ri->traversal_decoder_.bits;
  std::string viol;
  bool mm = false;
  std::string t = table_text(*ri, (int)outm.num_points(), &viol, (int)s.syms.size(), &mm);
  if (mm) viol = "start face glued to non-matching edges";
  o.c(lhs_of(s), t);
  if (!viol.empty()) o.fail("ACCEPT-INVALID (valid stream " + ms.name + ") " + viol + " :: " + lhs_of(s));
  // the decoded mesh has as many faces as the encoder's (degenerate input faces were removed by us already)
  if ((size_t)outm.num_faces() != (size_t)mesh->num_faces()) o.fail("face count changed by encode/decode (" + ms.name + ")");
  if (out_script) *out_script = s;
  return true;
}

// ---------------------------------------------------------------- hostile scripts
static const uint32_t SYM[5] = {0, 1, 3, 5, 7};   // C S L R E

static void with_bits_variants(std::vector<Script> &out, Script s, Rng &r, int variants) {
  size_t nb = s.syms.size() + 2;
  for (int v = 0; v < variants; v++) {
    s.bits.assign(nb, false);
    if (v == 0) s.bits.assign(nb, true);
    else if (v >= 2) for (size_t i = 0; i < nb; i++) s.bits[i] = r.chance(50);
    out.push_back(s);
  }
}

// all symbol lists of length <= maxlen, each with no event and with every single (source, split, edge) event joining an
// L/R/E symbol to a later S symbol; face count = ns + k, vertex budget generous or tight
static void gen_exhaustive(std::vector<Script> &out, Rng &r, int maxlen, int every) {
  long count = 0;
  for (int len = 0; len <= maxlen; len++) {
    long total = 1; for (int i = 0; i < len; i++) total *= 5;
    for (long code = 0; code < total; code++) {
      if ((count++ % every) != 0 && len == maxlen) continue;
      Script s; long c = code;
      for (int i = 0; i < len; i++) { s.syms.push_back(SYM[c % 5]); c /= 5; }
      for (int k = 0; k <= 2; k++) {
        s.full = false; s.nf = len + k; s.a = 3 * len + 3; s.b = 1; s.evs.clear();
        with_bits_variants(out, s, r, k == 0 ? 1 : 2);
      }
      // single events
      for (int i = 0; i < len; i++) {
        if (s.syms[i] == 0 || s.syms[i] == 1) continue;
        for (int j = i + 1; j < len; j++) {
          if (s.syms[j] != 1) continue;
          for (uint32_t e = 0; e < 2; e++) {
            s.evs = {{(uint32_t)(len - 1 - i), (uint32_t)(len - 1 - j), e}};
            for (int k = 0; k <= 1; k++) { s.nf = len + k; s.full = r.chance(30); if (s.full) { s.a = 3 * len + 3; s.b = 1; if (s.b > (int64_t)len) s.b = len; } else { s.a = 3 * len + 3; s.b = 1; }
              with_bits_variants(out, s, r, 1 + k); }
          }
        }
      }
    }
  }
}

static Script mutate(const Script &base, Rng &r) {
  Script s = base;
  int n = 1 + (int)r.below(3);
  for (int t = 0; t < n; t++) {
    switch (r.below(12)) {
      case 0: case 1: if (!s.syms.empty()) s.syms[r.below(s.syms.size())] = SYM[r.below(5)]; break;
      case 2: if (!s.syms.empty()) s.syms.erase(s.syms.begin() + r.below(s.syms.size())); break;
      case 3: s.syms.insert(s.syms.begin() + r.below(s.syms.size() + 1), SYM[r.below(5)]); break;
      case 4: if (!s.evs.empty()) { Ev &e = s.evs[r.below(s.evs.size())]; switch (r.below(4)) { case 0: e.edge ^= 1; break; case 1: e.spl = (uint32_t)r.below(s.syms.size() + 2); break; case 2: e.src = (uint32_t)r.below(s.syms.size() + 2); break; default: e.spl = (uint32_t)r.biased(32); } } break;
      case 5: { Ev e{(uint32_t)r.below(s.syms.size() + 1), (uint32_t)r.below(s.syms.size() + 1), (uint32_t)r.below(2)}; s.evs.insert(s.evs.begin() + r.below(s.evs.size() + 1), e); } break;
      case 6: if (!s.evs.empty()) s.evs.erase(s.evs.begin() + r.below(s.evs.size())); break;
      case 7: if (!s.bits.empty()) { size_t k = r.below(s.bits.size()); s.bits[k] = !s.bits[k]; } break;
      case 8: s.nf += r.range(-1, 2); if (s.nf < 0) s.nf = 0; break;
      case 9: s.a += r.range(-3, 1); if (s.a < 0) s.a = 0; break;
      case 10: if (!s.full) s.b = r.chance(50); break;
      default: if (s.syms.size() > 1) { size_t i = r.below(s.syms.size() - 1); std::swap(s.syms[i], s.syms[i + 1]); } break;
    }
  }
  if (s.bits.size() < s.syms.size() + 2) s.bits.resize(s.syms.size() + 2, r.chance(50));
  return s;
}

// a stream that a 2.2 header can carry: sources nondecreasing, split <= source
static void make_encodable(Script &s) {
  std::stable_sort(s.evs.begin(), s.evs.end(), [](const Ev &x, const Ev &y) { return x.src < y.src; });
  for (Ev &e : s.evs) { if (e.spl > e.src) e.spl = e.src; e.edge &= 1; }
}
static Script to_full(const Script &core, Rng &r) {
  Script s = core; s.full = true;
  int64_t nsplit = r.chance(70) ? (int64_t)std::count(s.syms.begin(), s.syms.end(), 1u) : (int64_t)r.below(s.syms.size() + 2);
  s.b = nsplit; s.a = std::max<int64_t>(0, core.a - nsplit + (r.chance(15) ? r.range(-2, 2) : 0));
  make_encodable(s);
  return s;
}

static Script random_script(Rng &r, int maxlen) {
  Script s; int len = (int)r.below(maxlen + 1);
  int wC = (int)r.range(10, 50), wS = (int)r.range(2, 15), wL = (int)r.range(5, 30), wR = (int)r.range(5, 30), wE = (int)r.range(3, 20);
  for (int i = 0; i < len; i++) {
    int x = (int)r.below(wC + wS + wL + wR + wE);
    uint32_t sym = x < wC ? 0 : x < wC + wS ? 1 : x < wC + wS + wL ? 3 : x < wC + wS + wL + wR ? 5 : 7;
    if (i == 0 && r.chance(90)) sym = 7;
    if (r.chance(1)) sym = (uint32_t)r.biased(32);
    s.syms.push_back(sym);
  }
  // events: link L/R/E to later S
  std::vector<int> Spos; for (int i = 0; i < len; i++) if (s.syms[i] == 1) Spos.push_back(i);
  for (int j : Spos) if (r.chance(40)) {
    int i = (int)r.below(j + 1);
    s.evs.push_back({(uint32_t)(len - 1 - i), (uint32_t)(len - 1 - j), (uint32_t)r.below(2)});
  }
  if (r.chance(70)) std::stable_sort(s.evs.begin(), s.evs.end(), [](const Ev &x, const Ev &y) { return x.src < y.src; });
  s.nf = len + (int64_t)r.below(4); s.a = r.chance(70) ? 3 * len + 3 : (int64_t)r.below(2 * len + 3); s.b = r.chance(80);
  s.bits.resize(len + 2); for (size_t i = 0; i < s.bits.size(); i++) s.bits[i] = r.chance(60);
  return s;
}


// Is the symbol loop still alive after these symbols?  Oracle = the real decoder: with num_faces = number of symbols,
// a generous vertex budget and no interior start face, DecodeConnectivity(int) accepts iff no symbol returned -1
// (and the compaction found nothing wrong).
static bool alive(const Script &base, size_t len) {
  Script s = base; s.full = false; s.syms.resize(len); s.nf = (int64_t)len; s.a = 3 * (int64_t)len + 3; s.b = 1;
  s.bits.assign(len + 2, false);
  // events refer to encoder ids relative to the ORIGINAL length; keep them consistent for the cut script
  std::string viol; return run_script(s, &viol) != "rej";
}
// valid script cut at a random point, then a hostile suffix grown symbol by symbol among the choices that keep the run alive
static bool gen_live_suffix(const Script &valid, Rng &r, Script *out) {
  if (valid.syms.size() < 3) return false;
  Script s = valid; s.full = false;
  size_t cut = 1 + r.below(valid.syms.size() - 1);
  // drop the events whose source or split symbol lies in the removed tail is NOT needed: ids are encoder ids counted from
  // the END of the list, so we re-base them to the new length below
  int total = 0;
  s.syms.resize(cut);
  int want = 1 + (int)r.below(8);
  for (int t = 0; t < want; t++) {
    uint32_t order[5]; for (int i = 0; i < 5; i++) order[i] = SYM[i];
    for (int i = 4; i > 0; i--) std::swap(order[i], order[r.below(i + 1)]);
    bool grown = false;
    for (int i = 0; i < 5 && !grown; i++) {
      Script c = s; c.syms.push_back(order[i]);
      // re-base events: an event (src, spl) of the valid script referred to decoder ids d = n0-1-src; keep decoder ids
      c.evs.clear();
      int n0 = (int)valid.syms.size(), n1 = (int)c.syms.size();
      for (const Ev &e : valid.evs) {
        int ds = n0 - 1 - (int)e.src, dp = n0 - 1 - (int)e.spl;
        if (ds < 0 || dp < 0 || ds >= n1 || dp >= n1) continue;
        c.evs.push_back({(uint32_t)(n1 - 1 - ds), (uint32_t)(n1 - 1 - dp), e.edge});
      }
      std::stable_sort(c.evs.begin(), c.evs.end(), [](const Ev &x, const Ev &y) { return x.src < y.src; });
      if (r.chance(25) && order[i] == 1 && n1 >= 2) {   // an extra split event aimed at the new S
        int ds = (int)r.below(n1 - 1);
        c.evs.push_back({(uint32_t)(n1 - 1 - ds), 0u, (uint32_t)r.below(2)});
        std::stable_sort(c.evs.begin(), c.evs.end(), [](const Ev &x, const Ev &y) { return x.src < y.src; });
      }
      if (alive(c, c.syms.size())) { s = c; grown = true; total++; }
    }
    if (!grown) break;
  }
  if (total == 0) return false;
  // one last arbitrary symbol (may die) in half of the cases
  if (r.chance(50)) { s.syms.push_back(SYM[r.below(5)]);
    for (Ev &e : s.evs) { e.src++; e.spl++; } }
  size_t len = s.syms.size();
  s.nf = (int64_t)len + (int64_t)r.below(3); s.a = 3 * (int64_t)len + 3; s.b = 1;
  s.bits.resize(len + 2); for (size_t i = 0; i < s.bits.size(); i++) s.bits[i] = r.chance(50);
  *out = s; return true;
}

int main(int argc, char **argv) {
  if (argc < 4) { fprintf(stderr, "usage: h_eb <tier> <seed> <outfile>\n"); return 2; }
  const bool thorough = std::string(argv[1]) == "thorough";
  Rng r((uint64_t)atoll(argv[2]));
  Out o(argv[3]);
  // 1. valid streams from the real encoder
  std::vector<Script> valid;
  int nmesh = thorough ? 1500 : 300;
  long symtot = 0, splits = 0, interior = 0;
  for (int i = 0; i < nmesh; i++) {
    MeshSpec ms = gen_mesh(r, i, thorough);
    Script s;
    if (valid_case(o, ms, &s)) {
      if (i < 9) o.note("named mesh " + ms.name + ": " + lhs_of(s));
      valid.push_back(s); symtot += (long)s.syms.size(); splits += (long)s.evs.size();
      for (bool b : s.bits) interior += b;
    }
  }
  o.note("valid streams=" + S((long)valid.size()) + " symbols=" + S(symtot) + " split_events=" + S(splits) + " interior_start_faces=" + S(interior));
  // 2. hostile scripts
  std::vector<Script> hs;
  gen_exhaustive(hs, r, thorough ? 6 : 5, thorough ? 3 : 8);
  size_t n_exh = hs.size();
  int nmut = thorough ? 60000 : 9000, nrand = thorough ? 30000 : 5000;
  for (int i = 0; i < nmut && !valid.empty(); i++) {
    const Script &b = valid[r.below(std::min<size_t>(valid.size(), 9 + r.below(valid.size())))];
    if (b.syms.size() > (thorough ? 400u : 150u)) continue;
    Script m = mutate(b, r);
    if (r.chance(30)) m = to_full(m, r);
    hs.push_back(m);
  }
  for (int i = 0; i < nrand; i++) {
    Script s = random_script(r, r.chance(80) ? 12 : 40);
    if (r.chance(25)) s = to_full(s, r);
    hs.push_back(s);
  }
  // valid prefix + hostile suffix that keeps the symbol loop alive (reaches guards deep inside a run)
  { int nlive = thorough ? 6000 : 1200; long made = 0;
    for (int i = 0; i < nlive && !valid.empty(); i++) {
      const Script &b = valid[r.below(valid.size())];
      if (b.syms.size() > 80) continue;
      Script m; if (gen_live_suffix(b, r, &m)) { hs.push_back(m); made++; if (r.chance(30)) hs.push_back(mutate(m, r)); }
    }
    o.note("live-suffix scripts=" + S(made)); }
  // attribute connectivity data: the same connectivity scripts with num_attribute_data = 1..3 and hostile seam bits; the
  // corner table must equal the model's (run with remove_invalid_vertices = false), and AssignPointsToCorners' deduplication
  // path (not modelled) is SEARCHED: every face index of the decoded Mesh must be < num_points, no crash / hang
  { size_t base_n = hs.size(); int made = 0, want = thorough ? 20000 : 3000;
    for (size_t i = 0; i < base_n && made < want; i++) {
      const Script &b = hs[r.below(base_n)];
      if (b.syms.size() > 120) continue;
      Script a = b.full ? b : to_full(b, r);
      a.natt = 1 + (int)r.below(3); a.seam_seed = r.next(); a.seam_pct = r.chance(20) ? 0 : r.chance(20) ? 100 : (int)r.range(5, 95);
      hs.push_back(a); made++;
    }
    for (size_t i = 0; i < valid.size() && i < (thorough ? 600u : 150u); i++) {
      Script f = valid[i]; if (f.syms.size() > 300) continue;
      f.full = true; f.b = (int64_t)std::count(f.syms.begin(), f.syms.end(), 1u); f.a = valid[i].a - f.b; if (f.a < 0) continue;
      make_encodable(f); f.natt = 1 + (int)r.below(2); f.seam_seed = r.next(); f.seam_pct = (int)r.range(0, 100); hs.push_back(f);
    } }
  // the witnesses of Properties_EB.v as well-formed 2.2 headers through the real DecodeConnectivity(): E,L,L / E,L + interior start
  // face on non-matching edges (accepted until /repo a3a73f7, now rejected by model and decoder: eb_misglued_start_face_rejected)
  // and C03_eb_degenerate_faces_refuted (E,S + split event: still accepted)
  { Script s; s.full = true; s.a = 5; s.nf = 4; s.b = 0; s.syms = {7, 3, 3}; s.bits.assign(5, true); hs.push_back(s);
    Script d; d.full = true; d.a = 3; d.nf = 2; d.b = 1; d.syms = {7, 1}; d.evs = {{1, 0, 1}}; d.bits.assign(2, false); hs.push_back(d);
    Script e; e.full = false; e.a = 9; e.nf = 3; e.b = 1; e.syms = {7, 3}; e.bits.assign(4, true); hs.push_back(e); }
  // vertex-budget overflow: E, many L/R (each adds a vertex) beyond a tiny budget, then C/S/E; the guards that compare
  // num_vertices() with max_num_vertices right after AddNewVertex are what keeps is_vert_hole_[v] in range
  for (int i = 0; i < (thorough ? 400 : 60); i++) {
    Script s; s.syms.push_back(7);
    int k = (int)r.range(40, 200);
    for (int j = 0; j < k; j++) s.syms.push_back(r.chance(80) ? 3u : 5u);
    int t = (int)r.range(1, 6);
    for (int j = 0; j < t; j++) s.syms.push_back(r.chance(70) ? 0u : SYM[r.below(5)]);
    s.nf = (int64_t)s.syms.size() + (int64_t)r.below(2); s.a = r.range(3, 6); s.b = 1;
    s.bits.assign(s.syms.size() + 2, false);
    hs.push_back(s);
  }
  // a few unchanged valid scripts through the full path as well (header guards on real counts)
  for (size_t i = 0; i < valid.size() && i < 60; i++) { Script f = valid[i]; f.full = true; f.b = (int64_t)std::count(f.syms.begin(), f.syms.end(), 1u); f.a = valid[i].a - f.b; if (f.a >= 0) { make_encodable(f); hs.push_back(f); } }
  // kind core calls DecodeConnectivity(int) directly: its caller's guard num_symbols <= num_faces is a precondition there
  // (kind full exercises that guard on the real caller)
  for (Script &s : hs) if (!s.full && (int64_t)s.syms.size() > s.nf) s.nf = (int64_t)s.syms.size();
  run_all(o, hs, std::string(argv[3]) + ".tmp");
  o.note("hostile scripts=" + S((long)hs.size()) + " exhaustive=" + S((long)n_exh) + " accepted=" + S(g_acc) + " rejected=" + S(g_rej) +
         " crashes=" + S(g_crashes) + " hangs=" + S(g_hangs) + " accept_invalid=" + S(g_viol) + " assign_points_dedup_cases=" + S(g_apc) + " accepted_with_start_face_on_nonmatching_edges=" + S(g_startmm));
  return 0;
}
