// PRED (property C01, Edgebreaker attribute layer): the mesh prediction schemes of /repo, instantiated
// directly from the header templates, against coq/Model/Predict.v.
//
//   MeshPredictionSchemeParallelogram{En,De}coder<int32_t, PredictionSchemeWrap{En,De}codingTransform<int32_t>,
//                                                 MeshPredictionSchemeData<CornerTable>>
//   MeshPredictionSchemeConstrainedMultiParallelogram{En,De}coder<…>, MeshPredictionSchemeTexCoordsPortable{En,De}coder<…>
//
// on corner tables built with CornerTable::Create from generated triangle lists, data_to_corner / vertex_to_data
// maps generated here (breadth-first traversal order, a random vertex order, arbitrary in-bounds maps), int32 rows.
//
// Case lines (lists: comma separated decimal, "-" = empty; M = <faces> <d2c> <v2d>):
//   par  <nc> M <data>                      | ok <corr> <prediction-data hex>   | fail
//   dpar <nc> M <corr> <hex>                | ok <data> <bytes left>            | fail
//   mp   <nc> M <data> <s0;s1;s2;s3>        | ok <corr> <hex>                   | fail      (si = crease flags of context i
//   dmp  <nc> M <corr> <hex>                | ok <data> <bytes left>            | fail       in decoder order, read off the bytes)
//   tc   M <pos> <data> <orientations>      | ok <corr> <hex>                   | fail      (orientations in push order)
//   dtc  M <pos> <corr> <hex>               | ok <data> <bytes left>            | fail
//   gn   <q> M <pos> <data> <flip bits>     | ok <corr> <hex>                   | fail      (octahedral coordinates, q bits)
//   dgn  M <pos> <corr> <hex>               | ok <data> <bytes left>            | fail
// '!' lines: decode(encode(x)) != x on the implementation.
#include "common.h"
#include <algorithm>
#include <climits>
#include <memory>
#include <queue>
#include "draco/draco_features.h"
#include "draco/attributes/point_attribute.h"
#include "draco/compression/attributes/prediction_schemes/mesh_prediction_scheme_constrained_multi_parallelogram_decoder.h"
#include "draco/compression/attributes/prediction_schemes/mesh_prediction_scheme_constrained_multi_parallelogram_encoder.h"
#include "draco/compression/attributes/prediction_schemes/mesh_prediction_scheme_data.h"
#include "draco/compression/attributes/normal_compression_utils.h"
#include "draco/compression/attributes/prediction_schemes/mesh_prediction_scheme_geometric_normal_decoder.h"
#include "draco/compression/attributes/prediction_schemes/mesh_prediction_scheme_geometric_normal_encoder.h"
#include "draco/compression/attributes/prediction_schemes/prediction_scheme_normal_octahedron_canonicalized_decoding_transform.h"
#include "draco/compression/attributes/prediction_schemes/prediction_scheme_normal_octahedron_canonicalized_encoding_transform.h"
#include "draco/compression/attributes/prediction_schemes/mesh_prediction_scheme_parallelogram_decoder.h"
#include "draco/compression/attributes/prediction_schemes/mesh_prediction_scheme_parallelogram_encoder.h"
#include "draco/compression/attributes/prediction_schemes/mesh_prediction_scheme_tex_coords_portable_decoder.h"
#include "draco/compression/attributes/prediction_schemes/mesh_prediction_scheme_tex_coords_portable_encoder.h"
#include "draco/compression/attributes/prediction_schemes/prediction_scheme_wrap_decoding_transform.h"
#include "draco/compression/attributes/prediction_schemes/prediction_scheme_wrap_encoding_transform.h"
#include "draco/compression/bit_coders/rans_bit_decoder.h"
#include "draco/compression/bit_coders/rans_bit_encoder.h"
#include "draco/compression/config/compression_shared.h"
#include "draco/core/decoder_buffer.h"
#include "draco/core/encoder_buffer.h"
#include "draco/core/varint_decoding.h"
#include "draco/core/varint_encoding.h"
#include "draco/mesh/corner_table.h"
#include "draco/mesh/mesh.h"
using namespace draco;

typedef MeshPredictionSchemeData<CornerTable> MD;
typedef PredictionSchemeWrapEncodingTransform<int32_t> WE;
typedef PredictionSchemeWrapDecodingTransform<int32_t> WD;
typedef MeshPredictionSchemeParallelogramEncoder<int32_t, WE, MD> ParE;
typedef MeshPredictionSchemeParallelogramDecoder<int32_t, WD, MD> ParD;
typedef MeshPredictionSchemeConstrainedMultiParallelogramEncoder<int32_t, WE, MD> MpE;
typedef MeshPredictionSchemeConstrainedMultiParallelogramDecoder<int32_t, WD, MD> MpD;
typedef MeshPredictionSchemeTexCoordsPortableEncoder<int32_t, WE, MD> TcE;
typedef MeshPredictionSchemeTexCoordsPortableDecoder<int32_t, WD, MD> TcD;
typedef PredictionSchemeNormalOctahedronCanonicalizedEncodingTransform<int32_t> OE;
typedef PredictionSchemeNormalOctahedronCanonicalizedDecodingTransform<int32_t> OD;
typedef MeshPredictionSchemeGeometricNormalEncoder<int32_t, OE, MD> GnE;
typedef MeshPredictionSchemeGeometricNormalDecoder<int32_t, OD, MD> GnD;

template <class T> static std::string join(const std::vector<T> &v) {
  if (v.empty()) return "-";
  std::string s;
  for (size_t i = 0; i < v.size(); i++) { if (i) s += ','; s += std::to_string((long long)v[i]); }
  return s;
}
static std::string bits(const std::vector<bool> &v) {
  if (v.empty()) return "-";
  std::string s;
  for (bool b : v) s += b ? '1' : '0';
  return s;
}

static long g_cnt[32];
enum { N_PAR, N_MP, N_TC, N_PAR_USED, N_DELTA_USED, N_MP_FLAGS, N_MP_USED, N_TC_ORI, N_ENC_FAIL, N_HOSTILE, N_HOSTILE_FAIL,
       N_MAP_BFS, N_MAP_RND, N_MAP_JUNK, N_GUARD_SKIP, N_TC_FALSE, N_GN, N_GN_FLIPS, N_GN_CURTAIN, N_GN_DEGEN };

// ------------------------------------------------------------------------------------------------ meshes
typedef std::vector<int> Tris;
static Tris grid(Rng &r, int w, int h) {
  Tris t;
  auto id = [&](int x, int y) { return y * (w + 1) + x; };
  for (int y = 0; y < h; y++) for (int x = 0; x < w; x++) {
    int a = id(x, y), b = id(x + 1, y), c = id(x + 1, y + 1), d = id(x, y + 1);
    if (r.chance(50)) { t.insert(t.end(), {a, b, c, a, c, d}); } else { t.insert(t.end(), {a, b, d, b, c, d}); }
  }
  return t;
}
static Tris wheel(int k, bool closed) {  // centre 0, ring 1..k
  Tris t;
  for (int i = 0; i < (closed ? k : k - 1); i++) t.insert(t.end(), {0, 1 + i, 1 + (i + 1) % k});
  return t;
}
static Tris closed_surface(int which) {
  if (which == 0) return {0, 1, 2, 0, 3, 1, 0, 2, 3, 1, 3, 2};                                           // tetrahedron
  return {0, 1, 2, 0, 2, 3, 0, 3, 4, 0, 4, 1, 5, 2, 1, 5, 3, 2, 5, 4, 3, 5, 1, 4};                       // octahedron
}
static Tris gen_mesh(Rng &r) {
  Tris t;
  switch (r.below(8)) {
    case 0: case 1: case 2: t = grid(r, 1 + (int)r.below(6), 1 + (int)r.below(6)); break;
    case 3: t = wheel(3 + (int)r.below(8), r.chance(60)); break;
    case 4: t = closed_surface((int)r.below(2)); break;
    case 5: {  // random triangles (non-manifold edges and vertices, degenerate faces possible)
      int nv = 3 + (int)r.below(8), nf = 1 + (int)r.below(14);
      for (int i = 0; i < 3 * nf; i++) t.push_back((int)r.below(nv));
      break;
    }
    case 6: {  // strip
      int n = 1 + (int)r.below(12);
      for (int i = 0; i < n; i++) { if (i & 1) t.insert(t.end(), {i + 1, i, i + 2}); else t.insert(t.end(), {i, i + 1, i + 2}); }
      break;
    }
    default: {  // two wheels glued to a grid: vertices with many parallelograms
      t = grid(r, 2 + (int)r.below(3), 2 + (int)r.below(3));
      int base = 0; for (int v : t) base = std::max(base, v + 1);
      Tris w = wheel(4 + (int)r.below(5), true);
      for (int v : w) t.push_back(v + base);
      break;
    }
  }
  // perturbations: drop faces (boundaries, holes), flip faces (unmatched edges), shuffle faces, rotate corners
  int nf = (int)t.size() / 3;
  if (r.chance(30) && nf > 2) {
    int drop = 1 + (int)r.below(std::max(1, nf / 4));
    for (int k = 0; k < drop && t.size() > 3; k++) { int f = (int)r.below(t.size() / 3); t.erase(t.begin() + 3 * f, t.begin() + 3 * f + 3); }
  }
  nf = (int)t.size() / 3;
  if (r.chance(15)) { int f = (int)r.below(nf); std::swap(t[3 * f + 1], t[3 * f + 2]); }
  if (r.chance(40)) {
    for (int f = nf - 1; f > 0; f--) { int g = (int)r.below(f + 1); for (int k = 0; k < 3; k++) std::swap(t[3 * f + k], t[3 * g + k]); }
  }
  if (r.chance(40)) for (int f = 0; f < nf; f++) { int k = (int)r.below(3); std::rotate(t.begin() + 3 * f, t.begin() + 3 * f + k, t.begin() + 3 * f + 3); }
  return t;
}
static std::unique_ptr<CornerTable> build(const Tris &t) {
  IndexTypeVector<FaceIndex, CornerTable::FaceType> faces;
  for (size_t i = 0; i + 2 < t.size(); i += 3) {
    CornerTable::FaceType f = {{VertexIndex(t[i]), VertexIndex(t[i + 1]), VertexIndex(t[i + 2])}};
    faces.push_back(f);
  }
  return CornerTable::Create(faces);
}

// ------------------------------------------------------------------------------------------------ a case
struct Case {
  Tris tris;
  std::unique_ptr<CornerTable> ct;
  std::vector<CornerIndex> d2c;
  std::vector<int32_t> v2d;
  int map_kind = 0;
  int nc = 1;
  std::vector<int32_t> data;                 // n * nc
  std::vector<int32_t> pos;                  // n * 3: position of ENTRY e (tex coords)
  Mesh mesh;
  int n() const { return (int)d2c.size(); }
  std::string M() const {
    std::vector<long> dc; for (auto c : d2c) dc.push_back(c.value());
    return join(tris) + " " + join(dc) + " " + join(v2d);
  }
  MD md() const { MD m; m.Set(&mesh, ct.get(), &d2c, &v2d); return m; }
};

// maps ---------------------------------------------------------------------------------------------
static void maps_bfs(Rng &r, Case &c) {  // the order a breadth-first traversal over faces assigns
  const CornerTable &ct = *c.ct;
  const int nf = ct.num_faces();
  c.v2d.assign(ct.num_vertices(), -1);
  c.d2c.clear();
  std::vector<char> seen(nf, 0);
  std::vector<int> order(nf);
  for (int i = 0; i < nf; i++) order[i] = i;
  if (r.chance(50)) for (int i = nf - 1; i > 0; i--) std::swap(order[i], order[r.below(i + 1)]);
  for (int s : order) {
    if (seen[s]) continue;
    std::queue<int> q; q.push(s); seen[s] = 1;
    while (!q.empty()) {
      int f = q.front(); q.pop();
      for (int k = 0; k < 3; k++) {
        CornerIndex cr(3 * f + k);
        int v = ct.Vertex(cr).value();
        if (c.v2d[v] < 0) { c.v2d[v] = (int)c.d2c.size(); c.d2c.push_back(cr); }
      }
      for (int k = 0; k < 3; k++) {
        CornerIndex o = ct.Opposite(CornerIndex(3 * f + k));
        if (o != kInvalidCornerIndex && !seen[o.value() / 3]) { seen[o.value() / 3] = 1; q.push(o.value() / 3); }
      }
    }
  }
}
static void maps_rnd(Rng &r, Case &c) {  // a random order of the vertices; any corner of the vertex
  const CornerTable &ct = *c.ct;
  const int nc = ct.num_corners();
  c.v2d.assign(ct.num_vertices(), -1);
  c.d2c.clear();
  std::vector<std::vector<int>> corners(ct.num_vertices());
  for (int k = 0; k < nc; k++) corners[ct.Vertex(CornerIndex(k)).value()].push_back(k);
  std::vector<int> vs;
  for (int v = 0; v < ct.num_vertices(); v++) if (!corners[v].empty()) vs.push_back(v);
  for (int i = (int)vs.size() - 1; i > 0; i--) std::swap(vs[i], vs[r.below(i + 1)]);
  for (int v : vs) { c.v2d[v] = (int)c.d2c.size(); c.d2c.push_back(CornerIndex(corners[v][r.below(corners[v].size())])); }
}
static void maps_junk(Rng &r, Case &c) {  // arbitrary maps that only respect the array bounds
  const CornerTable &ct = *c.ct;
  int n = 1 + (int)r.below(ct.num_vertices() + 3);
  c.d2c.clear();
  for (int e = 0; e < n; e++) c.d2c.push_back(CornerIndex((uint32_t)r.below(ct.num_corners())));
  c.v2d.assign(ct.num_vertices(), 0);
  for (auto &x : c.v2d) x = (int32_t)r.below(n + 2);
}

// values -------------------------------------------------------------------------------------------
// mode 0: tiny; 1: smooth (affine in a per-entry plane position + noise: parallelograms predict well); 2: random in
// [-lim, lim]; 3: boundary values of the admissible range; 4: range too wide for the wrap transform (encoder fails)
static void gen_values(Rng &r, Case &c, int mode, int64_t lim) {
  const int n = c.n();
  c.data.assign((size_t)n * c.nc, 0);
  // per-vertex plane coordinates through the entry of the vertex
  std::vector<int64_t> px(n), py(n);
  for (int e = 0; e < n; e++) { px[e] = r.range(-50, 50); py[e] = r.range(-50, 50); }
  const CornerTable &ct = *c.ct;
  bool is_grid = true; int maxv = 0; for (int v : c.tris) maxv = std::max(maxv, v);
  int w = 1; while ((w + 1) * (w + 1) <= maxv + 1) w++;
  for (int v = 0; v < ct.num_vertices() && v < (int)c.v2d.size(); v++) {
    int e = c.v2d[v];
    if (e >= 0 && e < n && is_grid) { int pv = v <= maxv ? v : (int)ct.VertexParent(VertexIndex(v)).value(); px[e] = pv % (w + 1); py[e] = pv / (w + 1); }
  }
  for (int k = 0; k < c.nc; k++) {
    int64_t a = r.range(-lim / 64, lim / 64), b = r.range(-lim / 64, lim / 64), d = r.range(-lim / 4, lim / 4);
    int64_t noise = r.chance(50) ? 0 : 1 + (int64_t)r.below(4);
    for (int e = 0; e < n; e++) {
      int64_t v;
      switch (mode) {
        case 0: v = r.range(0, 3); break;
        case 1: v = a * px[e] + b * py[e] + d + r.range(-noise, noise); break;
        case 2: v = r.range(-lim, lim); break;
        case 3: { int64_t lo = -lim, hi = lim - 2; int64_t cand[6] = {lo, hi, lo + 1, hi - 1, 0, (lo + hi) / 2}; v = cand[r.below(6)]; break; }
        default: { int64_t cand[4] = {INT32_MIN, INT32_MAX, 0, -1}; v = cand[r.below(4)]; break; }
      }
      v = std::max<int64_t>(INT32_MIN, std::min<int64_t>(INT32_MAX, v));
      c.data[(size_t)e * c.nc + k] = (int32_t)v;
    }
  }
}
static void gen_positions(Rng &r, Case &c, int64_t lim) {
  const int n = c.n();
  c.pos.assign((size_t)n * 3, 0);
  int mode = (int)r.below(4);
  for (int e = 0; e < n; e++) for (int k = 0; k < 3; k++) {
    int64_t v = mode == 0 ? r.range(0, 3) : mode == 1 ? r.range(-40, 40) : r.range(-lim, lim);
    c.pos[(size_t)e * 3 + k] = (int32_t)v;
  }
  if (r.chance(30) && n > 2) {  // repeated positions: pn_norm2_squared == 0
    for (int k = 0; k < n / 2; k++) { int a = (int)r.below(n), b = (int)r.below(n); for (int j = 0; j < 3; j++) c.pos[3 * a + j] = c.pos[3 * b + j]; }
  }
}

// ------------------------------------------------------------------------------------------------ running the schemes
struct PosAtt {
  PointAttribute pos;
  std::vector<PointIndex> e2p;
  void init(const Case &c) {
    const int n = c.n();
    pos.Init(GeometryAttribute::POSITION, 3, DT_INT32, false, n);
    pos.SetIdentityMapping();
    for (int e = 0; e < n; e++) pos.SetAttributeValue(AttributeValueIndex(e), &c.pos[(size_t)e * 3]);
    e2p.resize(n);
    for (int e = 0; e < n; e++) e2p[e] = PointIndex(e);
  }
};
template <class E> struct IsTc { static const bool v = false; };
template <> struct IsTc<TcE> { static const bool v = true; };
template <> struct IsTc<TcD> { static const bool v = true; };
template <class T> static void set_parent(T &, PosAtt &, std::false_type) {}
template <class T> static void set_parent(T &s, PosAtt &p, std::true_type) { s.SetParentAttribute(&p.pos); }

template <class EncT>
static bool run_enc(const Case &c, PosAtt &pa, std::vector<int32_t> &corr, std::vector<uint8_t> &bytes) {
  PointAttribute att;
  att.Init(IsTc<EncT>::v ? GeometryAttribute::TEX_COORD : GeometryAttribute::GENERIC, (int8_t)c.nc, DT_INT32, false, c.n());
  EncT enc(&att, WE(), c.md());
  set_parent(enc, pa, std::integral_constant<bool, IsTc<EncT>::v>());
  corr.assign(c.data.size(), 0x5a5a5a5a);
  if (!enc.ComputeCorrectionValues(c.data.data(), corr.data(), c.n() * c.nc, c.nc, pa.e2p.data())) return false;
  EncoderBuffer eb;
  if (!enc.EncodePredictionData(&eb)) return false;
  bytes.assign((const uint8_t *)eb.data(), (const uint8_t *)eb.data() + eb.size());
  return true;
}
template <class DecT>
static bool run_dec(const Case &c, PosAtt &pa, const std::vector<int32_t> &corr, const std::vector<uint8_t> &bytes,
                    std::vector<int32_t> &out, long &left) {
  PointAttribute att;
  att.Init(IsTc<DecT>::v ? GeometryAttribute::TEX_COORD : GeometryAttribute::GENERIC, (int8_t)c.nc, DT_INT32, false, c.n());
  DecT dec(&att, WD(), c.md());
  set_parent(dec, pa, std::integral_constant<bool, IsTc<DecT>::v>());
  DecoderBuffer db;
  db.Init((const char *)bytes.data(), bytes.size());
  db.set_bitstream_version(kDracoMeshBitstreamVersion);
  if (!dec.DecodePredictionData(&db)) return false;
  left = (long)db.remaining_size();
  out.assign(corr.size(), 0x3c3c3c3c);
  return dec.ComputeOriginalValues(corr.data(), out.data(), c.n() * c.nc, c.nc, pa.e2p.data());
}

// read the policy off the prediction data ------------------------------------------------------------
static bool parse_mp_streams(const std::vector<uint8_t> &bytes, std::vector<bool> st[4]) {
  DecoderBuffer db;
  db.Init((const char *)bytes.data(), bytes.size());
  db.set_bitstream_version(kDracoMeshBitstreamVersion);
  for (int i = 0; i < 4; i++) {
    uint32_t nf;
    if (!DecodeVarint<uint32_t>(&nf, &db)) return false;
    st[i].clear();
    if (nf > 0) {
      RAnsBitDecoder d;
      if (!d.StartDecoding(&db)) return false;
      for (uint32_t j = 0; j < nf; j++) st[i].push_back(d.DecodeNextBit());
      d.EndDecoding();
    }
  }
  return true;
}
static std::vector<uint8_t> build_mp_bytes(const std::vector<bool> st[4], const uint32_t count[4], int32_t mn, int32_t mx) {
  EncoderBuffer eb;
  for (int i = 0; i < 4; i++) {
    EncodeVarint<uint32_t>(count[i], &eb);
    if (count[i]) {
      RAnsBitEncoder e; e.StartEncoding();
      for (bool b : st[i]) e.EncodeBit(b);
      e.EndEncoding(&eb);
    }
  }
  eb.Encode(mn); eb.Encode(mx);
  return std::vector<uint8_t>((const uint8_t *)eb.data(), (const uint8_t *)eb.data() + eb.size());
}
static bool parse_tc_orientations(const std::vector<uint8_t> &bytes, std::vector<bool> &ori) {
  DecoderBuffer db;
  db.Init((const char *)bytes.data(), bytes.size());
  db.set_bitstream_version(kDracoMeshBitstreamVersion);
  int32_t n;
  if (!db.Decode(&n) || n < 0) return false;
  RAnsBitDecoder d;
  if (!d.StartDecoding(&db)) return false;
  bool last = true;
  ori.clear();
  for (int i = 0; i < n; i++) { if (!d.DecodeNextBit()) last = !last; ori.push_back(last); }
  d.EndDecoding();
  return true;
}

static std::string flat_bytes(const std::vector<uint8_t> &b) { return hex(b.data(), b.size()); }

// one scheme on one case: encoder case, decoder case, search, hostile decodes
template <class EncT, class DecT>
static void do_scheme(Rng &r, Out &o, const Case &c, const char *kind, bool hostile) {
  PosAtt pa;
  const bool tc = IsTc<EncT>::v;
  const bool mp = std::is_same<EncT, MpE>::value;
  if (tc) pa.init(c); else { pa.e2p.resize(c.n()); for (int e = 0; e < c.n(); e++) pa.e2p[e] = PointIndex(e); }
  std::vector<int32_t> corr; std::vector<uint8_t> bytes;
  const bool ok = run_enc<EncT>(c, pa, corr, bytes);
  std::string lhs = std::string(kind) + " ";
  if (!tc) lhs += S(c.nc) + " ";
  lhs += c.M() + " ";
  if (tc) lhs += join(c.pos) + " ";
  std::string policy;
  std::vector<bool> st[4]; std::vector<bool> ori;
  if (ok && mp) {
    if (!parse_mp_streams(bytes, st)) { o.fail(std::string("pred-parse mp ") + lhs); return; }
    policy = " " + bits(st[0]) + ";" + bits(st[1]) + ";" + bits(st[2]) + ";" + bits(st[3]);
    for (int i = 0; i < 4; i++) { g_cnt[N_MP_FLAGS] += st[i].size(); for (bool b : st[i]) g_cnt[N_MP_USED] += !b; }
  }
  if (ok && tc) {
    if (!parse_tc_orientations(bytes, ori)) { o.fail(std::string("pred-parse tc ") + lhs); return; }
    policy = " " + bits(ori);
    g_cnt[N_TC_ORI] += ori.size();
  }
  if (!ok) {
    g_cnt[N_ENC_FAIL]++;
    // the encoder fails because of the value range (wrap transform) or the tex-coords overflow guards: neither depends
    // on the policy, so the model is asked with an empty policy and must fail too
    o.c(lhs + join(c.data) + (mp ? " -;-;-;-" : tc ? " -" : ""), "fail");
    if (tc) g_cnt[N_TC_FALSE]++;
    return;
  }
  o.c(lhs + join(c.data) + policy, "ok " + join(corr) + " " + flat_bytes(bytes));
  // decode with trailing bytes that do not belong to the block
  std::vector<uint8_t> tail = bytes;
  int extra = (int)r.below(4);
  for (int i = 0; i < extra; i++) tail.push_back((uint8_t)r.below(256));
  std::vector<int32_t> out; long left = -1;
  const bool dok = run_dec<DecT>(c, pa, corr, tail, out, left);
  std::string dl = std::string("d") + kind + " ";
  if (!tc) dl += S(c.nc) + " ";
  dl += c.M() + " ";
  if (tc) dl += join(c.pos) + " ";
  o.c(dl + join(corr) + " " + flat_bytes(tail), dok ? "ok " + join(out) + " " + S(left) : "fail");
  // search: the round trip on the implementation
  bool guard_skip = false;
  if (mp && !dok) {  // outside the contract of the decoder's num_flags guard (only reachable with non-injective maps)?
    for (int i = 0; i < 4; i++) if ((long)st[i].size() > c.ct->num_corners()) guard_skip = true;
  }
  if (tc && !dok && (long)ori.size() > c.ct->num_corners()) guard_skip = true;
  if (guard_skip) { g_cnt[N_GUARD_SKIP]++; o.note(std::string("decoder guard (more flags than corners, map kind ") + S(c.map_kind) + "): " + lhs + join(c.data)); }
  else if (!dok || out != c.data || left != extra)
    o.fail(std::string("pred-roundtrip ") + kind + " mapkind=" + S(c.map_kind) + " " + lhs + join(c.data) + " decoded=" + (dok ? join(out) : std::string("fail")));
  if (!hostile) return;
  // hostile decodes: perturbed corrections, truncated prediction data, flag streams that run out / exceed the guard
  for (int rep = 0; rep < 2; rep++) {
    std::vector<int32_t> hc = corr; std::vector<uint8_t> hb = bytes;
    switch (r.below(mp ? 5 : 3)) {
      case 0: for (int k = 0, m = 1 + (int)r.below(3); k < m && !hc.empty(); k++) hc[r.below(hc.size())] = (int32_t)r.biased(32); break;
      case 1: if (!hb.empty()) hb.resize(r.below(hb.size())); break;
      case 2: if (!hb.empty()) hb[r.below(hb.size())] ^= (uint8_t)(1u << r.below(8)); break;
      case 3: {  // a context stream that runs out (or not: a context that is never read may be short)
        std::vector<bool> s2[4]; uint32_t cnt[4];
        for (int i = 0; i < 4; i++) s2[i] = st[i];
        int i = (int)r.below(4);
        if (!s2[i].empty()) s2[i].resize(s2[i].size() - 1 - r.below(std::min<size_t>(s2[i].size(), 3)));
        for (int k = 0; k < 4; k++) cnt[k] = (uint32_t)s2[k].size();
        int32_t mn, mx; memcpy(&mn, &bytes[bytes.size() - 8], 4); memcpy(&mx, &bytes[bytes.size() - 4], 4);
        hb = build_mp_bytes(s2, cnt, mn, mx);
        break;
      }
      default: {  // num_flags == num_corners (accepted) / num_corners + 1 (rejected)
        std::vector<bool> s2[4]; uint32_t cnt[4];
        for (int i = 0; i < 4; i++) s2[i] = st[i];
        int i = (int)r.below(4);
        size_t target = (size_t)c.ct->num_corners() + (r.chance(50) ? 1 : 0);
        if (target > 400) break;
        while (s2[i].size() < target) s2[i].push_back(r.chance(50));
        s2[i].resize(target);
        for (int k = 0; k < 4; k++) cnt[k] = (uint32_t)s2[k].size();
        int32_t mn, mx; memcpy(&mn, &bytes[bytes.size() - 8], 4); memcpy(&mx, &bytes[bytes.size() - 4], 4);
        hb = build_mp_bytes(s2, cnt, mn, mx);
        break;
      }
    }
    std::vector<int32_t> hout; long hleft = -1;
    const bool hok = run_dec<DecT>(c, pa, hc, hb, hout, hleft);
    g_cnt[N_HOSTILE]++; if (!hok) g_cnt[N_HOSTILE_FAIL]++;
    o.c(dl + join(hc) + " " + flat_bytes(hb), hok ? "ok " + join(hout) + " " + S(hleft) : "fail");
  }
}


// ------------------------------------------------------------------------------------------------ geometric normal
// position of ENTRY e = f(vertex whose entry is e); kinds: 0 random small, 1 random large (normalisation branch),
// 2 curtain (x,y depend on the column only, z on the row only: every face is vertical, the predicted normal has z == 0),
// 3 planar z = const, 4 all positions equal / collinear (zero normal: the (+center,0,0) fallback), 5 random huge
static void gn_positions(Rng &r, Case &c, int kind) {
  const int n = c.n();
  c.pos.assign((size_t)n * 3, 0);
  const CornerTable &ct = *c.ct;
  int maxv = 0; for (int v : c.tris) maxv = std::max(maxv, v);
  int w = 1; while ((w + 1) * (w + 1) <= maxv + 1) w++;
  w = 1 + (int)r.below(w + 2);                                  // a column count (exact for square grids only; any value is fine)
  std::vector<int64_t> fx(64), fy(64), fz(64);
  int64_t lim = kind == 1 ? ((int64_t)1 << (14 + r.below(8))) : kind == 5 ? ((int64_t)1 << 29) - 1 : 1 + (int64_t)r.below(40);
  for (int k = 0; k < 64; k++) { fx[k] = r.range(-lim, lim); fy[k] = r.range(-lim, lim); fz[k] = r.range(-lim, lim); }
  int64_t dir[3] = {r.range(-5, 5), r.range(-5, 5), r.range(-5, 5)};
  for (int v = 0; v < ct.num_vertices() && v < (int)c.v2d.size(); v++) {
    const int e = c.v2d[v];
    if (e < 0 || e >= n) continue;
    const int pv = v <= maxv ? v : (int)ct.VertexParent(VertexIndex(v)).value();
    const int col = (pv % (w + 1)) % 64, row = (pv / (w + 1)) % 64;
    int64_t p[3];
    switch (kind) {
      case 2: p[0] = fx[col]; p[1] = fy[col]; p[2] = fz[row]; break;
      case 3: p[0] = fx[col] + row; p[1] = fy[row] - col; p[2] = 7; break;
      case 4: { int64_t t = r.chance(50) ? 0 : col + 3 * row; p[0] = 3 + t * dir[0]; p[1] = -2 + t * dir[1]; p[2] = t * dir[2]; break; }
      default: p[0] = r.range(-lim, lim); p[1] = r.range(-lim, lim); p[2] = r.range(-lim, lim); break;
    }
    for (int k = 0; k < 3; k++) c.pos[(size_t)e * 3 + k] = (int32_t)p[k];
  }
}
// canonical octahedral coordinates: near the area-weighted normal of the vertex (so that the flip choice matters), or random
static void gn_values(Rng &r, Case &c, int q) {
  OctahedronToolBox tb; tb.SetQuantizationBits(q);
  const int n = c.n();
  const int32_t mx = tb.max_value();
  c.data.assign((size_t)n * 2, 0);
  const CornerTable &ct = *c.ct;
  std::vector<double> nrm((size_t)n * 3, 0.0);
  for (int f = 0; f < ct.num_faces(); f++) {
    int e[3]; bool ok = true;
    for (int k = 0; k < 3; k++) { int v = ct.Vertex(CornerIndex(3 * f + k)).value(); e[k] = v < (int)c.v2d.size() ? c.v2d[v] : -1; if (e[k] < 0 || e[k] >= n) ok = false; }
    if (!ok) continue;
    double a[3], b[3];
    for (int k = 0; k < 3; k++) { a[k] = (double)c.pos[3 * e[1] + k] - c.pos[3 * e[0] + k]; b[k] = (double)c.pos[3 * e[2] + k] - c.pos[3 * e[0] + k]; }
    double cr[3] = {a[1] * b[2] - a[2] * b[1], a[2] * b[0] - a[0] * b[2], a[0] * b[1] - a[1] * b[0]};
    for (int k = 0; k < 3; k++) for (int j = 0; j < 3; j++) nrm[3 * e[k] + j] += cr[j];
  }
  const int mode = (int)r.below(4);
  for (int e = 0; e < n; e++) {
    int32_t s, t;
    if (mode == 0) { s = (int32_t)r.below((uint64_t)mx + 1); t = (int32_t)r.below((uint64_t)mx + 1); }
    else {
      double v[3] = {nrm[3 * e], nrm[3 * e + 1], nrm[3 * e + 2]};
      if (r.chance(25)) for (int k = 0; k < 3; k++) v[k] = -v[k];
      tb.FloatVectorToQuantizedOctahedralCoords(v, &s, &t);
      if (mode >= 2) { int64_t d = mode == 2 ? 1 : 1 + mx / 16; s = (int32_t)std::max<int64_t>(0, std::min<int64_t>(mx, s + r.range(-d, d))); t = (int32_t)std::max<int64_t>(0, std::min<int64_t>(mx, t + r.range(-d, d))); }
    }
    if (r.chance(8)) { int32_t cand[3] = {0, mx, mx / 2}; s = cand[r.below(3)]; if (r.chance(50)) t = cand[r.below(3)]; }
    tb.CanonicalizeOctahedralCoords(s, t, &s, &t);
    c.data[2 * e] = s; c.data[2 * e + 1] = t;
  }
}
static bool gn_run_dec(const Case &c, PosAtt &pa, const std::vector<int32_t> &corr, const std::vector<uint8_t> &bytes,
                       std::vector<int32_t> &out, long &left) {
  PointAttribute att;
  att.Init(GeometryAttribute::NORMAL, 2, DT_INT32, false, c.n());
  GnD dec(&att, OD(), c.md());
  dec.SetParentAttribute(&pa.pos);
  DecoderBuffer db;
  db.Init((const char *)bytes.data(), bytes.size());
  db.set_bitstream_version(kDracoMeshBitstreamVersion);
  if (!dec.DecodePredictionData(&db)) return false;
  out.assign(corr.size(), 0x3c3c3c3c);
  if (!dec.ComputeOriginalValues(corr.data(), out.data(), c.n() * 2, 2, pa.e2p.data())) return false;
  left = (long)db.remaining_size();
  return true;
}
static void do_gn(Rng &r, Out &o, const Case &c, int q, bool hostile) {
  PosAtt pa; pa.init(c);
  PointAttribute att;
  att.Init(GeometryAttribute::NORMAL, 2, DT_INT32, false, c.n());
  GnE enc(&att, OE((int32_t)((1u << q) - 1)), c.md());
  enc.SetParentAttribute(&pa.pos);
  std::vector<int32_t> corr(c.data.size(), 0x5a5a5a5a);
  EncoderBuffer eb;
  const bool ok = enc.ComputeCorrectionValues(c.data.data(), corr.data(), c.n() * 2, 2, pa.e2p.data()) && enc.EncodePredictionData(&eb);
  const std::string lhs = "gn " + S(q) + " " + c.M() + " " + join(c.pos) + " " + join(c.data);
  if (!ok) { o.c(lhs + " -", "fail"); g_cnt[N_ENC_FAIL]++; return; }
  std::vector<uint8_t> bytes((const uint8_t *)eb.data(), (const uint8_t *)eb.data() + eb.size());
  // read the flip bits off the bytes: 8 bytes of transform data, then the RAnsBit block
  std::vector<bool> flips;
  {
    DecoderBuffer db; db.Init((const char *)bytes.data(), bytes.size()); db.set_bitstream_version(kDracoMeshBitstreamVersion);
    int32_t a, b; RAnsBitDecoder d;
    if (!db.Decode(&a) || !db.Decode(&b) || !d.StartDecoding(&db)) { o.fail("pred-parse gn " + lhs); return; }
    for (int e = 0; e < c.n(); e++) flips.push_back(d.DecodeNextBit());
    d.EndDecoding();
  }
  for (bool f : flips) g_cnt[N_GN_FLIPS] += f;
  o.c(lhs + " " + bits(flips), "ok " + join(corr) + " " + flat_bytes(bytes));
  std::vector<uint8_t> tail = bytes;
  const int extra = (int)r.below(4);
  for (int i = 0; i < extra; i++) tail.push_back((uint8_t)r.below(256));
  std::vector<int32_t> out; long left = -1;
  const bool dok = gn_run_dec(c, pa, corr, tail, out, left);
  const std::string dl = "dgn " + c.M() + " " + join(c.pos) + " ";
  o.c(dl + join(corr) + " " + flat_bytes(tail), dok ? "ok " + join(out) + " " + S(left) : "fail");
  if (!dok || out != c.data || left != extra)
    o.fail("pred-roundtrip gn mapkind=" + S(c.map_kind) + " " + lhs + " decoded=" + (dok ? join(out) : std::string("fail")));
  if (!hostile) return;
  for (int rep = 0; rep < 2; rep++) {
    std::vector<int32_t> hc = corr; std::vector<uint8_t> hb = bytes;
    switch (r.below(3)) {
      case 0: for (int k = 0, m = 1 + (int)r.below(3); k < m && !hc.empty(); k++) hc[r.below(hc.size())] = r.chance(50) ? (int32_t)r.biased(32) : (int32_t)r.below((uint64_t)1 << q); break;
      case 1: if (!hb.empty()) hb.resize(r.below(hb.size())); break;
      default: if (!hb.empty()) hb[r.below(hb.size())] ^= (uint8_t)(1u << r.below(8)); break;
    }
    std::vector<int32_t> hout; long hleft = -1;
    const bool hok = gn_run_dec(c, pa, hc, hb, hout, hleft);
    g_cnt[N_HOSTILE]++; if (!hok) g_cnt[N_HOSTILE_FAIL]++;
    o.c(dl + join(hc) + " " + flat_bytes(hb), hok ? "ok " + join(hout) + " " + S(hleft) : "fail");
  }
}

int main(int argc, char **argv) {
  if (argc < 4) { fprintf(stderr, "usage: h_pred <tier> <seed> <outfile>\n"); return 2; }
  const bool thorough = !strcmp(argv[1], "thorough");
  Rng r(strtoull(argv[2], 0, 10));
  Out o(argv[3]);
  const int meshes = thorough ? 8000 : 1200;
  for (int it = 0; it < meshes; it++) {
    Case c;
    c.tris = gen_mesh(r);
    c.ct = build(c.tris);
    if (!c.ct || c.ct->num_corners() == 0) continue;
    c.map_kind = (int)r.below(10);
    if (c.map_kind < 4) { maps_bfs(r, c); c.map_kind = 0; g_cnt[N_MAP_BFS]++; }
    else if (c.map_kind < 8) { maps_rnd(r, c); c.map_kind = 1; g_cnt[N_MAP_RND]++; }
    else { maps_junk(r, c); c.map_kind = 2; g_cnt[N_MAP_JUNK]++; }
    if (c.n() == 0) continue;
    const bool hostile = r.chance(35);
    {  // parallelogram: 1..4 components, full int32 ranges
      c.nc = 1 + (int)r.below(4);
      int mode = (int)r.below(20);
      int64_t lim = (int64_t)1 << (2 + r.below(29));              // up to 2^30: range 2^31 - 2 is the widest the wrap transform takes
      gen_values(r, c, mode < 2 ? 0 : mode < 10 ? 1 : mode < 15 ? 2 : mode < 19 ? 3 : 4, lim);
      do_scheme<ParE, ParD>(r, o, c, "par", hostile); g_cnt[N_PAR]++;
    }
    {  // constrained multi-parallelogram: the encoder's entropy tracker allocates max_symbol + 1 counters: keep |v| small
      c.nc = 1 + (int)r.below(4);
      int mode = (int)r.below(20);
      int64_t lim = (int64_t)1 << (2 + r.below(15));
      gen_values(r, c, mode < 2 ? 0 : mode < 12 ? 1 : mode < 17 ? 2 : 3, lim);
      do_scheme<MpE, MpD>(r, o, c, "mp", hostile); g_cnt[N_MP]++;
    }
    {  // tex coords portable: 2 components, int32 positions of the entries as parent attribute
      c.nc = 2;
      int mode = (int)r.below(20);
      int64_t lim = (int64_t)1 << (2 + r.below(mode == 19 ? 29 : 13));
      gen_values(r, c, mode < 2 ? 0 : mode < 12 ? 1 : mode < 17 ? 2 : 3, lim);
      gen_positions(r, c, (int64_t)1 << (2 + r.below(mode == 18 ? 27 : 12)));
      do_scheme<TcE, TcD>(r, o, c, "tc", hostile); g_cnt[N_TC]++;
    }
    {  // geometric normal: octahedral coordinates with q bits; every vertex-to-data entry must be a valid entry (positions of
       // all neighbours are read): arbitrary maps are clamped into [0, n)
      for (auto &x : c.v2d) if (x >= c.n()) x = c.n() - 1;
      bool valid = true;
      for (int k = 0; k < c.ct->num_corners(); k++) { int v = c.ct->Vertex(CornerIndex(k)).value(); if (c.v2d[v] < 0) valid = false; }
      if (valid) {
        c.nc = 2;
        const int q = 2 + (int)r.below(r.chance(70) ? 12 : 29);
        int kind = (int)r.below(12);
        kind = kind < 3 ? 0 : kind < 5 ? 1 : kind < 8 ? 2 : kind < 9 ? 3 : kind < 11 ? 4 : 5;
        if (kind == 2) g_cnt[N_GN_CURTAIN]++;
        if (kind == 4) g_cnt[N_GN_DEGEN]++;
        gn_positions(r, c, kind);
        gn_values(r, c, q);
        do_gn(r, o, c, q, hostile); g_cnt[N_GN]++;
      }
    }
  }
  // The hypothesis the proofs forced (decoder guards `num_flags > num_corners`, `num_orientations > num_corners`), run on
  // the real code: maps with MORE ENTRIES THAN VERTICES (outside the contract "one entry per vertex").  The encoder
  // succeeds, the decoder rejects the encoder's own output; the model agrees on both (ordinary case lines).
  for (int rep = 0; rep < (thorough ? 40 : 8); rep++) {
    {
      Case c;
      c.tris = closed_surface(1);                       // octahedron: 24 corners, every vertex has 4 parallelograms
      c.ct = build(c.tris);
      int n = 8 + (int)r.below(4);                      // 4 * (n - 1) >= 28 flags in context 3
      c.d2c.assign(n, CornerIndex(0));
      c.v2d.assign(c.ct->num_vertices(), 0);
      c.map_kind = 3; c.nc = 1 + (int)r.below(2);
      gen_values(r, c, 2, 64);
      do_scheme<MpE, MpD>(r, o, c, "mp", false);
    }
    {
      Case c;
      c.tris = {0, 1, 2};                               // 3 corners
      c.ct = build(c.tris);
      int n = 6 + (int)r.below(3);                      // entries 2.. use an orientation: n - 2 > 3
      c.d2c.assign(n, CornerIndex(0));
      c.v2d = {0, 0, 1};
      c.map_kind = 3; c.nc = 2;
      gen_values(r, c, 2, 64);
      c.data[0] = 1; c.data[1] = 2; c.data[2] = 3; c.data[3] = 5;   // uv(0) != uv(1)
      gen_positions(r, c, 64);
      c.pos[0] = 0; c.pos[1] = 0; c.pos[2] = 0; c.pos[3] = 7; c.pos[4] = 1; c.pos[5] = 0;  // pos(0) != pos(1)
      do_scheme<TcE, TcD>(r, o, c, "tc", false);
    }
  }
  char buf[800];
  snprintf(buf, sizeof buf, "counts par=%ld mp=%ld tc=%ld maps_bfs=%ld maps_rnd=%ld maps_junk=%ld mp_flags=%ld mp_used=%ld tc_orientations=%ld "
           "enc_fail=%ld tc_enc_false=%ld hostile=%ld hostile_rejected=%ld guard_skips=%ld gn=%ld gn_flips=%ld gn_curtain=%ld gn_degenerate=%ld",
           g_cnt[N_PAR], g_cnt[N_MP], g_cnt[N_TC], g_cnt[N_MAP_BFS], g_cnt[N_MAP_RND], g_cnt[N_MAP_JUNK], g_cnt[N_MP_FLAGS], g_cnt[N_MP_USED],
           g_cnt[N_TC_ORI], g_cnt[N_ENC_FAIL], g_cnt[N_TC_FALSE], g_cnt[N_HOSTILE], g_cnt[N_HOSTILE_FAIL], g_cnt[N_GUARD_SKIP], g_cnt[N_GN], g_cnt[N_GN_FLIPS], g_cnt[N_GN_CURTAIN], g_cnt[N_GN_DEGEN]);
  o.note(buf);
  return 0;
}
