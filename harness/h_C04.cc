// C04 (and the shared tie of C12): Quantizer / Dequantizer / AttributeQuantizationTransform of /repo
// against the Coq model (bit-exact), plus the end-to-end search of the half-step bound on the real
// Encoder/Decoder.   usage: h_C04 quick|thorough seed [tie] out     ("tie": correspondence cases, fewer end-to-end runs)
#include "quant_common.h"
#include "draco/point_cloud/point_cloud_builder.h"
#include "draco/core/decoder_buffer.h"
#include "draco/core/encoder_buffer.h"

static long n_e2e = 0, n_bound = 0;
static bool g_tie_only = false;   // tie mode: correspondence lines only, the C04 search verdicts are not emitted
static long double worst_excess = -1e30L;

// ---- Quantizer / Dequantizer directly
static void quantizer_case(Out &o, float range, int32_t maxq, float val) {
  float inv = (float)maxq / range;
  std::string lhs = "qf " + U(fbits(range)) + " " + S(maxq) + " " + U(fbits(val));
  if (quantize_would_be_ub(inv, val)) { o.c(lhs, "ub"); return; }
  Quantizer qz; qz.Init(range, maxq);
  o.c(lhs, S(qz.QuantizeFloat(val)));
}
static void quantizer_delta_case(Out &o, float delta, float val) {
  float inv = 1.f / delta;
  std::string lhs = "qfd " + U(fbits(delta)) + " " + U(fbits(val));
  if (quantize_would_be_ub(inv, val)) { o.c(lhs, "ub"); return; }
  Quantizer qz; qz.Init(delta);
  o.c(lhs, S(qz.QuantizeFloat(val)));
}
static void dequantizer_case(Out &o, float range, int32_t maxq, int32_t k) {
  Dequantizer dq;
  std::string lhs = "df " + U(fbits(range)) + " " + S(maxq) + " " + S(k);
  if (!dq.Init(range, maxq)) { o.c(lhs, "fail"); return; }
  o.c(lhs, FB(dq.DequantizeFloat(k)));
}

// ---- ComputeParameters alone (including NaN / Inf rejection)
static void compute_case(Out &o, int q, int nc, const std::vector<float> &flat) {
  auto att = make_float_att(GeometryAttribute::GENERIC, nc, flat);
  AttributeQuantizationTransform t;
  std::string lhs = "cp " + S(q) + " " + S(nc) + " " + join_f(flat);
  if (!t.ComputeParameters(*att, q)) { o.c(lhs, "fail"); return; }
  o.c(lhs, "ok " + qp_str(params_of(t, nc)));
}

// ---- the whole transform: parameters, parameter block, portable attribute, inverse transform
// mode 0: ComputeParameters; mode 1: SetParameters(q, mins, range).  ids: empty = 1:1 overload.
static void transform_case(Out &o, int mode, int q, int nc, const std::vector<float> &mins, float range,
                           const std::vector<uint32_t> &ids, const std::vector<float> &flat) {
  size_t n = flat.size() / nc;
  auto att = make_float_att(GeometryAttribute::GENERIC, nc, flat);
  AttributeQuantizationTransform t;
  std::string lhs = std::string("tf ") + (mode ? "set " : "auto ") + S(q) + " " + S(nc) + " " +
                    (mode ? join_f(mins) : "-") + " " + (mode ? U(fbits(range)) : "0") + " " + join_u(ids) + " " + join_f(flat);
  bool ok = mode ? t.SetParameters(q, mins.data(), nc, range) : t.ComputeParameters(*att, q);
  if (!ok) { o.c(lhs, "fail"); return; }
  QP p = params_of(t, nc);
  // would any conversion be UB?  (only possible with explicit parameters)
  float inv = (float)((1 << p.q) - 1) / p.range;
  std::vector<uint32_t> visit = ids;
  if (visit.empty()) for (size_t i = 0; i < n; i++) visit.push_back((uint32_t)i);
  for (uint32_t i : visit) for (int c = 0; c < nc; c++)
    if (quantize_would_be_ub(inv, flat[(size_t)i * nc + c] - p.mins[c])) { o.c(lhs, "ub"); return; }
  EncoderBuffer eb;
  if (!t.EncodeParameters(&eb)) { o.c(lhs, "encode-parameters-failed"); return; }
  std::string ehex = hex(eb.data(), eb.size());
  // parameter block round trip through DecodeParameters, with a sentinel behind it
  std::vector<char> blk(eb.data(), eb.data() + eb.size()); blk.push_back((char)0x5A);
  DecoderBuffer db; db.Init(blk.data(), blk.size());
  AttributeQuantizationTransform t2;
  std::string dec = "decfail";
  if (!t2.DecodeParameters(*att, &db)) { o.c(lhs, "decode-parameters-failed " + ehex); return; }
  dec = qp_str(params_of(t2, nc)) + " " + S(db.remaining_size());
  auto port = t.InitTransformedAttribute(*att, (int)visit.size());
  std::vector<PointIndex> pids; for (uint32_t i : ids) pids.push_back(PointIndex(i));
  if (!t.TransformAttribute(*att, pids, port.get())) { o.c(lhs, "transform-failed"); return; }
  std::vector<uint32_t> words(visit.size() * nc);
  for (size_t i = 0; i < visit.size(); i++) port->GetValue(AttributeValueIndex((uint32_t)i), &words[i * nc]);
  std::vector<float> zero(visit.size() * nc, 0.f);
  auto dst = make_float_att(GeometryAttribute::GENERIC, nc, zero);
  // the decoder's transform (parameters from the stream) does the inverse
  if (!t2.InverseTransformAttribute(*port, dst.get())) { o.c(lhs, "inverse-failed"); return; }
  std::vector<float> back(visit.size() * nc);
  for (size_t i = 0; i < visit.size(); i++) dst->GetValue(AttributeValueIndex((uint32_t)i), &back[i * nc]);
  o.c(lhs, qp_str(p) + " " + ehex + " " + dec + " " + join_u(words) + " " + join_fobs(back));
  // search: the C04 bound on the class itself (values inside the box only)
  for (size_t k = 0; k < visit.size(); k++) for (int c = 0; c < nc; c++) {
    float x = flat[(size_t)visit[k] * nc + c], mn = p.mins[c], d = back[k * nc + c];
    // inside the box, at float level: x >= min and fl(x - min) <= range (what ComputeParameters guarantees and what
    // the real-number box min <= x <= min + range implies; fl(min + range) >= x would be weaker and is NOT enough)
    volatile float xm = x - mn;
    if (!(x >= mn && xm <= p.range) || !std::isfinite(p.range) || !(p.range > 0)) continue;
    long double mag = std::max(fabsl((long double)x), std::max(fabsl((long double)mn), (long double)p.range));
    if (mag > 4e9L || (mag < 1e-7L)) continue;   // outside the property's magnitude window
    if (p.range < 1e-7f) continue;
    long double ex; n_bound++;
    bool okb = within_bound(d, x, mn, p.range, p.q, &ex);
    if (ex > worst_excess) worst_excess = ex;
    // the stored integer stays in 0 .. 2^q-1+slack, slack = 2^(q-21) (0 up to 20 bits): C04_quant_in_range
    int64_t kk = (int64_t)(int32_t)words[k * nc + c], Mq = (1ll << p.q) - 1, slack = p.q <= 20 ? 0 : (1ll << (p.q - 21));
    if (g_tie_only) continue;
    if (kk < 0 || kk > Mq + slack)
      o.fail("C04-index-range class x=" + U(fbits(x)) + " min=" + U(fbits(mn)) + " range=" + U(fbits(p.range)) + " q=" + S(p.q) + " k=" + S(kk));
    if (!okb || !within_box(d, x, mn, p.range, p.q))
      o.fail("C04-bound class x=" + U(fbits(x)) + " min=" + U(fbits(mn)) + " range=" + U(fbits(p.range)) + " q=" + S(p.q) +
             " decoded=" + U(fbits(d)) + " excess_ulps=" + std::to_string((double)ex));
  }
}

// ---- malformed / arbitrary parameter blocks through DecodeParameters
static void decode_params_case(Out &o, int nc, const std::vector<uint8_t> &bytes) {
  std::vector<float> z(nc, 0.f);
  auto att = make_float_att(GeometryAttribute::GENERIC, nc, z);
  DecoderBuffer db; db.Init((const char *)bytes.data(), bytes.size());
  AttributeQuantizationTransform t;
  std::string lhs = "dp " + S(nc) + " " + hex(bytes.data(), bytes.size());
  if (!t.DecodeParameters(*att, &db)) { o.c(lhs, "fail"); return; }
  QP p = params_of(t, nc);
  std::string s = S(p.q);
  for (float m : p.mins) s += " " + U(fbits(m));   // raw bits: NaN payloads must survive
  o.c(lhs, "ok " + s + " " + U(fbits(p.range)) + " " + S(db.remaining_size()));
}

// values sitting at / next to the .5 rounding boundaries of the quantizer for parameters (mn, range, q)
static void add_boundary_values(Gen &G, std::vector<float> &col, float mn, float range, int q, int count) {
  double M = (double)((1ll << q) - 1);
  for (int i = 0; i < count; i++) {
    long long k = (long long)G.r.below((uint64_t)M + 1);
    if (G.r.chance(20)) k = G.r.chance(50) ? 0 : (long long)M - 1;
    if (k >= (long long)M) k = (long long)M - 1;
    if (k < 0) k = 0;
    float x = (float)((double)mn + ((double)k + 0.5) * (double)range / M);
    int steps = (int)G.r.range(-3, 3);
    for (int s = 0; s < std::abs(steps); s++) x = nextafterf(x, steps > 0 ? INFINITY : -INFINITY);
    if (x < mn) x = mn;
    if (x > mn + range) x = mn + range;
    col.push_back(x);
  }
}

// ---- end to end: the real Encoder/Decoder
static bool g_force_raw = false;
// kd-tree point clouds with 17 or more components in total (position + several 2-component float attributes), >= 64 points, low speeds:
// the coder must fall back from the level that stores a 4-bit split axis; one attribute far down the list has by far the largest spread,
// so its components are the preferred split axes.  Points are matched through a lossless uint32 id attribute.
static void kd_wide_cases(Out &o, Gen &G, int count) {
  Rng &r = G.r;
  for (int k = 0; k < count; k++) {
    const int n = (int)r.range(64, 140), extra = (int)r.range(7, 9), q = (int)r.range(6, 14), speed = (int)r.range(0, 4);
    PointCloudBuilder pb; pb.Start(n); const int pos = pb.AddAttribute(GeometryAttribute::POSITION, 3, DT_FLOAT32); std::vector<int> ga(extra);
    for (int a = 0; a < extra; a++) ga[a] = pb.AddAttribute(GeometryAttribute::GENERIC, 2, DT_FLOAT32); const int idatt = pb.AddAttribute(GeometryAttribute::GENERIC, 1, DT_UINT32);
    std::vector<std::vector<float>> vals(n, std::vector<float>(3 + 2 * extra));
    for (int i = 0; i < n; i++) { for (int c = 0; c < 3 + 2 * extra; c++) { const bool skew = c >= 3 + 2 * (extra - 1); vals[i][c] = skew ? (float)r.range(0, 100000) / 7.f : (float)r.range(0, 1000) / 16.f; }
      pb.SetAttributeValueForPoint(pos, PointIndex(i), &vals[i][0]); for (int a = 0; a < extra; a++) pb.SetAttributeValueForPoint(ga[a], PointIndex(i), &vals[i][3 + 2 * a]); uint32_t id = (uint32_t)i; pb.SetAttributeValueForPoint(idatt, PointIndex(i), &id); }
    auto pc = pb.Finalize(false); if (!pc) continue;
    Encoder enc; enc.SetEncodingMethod(POINT_CLOUD_KD_TREE_ENCODING); enc.SetSpeedOptions(speed, speed); enc.SetAttributeQuantization(GeometryAttribute::POSITION, q); enc.SetAttributeQuantization(GeometryAttribute::GENERIC, q);
    const std::string id = "kd-wide n=" + S(n) + " components=" + S(3 + 2 * extra) + "+id q=" + S(q) + " speed=" + S(speed);
    EncoderBuffer eb; if (!enc.EncodePointCloudToBuffer(*pc, &eb).ok()) { o.note("encode failed: " + id); continue; }
    DecoderBuffer db; db.Init(eb.data(), eb.size()); Decoder dec; auto res = dec.DecodePointCloudFromBuffer(&db);
    if (!res.ok()) { o.fail("C04-e2e encode ok but decode failed: " + id); continue; }
    const PointCloud &out = *res.value(); n_e2e++;
    if ((int)out.num_points() != n || out.num_attributes() != 2 + extra) { o.fail("C04-e2e point / attribute count changed: " + id); continue; }
    const PointAttribute *ida = out.attribute(1 + extra); bool bad = false;
    for (int a = 0; a <= extra && !bad; a++) { const PointAttribute *oa = out.attribute(a); const int nc = a == 0 ? 3 : 2, off = a == 0 ? 0 : 3 + 2 * (a - 1);
      float lo[3], hi[3], range = 0; for (int c = 0; c < nc; c++) { lo[c] = hi[c] = vals[0][off + c]; for (int i = 0; i < n; i++) { lo[c] = std::min(lo[c], vals[i][off + c]); hi[c] = std::max(hi[c], vals[i][off + c]); } range = std::max(range, hi[c] - lo[c]); }
      const double step = (double)range / (double)((1ll << q) - 1);
      for (PointIndex p(0); p < out.num_points() && !bad; ++p) { uint32_t pid = 0; ida->GetMappedValue(p, &pid); if (pid >= (uint32_t)n) { o.fail("C04-e2e id attribute (lossless) changed: " + id); bad = true; break; }
        float v[3]; oa->GetMappedValue(p, v); for (int c = 0; c < nc; c++) { const double err = std::fabs((double)v[c] - (double)vals[pid][off + c]); n_bound++;
          if (!(err <= step / 2 + 8 * 1.1920929e-7 * std::max<double>(std::fabs(vals[pid][off + c]), range))) { o.fail("C04-bound e2e " + id + " attribute " + S(a) + " component " + S(c) + ": error " + std::to_string(err) + " > half step " + std::to_string(step / 2)); bad = true; break; } } } }
  }
}
static void e2e_case(Out &o, Gen &G, int method, int q, int n_target, int style, bool explicit_range) {
  bool mesh = method >= M_MESH_SEQ;
  int nc = mesh ? 3 : (int)G.r.range(1, 4);
  Geo g = make_geo(G, n_target, mesh, nc, style);
  // the FIRST value (or the second, or the last) alone carries the extreme of component 0: loops that scan values for a range or a bit
  // length must look at every element, including the ends
  if (g.n() >= 3 && G.r.chance(20)) { float lo = g.flat[0], hi = g.flat[0]; for (int i = 0; i < g.n(); i++) { lo = std::min(lo, g.flat[(size_t)i * nc]); hi = std::max(hi, g.flat[(size_t)i * nc]); }
    if (std::isfinite(lo) && std::isfinite(hi) && hi > lo) { int who = (int)G.r.below(3); int idx = who == 0 ? 0 : (who == 1 ? 1 : g.n() - 1); bool top = G.r.chance(70);
      for (int i = 0; i < g.n(); i++) { float &v = g.flat[(size_t)i * nc]; v = top ? lo + (v - lo) * 0.4f : hi - (hi - v) * 0.4f; } g.flat[(size_t)idx * nc] = top ? hi : lo; } }
  int speed = (int)G.r.range(0, 10);
  std::vector<float> origin(nc); float range = 0;
  if (explicit_range) {
    // a box that contains the data, with origin/range exactly representable in six decimals (clear of D13)
    float lo = g.flat[0], hi = g.flat[0];
    for (float v : g.flat) { lo = std::min(lo, v); hi = std::max(hi, v); }
    if (!(std::fabs(lo) < 30000.f && std::fabs(hi) < 30000.f)) explicit_range = false;
    else {
      float o0 = std::floor(lo) - (float)G.r.below(3);
      for (int c = 0; c < nc; c++) origin[c] = o0;
      range = std::ceil(hi - o0) + 1.f + (float)G.r.below(4) * 0.5f;
    }
  }
  g_enc_builtin_compression = !G.r.chance(20) && !g_force_raw; g_enc_position_prediction = G.r.chance(15) ? (int)PREDICTION_NONE : -1;   // raw value bytes / no prediction
  Decoded d = encode_decode(g, method, speed, q, explicit_range ? origin.data() : nullptr, range);
  std::string id = std::string(method_name(method)) + " speed=" + S(speed) + " q=" + S(q) + " nc=" + S(nc) + " n=" + S(g.n()) +
                   (explicit_range ? " explicit" : " auto") + (g_enc_builtin_compression ? "" : " raw-values") + (g_enc_position_prediction == -1 ? "" : " no-prediction");
  g_enc_builtin_compression = true; g_enc_position_prediction = -1;
  if (!d.ok) {
    // Edgebreaker refuses a mesh whose triangles are all degenerate by position value: not a quantization matter
    if (method == M_MESH_EB && d.err.find("degenerate") != std::string::npos) { o.note("skipped (all triangles degenerate): " + id); return; }
    o.fail("C04-e2e " + id + " " + d.err + " values=" + join_f(g.flat)); return;
  }
  n_e2e++;
  if (explicit_range && (d.p.range != range || d.p.mins != origin || d.p.q != q))
    o.fail("C04-e2e explicit parameters not the ones in the stream: " + id + " stream=" + qp_str(d.p));
  // (1) the decoder's dequantization loop (kd-tree: its own loop) against the model, bit-exact
  o.c(std::string("e2e ") + (method == M_PC_KD ? "kd " : "seq ") + qp_str(d.p) + " " + S(nc) + " " + join_u(d.words), join_fobs(d.vals));
  // (2) the decoded integers are the quantization of the original values (as a set of rows)
  // (Edgebreaker drops faces that are degenerate by position value, and with them possibly vertices: when the
  //  input has coinciding positions only inclusion is required of it.)
  std::set<Row> orig = row_set_bits(g.flat, nc);
  bool may_drop = method == M_MESH_EB && orig.size() < g.n();
  if (!may_drop) o.c("e2q " + qp_str(d.p) + " " + S(nc) + " " + rows_str(orig), rows_str(row_set_u(d.words, nc)));
  // (3) search: decoded set = { class requant(x) } and the bound for every original value
  std::set<Row> expect, got = row_set_bits(d.vals, nc);
  for (size_t i = 0; i < g.n(); i++) {
    std::vector<uint32_t> w; std::vector<float> e;
    if (!class_requant_row(d.p, &g.flat[i * nc], nc, &w, &e)) { o.fail("C04-e2e requant impossible " + id); return; }
    Row r(nc); for (int c = 0; c < nc; c++) r[c] = fbits(e[c]); expect.insert(r);
    for (int c = 0; c < nc; c++) {
      float x = g.flat[i * nc + c]; long double ex; n_bound++;
      bool okb = within_bound(e[c], x, d.p.mins[c], d.p.range, d.p.q, &ex);
      if (ex > worst_excess) worst_excess = ex;
      if (!g_tie_only && (!okb || !within_box(e[c], x, d.p.mins[c], d.p.range, d.p.q)))
        o.fail("C04-bound e2e " + id + " x=" + U(fbits(x)) + " min=" + U(fbits(d.p.mins[c])) + " range=" + U(fbits(d.p.range)) +
               " decoded=" + U(fbits(e[c])) + " excess_ulps=" + std::to_string((double)ex));
    }
  }
  bool sets_ok = may_drop ? (!got.empty() && std::includes(expect.begin(), expect.end(), got.begin(), got.end())) : expect == got;
  if (!sets_ok)
    o.fail("C04-e2e decoded values are not deq(quant(x)) of the originals: " + id + " params=" + qp_str(d.p) +
           " originals=" + join_f(g.flat) + " decoded=" + rows_str(got) + " expected=" + rows_str(expect));
}

int main(int argc, char **argv) {
  if (argc < 4) { fprintf(stderr, "usage: h_C04 quick|thorough seed [tie] out\n"); return 2; }
  bool thorough = !strcmp(argv[1], "thorough");
  bool tie_only = argc > 4 && !strcmp(argv[3], "tie");
  g_tie_only = tie_only;
  Rng r(strtoull(argv[2], 0, 10));
  Gen G(r);
  Out o(argv[argc - 1]);
  o.note("C04 tier=" + std::string(argv[1]) + " seed=" + argv[2] + (tie_only ? " tie-only" : ""));

  // 1. Quantizer / Dequantizer
  int n1 = thorough ? 200000 : 12000;
  for (int i = 0; i < n1; i++) {
    int q = G.bits(); int32_t maxq = (int32_t)((1u << q) - 1);
    if (r.chance(3)) maxq = (int32_t)r.range(-2, 2);
    if (r.chance(2)) maxq = (int32_t)r.biased(32);
    float range = G.magnitude();
    if (r.chance(2)) range = r.chance(50) ? 0.f : -range;
    float val = range * (float)(G.u01() * 1.02 - 0.01);
    if (r.chance(10)) {   // at a .5 boundary
      double k = std::floor(G.u01() * (double)maxq);
      val = (float)((k + 0.5) * (double)range / (double)maxq);
      int st = (int)r.range(-2, 2); for (int s = 0; s < std::abs(st); s++) val = nextafterf(val, st > 0 ? INFINITY : -INFINITY);
    }
    if (r.chance(2)) val = -val * 3.f;
    if (r.chance(1)) val = bitsf((uint32_t)r.next());
    quantizer_case(o, range, maxq, val);
    if (i % 4 == 0) quantizer_delta_case(o, range / 1000.f * (float)G.u01() + (r.chance(5) ? 0.f : 1e-9f), val);
    int32_t k = (int32_t)r.below((uint64_t)(maxq > 0 ? maxq : 1) + 2);
    if (r.chance(10)) k = (int32_t)r.biased(32);
    if (r.chance(10)) k = maxq;
    dequantizer_case(o, range, maxq, k);
  }
  // q = 1..30, k = 0, 1, 2^q-2, 2^q-1, 2^q (slack), mid
  for (int q = 1; q <= 30; q++) for (int j = 0; j < 6; j++) {
    int32_t M = (int32_t)((1u << q) - 1);
    int64_t ks[6] = {0, 1, (int64_t)M - 1, M, (int64_t)M + 1, M / 2};
    float range = G.magnitude();
    dequantizer_case(o, range, M, (int32_t)ks[j]);
    quantizer_case(o, range, M, range); quantizer_case(o, range, M, 0.f); quantizer_case(o, range, M, nextafterf(range, 0.f));
  }

  // 2. ComputeParameters including NaN/Inf and overflowing extents
  int n2 = thorough ? 30000 : 2500;
  for (int i = 0; i < n2; i++) {
    int nc = (int)r.range(1, 4), n = (int)r.range(1, 12), q = G.bits();
    if (r.chance(4)) q = (int)r.range(-1, 33);
    std::vector<float> flat = G.rows(n, nc);
    if (r.chance(25)) { size_t j = r.below(flat.size());
      switch (r.below(5)) { case 0: flat[j] = NAN; break; case 1: flat[j] = INFINITY; break; case 2: flat[j] = -INFINITY; break;
        case 3: flat[j] = 3.0e38f; flat[r.below(flat.size())] = -3.0e38f; break; default: flat[0] = NAN; break; } }
    compute_case(o, q, nc, flat);
  }

  // an attribute without values: ComputeParameters must fail (fix of D12), for every component count / bit count
  for (int nc = 1; nc <= 4; nc++) for (int q : {1, 11, 30, 0, 31}) {
    compute_case(o, q, nc, {});
    std::vector<uint32_t> no_ids;
    transform_case(o, 0, q, nc, {}, 0.f, no_ids, {});
  }

  // 3. whole transform, automatic and explicit parameters, with .5-boundary values from the parameters
  int n3 = thorough ? 40000 : 3000;
  for (int i = 0; i < n3; i++) {
    int nc = (int)r.range(1, 4), n = (int)r.range(1, 14), q = (i < 60) ? 1 + (i % 30) : G.bits();
    int style = r.chance(15) ? 3 : (r.chance(25) ? 2 : -1);
    std::vector<float> flat = G.rows(n, nc, style);
    // derive the parameters the library would compute, to aim extra values at rounding boundaries
    {
      auto att = make_float_att(GeometryAttribute::GENERIC, nc, flat);
      AttributeQuantizationTransform t;
      if (t.ComputeParameters(*att, q)) {
        int extra = (int)r.range(1, 4);
        std::vector<std::vector<float>> cols(nc);
        for (int c = 0; c < nc; c++) {
          // boundaries are placed inside this component's own extent so that min/max/range are unchanged
          float lo = flat[c], hi = flat[c];
          for (int k = 0; k < n; k++) { lo = std::min(lo, flat[(size_t)k * nc + c]); hi = std::max(hi, flat[(size_t)k * nc + c]); }
          add_boundary_values(G, cols[c], t.min_value(c), t.range(), q, extra);
          for (float &v : cols[c]) { if (v < lo) v = lo; if (v > hi) v = hi; }
        }
        for (int e = 0; e < extra; e++) for (int c = 0; c < nc; c++) flat.push_back(cols[c][e]);
        n += extra;
      }
    }
    std::vector<uint32_t> ids;
    if (r.chance(35)) { int m = (int)r.range(1, 16); for (int k = 0; k < m; k++) ids.push_back((uint32_t)r.below(n)); }
    if (r.chance(55)) transform_case(o, 0, q, nc, {}, 0.f, ids, flat);
    else {
      // explicit parameters: a box around the data (sometimes too small: values outside the box)
      std::vector<float> mins(nc); float range = 0;
      for (int c = 0; c < nc; c++) {
        float lo = flat[c], hi = flat[c];
        for (int k = 0; k < n; k++) { lo = std::min(lo, flat[(size_t)k * nc + c]); hi = std::max(hi, flat[(size_t)k * nc + c]); }
        mins[c] = r.chance(50) ? lo : lo - std::fabs(lo) * (float)G.u01() * 0.1f - (float)G.u01() * (hi - lo);
        range = std::max(range, hi - mins[c]);
      }
      if (range == 0.f) range = 1.f;
      if (r.chance(50)) range *= (float)(1.0 + G.u01());
      if (r.chance(8)) range *= 0.5f;          // values outside the box
      if (r.chance(3)) q = (int)r.range(-1, 33);  // invalid bit counts are rejected
      transform_case(o, 1, q, nc, mins, range, ids, flat);
    }
  }

  // 4. arbitrary parameter blocks
  int n4 = thorough ? 20000 : 2000;
  for (int i = 0; i < n4; i++) {
    int nc = (int)r.range(1, 4);
    size_t len = 4 * (size_t)nc + 5;
    std::vector<uint8_t> b(len); for (auto &x : b) x = (uint8_t)r.next();
    b[len - 1] = (uint8_t)r.range(0, 34); if (r.chance(5)) b[len - 1] = (uint8_t)r.next();
    if (r.chance(30)) b.resize(r.below(len)); else if (r.chance(40)) { int ex = (int)r.range(1, 5); for (int k = 0; k < ex; k++) b.push_back((uint8_t)r.next()); }
    decode_params_case(o, nc, b);
  }

  // 5. end to end on the real Encoder / Decoder
  int n5 = thorough ? 8000 : 500;
  if (tie_only) n5 = thorough ? 400 : 40;
  for (int i = 0; i < n5; i++) {
    int method = i % 4;
    int q = (int)r.range(1, 22);
    int n = (int)r.range(1, thorough ? 120 : 50);
    int style = r.chance(12) ? 3 : (r.chance(20) ? 2 : -1);
    e2e_case(o, G, method, q, n, style, r.chance(35));
  }
  // the kd-tree path at high bit counts (no symbol coder involved, cheap): for q >= 24 the float quantizer can return 2^q for the
  // maximum of the range, one bit more than the quantization bits
  if (!tie_only) for (int q = 23; q <= 30; q++) for (int k = 0; k < (thorough ? 6 : 2); k++) e2e_case(o, G, M_PC_KD, q, (int)r.range(2, 40), -1, false);
  // raw (not entropy-coded) values of every byte width incl. 4 bytes (q >= 25), every method that has the raw path
  if (!tie_only) for (int q : {9, 17, 25, 27, 30}) for (int method : {(int)M_PC_SEQ, (int)M_MESH_SEQ, (int)M_MESH_EB}) { g_force_raw = true; e2e_case(o, G, method, q, (int)r.range(3, 30), -1, false); g_force_raw = false; }
  if (!tie_only) kd_wide_cases(o, G, thorough ? 12 : 4);
  if (thorough && !tie_only) for (int q = 23; q <= 26; q++) for (int method = 0; method < 4; method++)
    e2e_case(o, G, method, q, 12, -1, false);

  o.note("e2e_encodes=" + S(n_e2e) + " bound_evaluations=" + S(n_bound) + " worst_excess_over_half_step_in_ulps=" + std::to_string((double)worst_excess));
  fprintf(stderr, "h_C04: %ld cases, %ld direct failures, %ld e2e encodes, worst excess %.3f ulp\n", o.cases, o.fails, n_e2e, (double)worst_excess);
  return 0;
}
