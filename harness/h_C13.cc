// C13 correspondence + search harness: CornerTable::Create of /repo against the Coq model, and the four
// clauses of the property checked directly on the implementation's table ("!" lines).
//   case line:  ct <v0,v1,v2,...> | nv=<n> c2v=<..> opp=<..> lmc=<..> par=<..> deg=<n> iso=<n>     (-1 = invalid)
#include "common.h"
#include <algorithm>
#include <array>
#include <set>
#include "draco/mesh/corner_table.h"
using namespace draco;

typedef std::vector<int> Tris;  // flat list of vertex ids, 3 per face

static std::string join(const std::vector<long> &v) {
  if (v.empty()) return "-";
  std::string s;
  char b[24];
  for (size_t i = 0; i < v.size(); i++) { snprintf(b, sizeof b, i ? ",%ld" : "%ld", v[i]); s += b; }
  return s;
}
static std::string lhs_of(const Tris &t) {
  std::vector<long> v(t.begin(), t.end());
  return "ct " + join(v);
}
static long ci(CornerIndex c) { return c == kInvalidCornerIndex ? -1 : (long)c.value(); }

static std::unique_ptr<CornerTable> build(const Tris &t) {
  IndexTypeVector<FaceIndex, CornerTable::FaceType> faces;
  for (size_t i = 0; i + 2 < t.size(); i += 3) {
    CornerTable::FaceType f = {{VertexIndex(t[i]), VertexIndex(t[i + 1]), VertexIndex(t[i + 2])}};
    faces.push_back(f);
  }
  return CornerTable::Create(faces);
}

static std::string result_of(const CornerTable &ct) {
  const int n = ct.num_corners(), nv = ct.num_vertices();
  std::vector<long> c2v(n), opp(n), lmc(nv), par;
  for (int c = 0; c < n; c++) { c2v[c] = ct.Vertex(CornerIndex(c)).value(); opp[c] = ci(ct.Opposite(CornerIndex(c))); }
  for (int v = 0; v < nv; v++) lmc[v] = ci(ct.LeftMostCorner(VertexIndex(v)));
  for (int v = ct.NumOriginalVertices(); v < nv; v++) par.push_back(ct.VertexParent(VertexIndex(v)).value());
  return "nv=" + S(nv) + " c2v=" + join(c2v) + " opp=" + join(opp) + " lmc=" + join(lmc) + " par=" + join(par) +
         " deg=" + S(ct.NumDegeneratedFaces()) + " iso=" + S(ct.NumIsolatedVertices());
}

// The four clauses on the implementation's table; "" if all hold.
static std::string check_clauses(const Tris &t, const CornerTable &ct) {
  const int n = (int)t.size(), nf = n / 3;
  if (ct.num_corners() != n) return "num_corners";
  const int nv = ct.num_vertices(), no = ct.NumOriginalVertices();
  auto C = [](int c) { return CornerIndex(c); };
  auto inval = kInvalidCornerIndex;
  std::vector<char> degen(nf);
  int ndeg = 0;
  for (int f = 0; f < nf; f++) {
    degen[f] = t[3*f] == t[3*f+1] || t[3*f] == t[3*f+2] || t[3*f+1] == t[3*f+2];
    ndeg += degen[f];
    if ((bool)degen[f] != ct.IsDegenerated(FaceIndex(f))) return "IsDegenerated(" + S(f) + ") differs from the input face";
  }
  if (ndeg != ct.NumDegeneratedFaces()) return "num_degenerated_faces";
  int maxv = -1;
  for (int x : t) maxv = std::max(maxv, x);
  if (no != maxv + 1) return "num_original_vertices";
  for (int v = no; v < nv; v++) if ((int)ct.VertexParent(VertexIndex(v)).value() >= no) return "parent of new vertex " + S(v) + " is not an original vertex";
  for (int c = 0; c < n; c++) {
    const int v = ct.Vertex(C(c)).value();
    if (v < 0 || v >= nv) return "corner " + S(c) + " maps to vertex out of range";
    // clause 3: the corner maps, through the parent relation, to the input vertex id
    if ((int)ct.VertexParent(VertexIndex(v)).value() != t[c]) return "clause3 vertex_parent_maps_back corner " + S(c);
    if (degen[c / 3] && v != t[c]) return "clause3 degenerate face corner rewritten " + S(c);
    const CornerIndex o = ct.Opposite(C(c));
    if (o == inval) continue;
    if ((int)o.value() >= n) return "opposite out of range at corner " + S(c);
    // clause 2
    if (degen[c / 3]) return "clause2 degenerate_unlinked corner " + S(c);
    // clause 1
    if (ct.Opposite(o) != C(c) || o == C(c)) return "clause1 opp_symmetric corner " + S(c);
    if (ct.Vertex(ct.Next(C(c))) != ct.Vertex(ct.Previous(o)) || ct.Vertex(ct.Previous(C(c))) != ct.Vertex(ct.Next(o)))
      return "clause1 opp_shared_edge_opposed corner " + S(c);
    if (t[ct.Next(C(c)).value()] != t[ct.Previous(o).value()] || t[ct.Previous(C(c)).value()] != t[ct.Next(o).value()])
      return "clause1 opp_shared_edge_opposed (input ids) corner " + S(c);
    if (t[c] == t[o.value()] || ct.Vertex(C(c)) == ct.Vertex(o)) return "clause1 mirrored faces connected at corner " + S(c);
  }
  // clause 4: one fan per vertex, reachable from the representative by SwingRight; left-most on open fans
  std::vector<int> mark(n, -1);
  int iso = 0;
  for (int v = 0; v < nv; v++) {
    const CornerIndex l = ct.LeftMostCorner(VertexIndex(v));
    if (l == inval) { iso++; continue; }
    if ((int)l.value() >= n) return "LeftMostCorner out of range v=" + S(v);
    CornerIndex x = l;
    int steps = 0;
    bool open = false;
    do {
      if ((int)ct.Vertex(x).value() != v) return "clause4 fan of vertex " + S(v) + " reaches corner " + S(x.value()) + " of another vertex";
      if (mark[x.value()] != -1) return "clause4 corner " + S(x.value()) + " reached twice";
      mark[x.value()] = v;
      x = ct.SwingRight(x);
      if (++steps > n) return "clause4 swing does not terminate v=" + S(v);
      if (x == inval) open = true;
    } while (x != inval && x != l);
    if (open && ct.SwingLeft(l) != inval) return "clause4 representative of open fan is not left-most v=" + S(v);
  }
  for (int c = 0; c < n; c++) {
    if (degen[c / 3]) { if (mark[c] != -1) return "clause4 degenerate corner in a fan " + S(c); continue; }
    if (mark[c] != (int)ct.Vertex(C(c)).value()) return "clause4 single_fan corner " + S(c) + " not reachable from LeftMostCorner of its vertex";
  }
  if (iso != ct.NumIsolatedVertices()) return "num_isolated_vertices";
  return "";
}

struct Stats { long corr = 0, search = 0, with_nm_vertex = 0, with_degenerate = 0, with_links = 0, with_unlinked_nondeg = 0; };
static Stats st;

// watchdog: a construction / fan walk that does not terminate is reported with the list that caused it
#include <signal.h>
#include <unistd.h>
static const Tris *g_current_list = nullptr; static Out *g_out = nullptr;
static void on_alarm(int) {
  if (g_out && g_out->f) { fprintf(g_out->f, "! corner table construction or fan walk did not terminate (10 s): %s\n", (g_current_list ? lhs_of(*g_current_list) : std::string("?")).c_str()); fflush(g_out->f); }
  _exit(0);   // the '!' line is the result; the remaining lists are not explored in this run
}
// run one list: always search; correspondence line only if [corr]
static void one(Out &o, const Tris &t, bool corr) {
  g_out = &o; g_current_list = &t; if ((st.search & 1023) == 0) { signal(SIGALRM, on_alarm); alarm(10); }
  std::unique_ptr<CornerTable> ct = build(t);
  st.search++;
  if (!ct) { o.fail("Create returned null: " + lhs_of(t)); return; }
  std::string e = check_clauses(t, *ct);
  if (!e.empty() && o.fails < 40) o.fail(e + ": " + lhs_of(t));
  if (ct->NumNewVertices() > 0) st.with_nm_vertex++;
  if (ct->NumDegeneratedFaces() > 0) st.with_degenerate++;
  bool links = false;
  for (int c = 0; c < ct->num_corners(); c++) if (ct->Opposite(CornerIndex(c)) != kInvalidCornerIndex) { links = true; break; }
  st.with_links += links;
  if (corr) { o.c(lhs_of(t), result_of(*ct)); st.corr++; }
}

// ---- generators -------------------------------------------------------------------------------------
static void tri_of(int code, int *out) { out[0] = code / 25; out[1] = (code / 5) % 5; out[2] = code % 5; }
static Tris list_of(const std::vector<int> &codes) {
  Tris t(codes.size() * 3);
  for (size_t i = 0; i < codes.size(); i++) tri_of(codes[i], &t[3 * i]);
  return t;
}

// random larger lists biased to shared edges with >2 faces, bow-ties, repeated/mirrored/degenerate faces
static Tris random_list(Rng &r) {
  int nv = (int)r.range(3, 12);
  int nf = r.chance(50) ? (int)r.range(1, 12) : (int)r.range(1, 60);
  Tris t;
  auto push = [&](int a, int b, int c) { t.push_back(a); t.push_back(b); t.push_back(c); };
  int mode = (int)r.below(6);
  if (mode == 0) {
    // wheels around a pivot whose ring revisits vertices (the 1,2,3,1,4 fold of BreakNonManifoldEdges' comment)
    int wheels = (int)r.range(1, 3);
    for (int w = 0; w < wheels; w++) {
      int p = (int)r.below(nv), len = (int)r.range(2, 9);
      std::vector<int> ring;
      for (int i = 0; i < len; i++) ring.push_back((int)r.below(nv));
      bool closed = r.chance(50), flip = r.chance(30);
      for (int i = 0; i + 1 < len || (closed && i < len); i++) {
        int a = ring[i], b = ring[(i + 1) % len];
        if (flip) push(p, b, a); else push(p, a, b);
      }
    }
  } else if (mode == 1) {
    // fans sharing one edge (edge with many incident faces), both orientations
    int a = (int)r.below(nv), b = (int)r.below(nv);
    int k = (int)r.range(2, 7);
    for (int i = 0; i < k; i++) { int x = (int)r.below(nv); if (r.chance(50)) push(a, b, x); else push(b, a, x); }
  }
  while ((int)t.size() / 3 < nf) {
    int cur = (int)t.size() / 3;
    int k = (int)r.below(10);
    if (cur == 0 || k < 3) { push((int)r.below(nv), (int)r.below(nv), (int)r.below(nv)); continue; }
    int f = (int)r.below(cur);
    int a = t[3*f], b = t[3*f+1], c = t[3*f+2];
    int e = (int)r.below(3);
    int p = e == 0 ? a : e == 1 ? b : c, q = e == 0 ? b : e == 1 ? c : a;
    int x = (int)r.below(nv);
    switch (k) {
      case 3: push(q, p, x); break;                       // properly glued neighbour
      case 4: push(p, q, x); break;                       // same direction: cannot be glued to f
      case 5: push(a, b, c); break;                       // repeated face
      case 6: push(a, c, b); break;                       // mirrored face
      case 7: push(b, c, a); break;                       // rotated copy
      case 8: { int d = (int)r.below(3); if (d == 0) push(p, p, q); else if (d == 1) push(p, q, p); else push(p, p, p); break; }  // degenerate
      default: { int y = (int)r.below(nv); push(p, x, y); break; }   // bow-tie: shares only a vertex
    }
  }
  // face order matters for the matching: shuffle sometimes; rotate faces sometimes
  if (r.chance(50)) {
    int n = (int)t.size() / 3;
    for (int i = n - 1; i > 0; i--) { int j = (int)r.below(i + 1); for (int k = 0; k < 3; k++) std::swap(t[3*i+k], t[3*j+k]); }
  }
  if (r.chance(30)) for (size_t f = 0; f < t.size() / 3; f++) if (r.chance(50)) { int a = t[3*f]; t[3*f] = t[3*f+1]; t[3*f+1] = t[3*f+2]; t[3*f+2] = a; }
  return t;
}

int main(int argc, char **argv) {
  if (argc < 4) { fprintf(stderr, "usage: h_C13 quick|thorough seed out\n"); return 2; }
  bool thorough = !strcmp(argv[1], "thorough");
  Rng r(strtoull(argv[2], 0, 10));
  Out o(argv[3]);
  o.note("C13 tier=" + std::string(argv[1]) + " seed=" + argv[2]);
  // hand-made: empty, one triangle, bow-tie, edge shared by three faces, the fold of the source comment
  one(o, {}, true);
  one(o, {0,1,2, 0,3,4}, true);
  one(o, {0,1,2, 1,0,3, 0,1,4}, true);
  one(o, {0,1,2, 0,2,3, 0,3,1, 0,1,4}, true);
  one(o, {0,1,2, 2,1,0}, true);
  one(o, {0,0,1, 0,1,2, 2,1,3}, true);
  // exhaustive: all lists of <= 2 triangles over 5 vertex ids
  for (int a = 0; a < 125; a++) one(o, list_of({a}), true);
  for (int a = 0; a < 125; a++) for (int b = 0; b < 125; b++) one(o, list_of({a, b}), true);
  // all 3-lists: search always; correspondence for all (thorough) or a seeded sample (quick)
  const int corr3_every = thorough ? 1 : 10;   // quick: ~195k of the 1.95M
  {
    long idx = 0; long phase = (long)r.below(corr3_every);
    for (int a = 0; a < 125; a++) for (int b = 0; b < 125; b++) for (int c = 0; c < 125; c++, idx++)
      one(o, list_of({a, b, c}), (idx % corr3_every) == phase || (!thorough && r.below(400) == 0));
  }
  // 4-lists reduced by the vertex-relabelling symmetry: first triangle in canonical form
  {
    static const int canon[5] = {0 /*000*/, 1 /*001*/, 5 /*010*/, 6 /*011*/, 7 /*012*/};
    if (thorough) {
      for (int k = 0; k < 5; k++) for (int b = 0; b < 125; b++) for (int c = 0; c < 125; c++) for (int d = 0; d < 125; d++)
        one(o, list_of({canon[k], b, c, d}), r.below(40) == 0);
    } else {
      for (int i = 0; i < 1500000; i++)
        one(o, list_of({canon[r.below(5)], (int)r.below(125), (int)r.below(125), (int)r.below(125)}), i % 100 == 0);
    }
  }
  // random larger lists
  {
    long n = thorough ? 2000000 : 300000, every = thorough ? 20 : 60;
    for (long i = 0; i < n; i++) one(o, random_list(r), i % every == 0);
  }
  o.note("lists searched (clauses checked on the implementation)=" + S(st.search) + " correspondence cases=" + S(st.corr) +
         " with_split_vertices=" + S(st.with_nm_vertex) + " with_degenerate_faces=" + S(st.with_degenerate) + " with_links=" + S(st.with_links));
  fprintf(stderr, "h_C13: %ld lists searched, %ld cases, %ld direct failures\n", st.search, o.cases, o.fails);
  return 0;
}
