// C10 search on the real library for ALL methods (sequential, kd-tree, Edgebreaker): decode every stream twice, normally
// and with a random subset of attribute types skipped.  Oracles, no tolerances:
//   * point / face / attribute counts, unique ids and the faces themselves are identical,
//   * every attribute whose type is not skipped is byte-identical (type, components, every mapped value),
//   * a skipped attribute that the ordinary decode returns as float32 and the skipping decode returns as integers MUST carry
//     transform data; InitFromAttribute + InverseTransformAttribute on exactly what the decoder exposed reproduces the
//     ordinary decode bit for bit (quantization and octahedron transforms),
//   * a skipped attribute without a transform (plain integer / unquantized float) is byte-identical.
//   h_c10 <tier> <seed> <out>
#include "geo_gen.h"
#include <dirent.h>
#include <fstream>
#include <iterator>
#include "draco/attributes/attribute_octahedron_transform.h"
#include "draco/attributes/attribute_quantization_transform.h"

static long n_skipped_q = 0, n_skipped_o = 0, n_unskipped = 0, n_skipped_plain = 0;

static void check_skip(Out &o, const char *data, size_t size, bool mesh, const std::vector<int> &skip, const std::string &gt) {
  auto dec = [&](bool sk) -> std::unique_ptr<PointCloud> {
    DecoderBuffer db; db.Init(data, size); Decoder d;
    if (sk) for (int t : skip) d.SetSkipAttributeTransform((GeometryAttribute::Type)t);
    if (mesh) { auto r = d.DecodeMeshFromBuffer(&db); if (!r.ok()) return nullptr; return std::unique_ptr<PointCloud>(std::move(r).value().release()); }
    auto r = d.DecodePointCloudFromBuffer(&db); if (!r.ok()) return nullptr; return std::move(r).value();
  };
  std::unique_ptr<PointCloud> a = dec(false), b = dec(true);
  if (!a) { o.fail("C10/C01 ordinary decode of an encoder-produced stream failed: " + gt); return; }
  if (!b) { o.fail("C10 decode succeeds normally but fails with skipped transforms: " + gt); return; }
  if (a->num_points() != b->num_points() || a->num_attributes() != b->num_attributes()) { o.fail("C10 skip changed point/attribute count: " + gt); return; }
  if (mesh) { const Mesh *ma = static_cast<Mesh *>(a.get()), *mb = static_cast<Mesh *>(b.get()); if (ma->num_faces() != mb->num_faces()) { o.fail("C10 skip changed faces: " + gt); return; }
    for (FaceIndex f(0); f < ma->num_faces(); ++f) for (int j = 0; j < 3; j++) if (ma->face(f)[j] != mb->face(f)[j]) { o.fail("C10 skip changed faces: " + gt); return; } }
  for (int i = 0; i < a->num_attributes(); i++) {
    const PointAttribute *pa = a->attribute(i); const PointAttribute *pb = b->attribute(i);
    const std::string an = " (attribute " + S(i) + " type " + S((int)pa->attribute_type()) + ")";
    // (old streams may give several attributes the same unique id: the id must resolve to the same attribute index in both decodes)
    if (pa->unique_id() != pb->unique_id() || a->GetAttributeIdByUniqueId(pa->unique_id()) != b->GetAttributeIdByUniqueId(pa->unique_id())) { o.fail("C10 attribute not under its original unique id under skip" + an + ": " + gt); return; }
    if (pa->attribute_type() != pb->attribute_type()) { o.fail("C10 attribute changed its type under skip" + an + ": " + gt); return; }
    bool skipped = false; for (int t : skip) if (t == (int)pa->attribute_type()) skipped = true;
    { bool badmap = !pb->is_mapping_identity() && pb->indices_map_size() != b->num_points();   // structural validity of what the skipping decode returned (C03)
      for (PointIndex p(0); p < b->num_points() && !badmap; ++p) if (pb->mapped_index(p).value() >= pb->size()) badmap = true;
      if (badmap) { o.fail("C10 skipping decode returns an attribute whose points map to missing values" + an + ": " + gt); return; } }
    const AttributeTransformData *td = pb->GetAttributeTransformData();
    const bool exposed = skipped && pa->data_type() == DT_FLOAT32 && pb->data_type() != DT_FLOAT32;   // integer data handed out in place of floats
    if (skipped && !exposed && pa->data_type() != pb->data_type() && pa->data_type() != DT_FLOAT32 && pa->data_type() != DT_FLOAT64 && pb->data_type() == DT_INT32 && pa->num_components() == pb->num_components()) {
      // a skipped integer attribute is handed out in its int32 portable form (no transform to describe): same numbers
      std::vector<int64_t> x(pa->num_components()), y(pb->num_components()); bool bad = false;
      for (PointIndex p(0); p < a->num_points() && !bad; ++p) { pa->ConvertValue<int64_t>(pa->mapped_index(p), pa->num_components(), x.data()); pb->ConvertValue<int64_t>(pb->mapped_index(p), pb->num_components(), y.data());
        for (int c = 0; c < pa->num_components(); c++) { int64_t xv = x[c]; if (pa->data_type() == DT_UINT32) xv = (int64_t)(int32_t)(uint32_t)xv; if (xv != y[c]) bad = true; } }
      if (bad) { o.fail("C10 skipped integer attribute exposes different numbers" + an + ": " + gt); return; }
      n_skipped_plain++; continue;
    }
    if (!exposed) {
      if (pa->data_type() != pb->data_type() || pa->num_components() != pb->num_components() || pa->byte_stride() != pb->byte_stride()) { o.fail(std::string("C10 ") + (skipped ? "skipped untransformed" : "unskipped") + " attribute changed type" + an + ": " + gt); return; }
      std::vector<uint8_t> x(pa->byte_stride()), y(pb->byte_stride());
      for (PointIndex p(0); p < a->num_points(); ++p) { pa->GetMappedValue(p, x.data()); pb->GetMappedValue(p, y.data()); if (x != y) { o.fail(std::string("C10 ") + (skipped ? "skipped untransformed" : "unskipped") + " attribute changed value" + an + ": " + gt); return; } }
      if (skipped) n_skipped_plain++; else n_unskipped++;
      continue;
    }
    if (!td) { o.fail("C10 skipped attribute exposed as integers without a transform description" + an + ": " + gt); return; }
    PointAttribute out;
    if (td->transform_type() == ATTRIBUTE_OCTAHEDRON_TRANSFORM) {
      AttributeOctahedronTransform ot; if (!ot.InitFromAttribute(*pb)) { o.fail("C10 transform data unusable" + an + ": " + gt); return; }
      out.Init(pa->attribute_type(), 3, DT_FLOAT32, false, pb->size());
      if (!ot.InverseTransformAttribute(*pb, &out)) { o.fail("C10 inverse transform failed" + an + ": " + gt); return; }
      n_skipped_o++;
    } else if (td->transform_type() == ATTRIBUTE_QUANTIZATION_TRANSFORM) {
      AttributeQuantizationTransform qt; if (!qt.InitFromAttribute(*pb)) { o.fail("C10 transform data unusable" + an + ": " + gt); return; }
      out.Init(pa->attribute_type(), pa->num_components(), DT_FLOAT32, false, pb->size());
      if (!qt.InverseTransformAttribute(*pb, &out)) { o.fail("C10 inverse transform failed" + an + ": " + gt); return; }
      n_skipped_q++;
    } else { o.fail("C10 unknown transform type" + an + ": " + gt); return; }
    if (out.byte_stride() != pa->byte_stride()) { o.fail("C10 described transform yields another shape than the normal decode" + an + ": " + gt); return; }
    std::vector<uint8_t> x(pa->byte_stride()), y(out.byte_stride());
    for (PointIndex p(0); p < a->num_points(); ++p) { pa->GetMappedValue(p, x.data()); out.GetValue(pb->mapped_index(p), y.data());
      if (x != y) { o.fail("C10 re-applied transform differs from the normal decode" + an + " point " + S(p.value()) + ": " + gt); return; } }
  }
}

static std::vector<int> gen_skip(Rng &r) {
  static const int types[] = {GeometryAttribute::POSITION, GeometryAttribute::NORMAL, GeometryAttribute::COLOR, GeometryAttribute::TEX_COORD, GeometryAttribute::GENERIC};
  std::vector<int> s; int mask = (int)r.range(1, 31); for (int i = 0; i < 5; i++) if (mask >> i & 1) s.push_back(types[i]); return s;
}
static std::string skn(const std::vector<int> &s) { std::string t; for (int x : s) t += (t.empty() ? "" : ",") + S(x); return t; }

int main(int argc, char **argv) {
  if (argc < 4) { fprintf(stderr, "usage: h_c10 quick|thorough seed out\n"); return 2; }
  bool thorough = !strcmp(argv[1], "thorough"); Rng r(strtoull(argv[2], 0, 10)); Out o(argv[3]);
  long streams = 0, decodes = 0, enc_failed = 0; std::map<std::string, long> paths;
  int nm = thorough ? 12000 : 700;
  for (int i = 0; i < nm; i++) {
    GenInfo gi; auto m = gen_mesh(r, i % 6, gi); if (!m) continue;
    for (int k = 0; k < 3; k++) {
      Encoder e; int method = r.chance(75) ? MESH_EDGEBREAKER_ENCODING : MESH_SEQUENTIAL_ENCODING, speed = (int)r.below(11), sub = r.chance(50) ? MESH_EDGEBREAKER_VALENCE_ENCODING : MESH_EDGEBREAKER_STANDARD_ENCODING;
      e.SetEncodingMethod(method); e.SetSpeedOptions(speed, speed); if (method == MESH_EDGEBREAKER_ENCODING) e.options().SetGlobalInt("edgebreaker_method", sub);
      e.SetAttributeQuantization(GeometryAttribute::POSITION, (int)r.range(6, 16)); e.SetAttributeQuantization(GeometryAttribute::TEX_COORD, r.chance(15) ? 0 : (int)r.range(6, 13)); e.SetAttributeQuantization(GeometryAttribute::NORMAL, (int)r.range(3, 12));
      if (r.chance(20)) e.SetAttributePredictionScheme(GeometryAttribute::NORMAL, PREDICTION_DIFFERENCE);
      EncoderBuffer b; if (!e.EncodeMeshToBuffer(*m, &b).ok()) { enc_failed++; continue; }
      streams++; paths[method == MESH_EDGEBREAKER_ENCODING ? (sub == MESH_EDGEBREAKER_VALENCE_ENCODING ? "eb-valence" : "eb-standard") : "mesh-sequential"]++;
      for (int j = 0; j < 2; j++) { auto sk = gen_skip(r); decodes++;
        check_skip(o, b.data(), b.size(), true, sk, "mesh method=" + S(method) + " speed=" + S(speed) + " sub=" + S(sub) + " skip={" + skn(sk) + "} geo#" + S(i) + "." + S(k) + " seed=" + argv[2]); }
    }
  }
  int np = thorough ? 12000 : 900;
  for (int i = 0; i < np; i++) {
    GenInfo gi; auto p = gen_pc(r, gi, true); if (!p) continue;
    for (int k = 0; k < 2; k++) {
      int method = r.chance(65) ? POINT_CLOUD_KD_TREE_ENCODING : POINT_CLOUD_SEQUENTIAL_ENCODING, speed = (int)r.below(11);
      Encoder e; e.SetEncodingMethod(method); e.SetSpeedOptions(speed, speed);
      e.SetAttributeQuantization(GeometryAttribute::POSITION, (int)r.range(6, 16)); e.SetAttributeQuantization(GeometryAttribute::TEX_COORD, (int)r.range(6, 13)); e.SetAttributeQuantization(GeometryAttribute::NORMAL, (int)r.range(3, 12)); e.SetAttributeQuantization(GeometryAttribute::GENERIC, (int)r.range(4, 14));
      EncoderBuffer b; if (!e.EncodePointCloudToBuffer(*p, &b).ok()) { enc_failed++; continue; }
      streams++; paths[method == POINT_CLOUD_KD_TREE_ENCODING ? "pc-kdtree" : "pc-sequential"]++;
      for (int j = 0; j < 3; j++) { auto sk = gen_skip(r); decodes++;
        check_skip(o, b.data(), b.size(), false, sk, "pc method=" + S(method) + " speed=" + S(speed) + " skip={" + skn(sk) + "} pc#" + S(i) + "." + S(k) + " seed=" + argv[2]); }
    }
  }
  // every stream of the frozen corpus (legacy bitstream versions 1.1 .. 2.2 included: the decoders keep separate branches for them)
  { const char *dir = getenv("C10_CORPUS"); std::string dd = dir ? dir : "/verif/corpus/C05"; std::vector<std::string> names;
    if (DIR *dp = opendir(dd.c_str())) { while (dirent *e = readdir(dp)) { std::string n = e->d_name; if (n.size() > 4 && n.substr(n.size() - 4) == ".drc") names.push_back(n); } closedir(dp); }
    std::sort(names.begin(), names.end());
    for (auto &n : names) { std::ifstream f(dd + "/" + n, std::ios::binary); std::vector<char> b((std::istreambuf_iterator<char>(f)), std::istreambuf_iterator<char>());
      if (b.size() < 11 || b.size() > 400000) continue; const bool mesh = b[7] == 1; const bool legacy = !(b[5] == 2 && b[6] >= 2);
      if (!legacy && !thorough && (std::hash<std::string>()(n) % 4) != 0) continue;   // quick: all legacy streams, a quarter of the current-version ones
      streams++; paths[legacy ? "corpus-legacy" : "corpus-current"]++;
      std::vector<std::vector<int>> sks = {{GeometryAttribute::POSITION}, {GeometryAttribute::NORMAL}, {GeometryAttribute::POSITION, GeometryAttribute::NORMAL, GeometryAttribute::TEX_COORD, GeometryAttribute::GENERIC, GeometryAttribute::COLOR}, gen_skip(r)};
      for (auto &sk : sks) { decodes++; check_skip(o, b.data(), b.size(), mesh, sk, std::string("corpus ") + n + " v" + S((int)b[5]) + "." + S((int)b[6]) + " skip={" + skn(sk) + "}"); } } }
  std::string ps; for (auto &kv : paths) ps += " " + kv.first + "=" + S(kv.second);
  o.note("STATS streams=" + S(streams) + " skip_decodes=" + S(decodes) + " encode_failures=" + S(enc_failed) + " attributes: skipped+requantized=" + S(n_skipped_q) + " skipped+octahedron=" + S(n_skipped_o) +
         " skipped_untransformed=" + S(n_skipped_plain) + " unskipped_compared=" + S(n_unskipped) + " paths:" + ps);
  fprintf(stderr, "h_c10: %ld streams, %ld skip decodes, %ld failures\n", streams, decodes, o.fails);
  return 0;
}
