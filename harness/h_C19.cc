// C19 search harness (built with -fsanitize=thread against the tsan build of /repo's current tree).
//
//   h_C19 <quick|thorough|hunt> <seed> <outfile>
//
// 1. Builds a pool of jobs (different meshes / point clouds / animations, both mesh methods,
//    sequential and kd-tree point clouds, speeds 0..10, quantization settings, Encoder and
//    ExpertEncoder, all four Decoder entry points, truncated streams) and runs every job ALONE
//    (single thread, before any other thread exists) to get its expected result: the exact bytes
//    of the encoding (+ encoded point/face counts), or a canonical byte dump of the decoded
//    geometry (+ status text).
// 2. Rounds with N = 2..16 threads.  Every thread owns its Encoder/Decoder, buffers and
//    geometry (built by the main thread before the start barrier); modes: "same" (N different
//    jobs of one kind), "mixed" (N random jobs), "ident" (N private copies of the SAME job: the
//    threads walk exactly the same code path at the same time).  Every repetition's result is
//    compared byte for byte with the job's result alone.
// Any difference is written as a '!' line.  Data races are reported by ThreadSanitizer itself
// (the check runs this with TSAN_OPTIONS=halt_on_error=1 exitcode=66); the '# round' line flushed
// before each round says what was running.
// Which interleavings occur is up to the OS scheduler (plus seed-derived start staggering); this is
// a search, not a proof.
#include "common.h"

#include <atomic>
#include <memory>
#include <thread>

#include "draco/animation/keyframe_animation.h"
#include "draco/animation/keyframe_animation_decoder.h"
#include "draco/animation/keyframe_animation_encoder.h"
#include "draco/attributes/geometry_attribute.h"
#include "draco/attributes/point_attribute.h"
#include "draco/compression/decode.h"
#include "draco/compression/encode.h"
#include "draco/compression/expert_encode.h"
#include "draco/core/decoder_buffer.h"
#include "draco/core/encoder_buffer.h"
#include "draco/mesh/mesh.h"
#include "draco/point_cloud/point_cloud.h"

using namespace draco;

// ----------------------------------------------------------------------------- job description
enum Kind { ENC_MESH, ENC_PC, XENC_MESH, XENC_PC, DEC_MESH, DEC_PC, DEC_GEOM_MESH, DEC_GEOM_PC, DEC_TRUNC, ANIM, NKINDS };
static const char *kind_name[] = {"enc_mesh", "enc_pc", "xenc_mesh", "xenc_pc", "dec_mesh", "dec_pc",
                                  "dec_geom_mesh", "dec_geom_pc", "dec_trunc", "anim"};

struct Spec {
  Kind kind;
  uint64_t gseed;     // geometry seed
  int shape;          // mesh: 0 grid, 1 grid with holes, 2 triangle soup; pc: 0 floats, 1 floats+ints
  int w, h;           // grid size / point count = w*h
  int attrs;          // bit0 normals, bit1 texcoords, bit2 generic int32
  int method;         // mesh: 0 sequential 1 edgebreaker; pc: 0 sequential 1 kd-tree
  int speed_e, speed_d;
  int qpos, qnrm, qtex;  // quantization bits (0 = none)
  int pred;           // -1 default, else prediction scheme for POSITION
  int skip;           // decoder: skip attribute transform for POSITION
  int trunc_pm;       // DEC_TRUNC: keep this many per mille of the stream
  std::string desc() const {
    char b[256];
    snprintf(b, sizeof b, "%s g=%llu shape=%d %dx%d attrs=%d method=%d speed=%d/%d q=%d,%d,%d pred=%d skip=%d trunc=%d",
             kind_name[kind], (unsigned long long)gseed, shape, w, h, attrs, method, speed_e, speed_d, qpos, qnrm, qtex,
             pred, skip, trunc_pm);
    return b;
  }
};

static bool is_mesh_kind(Kind k) { return k == ENC_MESH || k == XENC_MESH || k == DEC_MESH || k == DEC_GEOM_MESH; }

// ----------------------------------------------------------------------------- geometry builders
static int add_attr(PointCloud *pc, GeometryAttribute::Type t, int comps, DataType dt, int n) {
  GeometryAttribute ga;
  ga.Init(t, nullptr, comps, dt, false, DataTypeLength(dt) * comps, 0);
  return pc->AddAttribute(ga, true, n);
}

static void fill_attributes(PointCloud *pc, const Spec &s, int n, Rng &r) {
  pc->set_num_points(n);
  const int pos = add_attr(pc, GeometryAttribute::POSITION, 3, DT_FLOAT32, n);
  for (int i = 0; i < n; i++) {
    float v[3];
    if (s.w > 0 && (s.shape == 0 || s.shape == 1) && is_mesh_kind(s.kind)) {
      v[0] = float(i % s.w) + 0.25f * float(r.below(1000)) / 1000.f;
      v[1] = float(i / s.w) + 0.25f * float(r.below(1000)) / 1000.f;
      v[2] = float(r.below(4000)) / 1000.f;
    } else {
      for (int c = 0; c < 3; c++) v[c] = float(int64_t(r.below(200001)) - 100000) / 37.f;
    }
    pc->attribute(pos)->SetAttributeValue(AttributeValueIndex(i), v);
  }
  if (s.attrs & 1) {
    const int a = add_attr(pc, GeometryAttribute::NORMAL, 3, DT_FLOAT32, n);
    for (int i = 0; i < n; i++) {
      float v[3] = {float(int(r.below(201)) - 100), float(int(r.below(201)) - 100), float(int(r.below(201)) - 100)};
      float l = std::sqrt(v[0] * v[0] + v[1] * v[1] + v[2] * v[2]);
      if (l == 0) { v[2] = 1; l = 1; }
      v[0] /= l; v[1] /= l; v[2] /= l;
      pc->attribute(a)->SetAttributeValue(AttributeValueIndex(i), v);
    }
  }
  if (s.attrs & 2) {
    const int a = add_attr(pc, GeometryAttribute::TEX_COORD, 2, DT_FLOAT32, n);
    for (int i = 0; i < n; i++) {
      float v[2] = {float(r.below(4097)) / 4096.f, float(r.below(4097)) / 4096.f};
      pc->attribute(a)->SetAttributeValue(AttributeValueIndex(i), v);
    }
  }
  if (s.attrs & 4) {
    const int a = add_attr(pc, GeometryAttribute::GENERIC, 2, DT_INT32, n);
    for (int i = 0; i < n; i++) {
      int32_t v[2] = {int32_t(r.below(2001)) - 1000, int32_t(r.below(65536))};
      pc->attribute(a)->SetAttributeValue(AttributeValueIndex(i), v);
    }
  }
}

static std::unique_ptr<Mesh> build_mesh(const Spec &s) {
  Rng r(s.gseed);
  std::unique_ptr<Mesh> m(new Mesh());
  const int n = s.w * s.h;
  fill_attributes(m.get(), s, n, r);
  auto face = [&](int a, int b, int c) {
    Mesh::Face f; f[0] = PointIndex(a); f[1] = PointIndex(b); f[2] = PointIndex(c);
    m->AddFace(f);
  };
  if (s.shape == 2) {  // triangle soup over the points (non-manifold in general), distinct corners
    const int nf = n + int(r.below(n));
    for (int i = 0; i < nf; i++) {
      int a = int(r.below(n)), b = int(r.below(n)), c = int(r.below(n));
      if (a == b || b == c || a == c) { a = i % n; b = (i + 1) % n; c = (i + 2) % n; }
      face(a, b, c);
    }
  } else {
    for (int y = 0; y + 1 < s.h; y++)
      for (int x = 0; x + 1 < s.w; x++) {
        if (s.shape == 1 && r.chance(12)) continue;  // hole
        const int i = y * s.w + x;
        face(i, i + 1, i + s.w);
        face(i + 1, i + s.w + 1, i + s.w);
      }
    if (m->num_faces() == 0) face(0, 1, s.w);
  }
  return m;
}

static std::unique_ptr<PointCloud> build_pc(const Spec &s) {
  Rng r(s.gseed);
  std::unique_ptr<PointCloud> pc(new PointCloud());
  fill_attributes(pc.get(), s, s.w * s.h, r);
  return pc;
}

static void build_anim(const Spec &s, KeyframeAnimation *a) {
  Rng r(s.gseed);
  const int n = s.w * s.h;
  std::vector<float> ts(n), k3(3 * n), k4(4 * n);
  for (int i = 0; i < n; i++) ts[i] = float(i) * 0.04f;
  for (auto &v : k3) v = float(int(r.below(2001)) - 1000) / 16.f;
  for (auto &v : k4) v = float(int(r.below(2001)) - 1000) / 1000.f;
  a->SetTimestamps(ts);
  a->AddKeyframes(DT_FLOAT32, 3, k3);
  if (s.attrs & 1) a->AddKeyframes(DT_FLOAT32, 4, k4);
}

// ----------------------------------------------------------------------------- canonical results
static void put(std::string &o, const void *p, size_t n) { o.append((const char *)p, n); }
template <typename T> static void putv(std::string &o, T v) { put(o, &v, sizeof v); }

static void dump_pc(std::string &o, const PointCloud &pc) {
  putv<uint32_t>(o, pc.num_points());
  putv<int32_t>(o, pc.num_attributes());
  for (int a = 0; a < pc.num_attributes(); a++) {
    const PointAttribute *att = pc.attribute(a);
    putv<int32_t>(o, (int)att->attribute_type());
    putv<int32_t>(o, (int)att->data_type());
    putv<int32_t>(o, att->num_components());
    putv<uint8_t>(o, att->normalized());
    putv<uint32_t>(o, att->unique_id());
    putv<uint64_t>(o, att->size());
    putv<uint8_t>(o, att->is_mapping_identity());
    for (uint32_t p = 0; p < pc.num_points(); p++) putv<uint32_t>(o, att->mapped_index(PointIndex(p)).value());
    if (att->buffer() && att->size() > 0) put(o, att->buffer()->data(), std::min<size_t>(att->buffer()->data_size(), (size_t)att->byte_stride() * att->size()));
  }
}
static void dump_mesh(std::string &o, const Mesh &m) {
  putv<uint32_t>(o, m.num_faces());
  for (uint32_t f = 0; f < m.num_faces(); f++)
    for (int c = 0; c < 3; c++) putv<uint32_t>(o, m.face(FaceIndex(f))[c].value());
  dump_pc(o, m);
}
static void put_status(std::string &o, const Status &st) {
  o += st.ok() ? "OK;" : "ERR:";
  if (!st.ok()) { o += st.error_msg_string(); o += ';'; }
}

static uint64_t fnv(const std::string &s) {
  uint64_t h = 1469598103934665603ull;
  for (unsigned char c : s) { h ^= c; h *= 1099511628211ull; }
  return h;
}

// ----------------------------------------------------------------------------- an instance = one thread's private world
struct Instance {
  Spec s;
  int job = -1;
  std::unique_ptr<Mesh> mesh;
  std::unique_ptr<PointCloud> pc;
  std::unique_ptr<KeyframeAnimation> anim;
  std::vector<char> bytes;  // decoder input (private copy)
};

static void configure(Encoder &e, const Spec &s) {
  e.SetSpeedOptions(s.speed_e, s.speed_d);
  if (s.qpos) e.SetAttributeQuantization(GeometryAttribute::POSITION, s.qpos);
  if (s.qnrm) e.SetAttributeQuantization(GeometryAttribute::NORMAL, s.qnrm);
  if (s.qtex) e.SetAttributeQuantization(GeometryAttribute::TEX_COORD, s.qtex);
  if (s.pred >= 0) e.SetAttributePredictionScheme(GeometryAttribute::POSITION, s.pred);
  if (s.method >= 0) e.SetEncodingMethod(s.method);
  e.SetTrackEncodedProperties(true);
}
static void configure(ExpertEncoder &e, const Spec &s, const PointCloud &pc) {
  e.SetSpeedOptions(s.speed_e, s.speed_d);
  for (int a = 0; a < pc.num_attributes(); a++) {
    const auto t = pc.attribute(a)->attribute_type();
    const int q = t == GeometryAttribute::POSITION ? s.qpos : t == GeometryAttribute::NORMAL ? s.qnrm : t == GeometryAttribute::TEX_COORD ? s.qtex : 0;
    if (q) e.SetAttributeQuantization(a, q);
  }
  if (s.pred >= 0) e.SetAttributePredictionScheme(0, s.pred);
  if (s.method >= 0) e.SetEncodingMethod(s.method);
  e.SetTrackEncodedProperties(true);
}

// The codec call(s) of a job on the instance's own objects; returns the canonical result.
static std::string exec(Instance &in) {
  const Spec &s = in.s;
  std::string o;
  switch (s.kind) {
    case ENC_MESH: case ENC_PC: {
      Encoder e; configure(e, s);
      EncoderBuffer eb;
      Status st = s.kind == ENC_MESH ? e.EncodeMeshToBuffer(*in.mesh, &eb) : e.EncodePointCloudToBuffer(*in.pc, &eb);
      put_status(o, st);
      putv<uint64_t>(o, e.num_encoded_points()); putv<uint64_t>(o, e.num_encoded_faces());
      put(o, eb.data(), eb.size());
      break;
    }
    case XENC_MESH: case XENC_PC: {
      EncoderBuffer eb;
      Status st;
      size_t np, nf;
      if (s.kind == XENC_MESH) { ExpertEncoder e(*in.mesh); configure(e, s, *in.mesh); st = e.EncodeToBuffer(&eb); np = e.num_encoded_points(); nf = e.num_encoded_faces(); }
      else { ExpertEncoder e(*in.pc); configure(e, s, *in.pc); st = e.EncodeToBuffer(&eb); np = e.num_encoded_points(); nf = e.num_encoded_faces(); }
      put_status(o, st);
      putv<uint64_t>(o, np); putv<uint64_t>(o, nf);
      put(o, eb.data(), eb.size());
      break;
    }
    case DEC_MESH: case DEC_PC: case DEC_TRUNC: {
      DecoderBuffer db; db.Init(in.bytes.data(), in.bytes.size());
      auto t = Decoder::GetEncodedGeometryType(&db);
      o += t.ok() ? "T" + S((int)t.value()) + ";" : std::string("T?;");
      Decoder d;
      if (s.skip) d.SetSkipAttributeTransform(GeometryAttribute::POSITION);
      const bool as_mesh = t.ok() ? t.value() == TRIANGULAR_MESH : s.kind == DEC_MESH;
      if (as_mesh) {
        auto r = d.DecodeMeshFromBuffer(&db);
        put_status(o, r.status());
        if (r.ok()) dump_mesh(o, *r.value());
      } else {
        auto r = d.DecodePointCloudFromBuffer(&db);
        put_status(o, r.status());
        if (r.ok()) dump_pc(o, *r.value());
      }
      putv<int64_t>(o, db.remaining_size());
      break;
    }
    case DEC_GEOM_MESH: {
      DecoderBuffer db; db.Init(in.bytes.data(), in.bytes.size());
      Decoder d; Mesh out;
      Status st = d.DecodeBufferToGeometry(&db, &out);
      put_status(o, st);
      if (st.ok()) dump_mesh(o, out);
      break;
    }
    case DEC_GEOM_PC: {
      DecoderBuffer db; db.Init(in.bytes.data(), in.bytes.size());
      Decoder d; PointCloud out;
      Status st = d.DecodeBufferToGeometry(&db, &out);
      put_status(o, st);
      if (st.ok()) dump_pc(o, out);
      break;
    }
    case ANIM: {
      KeyframeAnimationEncoder ke;
      EncoderOptions eo = EncoderOptions::CreateDefaultOptions();
      eo.SetSpeed(s.speed_e, s.speed_d);
      if (s.qpos) for (int a = 0; a < in.anim->num_attributes(); a++) eo.SetAttributeInt(a, "quantization_bits", s.qpos);
      EncoderBuffer eb;
      Status st = ke.EncodeKeyframeAnimation(*in.anim, eo, &eb);
      put_status(o, st);
      put(o, eb.data(), eb.size());
      if (st.ok()) {
        KeyframeAnimationDecoder kd;
        DecoderBuffer db; db.Init(eb.data(), eb.size());
        DecoderOptions dop; KeyframeAnimation out;
        Status sd = kd.Decode(dop, &db, &out);
        put_status(o, sd);
        if (sd.ok()) dump_pc(o, out);
      }
      break;
    }
    default: break;
  }
  return o;
}

// ----------------------------------------------------------------------------- jobs
struct Job {
  Spec s;
  std::vector<char> input;   // decoder jobs: the stream (produced alone)
  std::string expected;      // result alone
};

// Encoded stream for a decoder job: encode the spec's geometry with the spec's encoder settings.
static std::vector<char> make_stream(const Spec &s) {
  Instance in; in.s = s;
  const bool mesh = is_mesh_kind(s.kind) || (s.kind == DEC_TRUNC && (s.gseed & 1));
  in.s.kind = mesh ? ENC_MESH : ENC_PC;
  if (mesh) in.mesh = build_mesh(in.s); else in.pc = build_pc(in.s);
  Encoder e; configure(e, in.s);
  EncoderBuffer eb;
  Status st = mesh ? e.EncodeMeshToBuffer(*in.mesh, &eb) : e.EncodePointCloudToBuffer(*in.pc, &eb);
  std::vector<char> v(eb.data(), eb.data() + eb.size());
  if (!st.ok()) v.clear();
  return v;
}

static Instance instantiate(const Job &j, int id) {
  Instance in; in.s = j.s; in.job = id;
  switch (j.s.kind) {
    case ENC_MESH: case XENC_MESH: in.mesh = build_mesh(j.s); break;
    case ENC_PC: case XENC_PC: in.pc = build_pc(j.s); break;
    case ANIM: in.anim.reset(new KeyframeAnimation()); build_anim(j.s, in.anim.get()); break;
    default: in.bytes = j.input; break;
  }
  return in;
}

static Spec random_spec(Rng &r, Kind k, int maxdim) {
  Spec s{};
  s.kind = k;
  s.gseed = r.next() >> 8;
  const bool mesh = is_mesh_kind(k) || (k == DEC_TRUNC && (s.gseed & 1));
  s.w = 2 + (int)r.below(maxdim - 1);
  s.h = 2 + (int)r.below(maxdim - 1);
  s.attrs = (int)r.below(8);
  s.speed_e = (int)r.below(11);
  s.speed_d = r.chance(60) ? s.speed_e : (int)r.below(11);
  static const int qs[] = {0, 1, 7, 8, 10, 11, 12, 14, 16, 20};
  static const int qn[] = {0, 2, 3, 7, 8, 10, 12, 15};   // octahedral normals need >= 2 bits
  s.qpos = qs[r.below(10)];
  s.qnrm = r.chance(3) ? 1 : qn[r.below(8)];             // 1 bit: rare, exercises the error path
  s.qtex = qs[r.below(9)];
  s.pred = -1;
  if (mesh) {
    s.shape = r.chance(15) ? 2 : (int)r.below(2);
    if (s.shape == 2) { s.w = 3 + (int)r.below(8); s.h = 2 + (int)r.below(6); }
    s.method = r.chance(15) ? -1 : (int)r.below(2);
    if (r.chance(25)) { static const int ps[] = {0, 1, 2, 4}; s.pred = ps[r.below(4)]; }
  } else {
    s.shape = 0;
    s.method = r.chance(15) ? -1 : (int)r.below(2);
    if (s.method != 0 && r.chance(90)) {  // kd-tree needs every float attribute quantized (else: error status / fallback, also compared)
      if (s.qpos == 0) s.qpos = 11;
      if (s.qnrm == 0) s.qnrm = 8;
      if (s.qtex == 0) s.qtex = 10;
    }
  }
  if (k == ANIM) { s.h = 1; s.w = 2 + (int)r.below(maxdim * 4); s.qpos = r.chance(50) ? 0 : 8 + (int)r.below(12); s.method = 0; }
  s.skip = (k == DEC_MESH || k == DEC_PC) && r.chance(25);
  s.trunc_pm = k == DEC_TRUNC ? 1 + (int)r.below(999) : 0;
  return s;
}

// ----------------------------------------------------------------------------- concurrent rounds
struct ThreadResult { int diffs = 0; std::string first_diff; uint64_t h = 0; size_t len = 0; };

static size_t first_diff_at(const std::string &a, const std::string &b) {
  size_t i = 0; while (i < a.size() && i < b.size() && a[i] == b[i]) i++; return i;
}

int main(int argc, char **argv) {
  if (argc < 4) { fprintf(stderr, "usage: h_C19 <quick|thorough|hunt> <seed> <outfile>\n"); return 2; }
  const std::string tier = argv[1];
  const uint64_t seed = strtoull(argv[2], nullptr, 10);
  Out out(argv[3]);
  Rng rng(seed ^ 0xC19C19ull);

  std::vector<int> Ns; int rounds, reps, njobs, maxdim;
  if (tier == "thorough") { Ns = {2, 3, 4, 6, 8, 12, 16}; rounds = 90; reps = 6; njobs = 300; maxdim = 48; }
  else if (tier == "hunt") { Ns = {2, 4, 8, 16}; rounds = 24; reps = 6; njobs = 100; maxdim = 28; }
  else { Ns = {2, 4, 8}; rounds = 36; reps = 4; njobs = 120; maxdim = 32; }

  // ---- 1. jobs and their results alone (this thread only; no other thread exists yet)
  std::vector<Job> jobs;
  std::vector<std::vector<int>> by_kind(NKINDS);
  for (int i = 0; i < njobs; i++) {
    Job j;
    const Kind k = (Kind)(i % NKINDS);
    j.s = random_spec(rng, k, maxdim);
    if (k >= DEC_MESH && k <= DEC_TRUNC) {
      j.input = make_stream(j.s);
      if (k == DEC_TRUNC) j.input.resize(j.input.size() * (size_t)j.s.trunc_pm / 1000);
    }
    Instance in = instantiate(j, i);
    j.expected = exec(in);
    // determinism alone (otherwise a later difference would not be attributable to concurrency)
    Instance in2 = instantiate(j, i);
    const std::string again = exec(in2);
    if (again != j.expected)
      out.fail("result differs between two runs ALONE (not a concurrency effect): job " + j.s.desc());
    std::string head;  // leading status tokens of the result ("T1;OK" / "ERR:<message>")
    {
      size_t a = j.expected.find(';');
      if (a != std::string::npos) {
        head = j.expected.substr(0, a);
        if (head[0] == 'T') { size_t b = j.expected.find(';', a + 1); if (b != std::string::npos && b - a < 80) head = j.expected.substr(0, b); }
      }
      for (auto &ch : head) if (ch == ' ' || ch == '|' || (unsigned char)ch < 32 || (unsigned char)ch > 126) ch = '_';
    }
    out.c("job " + S(i) + " " + j.s.desc(), U(j.expected.size()) + " " + U(fnv(j.expected)) + " " + head);
    by_kind[k].push_back(i);
    jobs.push_back(std::move(j));
  }
  fflush(out.f);

  // ---- 2. concurrent rounds
  long execs = 0, round_id = 0;
  for (int N : Ns) {
    for (int r = 0; r < rounds; r++, round_id++) {
      const int mode = r % 3;  // 0 same kind, 1 mixed, 2 identical
      std::vector<int> pick(N);
      if (mode == 0) { const auto &v = by_kind[rng.below(NKINDS)]; for (int t = 0; t < N; t++) pick[t] = v[rng.below(v.size())]; }
      else if (mode == 1) { for (int t = 0; t < N; t++) pick[t] = (int)rng.below(jobs.size()); }
      else { const int j = (int)rng.below(jobs.size()); for (int t = 0; t < N; t++) pick[t] = j; }
      std::vector<Instance> inst;
      inst.reserve(N);
      for (int t = 0; t < N; t++) inst.push_back(instantiate(jobs[pick[t]], pick[t]));
      std::vector<int> stagger(N);
      for (int t = 0; t < N; t++) stagger[t] = rng.chance(50) ? 0 : (int)rng.below(2000);
      {
        std::string ids;
        for (int t = 0; t < N; t++) ids += (t ? "," : "") + S(pick[t]);
        out.note("round " + S(round_id) + " n=" + S(N) + " mode=" + (mode == 0 ? "same" : mode == 1 ? "mixed" : "ident") + " jobs=" + ids);
        fflush(out.f);
      }
      std::vector<ThreadResult> res(N);
      std::atomic<int> ready{0};
      std::atomic<bool> go{false};
      std::vector<std::thread> th;
      for (int t = 0; t < N; t++) {
        th.emplace_back([&, t]() {
          Instance &me = inst[t];
          const std::string &want = jobs[me.job].expected;
          ready.fetch_add(1);
          while (!go.load(std::memory_order_acquire)) std::this_thread::yield();
          for (volatile int spin = 0; spin < stagger[t]; spin++) {}
          for (int k = 0; k < reps; k++) {
            const std::string got = exec(me);
            if (got != want) {
              if (!res[t].diffs)
                res[t].first_diff = "rep=" + S(k) + " alone=" + U(want.size()) + "/" + U(fnv(want)) + " concurrent=" + U(got.size()) + "/" + U(fnv(got)) +
                                    " first_diff_at=" + U(first_diff_at(got, want));
              res[t].diffs++;
            }
            res[t].h = fnv(got); res[t].len = got.size();
          }
        });
      }
      while (ready.load() < N) std::this_thread::yield();
      go.store(true, std::memory_order_release);
      for (auto &x : th) x.join();
      for (int t = 0; t < N; t++) {
        execs += reps;
        const std::string lhs = "conc round=" + S(round_id) + " n=" + S(N) + " mode=" + S(mode) + " t=" + S(t) + " reps=" + S(reps) + " job=" + S(pick[t]) + " " + jobs[pick[t]].s.desc();
        out.c(lhs, res[t].diffs ? "DIFF" : "same " + U(res[t].len) + " " + U(res[t].h));
        if (res[t].diffs)
          out.fail("concurrent result differs from the result alone (" + S(res[t].diffs) + " of " + S(reps) + " repetitions): " + lhs + " :: " + res[t].first_diff);
      }
      fflush(out.f);
    }
  }
  out.note("done jobs=" + S((long)jobs.size()) + " rounds=" + S(round_id) + " executions=" + S(execs) + " fails=" + S(out.fails));
  return 0;
}
