// C19 link probe (input of tools/footprint.py; never part of a correspondence run).
//
// This translation unit references ONLY what a client needs to encode/decode with its own
// objects: the codec entry points named in property C19 and the geometry classes needed to
// hand data to them.  tools/footprint.py links it against the -ffunction-sections/-fdata-sections
// build of /repo's current tree with  -Wl,--gc-sections -Wl,-Map=...  ; every libdraco section
// that survives is, by construction of --gc-sections, reachable (by relocation: calls, vtables,
// address-taken data) from these references.  The writable data among the survivors is the
// "codec footprint" emitted to coq/Gen/Footprint.v.
//
// Rules for this file: no writable globals/statics of its own, no <iostream>, no libc calls with
// hidden state (footprint.py would attribute them to the codec).
#include <cstdint>
#include <memory>
#include <vector>

#include "draco/animation/keyframe_animation.h"
#include "draco/animation/keyframe_animation_decoder.h"
#include "draco/animation/keyframe_animation_encoder.h"
#include "draco/attributes/geometry_attribute.h"
#include "draco/attributes/point_attribute.h"
#include "draco/compression/decode.h"
#include "draco/compression/encode.h"
#include "draco/compression/expert_encode.h"
#include "draco/core/decoder_buffer.h"
#include "draco/core/encoder_buffer.h"
#include "draco/mesh/mesh.h"
#include "draco/point_cloud/point_cloud.h"

using namespace draco;

// Geometry construction through the public classes only (what every caller has to do first).
static void fill_points(PointCloud *pc, int n, bool with_normals) {
  pc->set_num_points(n);
  GeometryAttribute ga;
  ga.Init(GeometryAttribute::POSITION, nullptr, 3, DT_FLOAT32, false, sizeof(float) * 3, 0);
  const int pos = pc->AddAttribute(ga, true, n);
  for (int i = 0; i < n; i++) {
    const float v[3] = {float(i), float(i % 7), float(i % 3)};
    pc->attribute(pos)->SetAttributeValue(AttributeValueIndex(i), v);
  }
  if (with_normals) {
    GeometryAttribute gn;
    gn.Init(GeometryAttribute::NORMAL, nullptr, 3, DT_FLOAT32, false, sizeof(float) * 3, 0);
    const int na = pc->AddAttribute(gn, true, n);
    for (int i = 0; i < n; i++) {
      const float v[3] = {0.f, 0.f, 1.f};
      pc->attribute(na)->SetAttributeValue(AttributeValueIndex(i), v);
    }
    GeometryAttribute gi;
    gi.Init(GeometryAttribute::GENERIC, nullptr, 2, DT_INT32, false, sizeof(int32_t) * 2, 0);
    const int ia = pc->AddAttribute(gi, true, n);
    for (int i = 0; i < n; i++) {
      const int32_t v[2] = {i, -i};
      pc->attribute(ia)->SetAttributeValue(AttributeValueIndex(i), v);
    }
  }
}

int main(int argc, char **) {
  int acc = 0;
  const int n = 12 + argc;
  Mesh mesh;
  fill_points(&mesh, n, true);
  for (int f = 0; f + 2 < n; f++) {
    Mesh::Face face;
    face[0] = PointIndex(f); face[1] = PointIndex(f + 1); face[2] = PointIndex(f + 2);
    mesh.AddFace(face);
  }
  PointCloud pc;
  fill_points(&pc, n, false);

  // ---- Encoder (both geometry kinds, every option setter of the public class)
  EncoderBuffer eb_mesh, eb_pc, eb_x1, eb_x2, eb_anim;
  {
    Encoder enc;
    enc.SetSpeedOptions(argc, argc);
    enc.SetAttributeQuantization(GeometryAttribute::POSITION, 11);
    enc.SetAttributeQuantization(GeometryAttribute::NORMAL, 8);
    const float origin[3] = {0, 0, 0};
    enc.SetAttributeExplicitQuantization(GeometryAttribute::POSITION, 12, 3, origin, 100.f);
    enc.SetAttributePredictionScheme(GeometryAttribute::POSITION, argc);
    enc.SetEncodingMethod(argc);
    enc.SetTrackEncodedProperties(true);
    acc += enc.EncodeMeshToBuffer(mesh, &eb_mesh).ok();
    acc += (int)enc.num_encoded_points() + (int)enc.num_encoded_faces();
    Encoder enc2;
    acc += enc2.EncodePointCloudToBuffer(pc, &eb_pc).ok();
    acc += enc2.CreateExpertEncoderOptions(pc).GetSpeed();
  }
  // ---- ExpertEncoder
  {
    ExpertEncoder x1(mesh);
    x1.SetSpeedOptions(argc, argc);
    x1.SetAttributeQuantization(0, 10);
    const float origin[3] = {0, 0, 0};
    x1.SetAttributeExplicitQuantization(0, 10, 3, origin, 50.f);
    x1.SetUseBuiltInAttributeCompression(true);
    x1.SetEncodingMethod(argc);
    x1.SetEncodingSubmethod(argc);
    x1.SetAttributePredictionScheme(0, argc);
    x1.SetTrackEncodedProperties(true);
    acc += x1.EncodeToBuffer(&eb_x1).ok();
    ExpertEncoder x2(pc);
    acc += x2.EncodeToBuffer(&eb_x2).ok();
  }
  // ---- Decoder (all four public entry points + options)
  {
    DecoderBuffer db;
    db.Init(eb_mesh.data(), eb_mesh.size());
    auto t = Decoder::GetEncodedGeometryType(&db);
    acc += t.ok() ? (int)t.value() : -1;
    Decoder dec;
    dec.SetSkipAttributeTransform(GeometryAttribute::POSITION);
    dec.options()->SetGlobalInt("x", argc);
    auto m = dec.DecodeMeshFromBuffer(&db);
    acc += m.ok() ? (int)m.value()->num_faces() : -1;
    DecoderBuffer db2;
    db2.Init(eb_pc.data(), eb_pc.size());
    Decoder dec2;
    auto p = dec2.DecodePointCloudFromBuffer(&db2);
    acc += p.ok() ? (int)p.value()->num_points() : -1;
    DecoderBuffer db3;
    db3.Init(eb_x1.data(), eb_x1.size());
    Mesh out_mesh;
    Decoder dec3;
    acc += dec3.DecodeBufferToGeometry(&db3, &out_mesh).ok();
    DecoderBuffer db4;
    db4.Init(eb_x2.data(), eb_x2.size());
    PointCloud out_pc;
    Decoder dec4;
    acc += dec4.DecodeBufferToGeometry(&db4, &out_pc).ok();
  }
  // ---- Keyframe animation encoder / decoder
  {
    KeyframeAnimation anim;
    std::vector<float> ts(n), kf(3 * n);
    for (int i = 0; i < n; i++) { ts[i] = float(i); kf[3 * i] = float(i); kf[3 * i + 1] = 1.f; kf[3 * i + 2] = 2.f; }
    acc += anim.SetTimestamps(ts);
    acc += anim.AddKeyframes(DT_FLOAT32, 3, kf);
    KeyframeAnimationEncoder ke;
    EncoderOptions eo = EncoderOptions::CreateDefaultOptions();
    eo.SetAttributeInt(0, "quantization_bits", 16);
    acc += ke.EncodeKeyframeAnimation(anim, eo, &eb_anim).ok();
    KeyframeAnimationDecoder kd;
    DecoderBuffer db;
    db.Init(eb_anim.data(), eb_anim.size());
    DecoderOptions dopt;
    KeyframeAnimation out;
    acc += kd.Decode(dopt, &db, &out).ok();
    acc += out.num_frames();
  }
  return acc == 0x7fffffff;
}
