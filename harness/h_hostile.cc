// HOSTILE: single-value SEMANTIC corruptions of Edgebreaker streams through the FULL public decoder (properties C02, C03, C18).
//   h_hostile <tier> <seed> <out>           the search
//   h_hostile one <file with hex> <out>     replay of one stream (every '!' oracle)
// Valid streams of small meshes are produced by the REAL encoder through recording traversal encoders (both traversal methods,
// 0..2 non-position attributes, all speeds/prediction schemes, float and integer positions).  The connectivity section is taken
// apart into a SCRIPT (header counts, symbols, split events, start-face bits, seam bits); `ser_conn` below is the C++ port of
// TRAV's enc_conn (coq/Model/EbTraversal.v) and rebuilds the bytes of the section for ANY script; SELF-CHECK: on the unmodified
// script it must reproduce the real encoder's bytes exactly ('! C02-SELFCHECK' otherwise).  For the valence method the symbols live
// in six context lists whose contexts depend on the decoder's own valence bookkeeping: the REAL decoder template is run on the
// script with a scripted valence traversal decoder (the real NewActiveCornerReached/MergeVertices, symbols from the script) to
// learn which context each symbol is asked from (self-check: the lists so obtained from the unmodified script equal the
// encoder's lists).  Then every single-value mutation of the script is re-serialised, the ORIGINAL attribute sections are
// spliced behind it and the stream goes through Decoder::DecodeMeshFromBuffer in a forked child (ASan+UBSan build, watchdog,
// allocation monitor) with h_dec's oracles:
//   ! C02 ...   crash / sanitizer report / hang / input modified / bad_alloc without a large declared count; ! C02-SELFCHECK ... = the
//               harness's own serialiser / simulation no longer reproduces the real encoder
//   ! C03 ...   accepted but structurally invalid geometry (! C03-unreferenced-point-after-misglued-interior-start-face = the class of D24)
//   ! C18 ...   allocation not justified by stream length + declared counts
// '#' lines: counts per mutation class, accept/reject statistics.  The last token of a '!' line is the hex of the stream.
#include "common.h"
#include <algorithm>
#include <array>
#include <atomic>
#include <bitset>
#include <cmath>
#include <deque>
#include <fstream>
#include <functional>
#include <iostream>
#include <iterator>
#include <limits>
#include <list>
#include <map>
#include <memory>
#include <mutex>
#include <new>
#include <numeric>
#include <queue>
#include <set>
#include <sstream>
#include <stack>
#include <thread>
#include <tuple>
#include <type_traits>
#include <unordered_map>
#include <unordered_set>
#include <utility>
#include <fcntl.h>
#include <signal.h>
#include <sys/mman.h>
#include <sys/wait.h>
#include <unistd.h>
#include "draco/compression/encode.h"
#include "draco/compression/expert_encode.h"
#include "draco/compression/decode.h"
#include "draco/mesh/mesh.h"
#include "draco/mesh/triangle_soup_mesh_builder.h"
#include "draco/core/varint_encoding.h"
#include "draco/compression/bit_coders/rans_bit_encoder.h"
#include "draco/compression/entropy/symbol_encoding.h"
#include "draco/compression/entropy/symbol_decoding.h"
#define private public
#define protected public
#include "draco/compression/mesh/mesh_edgebreaker_traversal_valence_decoder.h"
#include "draco/compression/mesh/mesh_edgebreaker_decoder.h"
#include "draco/compression/mesh/mesh_edgebreaker_decoder_impl.cc"
#include "draco/compression/mesh/mesh_edgebreaker_encoder.h"
#include "draco/compression/mesh/mesh_edgebreaker_encoder_impl.cc"
#undef private
#undef protected
using namespace draco;

// ------------------------------------------------------------------ allocation monitor (C18), as in h_dec.cc
static std::atomic<uint64_t> g_live{0}, g_peak{0}, g_maxreq{0};
static std::atomic<bool> g_track{false};
static uint64_t g_declared = 0;
static bool g_saw_num_attributes = false;   // the attribute stage was reached = the connectivity section was accepted
extern "C" void DracoVerifDeclaredCount(const char *what, uint64_t c) {
  if (!g_track) return;
  g_declared += c;
  if (what && !strcmp(what, "num_attributes")) g_saw_num_attributes = true;
}
static void *track_alloc(size_t n) {
  void *p = malloc(n + 16);
  if (!p) return nullptr;
  *(uint64_t *)p = n;
  if (g_track) {
    uint64_t l = (g_live += n); uint64_t pk = g_peak.load(); while (l > pk && !g_peak.compare_exchange_weak(pk, l)) {}
    uint64_t m = g_maxreq.load(); while (n > m && !g_maxreq.compare_exchange_weak(m, n)) {}
  }
  return (char *)p + 16;
}
static void track_free(void *q) { if (!q) return; char *p = (char *)q - 16; uint64_t n = *(uint64_t *)p; if (g_track) g_live -= n; free(p); }
static const uint64_t CAP_ONE = 1ull << 30, CAP_LIVE = 3ull << 30;
void *operator new(size_t n) { if (n > CAP_ONE || g_live + n > CAP_LIVE) throw std::bad_alloc(); void *p = track_alloc(n); if (!p) throw std::bad_alloc(); return p; }
void *operator new[](size_t n) { if (n > CAP_ONE || g_live + n > CAP_LIVE) throw std::bad_alloc(); void *p = track_alloc(n); if (!p) throw std::bad_alloc(); return p; }
void *operator new(size_t n, const std::nothrow_t &) noexcept { if (n > CAP_ONE || g_live + n > CAP_LIVE) return nullptr; return track_alloc(n); }
void *operator new[](size_t n, const std::nothrow_t &) noexcept { if (n > CAP_ONE || g_live + n > CAP_LIVE) return nullptr; return track_alloc(n); }
void operator delete(void *p, const std::nothrow_t &) noexcept { track_free(p); }
void operator delete[](void *p, const std::nothrow_t &) noexcept { track_free(p); }
void operator delete(void *p) noexcept { track_free(p); }
void operator delete[](void *p) noexcept { track_free(p); }
void operator delete(void *p, size_t) noexcept { track_free(p); }
void operator delete[](void *p, size_t) noexcept { track_free(p); }

// ------------------------------------------------------------------ scripts
struct Ev { uint32_t src, spl, edge; };
struct Script {
  int method = 0;                                  // traversal method byte: 0 standard, 2 valence
  uint32_t nv = 0, nf = 0, nattr = 0, nsym = 0, nsplit = 0;   // the five declared counts of the header
  std::vector<uint32_t> syms;                      // ENCODER order (TRAV's convention); the decoder consumes them back to front
  std::vector<Ev> evs;                             // (source_symbol_id, split_symbol_id, source_edge), encoder symbol ids
  std::vector<bool> start;                         // start-face configuration bits
  std::vector<std::vector<bool>> seams;            // one bit list per attribute data
  std::vector<std::vector<uint32_t>> ctx;          // valence only: the six context lists (symbol ids) as the encoder stores them
  bool resim = false;                              // valence only: ctx must be re-derived from syms (symbols / events changed)
};
static const uint32_t SYM[5] = {0, 1, 3, 5, 7};   // C S L R E
static const char SYMCH[8] = {'C', 'S', '?', 'L', '?', 'R', '?', 'E'};
static std::string bits_text(const std::vector<bool> &b) { if (b.empty()) return "-"; std::string s; for (bool x : b) s += x ? '1' : '0'; return s; }
static std::string script_text(const Script &s) {
  std::string t = "m=" + S(s.method) + ",nv=" + U(s.nv) + ",nf=" + U(s.nf) + ",na=" + U(s.nattr) + ",ns=" + U(s.nsym) + ",nsp=" + U(s.nsplit) + ",sy=";
  if (s.syms.empty()) t += "-"; for (uint32_t x : s.syms) t += x < 8 ? SYMCH[x] : '?';
  t += ",ev=";
  if (s.evs.empty()) t += "-";
  for (size_t i = 0; i < s.evs.size(); i++) { if (i) t += ";"; t += U(s.evs[i].src) + ":" + U(s.evs[i].spl) + ":" + U(s.evs[i].edge); }
  t += ",sb=" + bits_text(s.start) + ",se=";
  if (s.seams.empty()) t += "-";
  for (size_t i = 0; i < s.seams.size(); i++) { if (i) t += ";"; t += s.seams[i].empty() ? std::string("e") : bits_text(s.seams[i]); }
  return t;
}

// ------------------------------------------------------------------ the serialiser: C++ port of TRAV's enc_conn / enc_events / enc_trav_std / enc_trav_val
static const int PATLEN[8] = {1, 3, 0, 3, 0, 3, 0, 3};       // edge_breaker_topology_bit_pattern_length
static const uint32_t SYMID[8] = {0, 1, 5, 2, 5, 3, 5, 4};   // edge_breaker_topology_to_symbol_id
static void ser_bits(EncoderBuffer &tb, const std::vector<bool> &bits) {   // RAnsBitEncoder: StartEncoding, EncodeBit*, EndEncoding
  RAnsBitEncoder e; e.StartEncoding(); for (bool b : bits) e.EncodeBit(b); e.EndEncoding(&tb);
}
static void ser_events(EncoderBuffer &eb, const std::vector<Ev> &evs) {     // EncodeSplitData
  EncodeVarint<uint32_t>((uint32_t)evs.size(), &eb);
  if (evs.empty()) return;
  uint32_t last = 0;
  for (const Ev &e : evs) { EncodeVarint<uint32_t>(e.src - last, &eb); EncodeVarint<uint32_t>(e.src - e.spl, &eb); last = e.src; }
  eb.StartBitEncoding((int64_t)evs.size(), false);
  for (const Ev &e : evs) eb.EncodeLeastSignificantBits32(1, e.edge & 1);
  eb.EndBitEncoding();
}
static std::vector<uint8_t> ser_conn(const Script &s) {
  EncoderBuffer eb;
  eb.Encode((uint8_t)s.method);
  EncodeVarint<uint32_t>(s.nv, &eb); EncodeVarint<uint32_t>(s.nf, &eb);
  eb.Encode((uint8_t)s.nattr);
  EncodeVarint<uint32_t>(s.nsym, &eb); EncodeVarint<uint32_t>(s.nsplit, &eb);
  ser_events(eb, s.evs);
  EncoderBuffer tb;
  if (s.method == 0) {   // MeshEdgebreakerTraversalEncoder::Done: symbols (last to first, bit-packed, size-prefixed), start faces, seams
    tb.StartBitEncoding((int64_t)s.syms.size() * 3 + 8, true);
    for (size_t i = s.syms.size(); i > 0; i--) { uint32_t y = s.syms[i - 1] & 7; tb.EncodeLeastSignificantBits32(PATLEN[y], y); }
    tb.EndBitEncoding();
    ser_bits(tb, s.start);
    for (auto &l : s.seams) ser_bits(tb, l);
  } else {               // MeshEdgebreakerTraversalValenceEncoder::Done: start faces, seams, six context lists
    ser_bits(tb, s.start);
    for (auto &l : s.seams) ser_bits(tb, l);
    for (int c = 0; c < 6; c++) {
      const std::vector<uint32_t> empty; const std::vector<uint32_t> &l = (size_t)c < s.ctx.size() ? s.ctx[c] : empty;
      EncodeVarint<uint32_t>((uint32_t)l.size(), &tb);
      if (!l.empty()) EncodeSymbols(l.data(), (int)l.size(), 1, nullptr, &tb);
    }
  }
  eb.Encode(tb.data(), tb.size());
  return std::vector<uint8_t>((const uint8_t *)eb.data(), (const uint8_t *)eb.data() + eb.size());
}

// ------------------------------------------------------------------ scripted traversal decoders on the REAL decoder template
// (a) SimValTD: the real valence bookkeeping, symbols from the script: which context is each symbol asked from?
struct SimValTD : public MeshEdgebreakerTraversalValenceDecoder {
  std::vector<uint32_t> syms; size_t si = 0;        // DECODER order
  std::vector<bool> bits; size_t bi = 0;
  std::vector<std::pair<int, uint32_t>> rec;        // (context, symbol) per DecodeSymbol call after the first
  bool first_not_E = false;
  bool Start(DecoderBuffer *out) { *out = buffer_; if (num_vertices_ < 0) return false; vertex_valences_.resize(num_vertices_, 0); return true; }
  uint32_t DecodeSymbol() {
    uint32_t want = si < syms.size() ? syms[si] : 9u; si++;
    if (active_context_ == -1) { if (want != TOPOLOGY_E) first_not_E = true; want = TOPOLOGY_E; }   // "The first symbol must be E."
    else rec.push_back({active_context_, want});
    last_symbol_ = (int)want;
    return want;
  }
  bool DecodeStartFaceConfiguration() { bool r = bi < bits.size() ? (bool)bits[bi] : false; bi++; return r; }
  bool DecodeAttributeSeam(int) { return false; }
  void Done() {}
};
// (b) ScrTD: everything from the script (the in-process search for scripts whose accepted corner table is dangerous for the traversers)
struct ScrTD {
  std::vector<uint32_t> syms; size_t si = 0; std::vector<bool> bits; size_t bi = 0;
  std::vector<std::vector<bool>> seams; std::vector<size_t> sei;
  DecoderBuffer buffer_;
  void Init(MeshEdgebreakerDecoderImplInterface *d) { buffer_.Init(d->GetDecoder()->buffer()->data_head(), d->GetDecoder()->buffer()->remaining_size(), d->GetDecoder()->buffer()->bitstream_version()); }
  void SetNumEncodedVertices(int) {}
  void SetNumAttributeData(int n) { sei.assign((size_t)n, 0); }
  bool Start(DecoderBuffer *out) { *out = buffer_; return true; }
  bool DecodeStartFaceConfiguration() { bool r = bi < bits.size() ? (bool)bits[bi] : false; bi++; return r; }
  uint32_t DecodeSymbol() { uint32_t r = si < syms.size() ? syms[si] : 9u; si++; return r; }
  void NewActiveCornerReached(CornerIndex) {}
  void MergeVertices(VertexIndex, VertexIndex) {}
  bool DecodeAttributeSeam(int a) { if ((size_t)a >= seams.size()) return false; size_t k = sei[a]++; return k < seams[a].size() ? (bool)seams[a][k] : false; }
  void Done() {}
};

struct DecRig {   // a MeshEdgebreakerDecoder shell around an implementation template instance (as h_eb.cc does)
  Mesh mesh; MeshEdgebreakerDecoder dec; DecoderOptions opts; DecoderBuffer db; std::vector<char> bytes;
  template <class Impl> void attach(Impl &impl, const std::vector<char> &b) {
    bytes = b; dec.mesh_ = &mesh; dec.point_cloud_ = &mesh; dec.options_ = &opts; dec.version_major_ = 2; dec.version_minor_ = 2; dec.buffer_ = &db;
    db.Init(bytes.data(), bytes.size(), DRACO_BITSTREAM_VERSION(2, 2));
    impl.Init(&dec);
  }
};

// the context lists the REAL decoder would need in order to see the symbols of this script (valence method)
static bool simulate_valence(const Script &s, std::vector<std::vector<uint32_t>> &lists, bool *first_not_E) {
  lists.assign(6, {});
  if (s.nf > 200000u || (uint64_t)s.nv + s.nsplit > 2000000u) return false;
  MeshEdgebreakerDecoderImpl<SimValTD> impl; DecRig rig; rig.attach(impl, std::vector<char>(8, 0));
  impl.corner_table_ = std::unique_ptr<CornerTable>(new CornerTable());
  impl.attribute_data_.clear(); impl.attribute_data_.resize(s.nattr);
  if (!impl.corner_table_->Reset((int)s.nf, (int)(s.nv + s.nsplit))) return false;
  impl.is_vert_hole_.assign((size_t)(s.nv + s.nsplit), true);
  impl.topology_split_data_.clear();
  for (const Ev &e : s.evs) { TopologySplitEventData d; d.source_symbol_id = e.src; d.split_symbol_id = e.spl; d.source_edge = e.edge & 1; impl.topology_split_data_.push_back(d); }
  SimValTD &td = impl.traversal_decoder_;
  td.Init(&impl); td.SetNumEncodedVertices((int)(s.nv + s.nsplit));
  td.syms.assign(s.syms.rbegin(), s.syms.rend()); td.bits = s.start;
  DecoderBuffer end; if (!td.Start(&end)) return false;
  if (s.syms.size() > s.nf) return false;   // the caller's guard num_faces < num_encoded_symbols
  impl.DecodeConnectivity((int)s.syms.size());
  if (first_not_E) *first_not_E = td.first_not_E;
  for (auto &p : td.rec) lists[(size_t)p.first].push_back(SYMID[p.second & 7]);
  for (auto &l : lists) std::reverse(l.begin(), l.end());   // the decoder takes context_symbols_[ctx][--counter]
  return true;
}
static std::vector<uint8_t> serialise(Script s, bool *inexpressible = nullptr) {
  if (s.method == 2 && s.resim) { bool fne = false; simulate_valence(s, s.ctx, &fne); if (inexpressible) *inexpressible = fne; }
  return ser_conn(s);
}

// ------------------------------------------------------------------ recording traversal ENCODERS (as in h_trav.cc)
struct RecStdTE : public MeshEdgebreakerTraversalEncoder {
  std::vector<uint32_t> syms; std::vector<bool> start; std::vector<std::vector<bool>> seams;
  void SetNumAttributeData(int n) { seams.assign(n, {}); MeshEdgebreakerTraversalEncoder::SetNumAttributeData(n); }
  void EncodeStartFaceConfiguration(bool b) { start.push_back(b); MeshEdgebreakerTraversalEncoder::EncodeStartFaceConfiguration(b); }
  void EncodeSymbol(EdgebreakerTopologyBitPattern s) { syms.push_back((uint32_t)s); MeshEdgebreakerTraversalEncoder::EncodeSymbol(s); }
  void EncodeAttributeSeam(int a, bool s) { seams[a].push_back(s); MeshEdgebreakerTraversalEncoder::EncodeAttributeSeam(a, s); }
};
struct RecValTE : public MeshEdgebreakerTraversalValenceEncoder {
  std::vector<uint32_t> syms; std::vector<bool> start; std::vector<std::vector<bool>> seams;
  void SetNumAttributeData(int n) { seams.assign(n, {}); MeshEdgebreakerTraversalValenceEncoder::SetNumAttributeData(n); }
  void EncodeStartFaceConfiguration(bool b) { start.push_back(b); MeshEdgebreakerTraversalValenceEncoder::EncodeStartFaceConfiguration(b); }
  void EncodeSymbol(EdgebreakerTopologyBitPattern s) { syms.push_back((uint32_t)s); MeshEdgebreakerTraversalValenceEncoder::EncodeSymbol(s); }
  void EncodeAttributeSeam(int a, bool s) { seams[a].push_back(s); MeshEdgebreakerTraversalValenceEncoder::EncodeAttributeSeam(a, s); }
};
template <class TE, int METHOD>
struct RecEncoder : public MeshEdgebreakerEncoder {
  size_t conn_begin = 0, conn_end = 0;
  bool InitializeEncoder() override {
    conn_begin = buffer()->size();
    buffer()->Encode(static_cast<uint8_t>(METHOD));
    impl_ = std::unique_ptr<MeshEdgebreakerEncoderImplInterface>(new MeshEdgebreakerEncoderImpl<TE>());
    return impl_->Init(this);
  }
  Status EncodeConnectivity() override { Status s = MeshEdgebreakerEncoder::EncodeConnectivity(); conn_end = buffer()->size(); return s; }
  MeshEdgebreakerEncoderImpl<TE> *ri() { return static_cast<MeshEdgebreakerEncoderImpl<TE> *>(impl_.get()); }
};

// ------------------------------------------------------------------ small meshes
typedef std::vector<std::array<int, 3>> Faces;
struct MeshSpec { Faces f; int nv = 0; std::string name; };
static void add_grid(MeshSpec &m, int w, int h, bool wrapx, bool wrapy) {
  int base = m.nv, cols = wrapx ? w : w + 1, rows = wrapy ? h : h + 1;
  auto id = [&](int x, int y) { return base + (y % rows) * cols + (x % cols); };
  for (int y = 0; y < h; y++) for (int x = 0; x < w; x++) { int a = id(x, y), b = id(x + 1, y), c = id(x + 1, y + 1), d = id(x, y + 1); m.f.push_back({a, b, c}); m.f.push_back({a, c, d}); }
  m.nv += cols * rows;
}
static void add_faces(MeshSpec &m, std::initializer_list<std::array<int, 3>> fs, int nv) { for (auto f : fs) m.f.push_back({f[0] + m.nv, f[1] + m.nv, f[2] + m.nv}); m.nv += nv; }
static void add_tetra(MeshSpec &m) { add_faces(m, {{0, 1, 2}, {0, 3, 1}, {1, 3, 2}, {2, 3, 0}}, 4); }
static void add_octa(MeshSpec &m) { add_faces(m, {{0, 2, 4}, {2, 1, 4}, {1, 3, 4}, {3, 0, 4}, {2, 0, 5}, {1, 2, 5}, {3, 1, 5}, {0, 3, 5}}, 6); }
static void add_fan(MeshSpec &m, int n, bool closed) { int base = m.nv; for (int i = 0; i < n; i++) { if (!closed && i == n - 1) break; m.f.push_back({base, base + 1 + i, base + 1 + (i + 1) % n}); } m.nv += n + 1; }
static MeshSpec gen_mesh(Rng &r, int idx) {
  MeshSpec m;
  switch (idx) {
    case 0: add_tetra(m); m.name = "tetrahedron"; return m;
    case 1: add_grid(m, 2, 2, false, false); m.name = "grid2x2"; return m;
    case 2: add_faces(m, {{0, 1, 2}, {0, 2, 3}}, 4); m.name = "quad"; return m;
    case 3: add_grid(m, 3, 3, false, false); m.f.erase(m.f.begin() + 8, m.f.begin() + 10); m.name = "grid3x3-hole"; return m;
    case 4: add_octa(m); m.name = "octahedron"; return m;
    case 5: add_grid(m, 3, 2, true, false); m.name = "cylinder3x2"; return m;
    case 6: add_grid(m, 3, 3, true, true); m.name = "torus3x3"; return m;
    case 7: add_faces(m, {{0, 1, 2}}, 3); m.name = "triangle"; return m;
    case 8: add_fan(m, 5, true); m.name = "closedfan5"; return m;
    case 9: add_tetra(m); add_faces(m, {{0, 1, 2}, {0, 2, 3}}, 4); m.name = "tetra+quad"; return m;
    case 10: add_faces(m, {{0, 1, 2}, {0, 2, 1}}, 3); m.name = "pillow"; return m;
    case 11: add_grid(m, 4, 1, false, false); m.name = "strip4"; return m;
    case 12: add_fan(m, 6, false); m.name = "openfan6"; return m;
    case 13: add_grid(m, 2, 2, false, false); for (auto &f : m.f) for (int j = 0; j < 3; j++) if (f[j] == 8) f[j] = 0; m.name = "grid2x2 corners identified (non-manifold)"; return m;
    case 14: add_tetra(m); add_tetra(m); m.name = "two tetrahedra"; return m;
    case 15: add_grid(m, 4, 2, true, true); m.name = "torus4x2 (multi-edges)"; return m;
    default: break;
  }
  int parts = 1 + (int)r.below(2);
  for (int p = 0; p < parts; p++) switch (r.below(6)) {
    case 0: add_tetra(m); break;
    case 1: add_octa(m); break;
    case 2: add_fan(m, 3 + (int)r.below(5), r.chance(50)); break;
    default: { int w = 1 + (int)r.below(4), h = 1 + (int)r.below(3); add_grid(m, w, h, w >= 3 && r.chance(35), h >= 3 && r.chance(35)); }
  }
  for (size_t i = m.f.size(); i > 0; i--) if (m.f.size() > 2 && r.chance(12)) m.f.erase(m.f.begin() + (i - 1));   // holes
  if (r.chance(25) && m.nv > 3) { int a = (int)r.below(m.nv), b = (int)r.below(m.nv); for (auto &f : m.f) for (int j = 0; j < 3; j++) if (f[j] == a) f[j] = b; }
  Faces g; for (auto &f : m.f) if (f[0] != f[1] && f[1] != f[2] && f[0] != f[2]) g.push_back(f);
  m.f = g;
  if (r.chance(30)) for (size_t i = m.f.size(); i > 1; i--) std::swap(m.f[i - 1], m.f[r.below(i)]);
  m.name = "random";
  return m;
}
// attribute layout: bit 0 tex coords (2 floats, per corner: seams between face blocks), bit 1 normals (3 floats), bit 2 generic per-face uint8
static std::unique_ptr<Mesh> build_mesh(const MeshSpec &ms, int atts, bool ipos, int seam_block) {
  TriangleSoupMeshBuilder mb; mb.Start((int)ms.f.size());
  int pos = mb.AddAttribute(GeometryAttribute::POSITION, 3, ipos ? DT_INT32 : DT_FLOAT32);
  int tex = (atts & 1) ? mb.AddAttribute(GeometryAttribute::TEX_COORD, 2, DT_FLOAT32) : -1;
  int nor = (atts & 2) ? mb.AddAttribute(GeometryAttribute::NORMAL, 3, DT_FLOAT32) : -1;
  int gen = (atts & 4) ? mb.AddAttribute(GeometryAttribute::GENERIC, 1, DT_UINT8) : -1;
  for (size_t i = 0; i < ms.f.size(); i++) {
    float p[3][3]; int32_t q[3][3];
    for (int k = 0; k < 3; k++) { int v = ms.f[i][k]; p[k][0] = (float)v * 1.25f; p[k][1] = (float)((v * 7) % 13) * 0.5f; p[k][2] = (float)((v * v) % 31) * 0.75f; for (int c = 0; c < 3; c++) q[k][c] = (int32_t)std::lround(p[k][c] * 100.f); }
    if (ipos) mb.SetAttributeValuesForFace(pos, FaceIndex((uint32_t)i), q[0], q[1], q[2]); else mb.SetAttributeValuesForFace(pos, FaceIndex((uint32_t)i), p[0], p[1], p[2]);
    int blk = (int)((i / (size_t)seam_block) % 3);
    if (tex >= 0) { float uv[3][2]; for (int k = 0; k < 3; k++) { int v = ms.f[i][k]; uv[k][0] = (float)(v % 5) / 5.f + 0.3f * blk; uv[k][1] = (float)(v / 5) / 7.f; } mb.SetAttributeValuesForFace(tex, FaceIndex((uint32_t)i), uv[0], uv[1], uv[2]); }
    if (nor >= 0) { float n[3][3]; for (int k = 0; k < 3; k++) { float a = (float)((ms.f[i][k] * 37 + ((i % 4 == 1) ? 11 : 0)) % 100) / 100.f; n[k][0] = std::sin(a * 6.f); n[k][1] = std::cos(a * 6.f) * 0.6f; n[k][2] = 0.8f * std::cos(a * 6.f); } mb.SetAttributeValuesForFace(nor, FaceIndex((uint32_t)i), n[0], n[1], n[2]); }
    if (gen >= 0) { uint8_t v = (uint8_t)(i % 5); mb.SetPerFaceAttributeValueForFace(gen, FaceIndex((uint32_t)i), &v); }
  }
  return mb.Finalize();
}

// ------------------------------------------------------------------ base streams: valid Edgebreaker streams taken apart
struct Base { Script sc; std::vector<uint8_t> prefix, section, after, all; std::string label; };
struct Cfg { int method, speed, pred_pos, atts; bool ipos; const char *what; };
static long g_selfcheck_ok = 0, g_selfcheck_resim_ok = 0;

template <class TE, int METHOD>
static bool make_base(FILE *out, const MeshSpec &ms, const Cfg &c, int qpos, int seam_block, Base *b) {
  std::unique_ptr<Mesh> mesh = build_mesh(ms, c.atts, c.ipos, seam_block);
  if (!mesh || mesh->num_faces() == 0) return false;
  Encoder enc; enc.SetEncodingMethod(MESH_EDGEBREAKER_ENCODING); enc.SetSpeedOptions(c.speed, c.speed);
  enc.SetAttributeQuantization(GeometryAttribute::POSITION, qpos); enc.SetAttributeQuantization(GeometryAttribute::TEX_COORD, 10); enc.SetAttributeQuantization(GeometryAttribute::NORMAL, 8);
  enc.options().SetGlobalInt("edgebreaker_method", METHOD);
  if (c.pred_pos >= 0) { enc.SetAttributePredictionScheme(GeometryAttribute::POSITION, c.pred_pos); if (c.atts & 1) enc.SetAttributePredictionScheme(GeometryAttribute::TEX_COORD, c.pred_pos); }
  EncoderOptions eo = enc.CreateExpertEncoderOptions(*mesh);
  RecEncoder<TE, METHOD> re; re.SetMesh(*mesh); EncoderBuffer eb;
  if (!re.Encode(eo, &eb).ok()) return false;
  b->label = ms.name + "/" + c.what + "/q" + S(qpos);
  { EncoderBuffer eb2; Status s2 = enc.EncodeMeshToBuffer(*mesh, &eb2);   // the public API must write the same stream
    if (!s2.ok() || eb2.size() != eb.size() || memcmp(eb2.data(), eb.data(), eb.size()) != 0) { fprintf(out, "! C02-SELFCHECK public encoder API stream differs from the recording encoder's (%s)\n", b->label.c_str()); return false; } }
  auto *ei = re.ri(); TE &te = ei->traversal_encoder_;
  b->all.assign((const uint8_t *)eb.data(), (const uint8_t *)eb.data() + eb.size());
  b->prefix.assign(b->all.begin(), b->all.begin() + re.conn_begin);
  b->section.assign(b->all.begin() + re.conn_begin, b->all.begin() + re.conn_end);
  b->after.assign(b->all.begin() + re.conn_end, b->all.end());
  Script &s = b->sc; s = Script(); s.method = METHOD;
  s.nv = (uint32_t)(ei->corner_table_->num_vertices() - ei->corner_table_->NumIsolatedVertices());
  s.nf = (uint32_t)(ei->corner_table_->num_faces() - ei->corner_table_->NumDegeneratedFaces());
  s.nattr = (uint8_t)ei->attribute_data_.size(); s.nsym = (uint32_t)te.NumEncodedSymbols(); s.nsplit = ei->num_split_symbols_;
  s.syms = te.syms; s.start = te.start; s.seams = te.seams;
  for (const TopologySplitEventData &e : ei->topology_split_event_data_) s.evs.push_back({e.source_symbol_id, e.split_symbol_id, e.source_edge});
  if constexpr (METHOD == 2) s.ctx = te.context_symbols_;
  // SELF-CHECK 1: the serialiser reproduces the real encoder's connectivity section from the recorded script
  std::vector<uint8_t> mine = ser_conn(s);
  if (mine != b->section) { fprintf(out, "! C02-SELFCHECK serialiser differs from the real encoder on the unmodified script (%s) %s mine=%s real=%s\n", b->label.c_str(), script_text(s).c_str(), hex(mine.data(), mine.size()).c_str(), hex(b->section.data(), b->section.size()).c_str()); return false; }
  g_selfcheck_ok++;
  // SELF-CHECK 2 (valence): the context lists derived by running the real decoder template on the script equal the encoder's
  if (METHOD == 2) {
    std::vector<std::vector<uint32_t>> lists; bool fne = false;
    if (!simulate_valence(s, lists, &fne) || fne || lists != s.ctx) { fprintf(out, "! C02-SELFCHECK valence context lists re-derived from the script differ from the encoder's (%s) %s\n", b->label.c_str(), script_text(s).c_str()); return false; }
    g_selfcheck_resim_ok++;
  }
  return true;
}

// ------------------------------------------------------------------ single-value semantic mutations
enum Cls { VALID, SYMBOL, STARTBIT, SEAM, EV_SRC, EV_SPL, EV_EDGE, EV_DEL, EV_ADD, COUNT, SYM_DEL, SYM_INS, ATTDEC, PAIR, TARGETED, NCLS };
static const char *CLSNAME[NCLS] = {"valid", "symbol", "startbit", "seambit", "event_source", "event_split", "event_edge", "event_removed", "event_added",
                                    "declared_count", "symbol_removed", "symbol_inserted", "attribute_decoder_id", "pair", "targeted"};
struct Job { int base; int cls; int64_t a, b, c; };
struct Targeted { Script sc; std::string why; uint32_t nvert = 0; };
static std::vector<Base> g_bases; static std::vector<Job> g_jobs; static std::vector<Targeted> g_targeted;

static void shift_events(Script &s, uint32_t from, int delta) {   // symbol ids at or above `from` move by delta
  for (Ev &e : s.evs) { if (e.src >= from) e.src += delta; if (e.spl >= from) e.spl += delta; }
}
// applies the job to (script, attribute bytes); false = not applicable (e.g. second half of a pair after the first changed the sizes)
static bool apply(const Job &j, Script &s, std::vector<uint8_t> &after, std::string &what) {
  switch (j.cls) {
    case VALID: what += "valid"; return true;
    case SYMBOL: if ((size_t)j.a >= s.syms.size() || s.syms[j.a] == (uint32_t)j.b) return false;
      what += std::string("sym[") + S(j.a) + "]:" + SYMCH[s.syms[j.a] & 7] + "->" + SYMCH[j.b & 7]; s.syms[j.a] = (uint32_t)j.b; s.resim = true; return true;
    case STARTBIT: if ((size_t)j.a >= s.start.size()) return false; s.start[j.a] = !s.start[j.a]; what += "startbit[" + S(j.a) + "]";
      if (j.b) { if (s.start[j.a]) s.nf++; else if (s.nf) s.nf--; what += " (num_faces re-derived)"; } return true;
    case SEAM: if ((size_t)j.a >= s.seams.size()) return false;
      if (j.b < 0) { std::vector<bool> &l = s.seams[j.a]; if (l.empty()) return false;   // the whole list of one attribute: inverted / all seams / no seam
        std::vector<bool> o = l; for (size_t i = 0; i < l.size(); i++) l[i] = j.b == -1 ? !o[i] : j.b == -2; if (l == o) return false;
        what += "seam[" + S(j.a) + "][*] " + (j.b == -1 ? "inverted" : j.b == -2 ? "all 1" : "all 0"); return true; }
      if ((size_t)j.b >= s.seams[j.a].size()) return false; s.seams[j.a][j.b] = !s.seams[j.a][j.b]; what += "seam[" + S(j.a) + "][" + S(j.b) + "]"; return true;
    case EV_SRC: if ((size_t)j.a >= s.evs.size()) return false; s.evs[j.a].src += (uint32_t)j.b; s.resim = true; what += "event[" + S(j.a) + "].source" + (j.b > 0 ? "+1" : "-1"); return true;
    case EV_SPL: if ((size_t)j.a >= s.evs.size()) return false; s.evs[j.a].spl += (uint32_t)j.b; s.resim = true; what += "event[" + S(j.a) + "].split" + (j.b > 0 ? "+1" : "-1"); return true;
    case EV_EDGE: if ((size_t)j.a >= s.evs.size()) return false; s.evs[j.a].edge ^= 1; s.resim = true; what += "event[" + S(j.a) + "].edge"; return true;
    case EV_DEL: if ((size_t)j.a >= s.evs.size()) return false; s.evs.erase(s.evs.begin() + j.a); s.resim = true; what += "event[" + S(j.a) + "] removed"; return true;
    case EV_ADD: { Ev e{(uint32_t)j.a, (uint32_t)j.b, (uint32_t)j.c}; size_t k = 0; while (k < s.evs.size() && s.evs[k].src <= e.src) k++; s.evs.insert(s.evs.begin() + k, e); s.resim = true;
      what += "event added " + U(e.src) + ":" + U(e.spl) + ":" + U(e.edge); return true; }
    case COUNT: {
      uint32_t *f[5] = {&s.nv, &s.nf, &s.nattr, &s.nsym, &s.nsplit}; static const char *nm[5] = {"num_encoded_vertices", "num_faces", "num_attribute_data", "num_encoded_symbols", "num_encoded_split_symbols"};
      uint32_t o = *f[j.a], n = o;
      switch (j.b) { case 0: n = o - 1; break; case 1: n = o + 1; break; case 2: n = 0; break; case 3: n = 0x7fffffffu; break; case 4: n = 0xffffffffu; break; case 5: n = o * 2 + 1; break; default: n = 1000; }
      if (j.a == 2) n &= 0xff;
      if (n == o) return false;
      *f[j.a] = n; what += std::string(nm[j.a]) + ":" + U(o) + "->" + U(n); return true; }
    case SYM_DEL: if ((size_t)j.a >= s.syms.size()) return false;
      what += std::string("sym[") + S(j.a) + "]=" + SYMCH[s.syms[j.a] & 7] + " removed" + (j.b ? " (event ids shifted)" : "");
      s.syms.erase(s.syms.begin() + j.a); s.nsym = (uint32_t)s.syms.size(); if (s.nf) s.nf--; if (j.b) shift_events(s, (uint32_t)j.a + 1, -1); s.resim = true; return true;
    case SYM_INS: if ((size_t)j.a > s.syms.size()) return false;
      what += std::string("sym ") + SYMCH[j.b & 7] + " inserted at " + S(j.a) + (j.c ? " (event ids shifted)" : "");
      s.syms.insert(s.syms.begin() + j.a, (uint32_t)j.b); s.nsym = (uint32_t)s.syms.size(); s.nf++; s.nv += j.b == 7 ? 3 : (j.b == 3 || j.b == 5) ? 1 : 0;
      if (j.c) shift_events(s, (uint32_t)j.a, +1); s.resim = true; return true;
    case ATTDEC: if ((size_t)j.a >= after.size() || after[j.a] == (uint8_t)j.b) return false; what += "attbyte[" + S(j.a) + "]:" + U(after[j.a]) + "->" + U((uint8_t)j.b); after[j.a] = (uint8_t)j.b; return true;
    case PAIR: { if (!apply(g_jobs[j.a], s, after, what)) return false; what += " + "; return apply(g_jobs[j.b], s, after, what); }
    case TARGETED: { const Targeted &t = g_targeted[j.a]; int m = s.method; s = t.sc; s.method = m; s.resim = true; what += "targeted(" + t.why + ")"; return true; }
  }
  return false;
}
static void enumerate_jobs(int bi, Rng &r, bool thorough) {
  const Base &b = g_bases[bi]; const Script &s = b.sc; const size_t n = s.syms.size();
  auto add = [&](int cls, int64_t a, int64_t b2 = 0, int64_t c = 0) { g_jobs.push_back({bi, cls, a, b2, c}); };
  size_t first = g_jobs.size();
  add(VALID, 0);
  for (size_t i = 0; i < n; i++) for (int k = 0; k < 5; k++) if (SYM[k] != s.syms[i]) add(SYMBOL, (int64_t)i, SYM[k]);
  for (size_t i = 0; i < s.start.size(); i++) { add(STARTBIT, (int64_t)i, 0); add(STARTBIT, (int64_t)i, 1); }
  for (size_t a = 0; a < s.seams.size(); a++) { for (size_t i = 0; i < s.seams[a].size(); i++) add(SEAM, (int64_t)a, (int64_t)i); for (int k = -1; k >= -3; k--) add(SEAM, (int64_t)a, k); }
  for (size_t i = 0; i < s.evs.size(); i++) { add(EV_SRC, (int64_t)i, -1); add(EV_SRC, (int64_t)i, 1); add(EV_SPL, (int64_t)i, -1); add(EV_SPL, (int64_t)i, 1); add(EV_EDGE, (int64_t)i); add(EV_DEL, (int64_t)i); }
  { // an event added: every (source, split) pair with split <= source for short scripts, a sample otherwise; both edges
    std::vector<std::pair<uint32_t, uint32_t>> ps;
    for (uint32_t src = 0; src < n; src++) for (uint32_t spl = 0; spl <= src; spl++) ps.push_back({src, spl});
    size_t cap = thorough ? 60 : 24;
    for (size_t i = ps.size(); i > 1; i--) std::swap(ps[i - 1], ps[r.below(i)]);
    if (ps.size() > cap) ps.resize(cap);
    for (auto &p : ps) { add(EV_ADD, p.first, p.second, 0); add(EV_ADD, p.first, p.second, 1); }
  }
  for (int w = 0; w < 5; w++) for (int k = 0; k < 7; k++) add(COUNT, w, k);
  for (size_t i = 0; i < n; i++) { add(SYM_DEL, (int64_t)i, 0); if (!s.evs.empty()) add(SYM_DEL, (int64_t)i, 1); }
  for (size_t i = 0; i <= n; i++) { int k0 = (int)r.below(5); for (int k = 0; k < (thorough ? 5 : 2); k++) { add(SYM_INS, (int64_t)i, SYM[(k0 + k) % 5], 0); if (!s.evs.empty() && k == 0) add(SYM_INS, (int64_t)i, SYM[(k0 + k) % 5], 1); } }
  if (!b.after.empty()) {   // [num_attributes_decoders][att_data_id, decoder_type, traversal_method] x N
    size_t nd = b.after[0], lim = std::min(b.after.size(), 1 + 3 * nd);
    for (size_t p = 0; p < lim; p++) { const uint8_t vals[] = {0, 1, 2, 3, 0x7f, 0x80, 0xff, (uint8_t)(b.after[p] + 1), (uint8_t)(b.after[p] - 1)}; std::set<uint8_t> seen;
      for (uint8_t v : vals) if (v != b.after[p] && seen.insert(v).second) add(ATTDEC, (int64_t)p, v); }
  }
  size_t last = g_jobs.size();
  int np = thorough ? (int)std::min<size_t>(600, (last - first) / 2) : (int)std::min<size_t>(60, (last - first) / 6);
  for (int k = 0; k < np; k++) {
    size_t x = first + 1 + r.below(last - first - 1), y = first + 1 + r.below(last - first - 1);
    if (g_jobs[x].cls == COUNT && g_jobs[x].b >= 2) continue;     // a wild count makes the second mutation irrelevant
    if (g_jobs[y].cls == COUNT && g_jobs[y].b >= 2) continue;
    if (x != y) g_jobs.push_back({bi, PAIR, (int64_t)x, (int64_t)y, 0});
  }
}

// ------------------------------------------------------------------ in-process probe of a script (targeted search)
// Runs the REAL DecodeConnectivity() (header guards, state machine, attribute seams, RecomputeVertices, AssignPointsToCorners) on
// the script through the scripted traversal decoder and looks at the accepted tables with the eyes of the attribute traversers.
struct Probe { bool accepted = false, degenerate = false, glued = false, danger = false, dfs_oob = false; int nfaces = 0; uint32_t nvert = 0; std::string note; };
// the hypothesis DepthFirstTraverser needs (TRAVS): a vertex that IsOnBoundary() denies has a right corner at every corner
template <class T> static bool table_danger(const T *t, int nverts) {
  for (CornerIndex c(0); c < (uint32_t)t->num_corners(); ++c) {
    VertexIndex v = t->Vertex(c);
    if (v == kInvalidVertexIndex || v.value() >= (uint32_t)nverts) continue;
    if (!t->IsOnBoundary(v) && t->GetRightCorner(c) == kInvalidCornerIndex) return true;
  }
  return false;
}
// DepthFirstTraverser::TraverseFromCorner over all faces (MeshTraversalSequencer without corner order), every index tested
template <class T> static std::string dfs_checked(const T *t, int nverts) {
  const uint32_t nf = (uint32_t)t->num_faces(); std::vector<bool> fv(nf, false), vv((size_t)std::max(nverts, 0), false);
  auto vbad = [&](VertexIndex v) { return v.value() >= (uint32_t)nverts; };
  for (uint32_t i = 0; i < nf; i++) {
    CornerIndex corner_id(3 * i);
    if (fv[i]) continue;
    std::vector<CornerIndex> st; st.push_back(corner_id);
    VertexIndex nx = t->Vertex(t->Next(corner_id)), pv = t->Vertex(t->Previous(corner_id));
    if (nx == kInvalidVertexIndex || pv == kInvalidVertexIndex) return "";
    if (vbad(nx) || vbad(pv)) return "is_vertex_visited_ index out of range at a start face";
    vv[nx.value()] = true; vv[pv.value()] = true;
    while (!st.empty()) {
      corner_id = st.back();
      if (corner_id == kInvalidCornerIndex) { st.pop_back(); continue; }
      uint32_t face = corner_id.value() / 3;
      if (face >= nf) return "is_face_visited_ index out of range (stack)";
      if (fv[face]) { st.pop_back(); continue; }
      while (true) {
        if (face >= nf) return "MarkFaceVisited(" + U(face) + ") out of range: corner " + (corner_id == kInvalidCornerIndex ? std::string("kInvalidCornerIndex") : U(corner_id.value()));
        fv[face] = true;
        VertexIndex v = t->Vertex(corner_id);
        if (v == kInvalidVertexIndex) return "";
        if (vbad(v)) return "is_vertex_visited_ index out of range";
        if (!vv[v.value()]) {
          bool onb = t->IsOnBoundary(v); vv[v.value()] = true;
          if (!onb) { corner_id = t->GetRightCorner(corner_id); face = corner_id.value() / 3; continue; }
        }
        CornerIndex rc = t->GetRightCorner(corner_id), lc = t->GetLeftCorner(corner_id);
        uint32_t rf = rc == kInvalidCornerIndex ? 0xffffffffu : rc.value() / 3, lf = lc == kInvalidCornerIndex ? 0xffffffffu : lc.value() / 3;
        if ((rf != 0xffffffffu && rf >= nf) || (lf != 0xffffffffu && lf >= nf)) return "neighbour face out of range";
        bool rv = rf == 0xffffffffu || fv[rf], lv = lf == 0xffffffffu || fv[lf];
        if (rv) { if (lv) { st.pop_back(); break; } corner_id = lc; face = lf; }
        else if (lv) { corner_id = rc; face = rf; }
        else { st.back() = lc; st.push_back(rc); break; }
      }
    }
  }
  return "";
}
static Probe probe(const Script &s0) {
  Probe p; Script s = s0; s.method = 0; s.resim = false;
  if (s.nf > 100000u) return p;
  std::vector<uint8_t> sec = ser_conn(s);
  std::vector<char> bytes(sec.begin() + 1, sec.end()); bytes.insert(bytes.end(), 8, 0);
  MeshEdgebreakerDecoderImpl<ScrTD> impl; DecRig rig; rig.attach(impl, bytes);
  ScrTD &td = impl.traversal_decoder_;
  td.syms.assign(s.syms.rbegin(), s.syms.rend()); td.bits = s.start; td.seams = s.seams;
  if (!impl.DecodeConnectivity()) return p;
  p.accepted = true;
  const CornerTable *ct = impl.corner_table_.get(); p.nfaces = ct->num_faces();
  for (VertexIndex v(0); v < (uint32_t)ct->num_vertices(); ++v) if (ct->LeftMostCorner(v) != kInvalidCornerIndex) p.nvert++;
  for (FaceIndex f(0); f < (uint32_t)ct->num_faces(); ++f) { VertexIndex a = ct->Vertex(CornerIndex(3 * f.value())), b = ct->Vertex(CornerIndex(3 * f.value() + 1)), c = ct->Vertex(CornerIndex(3 * f.value() + 2)); if (a == b || b == c || a == c) p.degenerate = true; }
  for (CornerIndex c(0); c < (uint32_t)ct->num_corners(); ++c) { CornerIndex o = ct->Opposite(c); if (o == kInvalidCornerIndex) continue;
    if (ct->Vertex(ct->Next(c)) != ct->Vertex(ct->Previous(o)) || ct->Vertex(ct->Previous(c)) != ct->Vertex(ct->Next(o))) p.glued = true; }
  if (table_danger(ct, ct->num_vertices())) { p.danger = true; p.note += "position table: interior vertex with a corner without right corner; "; }
  std::string d = dfs_checked(ct, ct->num_vertices());
  if (!d.empty()) { p.dfs_oob = true; p.note += "position table DFS: " + d + "; "; }
  for (size_t a = 0; a < impl.attribute_data_.size(); a++) {
    const MeshAttributeCornerTable *at = &impl.attribute_data_[a].connectivity_data;
    if (table_danger(at, at->num_vertices())) { p.danger = true; p.note += "attribute table " + U(a) + ": interior vertex with a corner without right corner; "; }
    std::string e = dfs_checked(at, at->num_vertices());
    if (!e.empty()) { p.dfs_oob = true; p.note += "attribute table " + U(a) + " DFS: " + e + "; "; }
  }
  return p;
}

// a script given in DECODER order with events as (decoder position of the source symbol, decoder position of the split symbol, edge)
struct DScript { std::vector<uint32_t> d; std::vector<std::array<uint32_t, 3>> ev; };
static Script from_dscript(const DScript &ds, int extra_faces, const std::vector<bool> &bits, int nattr, Rng &r, int seam_pct, bool tight) {
  Script s; const uint32_t n = (uint32_t)ds.d.size();
  s.syms.assign(ds.d.rbegin(), ds.d.rend());
  for (auto &e : ds.ev) s.evs.push_back({n - 1 - e[0], n - 1 - e[1], e[2]});
  std::stable_sort(s.evs.begin(), s.evs.end(), [](const Ev &x, const Ev &y) { return x.src < y.src; });
  uint32_t created = 0, nS = 0; for (uint32_t y : ds.d) { created += y == 7 ? 3 : (y == 3 || y == 5) ? 1 : 0; nS += y == 1; }
  s.nsym = n; s.nf = n + (uint32_t)extra_faces; s.nsplit = std::min(nS, n);
  s.nv = tight ? (created > s.nsplit ? created - s.nsplit : created) : 3 * s.nf;
  if (s.nv > 3 * s.nf) s.nv = 3 * s.nf;
  s.start = bits; s.nattr = (uint32_t)nattr;
  for (int a = 0; a < nattr; a++) { std::vector<bool> l; for (uint32_t i = 0; i < 3 * s.nf + 3; i++) l.push_back(r.chance(seam_pct)); s.seams.push_back(l); }
  return s;
}
static long g_probed = 0, g_probe_acc = 0, g_probe_degenerate = 0, g_probe_glued = 0, g_probe_danger = 0, g_probe_dfs_oob = 0;
static void consider(const Script &s, const char *how, Rng &r, int keep_pct, std::vector<Targeted> &out) {
  Probe p = probe(s); g_probed++;
  if (!p.accepted) return;
  g_probe_acc++; g_probe_degenerate += p.degenerate; g_probe_glued += p.glued; g_probe_danger += p.danger; g_probe_dfs_oob += p.dfs_oob;
  std::string why = how; if (p.degenerate) why += "+degenerate"; if (p.glued) why += "+misglued"; if (p.danger) why += "+DANGER"; if (p.dfs_oob) why += "+DFSOOB[" + p.note + "]";
  for (char &ch : why) if (ch == ' ') ch = '_';
  if (p.danger || p.dfs_oob || ((p.degenerate || p.glued) && r.chance(std::min(100, keep_pct * 3))) || r.chance(keep_pct)) { Targeted t; t.sc = s; t.why = why; t.nvert = p.nvert; out.push_back(t); }
}
// start-face variants of a decoder-order script: exterior only; interior start faces (bits true) with the matching face count
static void with_start_variants(const DScript &ds, Rng &r, int nattr, const char *how, int keep_pct, std::vector<Targeted> &out) {
  int nE = 0, nS = 0; for (uint32_t y : ds.d) { nE += y == 7; nS += y == 1; }
  int stack = std::max(0, nE - nS) + 1;
  const int pct = r.chance(30) ? 0 : r.chance(30) ? 100 : (int)r.range(5, 60);
  consider(from_dscript(ds, 0, std::vector<bool>((size_t)stack + 2, false), nattr, r, pct, r.chance(30)), how, r, keep_pct, out);
  for (int k = 1; k <= std::min(stack, 3); k++) {
    std::vector<bool> bits((size_t)stack + 2, false);
    if (k == stack || r.chance(50)) for (int i = 0; i < k; i++) bits[i] = true; else { int placed = 0; while (placed < k) { size_t i = r.below((size_t)stack); if (!bits[i]) { bits[i] = true; placed++; } } }
    consider(from_dscript(ds, k, bits, nattr, r, pct, r.chance(30)), how, r, keep_pct, out);
  }
}
static bool alive(const DScript &ds, Rng &r) { std::vector<bool> none(ds.d.size() + 2, false); return probe(from_dscript(ds, 0, none, 0, r, 0, false)).accepted; }
static int g_force_maxlen = 0, g_force_ngrow = 0;   // mode `probe`: a larger in-process search
static void targeted_search(Rng &r, bool thorough, std::vector<Targeted> &out) {
  // (0) the two witnesses of Properties_EB.v
  { DScript w; w.d = {7, 1}; w.ev = {{0, 1, 1}}; for (int na = 0; na < 3; na++) { Script s = from_dscript(w, 0, {false, false}, na, r, 30, true); s.nv = 3; s.nsplit = 1; { Targeted t; t.sc = s; t.why = "EB-witness-degenerate-faces-E,S"; t.nvert = 2; out.push_back(t); } }
    DScript g; g.d = {7, 3, 3}; for (int na = 0; na < 3; na++) { Script s = from_dscript(g, 1, {true, true, true, true, true}, na, r, 30, false); s.nv = 5; s.nsplit = 0; { Targeted t; t.sc = s; t.why = "EB-witness-misglued-start-face-E,L,L"; t.nvert = 5; out.push_back(t); } }
    DScript g2; g2.d = {7, 3}; for (int na = 0; na < 3; na++) { Script s = from_dscript(g2, 1, {true, true, true, true}, na, r, 30, false); { Targeted t; t.sc = s; t.why = "EB-witness-misglued-start-face-E,L"; t.nvert = 4; out.push_back(t); } } }
  // (1) every symbol list up to a length (first decoded symbol E), no event / every single event joining an earlier L,R,E to a later S
  const int maxlen = g_force_maxlen ? g_force_maxlen : thorough ? 6 : 5;
  for (int len = 1; len <= maxlen; len++) {
    long total = 1; for (int i = 1; i < len; i++) total *= 5;
    for (long code = 0; code < total; code++) {
      DScript ds; ds.d.push_back(7); long c = code; for (int i = 1; i < len; i++) { ds.d.push_back(SYM[c % 5]); c /= 5; }
      const int na = (int)r.below(3);
      with_start_variants(ds, r, na, "exhaustive", thorough ? 12 : 6, out);
      for (int i = 0; i < len; i++) { if (ds.d[i] == 0 || ds.d[i] == 1) continue;
        for (int j = i + 1; j < len; j++) { if (ds.d[j] != 1) continue;
          for (uint32_t e = 0; e < 2; e++) { DScript x = ds; x.ev = {{(uint32_t)i, (uint32_t)j, e}}; with_start_variants(x, r, (int)r.below(3), "exhaustive+event", thorough ? 20 : 10, out); } } }
    }
  }
  // (2) grown scripts: symbol by symbol among the choices that keep the symbol loop alive (oracle = the real decoder); S symbols get
  //     split events aimed at earlier L/R/E symbols (vertex merges), weights favour S and E (many components joined in odd ways)
  const int ngrow = g_force_ngrow ? g_force_ngrow : thorough ? 20000 : 2000;
  for (int t = 0; t < ngrow; t++) {
    DScript ds; ds.d.push_back(7);
    const int want = (int)r.range(2, thorough ? 22 : 14);
    const int wC = (int)r.range(5, 40), wS = (int)r.range(10, 40), wL = (int)r.range(5, 25), wR = (int)r.range(5, 25), wE = (int)r.range(5, 30);
    for (int k = 0; k < want; k++) {
      bool grown = false;
      for (int tries = 0; tries < 6 && !grown; tries++) {
        int x = (int)r.below(wC + wS + wL + wR + wE); uint32_t y = x < wC ? 0 : x < wC + wS ? 1 : x < wC + wS + wL ? 3 : x < wC + wS + wL + wR ? 5 : 7;
        DScript c = ds; c.d.push_back(y);
        if (y == 1 && r.chance(70)) { std::vector<uint32_t> srcs; for (uint32_t i = 0; i + 1 < c.d.size(); i++) if (c.d[i] == 3 || c.d[i] == 5 || c.d[i] == 7) srcs.push_back(i);
          if (!srcs.empty()) c.ev.push_back({srcs[r.below(srcs.size())], (uint32_t)c.d.size() - 1, (uint32_t)r.below(2)}); }
        if (alive(c, r)) { ds = c; grown = true; }
      }
      if (!grown) break;
    }
    if (ds.d.size() < 2) continue;
    with_start_variants(ds, r, (int)r.below(3), "grown", 25, out);
  }
}

// ------------------------------------------------------------------ one decode under observation (h_dec's oracles)
struct Shared { volatile long cur; volatile int stage; volatile long cnt[NCLS][6]; volatile uint64_t worst_alloc_ratio_x1000; volatile long invalid; volatile uint32_t len; char label[4096]; uint8_t bytes[1 << 17]; };
static std::string validate(const PointCloud &pc, const Mesh *m) {
  if (m) for (FaceIndex f(0); f < m->num_faces(); ++f) for (int j = 0; j < 3; j++) if (m->face(f)[j].value() >= pc.num_points()) return "face index >= num_points";
  for (int i = 0; i < pc.num_attributes(); i++) {
    const PointAttribute *a = pc.attribute(i);
    if (a->num_components() <= 0) return "num_components <= 0";
    if (!a->is_mapping_identity() && a->indices_map_size() != pc.num_points()) return "point map size != num_points";
    if ((uint64_t)a->buffer()->data_size() < (uint64_t)a->size() * a->byte_stride()) return "attribute buffer too small";
    for (PointIndex p(0); p < pc.num_points(); ++p) if (a->mapped_index(p).value() >= a->size()) {
      bool on_face = false; if (m) for (FaceIndex f(0); f < m->num_faces() && !on_face; ++f) for (int j = 0; j < 3; j++) if (m->face(f)[j] == p) on_face = true;
      if (m && !on_face && a->mapped_index(p) == kInvalidAttributeValueIndex) return "point maps to a missing value [point " + U(p.value()) + " of " + U(pc.num_points()) + " is on no face; attribute " + S(i) + " maps it to kInvalidAttributeValueIndex]";
      return "point maps to a missing value"; }
    std::vector<uint8_t> buf(a->byte_stride() + 8); volatile uint8_t sink = 0;
    for (PointIndex p(0); p < pc.num_points(); ++p) { a->GetMappedValue(p, buf.data()); sink ^= buf[0]; }
  }
  return "";
}
static const uint64_t K_PER_BYTE = 4096, K_PER_ELEMENT = 4096, C_FIXED = 24ull << 20;
// returns 0 rejected, 1 accepted, 2 rejected after the connectivity section was accepted (the attribute stage was reached)
static Probe probe(const Script &s0);
static int run_stream(FILE *out, const std::vector<uint8_t> &bytes, const std::string &label, int entry, Shared *sh, long *bangs, const Script *sc = nullptr) {
  std::vector<uint8_t> copy = bytes;
  g_declared = 0; g_saw_num_attributes = false; g_live = 0; g_peak = 0; g_maxreq = 0; g_track = true;
  std::string res, bad; bool ok = false;
  {
    DecoderBuffer db; db.Init((const char *)copy.data(), copy.size()); Decoder d;
    try {
      if (entry == 4) { d.SetSkipAttributeTransform(GeometryAttribute::POSITION); d.SetSkipAttributeTransform(GeometryAttribute::NORMAL); d.SetSkipAttributeTransform(GeometryAttribute::TEX_COORD); }
      auto m = d.DecodeMeshFromBuffer(&db); ok = m.ok(); if (ok) bad = validate(*m.value(), m.value().get());
    } catch (const std::bad_alloc &) { res = "bad_alloc"; } catch (const std::length_error &) { res = "length_error"; }
  }
  g_track = false;
  const std::string hx = hex(bytes.data(), bytes.size());
  if (copy != bytes) { fprintf(out, "! C02 decoder modified its input bytes: %s %s\n", label.c_str(), hx.c_str()); (*bangs)++; }
  if (!bad.empty()) {
    // defect D24 (interior start face glued without comparing vertices; fixed in /repo a3a73f7) keeps its own tag: it must not fire any more
    bool tagged = false;
    if (sc && bad.find("is on no face") != std::string::npos) { Script q = *sc; for (auto &l : q.seams) l.assign(3 * (size_t)q.nf + 3, true); while (q.seams.size() < q.nattr && q.seams.size() < 255) q.seams.push_back(std::vector<bool>(3 * (size_t)q.nf + 3, true)); tagged = probe(q).glued;   // every edge a seam: RecomputeVertices cannot fail
      if (!tagged) { q.start.resize(q.syms.size() + 4, true); tagged = probe(q).glued; } }   // start-face bits read behind the end of the coded list (the rANS bit decoder keeps delivering)
    fprintf(out, "! %s decode returned ok with an invalid geometry (%s): entry %d %s %s\n", tagged ? "C03-unreferenced-point-after-misglued-interior-start-face" : "C03", bad.c_str(), entry, label.c_str(), hx.c_str()); sh->invalid++; (*bangs)++; }
  const uint64_t bound = K_PER_BYTE * bytes.size() + K_PER_ELEMENT * g_declared + C_FIXED;
  const uint64_t worst = std::max<uint64_t>(g_maxreq, g_peak);
  if (res.empty() && worst > bound) { fprintf(out, "! C18 allocation not justified by input length + declared counts: max_request=%llu peak=%llu bound=%llu declared=%llu len=%zu %s %s\n",
            (unsigned long long)g_maxreq.load(), (unsigned long long)g_peak.load(), (unsigned long long)bound, (unsigned long long)g_declared, bytes.size(), label.c_str(), hx.c_str()); (*bangs)++; }
  if (!res.empty() && K_PER_ELEMENT * g_declared + K_PER_BYTE * bytes.size() < (1ull << 28)) { fprintf(out, "! C02 %s without a large declared element count (declared=%llu): %s %s\n", res.c_str(), (unsigned long long)g_declared, label.c_str(), hx.c_str()); (*bangs)++; }
  uint64_t ratio = worst * 1000 / (bound ? bound : 1); if (ratio > sh->worst_alloc_ratio_x1000) sh->worst_alloc_ratio_x1000 = ratio;
  return ok ? 1 : (g_saw_num_attributes ? 2 : 0);
}
static void publish(Shared *sh, const std::string &label, const std::vector<uint8_t> &bytes) {
  snprintf(sh->label, sizeof sh->label, "%s", label.c_str());
  sh->len = (uint32_t)std::min(bytes.size(), sizeof sh->bytes); memcpy(sh->bytes, bytes.data(), sh->len);
}
static FILE *g_dump = nullptr;   // debugging aid: HOSTILE_DUMP=<file> records every stream
static void run_job(FILE *out, long idx, Shared *sh) {
  const Job &j = g_jobs[idx]; const Base &b = g_bases[j.base];
  Script s = b.sc; std::vector<uint8_t> after = b.after; std::string what;
  auto line = [&](const char *r) { fprintf(out, "h %s b%d %lld %lld %lld | %s\n", CLSNAME[j.cls], j.base, (long long)j.a, (long long)j.b, (long long)j.c, r); };
  snprintf(sh->label, sizeof sh->label, "(building the stream of job %ld: %s of %s)", idx, CLSNAME[j.cls], b.label.c_str()); sh->len = 0; sh->stage = 0;
  if (!apply(j, s, after, what)) { sh->cnt[j.cls][4]++; line("n/a"); return; }
  bool inexp = false; std::vector<uint8_t> sec = serialise(s, &inexp);
  if (inexp) { sh->cnt[j.cls][4]++; line("n/a (the valence decoder forces the first symbol to E)"); return; }
  std::vector<uint8_t> st = b.prefix; st.insert(st.end(), sec.begin(), sec.end()); st.insert(st.end(), after.begin(), after.end());
  const std::string label = std::string(CLSNAME[j.cls]) + " " + what + " of [" + b.label + "] script=" + script_text(s);
  long bangs = 0;
  if (j.cls == VALID && st != b.all) { fprintf(out, "! C02-SELFCHECK re-serialised unmodified stream differs from the encoder's: %s %s\n", label.c_str(), hex(st.data(), st.size()).c_str()); bangs++; }
  publish(sh, label, st); sh->stage = 1;
  int r = run_stream(out, st, label, 0, sh, &bangs, &s);
  if (j.cls == VALID && r != 1) { fprintf(out, "! C02-SELFCHECK the unmodified stream is not accepted: %s %s\n", label.c_str(), hex(st.data(), st.size()).c_str()); bangs++; }
  if (r == 1 && j.cls != VALID) { sh->stage = 2; run_stream(out, st, label, 4, sh, &bangs, &s); }
  sh->stage = 0;
  if (g_dump) fprintf(g_dump, "%s %d %s\n", CLSNAME[j.cls], r, hex(st.data(), st.size()).c_str());
  sh->cnt[j.cls][0]++; sh->cnt[j.cls][r == 1 ? 1 : 2]++; if (r) sh->cnt[j.cls][3]++; sh->cnt[j.cls][5] += bangs;
  line(r == 1 ? "acc" : r == 2 ? "rej-after-connectivity" : "rej");
}
// what the sanitizer wrote to the child's stderr: the headline, the first frames, the summary
static std::string sanitizer_report(const std::string &path, std::vector<std::string> *lines) {
  std::ifstream f(path); std::string l, head; int frames = 0;
  while (std::getline(f, l)) {
    bool key = l.find("ERROR: AddressSanitizer") != std::string::npos || l.find("runtime error:") != std::string::npos || l.find("SUMMARY:") != std::string::npos ||
               l.find(" of size ") != std::string::npos || l.find("is located") != std::string::npos || l.find("AddressSanitizer:DEADLYSIGNAL") != std::string::npos;
    bool frame = l.find("    #") == 0 && frames < 12;
    if (key || frame) { if (lines && lines->size() < 40) lines->push_back(l); if (frame) frames++; }
    if (head.empty() && (l.find("ERROR: AddressSanitizer") != std::string::npos || l.find("runtime error:") != std::string::npos)) head = l;
  }
  for (char &c : head) if (c == '\t') c = ' ';
  if (head.size() > 300) head.resize(300);
  return head;
}
static int g_crashes = 0, g_hangs = 0;
static void run_all(FILE *out, Shared *sh, const std::string &errpath, int watchdog) {
  long start = 0;
  while (start < (long)g_jobs.size()) {
    fflush(out);
    pid_t pid = fork();
    if (pid < 0) { perror("fork"); exit(2); }
    if (pid == 0) {
      int fd = open(errpath.c_str(), O_WRONLY | O_CREAT | O_TRUNC, 0644); if (fd >= 0) { dup2(fd, 2); close(fd); }
      for (long i = start; i < (long)g_jobs.size(); i++) { sh->cur = i; alarm(watchdog); run_job(out, i, sh); }
      alarm(0); fflush(out); _exit(0);
    }
    int st = 0; waitpid(pid, &st, 0);
    if (WIFEXITED(st) && WEXITSTATUS(st) == 0) break;
    const long i = sh->cur; const Job &j = g_jobs[i];
    const bool hang = WIFSIGNALED(st) && WTERMSIG(st) == SIGALRM;
    std::vector<std::string> rep; std::string head = sanitizer_report(errpath, &rep);
    if (hang) g_hangs++; else g_crashes++;
    const char *where = sh->stage == 0 ? " while the harness ran the real decoder template on the script (valence context simulation)" : sh->stage == 2 ? " (skip-attribute-transform decode)" : "";
    fprintf(out, "! C02 decoder %s (status %d)%s [%s]: %s %s\n", hang ? "did not return within the time limit (hang)" : "crashed / sanitizer abort", st, where, head.c_str(), sh->label,
            sh->len ? hex(sh->bytes, sh->len).c_str() : "-");
    for (auto &l : rep) fprintf(out, "# REPORT %s\n", l.c_str());
    sh->cnt[j.cls][0]++; sh->cnt[j.cls][5]++;
    fflush(out); start = i + 1;
    if (g_crashes + g_hangs > 200) { fprintf(out, "! C02 more than 200 crashing inputs; stopping\n"); break; }
  }
}

// ------------------------------------------------------------------ the targeted search runs in a child of its own; the selected scripts come back through a file
static void put_u32(FILE *f, uint32_t v) { fwrite(&v, 4, 1, f); }
static bool get_u32(FILE *f, uint32_t *v) { return fread(v, 4, 1, f) == 1; }
static void put_bits(FILE *f, const std::vector<bool> &b) { put_u32(f, (uint32_t)b.size()); for (bool x : b) fputc(x ? 1 : 0, f); }
static bool get_bits(FILE *f, std::vector<bool> *b) { uint32_t n; if (!get_u32(f, &n) || n > (1u << 24)) return false; b->clear(); for (uint32_t i = 0; i < n; i++) { int c = fgetc(f); if (c == EOF) return false; b->push_back(c != 0); } return true; }
static void dump_targeted(FILE *f, const std::vector<Targeted> &ts) {
  put_u32(f, (uint32_t)ts.size());
  for (auto &t : ts) { const Script &s = t.sc; put_u32(f, s.nv); put_u32(f, s.nf); put_u32(f, s.nattr); put_u32(f, s.nsym); put_u32(f, s.nsplit);
    put_u32(f, (uint32_t)s.syms.size()); for (uint32_t y : s.syms) put_u32(f, y);
    put_u32(f, (uint32_t)s.evs.size()); for (auto &e : s.evs) { put_u32(f, e.src); put_u32(f, e.spl); put_u32(f, e.edge); }
    put_bits(f, s.start); put_u32(f, (uint32_t)s.seams.size()); for (auto &l : s.seams) put_bits(f, l);
    put_u32(f, (uint32_t)t.why.size()); fwrite(t.why.data(), 1, t.why.size(), f); put_u32(f, t.nvert); }
  long c[6] = {g_probed, g_probe_acc, g_probe_degenerate, g_probe_glued, g_probe_danger, g_probe_dfs_oob}; fwrite(c, sizeof c, 1, f);
}
static bool load_targeted(FILE *f, std::vector<Targeted> *ts) {
  uint32_t n; if (!get_u32(f, &n)) return false;
  for (uint32_t i = 0; i < n; i++) { Targeted t; Script &s = t.sc; uint32_t k;
    if (!get_u32(f, &s.nv) || !get_u32(f, &s.nf) || !get_u32(f, &s.nattr) || !get_u32(f, &s.nsym) || !get_u32(f, &s.nsplit) || !get_u32(f, &k)) return false;
    s.syms.resize(k); for (auto &y : s.syms) if (!get_u32(f, &y)) return false;
    if (!get_u32(f, &k)) return false; s.evs.resize(k); for (auto &e : s.evs) if (!get_u32(f, &e.src) || !get_u32(f, &e.spl) || !get_u32(f, &e.edge)) return false;
    if (!get_bits(f, &s.start) || !get_u32(f, &k)) return false; s.seams.resize(k); for (auto &l : s.seams) if (!get_bits(f, &l)) return false;
    if (!get_u32(f, &k) || k > 100000) return false; t.why.resize(k); if (k && fread(&t.why[0], 1, k, f) != k) return false; if (!get_u32(f, &t.nvert)) return false;
    ts->push_back(t); }
  long c[6]; if (fread(c, sizeof c, 1, f) != 1) return false;
  g_probed = c[0]; g_probe_acc = c[1]; g_probe_degenerate = c[2]; g_probe_glued = c[3]; g_probe_danger = c[4]; g_probe_dfs_oob = c[5];
  return true;
}

// ------------------------------------------------------------------ main
static const Cfg CFGS[] = {
  // method speed forced-prediction atts ipos
  {0, 0, -1, 3, false, "std s0 tex+normal (prediction-degree traversal, tex-coords portable, geometric normal)"},
  {2, 0, -1, 1, false, "val s0 tex"},
  {0, 5, -1, 0, false, "std s5 positions only (depth-first, parallelogram)"},
  {2, 5, -1, 0, false, "val s5 positions only"},
  {0, 5, -1, 5, false, "std s5 tex+generic (per-corner attributes, seams)"},
  {2, 5, -1, 6, false, "val s5 normal+generic"},
  {0, 3, MESH_PREDICTION_CONSTRAINED_MULTI_PARALLELOGRAM, 1, false, "std s3 constrained multi-parallelogram pos+tex"},
  {2, 1, MESH_PREDICTION_CONSTRAINED_MULTI_PARALLELOGRAM, 0, false, "val s1 constrained multi-parallelogram pos"},
  {0, 7, -1, 3, false, "std s7 tex+normal (single connectivity)"},
  {2, 7, -1, 1, false, "val s7 tex (single connectivity)"},
  {0, 10, -1, 1, false, "std s10 tex (difference prediction)"},
  {0, 0, -1, 1, true, "std s0 integer positions + tex"},
  {2, 5, -1, 2, true, "val s5 integer positions + normal"},
  {0, 2, MESH_PREDICTION_PARALLELOGRAM, 3, false, "std s2 parallelogram tex+normal"},
  {2, 0, -1, 3, false, "val s0 tex+normal"},
  {0, 5, -1, 7, false, "std s5 tex+normal+generic (3 attribute data)"},
};
// debugging aid: h_hostile table "<script text>": the tables the real connectivity decoder builds for a script
static bool parse_script(const std::string &t, Script *s) {
  std::stringstream ss(t); std::string kv;
  while (std::getline(ss, kv, ',')) { size_t e = kv.find('='); if (e == std::string::npos) return false; std::string k = kv.substr(0, e), v = kv.substr(e + 1);
    if (k == "m") s->method = atoi(v.c_str()); else if (k == "nv") s->nv = (uint32_t)strtoul(v.c_str(), 0, 10); else if (k == "nf") s->nf = (uint32_t)strtoul(v.c_str(), 0, 10);
    else if (k == "na") s->nattr = (uint32_t)strtoul(v.c_str(), 0, 10); else if (k == "ns") s->nsym = (uint32_t)strtoul(v.c_str(), 0, 10); else if (k == "nsp") s->nsplit = (uint32_t)strtoul(v.c_str(), 0, 10);
    else if (k == "sy") { if (v != "-") for (char c : v) s->syms.push_back(c == 'C' ? 0 : c == 'S' ? 1 : c == 'L' ? 3 : c == 'R' ? 5 : 7); }
    else if (k == "ev") { if (v != "-") { std::stringstream es(v); std::string one; while (std::getline(es, one, ';')) { Ev e{0, 0, 0}; sscanf(one.c_str(), "%u:%u:%u", &e.src, &e.spl, &e.edge); s->evs.push_back(e); } } }
    else if (k == "sb") { if (v != "-") for (char c : v) s->start.push_back(c == '1'); }
    else if (k == "se") { if (v != "-") { std::stringstream es(v); std::string one; while (std::getline(es, one, ';')) { std::vector<bool> l; if (one != "e") for (char c : one) l.push_back(c == '1'); s->seams.push_back(l); } } }
  }
  return true;
}
static int table_main(char **argv) {
  Script s; if (!parse_script(argv[2], &s)) return 2; s.method = 0;
  if (getenv("ALLSEAMS")) for (auto &l : s.seams) l.assign(3 * (size_t)s.nf + 3, true);
  std::vector<uint8_t> sec = ser_conn(s); std::vector<char> bytes(sec.begin() + 1, sec.end()); bytes.insert(bytes.end(), 8, 0);
  MeshEdgebreakerDecoderImpl<ScrTD> impl; DecRig rig; rig.attach(impl, bytes); ScrTD &td = impl.traversal_decoder_;
  td.syms.assign(s.syms.rbegin(), s.syms.rend()); td.bits = s.start; td.seams = s.seams;
  bool ok = impl.DecodeConnectivity(); printf("DecodeConnectivity: %d\n", ok); if (!ok) return 0;
  const CornerTable *ct = impl.corner_table_.get(); auto I = [](uint32_t x) { return x == 0xffffffffu ? std::string("-") : U(x); };
  printf("faces:"); for (int c = 0; c < ct->num_corners(); c++) printf("%s%s", c % 3 ? "," : " ", I(ct->Vertex(CornerIndex(c)).value()).c_str()); printf("\nopp:");
  for (int c = 0; c < ct->num_corners(); c++) printf("%s%s", c % 3 ? "," : " ", I(ct->Opposite(CornerIndex(c)).value()).c_str()); printf("\nlmc:");
  for (int v = 0; v < ct->num_vertices(); v++) printf(" %s", I(ct->LeftMostCorner(VertexIndex(v)).value()).c_str()); printf("\nhole:");
  for (size_t v = 0; v < impl.is_vert_hole_.size(); v++) printf("%d", (int)impl.is_vert_hole_[v]); printf("\npoints=%u mesh faces:", rig.mesh.num_points());
  for (FaceIndex f(0); f < rig.mesh.num_faces(); ++f) printf(" %u,%u,%u", rig.mesh.face(f)[0].value(), rig.mesh.face(f)[1].value(), rig.mesh.face(f)[2].value()); printf("\n");
  for (size_t a = 0; a < impl.attribute_data_.size(); a++) { const MeshAttributeCornerTable &at = impl.attribute_data_[a].connectivity_data; printf("att %zu nv=%d verts:", a, at.num_vertices());
    for (int c = 0; c < ct->num_corners(); c++) printf("%s%s", c % 3 ? "," : " ", I(at.Vertex(CornerIndex(c)).value()).c_str()); printf("\n"); }
  Probe p = probe(s); printf("probe: degenerate=%d glued=%d danger=%d dfs_oob=%d %s\n", p.degenerate, p.glued, p.danger, p.dfs_oob, p.note.c_str());
  return 0;
}
static int one_main(char **argv) {
  std::ifstream hf(argv[2]); std::string hx; hf >> hx; std::vector<uint8_t> bytes = unhex(hx);
  FILE *out = fopen(argv[3], "w"); if (!out) return 2; setvbuf(out, nullptr, _IOLBF, 0);
  Shared *sh = (Shared *)mmap(nullptr, sizeof(Shared), PROT_READ | PROT_WRITE, MAP_SHARED | MAP_ANONYMOUS, -1, 0); memset((void *)sh, 0, sizeof(Shared));
  std::string errpath = std::string(argv[3]) + ".stderr"; long acc = 0, rej = 0;
  for (int e : {0, 4}) {
    fflush(out); pid_t pid = fork();
    if (pid == 0) { int fd = open(errpath.c_str(), O_WRONLY | O_CREAT | O_TRUNC, 0644); if (fd >= 0) { dup2(fd, 2); close(fd); } alarm(60); long bangs = 0; int r = run_stream(out, bytes, "replay", e, sh, &bangs); fflush(out); _exit(r == 1 ? 10 : 11); }
    int st = 0; waitpid(pid, &st, 0);
    if (WIFEXITED(st) && (WEXITSTATUS(st) == 10 || WEXITSTATUS(st) == 11)) { if (WEXITSTATUS(st) == 10) acc++; else rej++; continue; }
    std::vector<std::string> rep; std::string head = sanitizer_report(errpath, &rep);
    fprintf(out, "! C02 decoder %s (status %d) on entry %d [%s]: replay %s\n", (WIFSIGNALED(st) && WTERMSIG(st) == SIGALRM) ? "did not return within the time limit (hang)" : "crashed / sanitizer abort", st, e, head.c_str(), hx.c_str());
    for (auto &l : rep) fprintf(out, "# REPORT %s\n", l.c_str());
  }
  fprintf(out, "# STATS replay accepted=%ld rejected=%ld\n", acc, rej); fclose(out); return 0;
}
int main(int argc, char **argv) {
  if (!strcmp(argv[1], "table") && argc >= 3) return table_main(argv);
  if (!strcmp(argv[1], "probe") && argc >= 5) {   // h_hostile probe <seed> <exhaustive length> <grown scripts>: the in-process search alone
    Rng pr(strtoull(argv[2], 0, 10)); g_force_maxlen = atoi(argv[3]); g_force_ngrow = atoi(argv[4]); std::vector<Targeted> ts; targeted_search(pr, true, ts);
    printf("probes=%ld accepted=%ld degenerate=%ld misglued=%ld DANGER=%ld DFS_OOB=%ld\n", g_probed, g_probe_acc, g_probe_degenerate, g_probe_glued, g_probe_danger, g_probe_dfs_oob);
    for (auto &t : ts) if (t.why.find("DANGER") != std::string::npos || t.why.find("DFSOOB") != std::string::npos) printf("%s %s\n", t.why.c_str(), script_text(t.sc).c_str());
    return 0; }
  if (argc < 4) { fprintf(stderr, "usage: h_hostile quick|thorough seed out | one hexfile out | table script\n"); return 2; }
  if (!strcmp(argv[1], "one")) return one_main(argv);
  const bool thorough = !strcmp(argv[1], "thorough");
  Rng r(strtoull(argv[2], 0, 10));
  FILE *out = fopen(argv[3], "w"); if (!out) return 2; setvbuf(out, nullptr, _IOLBF, 0);
  const std::string errpath = std::string(argv[3]) + ".stderr", tpath = std::string(argv[3]) + ".targeted";
  // 1. valid base streams
  const int nmesh = thorough ? 60 : 26, ncfg = (int)(sizeof CFGS / sizeof CFGS[0]);
  long total_syms = 0, total_evs = 0, total_seam = 0, total_start = 0, interior = 0; std::map<std::string, int> per_cfg;
  for (int mi = 0; mi < nmesh; mi++) {
    MeshSpec ms = gen_mesh(r, mi);
    if (ms.f.empty() || ms.f.size() > 40) continue;
    for (int ci = 0; ci < ncfg; ci++) {
      if (!thorough && ((mi + ci) % 2) != 0) continue;   // quick: half of the (mesh, configuration) grid
      const Cfg &c = CFGS[ci]; Base b; const int q = (int)r.range(8, 14), sb = 1 + (int)r.below(4);
      bool ok = c.method == 0 ? make_base<RecStdTE, 0>(out, ms, c, q, sb, &b) : make_base<RecValTE, 2>(out, ms, c, q, sb, &b);
      if (!ok) continue;
      g_bases.push_back(b); per_cfg[c.what]++; total_syms += (long)b.sc.syms.size(); total_evs += (long)b.sc.evs.size(); total_start += (long)b.sc.start.size();
      for (auto &l : b.sc.seams) total_seam += (long)l.size(); for (bool x : b.sc.start) interior += x;
    }
  }
  fprintf(out, "# h_hostile tier=%s seed=%s base_streams=%zu symbols=%ld split_events=%ld start_face_bits=%ld (interior %ld) seam_bits=%ld\n", argv[1], argv[2], g_bases.size(), total_syms, total_evs, total_start, interior, total_seam);
  fprintf(out, "# SELFCHECK serialiser == real encoder bytes on %ld/%zu unmodified scripts; valence context lists re-derived through the real decoder template == encoder's lists on %ld\n", g_selfcheck_ok, g_bases.size(), g_selfcheck_resim_ok);
  for (auto &kv : per_cfg) fprintf(out, "# CONFIG %d x %s\n", kv.second, kv.first.c_str());
  if (g_bases.empty()) { fprintf(out, "! C02-SELFCHECK no base stream could be produced\n"); fclose(out); return 0; }
  // 2. targeted scripts (in-process probes of the real connectivity decoder, in a child)
  { fflush(out); pid_t pid = fork();
    if (pid == 0) { int fd = open(errpath.c_str(), O_WRONLY | O_CREAT | O_TRUNC, 0644); if (fd >= 0) { dup2(fd, 2); close(fd); }
      alarm(thorough ? 900 : 150); std::vector<Targeted> ts; Rng tr(r.s ^ 0x5151); targeted_search(tr, thorough, ts);
      FILE *tf = fopen(tpath.c_str(), "wb"); if (!tf) _exit(3); dump_targeted(tf, ts); fclose(tf); _exit(0); }
    int st = 0; waitpid(pid, &st, 0);
    if (WIFEXITED(st) && WEXITSTATUS(st) == 0) { FILE *tf = fopen(tpath.c_str(), "rb"); if (!tf || !load_targeted(tf, &g_targeted)) fprintf(out, "! C02-SELFCHECK targeted scripts could not be read back\n"); if (tf) fclose(tf); }
    else { std::vector<std::string> rep; std::string head = sanitizer_report(errpath, &rep);
      fprintf(out, "! C02 the real connectivity decoder template %s during the in-process script probes (status %d) [%s] -\n", (WIFSIGNALED(st) && WTERMSIG(st) == SIGALRM) ? "ran out of time" : "crashed", st, head.c_str());
      for (auto &l : rep) fprintf(out, "# REPORT %s\n", l.c_str()); }
    unlink(tpath.c_str()); r.next(); }
  fprintf(out, "# TARGETED probes=%ld accepted=%ld with_degenerate_face=%ld with_misglued_start_face=%ld DANGER(interior vertex, corner without right corner)=%ld checked_DFS_out_of_range=%ld selected=%zu\n",
          g_probed, g_probe_acc, g_probe_degenerate, g_probe_glued, g_probe_danger, g_probe_dfs_oob, g_targeted.size());
  // 3. jobs
  for (size_t bi = 0; bi < g_bases.size(); bi++) if (g_bases[bi].sc.syms.size() <= 60) enumerate_jobs((int)bi, r, thorough);
  { std::vector<std::vector<int>> by_attr(4);
    for (size_t bi = 0; bi < g_bases.size(); bi++) if (g_bases[bi].sc.nattr < 3) by_attr[g_bases[bi].sc.nattr].push_back((int)bi);
    const int donors = thorough ? 8 : 3;
    for (size_t ti = 0; ti < g_targeted.size(); ti++) {
      const Script &t = g_targeted[ti].sc; std::vector<int> &c = by_attr[std::min<uint32_t>(t.nattr, 3)];
      if (c.empty()) continue;
      const bool hot = g_targeted[ti].why.find("DANGER") != std::string::npos || g_targeted[ti].why.find("DFSOOB") != std::string::npos || g_targeted[ti].why.find("witness") != std::string::npos;
      // donors: the base streams with the closest face count, one per configuration
      std::vector<int> cand = c; std::stable_sort(cand.begin(), cand.end(), [&](int x, int y) { auto d = [&](int z) { long v = std::labs((long)g_bases[z].sc.nv - (long)g_targeted[ti].nvert) * 64, w = (long)g_bases[z].sc.nf - (long)t.nf; return v + (w < 0 ? 32 - w : w); }; return d(x) < d(y); });
      std::vector<int> pick; std::set<std::string> seen;
      for (int x : cand) { std::string key = g_bases[x].label.substr(g_bases[x].label.find('/')); key = key.substr(0, key.rfind('/')); if (seen.insert(key).second) pick.push_back(x); }
      if (!hot && (int)pick.size() > donors) {   // half: the configurations whose value counts fit best; half: any
        size_t keep = (size_t)(donors + 1) / 2; for (size_t i = pick.size(); i > keep + 1; i--) std::swap(pick[i - 1], pick[keep + r.below(i - keep)]); pick.resize((size_t)donors); }
      for (int x : pick) g_jobs.push_back({x, TARGETED, (int64_t)ti, 0, 0});
    } }
  std::map<int, long> per_cls; for (auto &j : g_jobs) per_cls[j.cls]++;
  { std::string t; for (auto &kv : per_cls) t += std::string(" ") + CLSNAME[kv.first] + "=" + S(kv.second); fprintf(out, "# JOBS total=%zu%s\n", g_jobs.size(), t.c_str()); }
  for (size_t i = 0; i < g_bases.size(); i += std::max<size_t>(1, g_bases.size() / 10)) fprintf(out, "# SAMPLE %s len=%zu script=%s\n", g_bases[i].label.c_str(), g_bases[i].all.size(), script_text(g_bases[i].sc).c_str());
  // 4. run
  if (getenv("HOSTILE_DUMP")) { g_dump = fopen(getenv("HOSTILE_DUMP"), "w"); if (g_dump) setvbuf(g_dump, nullptr, _IOLBF, 0); }
  Shared *sh = (Shared *)mmap(nullptr, sizeof(Shared), PROT_READ | PROT_WRITE, MAP_SHARED | MAP_ANONYMOUS, -1, 0); memset((void *)sh, 0, sizeof(Shared));
  run_all(out, sh, errpath, thorough ? 30 : 20);
  long tot = 0, acc = 0, rej = 0, conn = 0, na = 0, bangs = 0;
  for (int c = 0; c < NCLS; c++) { if (!sh->cnt[c][0] && !sh->cnt[c][4]) continue;
    fprintf(out, "# CLASS %s streams=%ld accepted=%ld rejected=%ld connectivity_accepted(attribute_stage_reached)=%ld not_applicable=%ld failures=%ld\n", CLSNAME[c], sh->cnt[c][0], sh->cnt[c][1], sh->cnt[c][2], sh->cnt[c][3], sh->cnt[c][4], sh->cnt[c][5]);
    tot += sh->cnt[c][0]; acc += sh->cnt[c][1]; rej += sh->cnt[c][2]; conn += sh->cnt[c][3]; na += sh->cnt[c][4]; bangs += sh->cnt[c][5]; }
  fprintf(out, "# STATS evaluations=%ld accepted=%ld rejected=%ld connectivity_accepted=%ld not_applicable=%ld invalid=%ld crashes=%d hangs=%d failures=%ld worst_alloc_ratio_x1000=%llu\n", tot, acc, rej, conn, na, sh->invalid, g_crashes, g_hangs, bangs, (unsigned long long)sh->worst_alloc_ratio_x1000);
  fclose(out); unlink(errpath.c_str());
  fprintf(stderr, "h_hostile: %ld streams, %d crashes, %d hangs\n", tot, g_crashes, g_hangs);
  return 0;
}
