// C12: with explicit quantization the decoded value of a coordinate is a function of (coordinate, origin,
// range, bits) only.  End-to-end search on the real Encoder/Decoder: pairs of geometries that share some
// coordinates, encoded separately (different methods, speeds, neighbours, point orders) with the same
// explicit parameters, must agree bit for bit on the shared coordinates, every decoded value must be the
// model's deq(quant(x)) (correspondence lines "rq") and must lie on the grid fl(fl(fl(k)*delta)+origin).
//   usage: h_C12 quick|thorough seed out
#include "quant_common.h"
#include <map>

static long n_pairs = 0, n_shared = 0, n_grid = 0;

// origin/range exactly representable with six decimals (Options stores floats as "%f" text: D13)
static float six_decimal_value(Gen &G, double lo, double hi) {
  for (;;) {
    double v = lo + (hi - lo) * G.u01();
    // k / 2^j with j <= 6 has at most six decimals
    int j = (int)G.r.range(0, 6);
    float f = (float)(std::round(v * (1 << j)) / (1 << j));
    char buf[64]; snprintf(buf, sizeof buf, "%f", (double)f);
    if ((float)atof(buf) == f && std::fabs(f) < 1e6f) return f;
  }
}

// is d = fl(fl(fl(k) * delta) + o) for an integer k in [0, 2^b - 1 + slack]?  (library's Dequantizer)
static bool on_grid(float d, float o, float range, int b, int64_t *kout) {
  Dequantizer dq; int32_t M = (int32_t)((1u << b) - 1);
  if (!dq.Init(range, M)) return false;
  double delta = (double)range / (double)M;
  int64_t k0 = (int64_t)std::llround(((double)d - (double)o) / delta);
  int64_t slack = 2 + (b > 23 ? (1ll << (b - 23)) : 0);
  for (int64_t k = std::max<int64_t>(0, k0 - slack); k <= k0 + slack && k <= (int64_t)M + slack; k++) {
    float v = dq.DequantizeFloat((int32_t)k) + o;
    if (fbits(v) == fbits(d)) { *kout = k; return true; }
  }
  return false;
}

struct Enc { int method, speed; Geo g; Decoded d; };

static void pair_case(Out &o, Gen &G, bool thorough) {
  Rng &r = G.r;
  int b = (int)r.range(1, 22);
  if (thorough && r.chance(1)) b = (int)r.range(23, 25);
  // box
  float origin1 = six_decimal_value(G, -1000, 1000);
  float range = six_decimal_value(G, 0.5, 2000);
  if (!(range > 0)) range = 1.f;
  float origin[3] = {origin1, origin1, origin1};
  if (r.chance(50)) { origin[1] = six_decimal_value(G, -1000, 1000); origin[2] = six_decimal_value(G, -1000, 1000); }
  // a coordinate inside the box at float level: x >= origin and fl(x - origin) <= range (implied by the real box;
  // fl(origin + range) >= x alone would NOT be enough: see C04_quant_error_f32's hypothesis)
  auto in_box = [&](int c, float v) { volatile float d = v - origin[c]; return v >= origin[c] && d <= range; };
  auto inside = [&](int c) { float v = origin[c] + range * (float)G.u01(); if (v < origin[c]) v = origin[c];
    while (!in_box(c, v)) v = nextafterf(v, -INFINITY); return v; };
  // shared coordinates and private ones
  int ns = (int)r.range(1, 12), na = (int)r.range(0, 20), nb = (int)r.range(0, 20);
  std::vector<std::array<float, 3>> shared(ns);
  for (auto &p : shared) for (int c = 0; c < 3; c++) p[c] = inside(c);
  if (r.chance(30)) {   // shared vertices on .5 rounding boundaries of the grid
    double M = (double)((1ll << b) - 1);
    for (auto &p : shared) { int c = (int)r.below(3); double k = std::floor(G.u01() * M);
      float x = (float)((double)origin[c] + (k + 0.5) * (double)range / M);
      int st = (int)r.range(-1, 1); if (st) x = nextafterf(x, st > 0 ? INFINITY : -INFINITY);
      if (in_box(c, x)) p[c] = x; }
  }
  // "lone extreme at the ends": one shared point alone reaches the top of the box in x, everything else stays in the lower 40 %, and that
  // point is placed first or last in each geometry (loops that scan values for a width or a bit length must visit every element)
  // "ramp": all points lie on a slowly rising line in all three coordinates and keep their order, so with delta prediction only the FIRST
  // coded value is large (its correction is the value itself) and every later correction is small
  const bool ramp = r.chance(15);
  if (ramp) { float t0 = 0.2f + 0.3f * (float)G.u01(); for (size_t i = 0; i < shared.size(); i++) for (int c = 0; c < 3; c++) { float x = origin[c] + range * ((c == 0 ? t0 : 0.002f * (float)c) + 0.004f * (float)i * (float)(c + 1)); if (in_box(c, x)) shared[i][c] = x; } }   // only x starts high: the very first coded value is the lone large one
  const bool ends = !ramp && r.chance(20); auto squeeze = [&](float x) { return origin[0] + (x - origin[0]) * 0.4f; };
  if (ends) { for (auto &p : shared) p[0] = squeeze(p[0]); float top = origin[0] + range; if (!in_box(0, top)) top = nextafterf(top, -INFINITY); if (in_box(0, top)) shared[0][0] = top; }
  Enc e[2];
  for (int s = 0; s < 2; s++) {
    e[s].method = (int)r.below(4); e[s].speed = (int)r.range(0, 10);
    bool mesh = e[s].method >= M_MESH_SEQ;
    int extra = s ? nb : na;
    std::vector<std::array<float, 3>> pts = shared;
    for (int i = 0; i < extra; i++) { std::array<float, 3> p; for (int c = 0; c < 3; c++) p[c] = inside(c); if (ends) p[0] = squeeze(p[0]); pts.push_back(p); }
    // independent order
    if (ramp) { pts = shared; float t0 = (shared[0][0] - origin[0]) / range; for (int i = 0; i < extra; i++) { std::array<float, 3> p; size_t j = shared.size() + (size_t)i; for (int c = 0; c < 3; c++) { float x = origin[c] + range * ((c == 0 ? t0 : 0.002f * (float)c) + 0.004f * (float)j * (float)(c + 1) + (s ? 0.0007f : 0.f)); p[c] = in_box(c, x) ? x : inside(c); } pts.push_back(p); } }
    else for (size_t i = pts.size(); i > 1; i--) std::swap(pts[i - 1], pts[r.below(i)]);
    if (ends) { size_t at = 0; for (size_t i = 0; i < pts.size(); i++) if (pts[i] == shared[0]) at = i; std::swap(pts[at], pts[r.chance(50) ? 0 : pts.size() - 1]); }
    Geo &g = e[s].g; g.nc = 3;
    for (auto &p : pts) for (int c = 0; c < 3; c++) g.flat.push_back(p[c]);
    if (mesh) {
      // a fan/strip over all points plus random extra triangles: every point is used
      size_t n = pts.size();
      while (n < 3) { for (int c = 0; c < 3; c++) g.flat.push_back(inside(c)); n++; }
      for (size_t i = 0; i + 2 < n; i++) g.faces.push_back({(uint32_t)i, (uint32_t)i + 1, (uint32_t)i + 2});
      int more = (int)r.below(4);
      for (int k = 0; k < more; k++) { uint32_t a = (uint32_t)r.below(n), bb = (uint32_t)r.below(n), c = (uint32_t)r.below(n);
        if (a != bb && bb != c && a != c) g.faces.push_back({a, bb, c}); }
    }
    g_enc_builtin_compression = !r.chance(25);   // raw (not entropy-coded) value bytes: the decoded values must not depend on it
    e[s].d = encode_decode(g, e[s].method, e[s].speed, b, origin, range);
    g_enc_builtin_compression = true;
  }
  std::string id = std::string(method_name(e[0].method)) + "/s" + S(e[0].speed) + " vs " + method_name(e[1].method) + "/s" + S(e[1].speed) +
                   " bits=" + S(b) + " origin=" + U(fbits(origin[0])) + "," + U(fbits(origin[1])) + "," + U(fbits(origin[2])) + " range=" + U(fbits(range));
  std::map<Row, Row> decoded_of[2];   // original coordinate row -> decoded row, per encode
  for (int s = 0; s < 2; s++) {
    Decoded &d = e[s].d; Geo &g = e[s].g;
    if (!d.ok) {
      if (e[s].method == M_MESH_EB && d.err.find("degenerate") != std::string::npos) { o.note("skipped: degenerate " + id); return; }
      o.fail("C12-e2e " + id + " : " + d.err); return;
    }
    // parameters in the stream are the caller's
    if (d.p.q != b || d.p.range != range || d.p.mins[0] != origin[0] || d.p.mins[1] != origin[1] || d.p.mins[2] != origin[2]) {
      o.fail("C12-params-in-stream-differ " + id + " stream=" + qp_str(d.p)); return; }
    // the decoder's loop against the model
    o.c(std::string("e2e ") + (e[s].method == M_PC_KD ? "kd " : "seq ") + qp_str(d.p) + " 3 " + join_u(d.words), join_fobs(d.vals));
    // decoded set = { f(x, origin, range, bits) } with f evaluated on x ALONE (class oracle, itself tied to the model by "rq")
    std::set<Row> expect, got = row_set_bits(d.vals, 3);
    for (size_t i = 0; i < g.n(); i++) {
      std::vector<uint32_t> w; std::vector<float> ev;
      if (!class_requant_row(d.p, &g.flat[i * 3], 3, &w, &ev)) { o.fail("C12-e2e requant impossible " + id); return; }
      Row xr(3), dr(3); for (int c = 0; c < 3; c++) { xr[c] = fbits(g.flat[i * 3 + c]); dr[c] = fbits(ev[c]); }
      expect.insert(dr); decoded_of[s][xr] = dr;
      for (int c = 0; c < 3; c++)
        o.c("rq " + U(fbits(origin[c])) + " " + U(fbits(range)) + " " + S(b) + " " + U(xr[c]), FB(ev[c]));
    }
    bool may_drop = e[s].method == M_MESH_EB && row_set_bits(g.flat, 3).size() < g.n();
    bool ok = may_drop ? (!got.empty() && std::includes(expect.begin(), expect.end(), got.begin(), got.end())) : expect == got;
    if (!ok) { o.fail("C12-not-a-function-of-coordinate " + id + " method=" + method_name(e[s].method) + " originals=" + join_f(g.flat) +
                      " decoded=" + rows_str(got) + " expected=" + rows_str(expect)); return; }
    // on the grid: the stored integer k is the witness: decoded = fl(fl(fl(k)*delta)+origin), 0 <= k <= 2^b-1+slack
    for (size_t i = 0; i < d.vals.size(); i++) {
      int c = (int)(i % 3); int64_t k = (int64_t)d.words[i], kk; n_grid++;
      int64_t M = (1ll << b) - 1, slack = b <= 20 ? 0 : (1ll << (b - 21));   // the proven slack (C12_on_grid_bounded)
      Dequantizer dq; dq.Init(range, (int32_t)M);
      bool stored_ok = k <= M + slack && fbits(dq.DequantizeFloat((int32_t)k) + origin[c]) == fbits(d.vals[i]);
      if (!stored_ok && !on_grid(d.vals[i], origin[c], range, b, &kk))
        o.fail("C12-off-grid " + id + " decoded=" + U(fbits(d.vals[i])) + " component=" + S(c) + " stored_k=" + S(k));
      else if (!stored_ok)
        o.fail("C12-grid-index-differs " + id + " decoded=" + U(fbits(d.vals[i])) + " k=" + S(kk) + " stored=" + S(k));
    }
  }
  n_pairs++;
  // shared vertices agree bit for bit (both decodes contain them: checked above via set equality)
  for (auto &p : shared) {
    Row xr(3); for (int c = 0; c < 3; c++) xr[c] = fbits(p[c]);
    n_shared++;
    if (decoded_of[0][xr] != decoded_of[1][xr]) o.fail("C12-shared-vertex-disagrees " + id);
    for (int s = 0; s < 2; s++) {
      bool may_drop = e[s].method == M_MESH_EB && row_set_bits(e[s].g.flat, 3).size() < e[s].g.n();
      std::set<Row> got = row_set_bits(e[s].d.vals, 3);
      if (!may_drop && !got.count(decoded_of[s][xr])) o.fail("C12-shared-vertex-missing " + id);
    }
  }
}

// D13: Options keeps floats as "%f" text, so explicit origin/range reach the stream rounded to six decimals.
static void d13_witness(Out &o) {
  Geo g; g.nc = 3;
  float origin[3] = {1.2345678e-4f, 1.2345678e-4f, 1.2345678e-4f};
  float range = 1.0f;
  for (int i = 0; i < 4; i++) for (int c = 0; c < 3; c++) g.flat.push_back(origin[c] + 0.1f * (float)(i + c));
  for (int method = 0; method < 2; method++) {
    Decoded d = encode_decode(g, method, 5, 12, origin, range);
    if (!d.ok) { o.fail("C12-e2e D13 probe: " + d.err); return; }
    if (d.p.mins[0] != origin[0]) {
      o.fail("D13-explicit-params-rounded method=" + std::string(method_name(method)) + " origin_given=" + U(fbits(origin[0])) +
             " (1.2345678e-4) origin_in_stream=" + U(fbits(d.p.mins[0])) + " (" + std::to_string(d.p.mins[0]) +
             "): decoded values lie on the grid of the rounded origin, not the caller's");
      return;   // one witness line is enough
    }
  }
  o.note("D13 did not reproduce: explicit origin 1.2345678e-4 reached the stream unchanged");
}

int main(int argc, char **argv) {
  if (argc < 4) { fprintf(stderr, "usage: h_C12 quick|thorough seed out\n"); return 2; }
  bool thorough = !strcmp(argv[1], "thorough");
  Rng r(strtoull(argv[2], 0, 10));
  Gen G(r);
  Out o(argv[3]);
  o.note("C12 tier=" + std::string(argv[1]) + " seed=" + argv[2]);
  int n = thorough ? 20000 : 1000;
  for (int i = 0; i < n; i++) pair_case(o, G, thorough);
  d13_witness(o);
  o.note("pairs=" + S(n_pairs) + " shared_vertices_compared=" + S(n_shared) + " grid_checks=" + S(n_grid));
  fprintf(stderr, "h_C12: %ld cases, %ld direct failures, %ld pairs, %ld shared vertices\n", o.cases, o.fails, n_pairs, n_shared);
  return 0;
}
