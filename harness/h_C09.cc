// C09 correspondence + search harness: reported encoded point/face counts vs. what the decoder produces.
//
// Correspondence (lines "<kind> <args> | <impl result>", recomputed by the Coq model, driver/d_C09.ml):
//   eb  <multi> <used> <fans>   | <reported points> <decoded points> ok
//        fans/flags/attribute-vertex ids are read off the library's own CornerTable and
//        MeshAttributeCornerTable objects, built exactly as MeshEdgebreakerEncoderImpl builds them.
//   rv  <fans with seam-edge flags> | <num attribute vertices> <is_vertex_on_seam + Vertex(corner) per fan>
//        MeshAttributeCornerTable::InitFromAttribute/RecomputeVertices against the model's recompute_table.
//   fc  <faces of the corner table>  | <reported faces> <decoded faces>
//   seq <np> <nf> | reported/decoded of the sequential mesh coder;  pc <np> | ... of the point cloud coders
//   api <track> <p> <f> | what Encoder/ExpertEncoder report with tracking on/off
// Search ("!" lines): reported != decoded for any method/speed/API object, or reported counts that depend on
// the configuration within one connectivity mode.
#include "common.h"
#include <algorithm>
#include <array>
#include <map>
#include <memory>
#include <set>
#include "draco/attributes/point_attribute.h"
#include "draco/compression/decode.h"
#include "draco/compression/encode.h"
#include "draco/compression/expert_encode.h"
#include "draco/mesh/corner_table.h"
#include "draco/mesh/mesh.h"
#include "draco/mesh/mesh_attribute_corner_table.h"
#include "draco/mesh/mesh_misc_functions.h"
#include "draco/point_cloud/point_cloud.h"
using namespace draco;

// ----------------------------------------------------------------------------------------------- mesh description
struct Spec {
  int npos = 0;                                         // number of position values
  std::vector<std::array<int, 3>> fpos;                 // per face: position value index of each corner
  int natt = 0;                                         // non-position attributes
  std::vector<std::vector<std::array<int, 3>>> fatt;    // [att][face][corner] -> attribute value index
  std::vector<int> nval;                                // number of values per attribute
  std::vector<int> kind;                                // 0 GENERIC int32x1, 1 TEX_COORD float x2, 2 NORMAL float x3
  std::vector<int> vertex_elem;                         // 1: SetAttributeElementType(MESH_VERTEX_ATTRIBUTE)
  int iso = 0;                                          // isolated points (referenced by no face)
  int ptmode = 0;                                       // 0 deduplicated ids, 1 one point per corner, 2 some duplicates
  bool shuffle = false;
  bool int_pos = false;
  int pos_index = 0;                                    // how many non-position attributes are added BEFORE the position attribute
  std::string gen;                                      // generator name (statistics)
};

struct Built {
  std::unique_ptr<Mesh> mesh;
  std::vector<std::array<int, 3>> fpt;   // per face point ids
  std::vector<std::vector<int>> ptmap;   // [point][0]=pos index, [1+a]=value index of attribute a
  bool has_duplicate_points = false;
  int npos = 0;
};
static std::unique_ptr<Mesh> make_mesh(const Spec &s, const Built &b);

static Built build(const Spec &s, Rng &r) {
  Built b;
  const int nf = (int)s.fpos.size();
  std::map<std::vector<int>, std::vector<int>> seen;
  b.fpt.resize(nf);
  for (int f = 0; f < nf; f++) for (int c = 0; c < 3; c++) {
    std::vector<int> t; t.push_back(s.fpos[f][c]);
    for (int a = 0; a < s.natt; a++) t.push_back(s.fatt[a][f][c]);
    auto &ids = seen[t];
    int pid;
    if (s.ptmode == 0) { if (ids.empty()) { ids.push_back((int)b.ptmap.size()); b.ptmap.push_back(t); } pid = ids[0]; }
    else if (s.ptmode == 1 || ids.empty() || r.chance(35)) { pid = (int)b.ptmap.size(); ids.push_back(pid); b.ptmap.push_back(t); }
    else pid = ids[r.below(ids.size())];
    b.fpt[f][c] = pid;
  }
  int npos = s.npos;
  for (int i = 0; i < s.iso; i++) {
    std::vector<int> t; t.push_back(r.chance(50) ? npos++ : (int)r.below(s.npos));
    for (int a = 0; a < s.natt; a++) t.push_back(0);
    b.ptmap.push_back(t);
  }
  const int np = (int)b.ptmap.size();
  if (s.shuffle && np > 1) {
    std::vector<int> perm(np); for (int i = 0; i < np; i++) perm[i] = i;
    for (int i = np - 1; i > 0; i--) std::swap(perm[i], perm[r.below(i + 1)]);
    std::vector<std::vector<int>> nm(np);
    for (int i = 0; i < np; i++) nm[perm[i]] = b.ptmap[i];
    b.ptmap = nm;
    for (auto &f : b.fpt) for (int c = 0; c < 3; c++) f[c] = perm[f[c]];
  }
  { std::set<std::vector<int>> u(b.ptmap.begin(), b.ptmap.end()); b.has_duplicate_points = u.size() != b.ptmap.size(); }

  b.npos = npos;
  b.mesh = make_mesh(s, b);
  return b;
}

static std::unique_ptr<Mesh> make_mesh(const Spec &s, const Built &b) {
  const int nf = (int)s.fpos.size(), np = (int)b.ptmap.size(), npos = b.npos;
  std::unique_ptr<Mesh> mp(new Mesh());
  Mesh &m = *mp;
  m.set_num_points(np);
  auto add_position = [&]() {
    GeometryAttribute ga;
    if (s.int_pos) ga.Init(GeometryAttribute::POSITION, nullptr, 3, DT_INT32, false, sizeof(int32_t) * 3, 0);
    else ga.Init(GeometryAttribute::POSITION, nullptr, 3, DT_FLOAT32, false, sizeof(float) * 3, 0);
    int id = m.AddAttribute(ga, false, npos);
    PointAttribute *pa = m.attribute(id);
    for (int v = 0; v < npos; v++) {
      if (s.int_pos) { int32_t p[3] = {v % 17, v / 17, (v * 7) % 5}; pa->SetAttributeValue(AttributeValueIndex(v), p); }
      else { float p[3] = {(float)(v % 17), (float)(v / 17), (float)((v * 7) % 5) * 0.25f}; pa->SetAttributeValue(AttributeValueIndex(v), p); }
    }
    for (int p = 0; p < np; p++) pa->SetPointMapEntry(PointIndex(p), AttributeValueIndex(b.ptmap[p][0]));
  };
  if (s.pos_index <= 0 || s.natt == 0) add_position();
  for (int a = 0; a < s.natt; a++) {
    if (a > 0 && a == std::min(s.pos_index, s.natt - 1) && s.pos_index > 0 && s.pos_index < s.natt) add_position();
    GeometryAttribute ga;
    int n = std::max(1, s.nval[a]);
    if (s.kind[a] == 0) ga.Init(GeometryAttribute::GENERIC, nullptr, 1, DT_INT32, false, sizeof(int32_t), 0);
    else if (s.kind[a] == 1) ga.Init(GeometryAttribute::TEX_COORD, nullptr, 2, DT_FLOAT32, false, sizeof(float) * 2, 0);
    else ga.Init(GeometryAttribute::NORMAL, nullptr, 3, DT_FLOAT32, false, sizeof(float) * 3, 0);
    int id = m.AddAttribute(ga, false, n);
    PointAttribute *pa = m.attribute(id);
    for (int v = 0; v < n; v++) {
      if (s.kind[a] == 0) { int32_t x = v * 3 + a; pa->SetAttributeValue(AttributeValueIndex(v), &x); }
      else if (s.kind[a] == 1) { float x[2] = {(float)(v % 13) / 13.f, (float)(v / 13) / 31.f}; pa->SetAttributeValue(AttributeValueIndex(v), x); }
      else { float x[3] = {0, 0, 1}; int k = v % 3; x[2] = 0; x[k] = (v % 2) ? 1.f : -1.f; pa->SetAttributeValue(AttributeValueIndex(v), x); }
    }
    for (int p = 0; p < np; p++) pa->SetPointMapEntry(PointIndex(p), AttributeValueIndex(b.ptmap[p][1 + a]));
    if (s.vertex_elem[a]) m.SetAttributeElementType(id, MESH_VERTEX_ATTRIBUTE);
  }
  if (s.natt > 0 && s.pos_index >= s.natt) add_position();   // position added last
  for (int f = 0; f < nf; f++) {
    Mesh::Face face;
    for (int c = 0; c < 3; c++) face[c] = PointIndex(b.fpt[f][c]);
    m.AddFace(face);
  }
  return mp;
}

static std::string describe(const Spec &s, const Built &b) {
 int nve = 0; for (int x : s.vertex_elem) nve += x;
  std::string d = "gen=" + s.gen + " vertex-declared-attributes=" + S(nve) + " np=" + S(b.ptmap.size()) + " faces=";
  for (size_t f = 0; f < b.fpt.size(); f++) d += (f ? ";" : "") + S(b.fpt[f][0]) + "," + S(b.fpt[f][1]) + "," + S(b.fpt[f][2]);
  if (b.fpt.empty()) d += "-";
  for (int k = 0; k <= s.natt; k++) {
    d += std::string(" ") + (k == 0 ? "pos" : ("a" + S(k - 1))) + "=";
    for (size_t p = 0; p < b.ptmap.size(); p++) d += (p ? "," : "") + S(b.ptmap[p][k]);
  }
  return d;
}

// ----------------------------------------------------------------------------------------------- generators
static void add_atts(Spec &s, Rng &r, int natt, int nverts_for_values,
                     const std::vector<int> &face_x /* a coordinate per face for region splits */) {
  const int nf = (int)s.fpos.size();
  s.natt = natt;
  for (int a = 0; a < natt; a++) {
    int mode = (int)r.below(6);  // 0 per-vertex, 1/2 random regions, 3 line, 4 all corners distinct, 5 one random face differs
    int R = 2 + (int)r.below(2);
    static const int kSplit[4] = {10, 30, 60, 100}; int splitp = kSplit[r.below(4)];
    std::vector<int> split(nverts_for_values), region(nf);
    for (auto &x : split) x = r.chance(splitp);
    int cut = face_x.empty() ? 0 : (int)r.below(1 + *std::max_element(face_x.begin(), face_x.end()));
    int special = nf ? (int)r.below(nf) : 0;
    for (int f = 0; f < nf; f++) {
      if (mode == 3) region[f] = (!face_x.empty() && face_x[f] <= cut) ? 0 : 1;
      else if (mode == 5) region[f] = f == special ? 1 : 0;
      else region[f] = (int)r.below(R);
    }
    std::vector<std::array<int, 3>> fa(nf);
    for (int f = 0; f < nf; f++) for (int c = 0; c < 3; c++) {
      int v = s.fpos[f][c];
      if (mode == 0) fa[f][c] = v;
      else if (mode == 4) fa[f][c] = f * 3 + c;
      else fa[f][c] = v * R + ((split[v] || mode == 5) ? region[f] : 0);
    }
    s.fatt.push_back(fa);
    s.nval.push_back(mode == 0 ? nverts_for_values : mode == 4 ? nf * 3 : nverts_for_values * R);
    s.kind.push_back((int)r.below(3));
    // Opt-in (C09_VERTEX_ELEM=1): declare the attribute MESH_VERTEX_ATTRIBUTE although it may have seams.  The encoder then
    // ignores its corner table (is_connectivity_used = false) but still encodes its seams, and the decoder splits points
    // there: reported < decoded (clause (4) of labels_wf fails).  Reported as a separate finding; off by default because
    // the declaration is the caller's promise that the attribute is per-vertex.
    s.vertex_elem.push_back(getenv("C09_VERTEX_ELEM") ? (int)r.chance(50) : 0);
  }
}

static void common_tail(Spec &s, Rng &r) {
  s.iso = r.chance(25) ? (int)r.range(1, 3) : 0;
  static const int kPt[6] = {0, 0, 0, 1, 2, 2}; s.ptmode = kPt[r.below(6)];
  s.shuffle = r.chance(30);
  s.int_pos = r.chance(20);
  s.pos_index = r.chance(35) ? (int)r.range(1, 3) : 0;   // POSITION is not always attribute 0
}

static Spec gen_grid(Rng &r, bool wrap, int extra_faces) {
  Spec s; s.gen = wrap ? "torus" : "grid";
  int W = wrap ? (int)r.range(3, 5) : (int)r.range(1, 5), H = wrap ? (int)r.range(3, 4) : (int)r.range(1, 4);
  int vw = wrap ? W : W + 1, vh = wrap ? H : H + 1;
  s.npos = vw * vh;
  std::vector<int> fx;
  auto V = [&](int x, int y) { return (y % vh) * vw + (x % vw); };
  for (int y = 0; y < H; y++) for (int x = 0; x < W; x++) {
    if (!wrap && r.chance(8)) continue;  // holes
    bool diag = r.chance(50);
    int a = V(x, y), b = V(x + 1, y), c = V(x + 1, y + 1), d = V(x, y + 1);
    if (diag) { s.fpos.push_back({a, b, c}); s.fpos.push_back({a, c, d}); }
    else { s.fpos.push_back({a, b, d}); s.fpos.push_back({b, c, d}); }
    fx.push_back(x); fx.push_back(x);
  }
  for (int i = 0; i < extra_faces; i++) {   // non-manifold edges/vertices, flipped and degenerate faces
    int a = (int)r.below(s.npos), b = (int)r.below(s.npos), c = (int)r.below(s.npos);
    if (r.chance(25)) b = a;                // degenerate
    if (r.chance(40) && !s.fpos.empty()) {  // attach to an existing edge
      auto &f = s.fpos[r.below(s.fpos.size())]; a = f[0]; b = f[1]; if (r.chance(50)) std::swap(a, b);
    }
    s.fpos.push_back({a, b, c}); fx.push_back((int)r.below(W + 1));
  }
  if (s.fpos.empty()) { s.fpos.push_back({0, 1, std::min(2, s.npos - 1)}); fx.push_back(0); }
  add_atts(s, r, (int)r.below(4), s.npos, fx);
  common_tail(s, r);
  if (extra_faces) s.gen += "+nm";
  return s;
}

static Spec gen_soup(Rng &r) {   // random triangles over few vertices: heavy non-manifoldness
  Spec s; s.gen = "soup";
  s.npos = (int)r.range(3, 7);
  int nf = (int)r.range(1, 8);
  std::vector<int> fx;
  for (int f = 0; f < nf; f++) {
    int a = (int)r.below(s.npos), b = (int)r.below(s.npos), c = (int)r.below(s.npos);
    s.fpos.push_back({a, b, c}); fx.push_back(f);
  }
  add_atts(s, r, (int)r.below(4), s.npos, fx);
  common_tail(s, r);
  return s;
}

static Spec gen_fan(Rng &r) {   // one vertex with a fan of n triangles, open or closed: the unit of the proof
  Spec s; s.gen = "fan";
  int n = (int)r.range(1, 7); bool closed = n >= 3 && r.chance(50);
  s.npos = n + 2;
  std::vector<int> fx;
  for (int k = 0; k < n; k++) {
    int a = 1 + k, b = closed ? 1 + (k + 1) % n : 2 + k;
    s.fpos.push_back({0, a, b}); fx.push_back(k);
  }
  if (closed) s.gen = "fan-closed";
  add_atts(s, r, (int)r.range(0, 3), s.npos, fx);
  common_tail(s, r);
  return s;
}

// ----------------------------------------------------------------------------------------------- table extraction
struct FanData { bool isolated = true, open = false; std::vector<int> corners; };

static std::vector<FanData> fans_of(const CornerTable &ct, std::string &bad) {
  std::vector<FanData> out(ct.num_vertices());
  std::vector<int> corners_on_vertex(ct.num_vertices(), 0);
  for (int c = 0; c < ct.num_corners(); c++) {
    if (ct.IsDegenerated(ct.Face(CornerIndex(c)))) continue;
    VertexIndex v = ct.Vertex(CornerIndex(c));
    if (v != kInvalidVertexIndex) corners_on_vertex[v.value()]++;
  }
  int niso = 0;
  for (int v = 0; v < ct.num_vertices(); v++) {
    FanData &f = out[v];
    CornerIndex c0 = ct.LeftMostCorner(VertexIndex(v));
    if (c0 == kInvalidCornerIndex) { niso++; if (!ct.IsVertexIsolated(VertexIndex(v))) bad = "isolated?"; continue; }
    f.isolated = false;
    f.open = ct.IsOnBoundary(VertexIndex(v));
    CornerIndex c = c0; int guard = 0;
    do { f.corners.push_back(c.value()); c = ct.SwingRight(c); } while (c != kInvalidCornerIndex && c != c0 && ++guard <= ct.num_corners());
    bool ended_invalid = c == kInvalidCornerIndex;
    if (ended_invalid != f.open) bad = "fan-shape";                        // the walk ends in invalid exactly on boundary vertices
    if ((ct.SwingLeft(c0) == kInvalidCornerIndex) != f.open) bad = "left-most";
    if ((int)f.corners.size() != corners_on_vertex[v]) bad = "single-fan";  // all corners of the vertex are in this one fan
    for (int k : f.corners) if (ct.Vertex(CornerIndex(k)).value() != v) bad = "fan-vertex";
  }
  if (niso != ct.NumIsolatedVertices()) bad = "num-isolated";
  return out;
}

static std::string csv(const std::vector<int> &v) { if (v.empty()) return "-"; std::string s; for (size_t i = 0; i < v.size(); i++) s += (i ? "," : "") + S(v[i]); return s; }

// ----------------------------------------------------------------------------------------------- encode / decode
struct Cfg { int api; /*0 Encoder,1 ExpertEncoder*/ int method; /*MESH_*_ENCODING*/ int sub; /* -1 default, 0 std, 2 valence */ int speed; int split; /* -1 unset,0,1 */ };
struct Res { bool enc_ok = false, dec_ok = false; long rp = -1, rf = -1, dp = -1, df = -1; std::string err; };

static Res run_mesh(const Mesh &m, const Cfg &c, bool track = true) {
  Res r; EncoderBuffer eb; Status st;
  if (c.api == 0) {
    Encoder e; e.SetSpeedOptions(c.speed, c.speed); e.SetEncodingMethod(c.method);
    e.SetAttributeQuantization(GeometryAttribute::POSITION, 12); e.SetAttributeQuantization(GeometryAttribute::TEX_COORD, 10);
    e.SetAttributeQuantization(GeometryAttribute::NORMAL, 8);
    if (c.sub >= 0) e.options().SetGlobalInt("edgebreaker_method", c.sub);
    if (c.split >= 0) e.options().SetGlobalBool("split_mesh_on_seams", c.split != 0);
    if (track) e.SetTrackEncodedProperties(true);
    st = e.EncodeMeshToBuffer(m, &eb);
    r.rp = (long)e.num_encoded_points(); r.rf = (long)e.num_encoded_faces();
  } else {
    ExpertEncoder e(m); e.SetSpeedOptions(c.speed, c.speed); e.SetEncodingMethod(c.method);
    for (int a = 0; a < m.num_attributes(); a++) if (m.attribute(a)->data_type() == DT_FLOAT32)
      e.SetAttributeQuantization(a, m.attribute(a)->attribute_type() == GeometryAttribute::POSITION ? 12 : 9);
    if (c.sub >= 0) e.options().SetGlobalInt("edgebreaker_method", c.sub);
    if (c.split >= 0) e.options().SetGlobalBool("split_mesh_on_seams", c.split != 0);
    if (track) e.SetTrackEncodedProperties(true);
    st = e.EncodeToBuffer(&eb);
    r.rp = (long)e.num_encoded_points(); r.rf = (long)e.num_encoded_faces();
  }
  if (!st.ok()) { r.err = st.error_msg_string(); return r; }
  r.enc_ok = true;
  DecoderBuffer db; db.Init(eb.data(), eb.size());
  Decoder d; auto so = d.DecodeMeshFromBuffer(&db);
  if (!so.ok()) { r.err = so.status().error_msg_string(); return r; }
  r.dec_ok = true; std::unique_ptr<Mesh> dm = std::move(so).value();
  r.dp = dm->num_points(); r.df = dm->num_faces();
  return r;
}

static std::string cfgs(const Cfg &c) {
  return std::string(c.api ? "ExpertEncoder" : "Encoder") + " method=" + (c.method == MESH_EDGEBREAKER_ENCODING ? "edgebreaker" : "sequential") +
         " sub=" + S(c.sub) + " speed=" + S(c.speed) + " split_mesh_on_seams=" + S(c.split);
}

struct Stats { std::map<std::string, long> n; } G;

static void mesh_cases(Out &o, Rng &r, const Spec &s, bool full_sweep) {
  Built b = build(s, r);
  const Mesh &m = *b.mesh;
  G.n["meshes"]++; G.n["gen:" + s.gen]++; G.n[std::string("ptmode:") + S(s.ptmode)]++; G.n["natt:" + S(s.natt)]++;
  if (b.has_duplicate_points) G.n["meshes-with-duplicate-points"]++;
  const std::string desc = describe(s, b);

  // ---- configurations: class 0 = per-attribute connectivity (speed < 6 or split_mesh_on_seams=0),
  //      class 1 = single connectivity (speed >= 6 or split_mesh_on_seams=1), class 2 = sequential
  std::vector<Cfg> cfgs_all;
  for (int api = 0; api < 2; api++) {
    for (int sp = 0; sp <= 10; sp++) for (int sub : {0, 2}) {
      if (!full_sweep && !(r.chance(30))) continue;
      cfgs_all.push_back({api, MESH_EDGEBREAKER_ENCODING, sub, sp, -1});
    }
    cfgs_all.push_back({api, MESH_EDGEBREAKER_ENCODING, -1, (int)r.below(10), -1});
    cfgs_all.push_back({api, MESH_EDGEBREAKER_ENCODING, (int)r.below(2) * 2, (int)r.below(11), 0});
    cfgs_all.push_back({api, MESH_EDGEBREAKER_ENCODING, (int)r.below(2) * 2, (int)r.below(11), 1});
    cfgs_all.push_back({api, MESH_SEQUENTIAL_ENCODING, -1, (int)r.below(11), -1});
    cfgs_all.push_back({api, -1, -1, 10, -1});   // default method at speed 10 = sequential
  }
  // canonical first entries so that both Edgebreaker classes always occur
  cfgs_all.insert(cfgs_all.begin(), Cfg{1, MESH_EDGEBREAKER_ENCODING, 0, 7, -1});
  cfgs_all.insert(cfgs_all.begin(), Cfg{1, MESH_EDGEBREAKER_ENCODING, 0, (int)r.below(6), -1});
  Res first[3]; bool have[3] = {false, false, false}; Cfg firstc[3];
  for (const Cfg &c : cfgs_all) {
    int cls = (c.method == MESH_SEQUENTIAL_ENCODING || (c.method == -1)) ? 2 : (c.split == 1 || (c.split == -1 && c.speed >= 6)) ? 1 : 0;
    Res x = run_mesh(m, c);
    G.n["encodes"]++;
    if (!x.enc_ok) { G.n["encode-failed"]++; continue; }
    if (!x.dec_ok) { G.n["decode-failed"]++; o.note("decode failed (not a C09 matter): " + x.err + " " + cfgs(c) + " " + desc); continue; }
    G.n["roundtrips"]++;
    if (x.rp != x.dp || x.rf != x.df) {
      o.fail("count-mismatch: reported points=" + S(x.rp) + " faces=" + S(x.rf) + " decoded points=" + S(x.dp) + " faces=" + S(x.df) +
             " duplicate-point-ids=" + S(b.has_duplicate_points ? 1 : 0) + " " + cfgs(c) + " " + desc);
      G.n["fail:mismatch"]++;
    }
    if (!have[cls]) { have[cls] = true; first[cls] = x; firstc[cls] = c; }
    else if (x.rp != first[cls].rp || x.rf != first[cls].rf || x.dp != first[cls].dp || x.df != first[cls].df) {
      o.fail("config-dependent-count: " + cfgs(c) + " gives reported " + S(x.rp) + "/" + S(x.rf) + " decoded " + S(x.dp) + "/" + S(x.df) +
             " but " + cfgs(firstc[cls]) + " gives " + S(first[cls].rp) + "/" + S(first[cls].rf) + " and " + S(first[cls].dp) + "/" + S(first[cls].df) + " " + desc);
      G.n["fail:config"]++;
    }
  }
  // tracking off: the API objects report 0
  if (r.chance(20)) {
    Cfg c{(int)r.below(2), r.chance(50) ? (int)MESH_EDGEBREAKER_ENCODING : (int)MESH_SEQUENTIAL_ENCODING, -1, (int)r.below(11), -1};
    Res x = run_mesh(m, c, false);
    if (x.enc_ok && have[2]) o.c("api 0 " + S(first[2].rp) + " " + S(first[2].rf), S(x.rp) + " " + S(x.rf));
  }
  if (have[2]) {
    o.c("seq " + S(m.num_points()) + " " + S(m.num_faces()), S(first[2].rp) + " " + S(first[2].rf) + " " + S(first[2].dp) + " " + S(first[2].df));
    o.c("api 1 " + S(first[2].rp) + " " + S(first[2].rf), S(first[2].rp) + " " + S(first[2].rf));
  }

  // ---- the model's view: fans from the library's own tables, for both connectivity modes
  for (int cls = 0; cls < 2; cls++) {
    if (!have[cls]) continue;
    std::unique_ptr<CornerTable> ct = cls == 0 ? CreateCornerTableFromPositionAttribute(&m) : CreateCornerTableFromAllAttributes(&m);
    if (!ct) continue;
    std::string bad;
    std::vector<FanData> fans = fans_of(*ct, bad);
    std::vector<std::unique_ptr<MeshAttributeCornerTable>> at; std::string used;
    if (cls == 0) {
      for (int a = 0; a < m.num_attributes(); a++) {   // MeshEdgebreakerEncoderImpl::InitAttributeData
        if (m.attribute(a)->attribute_type() == GeometryAttribute::POSITION) continue;
        std::unique_ptr<MeshAttributeCornerTable> t(new MeshAttributeCornerTable());
        if (!t->InitFromAttribute(&m, ct.get(), m.attribute(a))) bad = "InitFromAttribute";
        // GenerateAttributesEncoder: is_connectivity_used = false for per-vertex attributes and for tables without interior seams
        bool vertex_like = m.GetAttributeElementType(a) == MESH_VERTEX_ATTRIBUTE ||
                           (m.GetAttributeElementType(a) == MESH_CORNER_ATTRIBUTE && t->no_interior_seams());
        used += vertex_like ? "0" : "1";
        at.push_back(std::move(t));
      }
    }
    // eb line
    std::string fs;
    long nclosed = 0, nopen = 0, nseamfans = 0;
    for (size_t v = 0; v < fans.size(); v++) {
      if (v) fs += ";";
      const FanData &f = fans[v];
      if (f.isolated) { fs += "x"; continue; }
      (f.open ? nopen : nclosed)++;
      std::vector<int> pids; for (int c : f.corners) pids.push_back((int)m.CornerToPointId(c).value());
      std::string flags; bool anyseam = false;
      for (auto &t : at) { bool fl = t->IsCornerOnSeam(CornerIndex(f.corners[0])); flags += fl ? "1" : "0"; }
      fs += std::string(f.open ? "o" : "c") + "/" + csv(pids) + "/" + (flags.empty() ? "-" : flags);
      for (auto &t : at) {
        std::vector<int> ids; for (int c : f.corners) ids.push_back((int)t->Vertex(CornerIndex(c)).value());
        for (size_t k = 1; k < ids.size(); k++) if (ids[k] != ids[0]) anyseam = true;
        fs += "/" + csv(ids);
      }
      if (anyseam) nseamfans++;
    }
    G.n["fans-open"] += nopen; G.n["fans-closed"] += nclosed; G.n["fans-with-attribute-seam"] += nseamfans;
    if (fs.empty()) fs = "-";
    o.c("eb " + S(m.num_attributes() > 1 ? 1 : 0) + " " + (used.empty() ? "-" : used) + " " + fs,
        S(first[cls].rp) + " " + S(first[cls].dp) + " " + (bad.empty() ? "ok" : "bad:" + bad));
    // fc line
    std::string faces;
    for (int f = 0; f < ct->num_faces(); f++) {
      CornerIndex c0 = ct->FirstCorner(FaceIndex(f));
      // vertex ids as the table was created (a degenerate face keeps them; its corners are in no fan)
      faces += (f ? ";" : "") + S(ct->Vertex(c0).value()) + "," + S(ct->Vertex(ct->Next(c0)).value()) + "," + S(ct->Vertex(ct->Previous(c0)).value());
    }
    long ndeg = 0; for (int f = 0; f < ct->num_faces(); f++) if (ct->IsDegenerated(FaceIndex(f))) ndeg++;
    if (ndeg) G.n["tables-with-degenerate-faces"]++;
    if (ct->NumIsolatedVertices()) G.n["tables-with-isolated-vertices"]++;
    o.c("fc " + (faces.empty() ? std::string("-") : faces),
        S(first[cls].rf) + " " + S(first[cls].df) + " " + (ndeg == ct->NumDegeneratedFaces() ? "ok" : "bad:num-degenerated"));
    // rv lines
    for (size_t a = 0; a < at.size(); a++) {
      const MeshAttributeCornerTable &t = *at[a];
      std::string in, outp; std::string bad2;
      for (size_t v = 0; v < fans.size(); v++) {
        if (v) { in += ";"; outp += ";"; }
        const FanData &f = fans[v];
        if (f.isolated) { in += "x"; outp += "x"; continue; }
        const int n = (int)f.corners.size();
        std::string es;
        for (int k = 0; k < (f.open ? n - 1 : n); k++) {
          CornerIndex cur(f.corners[k]), nxt(f.corners[(k + 1) % n]);
          bool e1 = t.IsCornerOppositeToSeamEdge(ct->Next(nxt));        // what RecomputeVerticesInternal reads
          bool e2 = t.IsCornerOppositeToSeamEdge(ct->Previous(cur));    // the same edge seen from the other face
          if (e1 != e2) bad2 = "asymmetric-seam-edge";
          es += e1 ? "1" : "0";
        }
        in += std::string(f.open ? "o" : "c") + "/" + (es.empty() ? "-" : es);
        std::vector<int> ids; for (int c : f.corners) ids.push_back((int)t.Vertex(CornerIndex(c)).value());
        outp += std::string(t.IsCornerOnSeam(CornerIndex(f.corners[0])) ? "1" : "0") + "/" + csv(ids);
      }
      if (in.empty()) { in = "-"; outp = "-"; }
      o.c("rv " + in, S(t.num_vertices()) + " " + S(t.no_interior_seams() ? 1 : 0) + " " + outp + (bad2.empty() ? "" : " bad:" + bad2));
    }
  }
}

// ----------------------------------------------------------------------------------------------- point clouds
static void pc_cases(Out &o, Rng &r, int np) {
  PointCloud pc; pc.set_num_points(np);
  bool int_pos = r.chance(40);
  GeometryAttribute ga;
  if (int_pos) ga.Init(GeometryAttribute::POSITION, nullptr, 3, DT_INT32, false, sizeof(int32_t) * 3, 0);
  else ga.Init(GeometryAttribute::POSITION, nullptr, 3, DT_FLOAT32, false, sizeof(float) * 3, 0);
  bool dup = r.chance(30);
  int id = pc.AddAttribute(ga, true, np);
  for (int p = 0; p < np; p++) {
    int v = dup ? p / 2 : p;
    if (int_pos) { int32_t x[3] = {v % 11, v / 11, v % 3}; pc.attribute(id)->SetAttributeValue(AttributeValueIndex(p), x); }
    else { float x[3] = {(float)(v % 11), (float)(v / 11), (float)(v % 3)}; pc.attribute(id)->SetAttributeValue(AttributeValueIndex(p), x); }
  }
  if (r.chance(50)) {
    GeometryAttribute g2; g2.Init(GeometryAttribute::GENERIC, nullptr, 1, DT_UINT8, false, 1, 0);
    int id2 = pc.AddAttribute(g2, true, np);
    for (int p = 0; p < np; p++) { uint8_t x = (uint8_t)(p * 7); pc.attribute(id2)->SetAttributeValue(AttributeValueIndex(p), &x); }
  }
  G.n["point-clouds"]++;
  for (int api = 0; api < 2; api++) for (int method : {(int)POINT_CLOUD_SEQUENTIAL_ENCODING, (int)POINT_CLOUD_KD_TREE_ENCODING, -1}) {
    int speed = (int)r.below(11);
    for (int track = 1; track >= 0; track--) {
      if (!track && !r.chance(25)) continue;
      EncoderBuffer eb; Status st; long rp, rf;
      if (api == 0) {
        Encoder e; e.SetSpeedOptions(speed, speed); if (method >= 0) e.SetEncodingMethod(method);
        e.SetAttributeQuantization(GeometryAttribute::POSITION, 11);
        if (track) e.SetTrackEncodedProperties(true);
        st = e.EncodePointCloudToBuffer(pc, &eb); rp = (long)e.num_encoded_points(); rf = (long)e.num_encoded_faces();
      } else {
        ExpertEncoder e(pc); e.SetSpeedOptions(speed, speed); if (method >= 0) e.SetEncodingMethod(method);
        if (!int_pos) e.SetAttributeQuantization(0, 11);
        if (track) e.SetTrackEncodedProperties(true);
        st = e.EncodeToBuffer(&eb); rp = (long)e.num_encoded_points(); rf = (long)e.num_encoded_faces();
      }
      G.n["encodes"]++;
      if (!st.ok()) { G.n["encode-failed"]++; continue; }
      DecoderBuffer db; db.Init(eb.data(), eb.size());
      Decoder d; auto so = d.DecodePointCloudFromBuffer(&db);
      if (!so.ok()) { G.n["decode-failed"]++; o.note("pc decode failed: " + so.status().error_msg_string()); continue; }
      long dp = so.value()->num_points();
      G.n["roundtrips"]++;
      std::string cfg = std::string(api ? "ExpertEncoder" : "Encoder") + " pc method=" + S(method) + " speed=" + S(speed) + " np=" + S(np) + " dup=" + S(dup);
      if (track) {
        if (rp != dp || rf != 0) { o.fail("count-mismatch: point cloud reported points=" + S(rp) + " faces=" + S(rf) + " decoded points=" + S(dp) + " " + cfg); G.n["fail:mismatch"]++; }
        o.c("pc " + S(np), S(rp) + " " + S(rf) + " " + S(dp) + " 0");
        o.c("api 1 " + S(rp) + " " + S(rf), S(rp) + " " + S(rf));
      } else {
        o.c("api 0 " + S(np) + " 0", S(rp) + " " + S(rf));
      }
    }
  }
}

// ----------------------------------------------------------------------------------------------- fixed cases
static Spec fixed_two_triangles(int ptmode, int natt) {   // ptmode = 1, natt >= 1: the witness of defect D5 (fixed by 5df4cb2: reported 6, decoded 4)
  Spec s; s.gen = "two-triangles"; s.npos = 4; s.fpos = {{0, 1, 2}, {2, 1, 3}};
  s.natt = natt;
  for (int a = 0; a < natt; a++) { s.fatt.push_back({{0, 0, 0}, {0, 0, 0}}); s.nval.push_back(1); s.kind.push_back(0); s.vertex_elem.push_back(0); }
  s.ptmode = ptmode; return s;
}
static Spec fixed_tetra(int seam_mode) {
  Spec s; s.gen = "tetra"; s.npos = 4; s.fpos = {{0, 1, 2}, {0, 3, 1}, {1, 3, 2}, {2, 3, 0}};
  s.natt = 1; std::vector<std::array<int, 3>> fa(4);
  for (int f = 0; f < 4; f++) for (int c = 0; c < 3; c++) {
    int v = s.fpos[f][c];
    fa[f][c] = seam_mode == 0 ? v : seam_mode == 1 ? f * 3 + c : (v * 2 + (f == 0 ? 1 : 0));
  }
  s.fatt.push_back(fa); s.nval.push_back(12); s.kind.push_back(1); s.vertex_elem.push_back(0);
  return s;
}

int main(int argc, char **argv) {
  if (argc < 4) { fprintf(stderr, "usage: h_C09 quick|thorough seed out\n"); return 2; }
  bool thorough = !strcmp(argv[1], "thorough");
  Rng r(strtoull(argv[2], 0, 10));
  Out o(argv[3]);
  o.note("C09 tier=" + std::string(argv[1]) + " seed=" + argv[2]);
  for (int pm = 0; pm < 3; pm++) for (int na = 0; na < 3; na++) mesh_cases(o, r, fixed_two_triangles(pm, na), true);
  for (int sm = 0; sm < 3; sm++) for (int pm = 0; pm < 2; pm++) { Spec s = fixed_tetra(sm); s.ptmode = pm; mesh_cases(o, r, s, true); }
  int n = thorough ? 30000 : 3000;
  for (int i = 0; i < n; i++) {
    Spec s;
    switch (r.below(8)) {
      case 0: case 1: s = gen_grid(r, false, 0); break;
      case 2: s = gen_grid(r, true, 0); break;
      case 3: s = gen_grid(r, r.chance(30), (int)r.range(1, 3)); break;
      case 4: s = gen_soup(r); break;
      default: s = gen_fan(r); break;
    }
    mesh_cases(o, r, s, i % 10 == 0);
  }
  for (int i = 0; i < (thorough ? 400 : 60); i++) pc_cases(o, r, (int)(i < 4 ? i + 1 : r.range(1, 300)));
  std::string st = "stats";
  for (auto &kv : G.n) st += " " + kv.first + "=" + S(kv.second);
  o.note(st);
  fprintf(stderr, "h_C09: %ld cases, %ld direct failures\n", o.cases, o.fails);
  return 0;
}
