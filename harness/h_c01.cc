// C01 search on the real library for ALL methods: encode -> decode must reproduce the geometry (canonical multiset of
// triangles with per-corner attribute values and orientation / multiset of points), and for fixed quantization settings the
// decoded geometry must be IDENTICAL across every method, speed, sub-method and forced prediction scheme (the lossy step
// is the same function everywhere — C04/C12 — and everything after it is lossless).  No tolerances anywhere.
//   h_c01 <tier> <seed> <out>
#include "geo_gen.h"

struct Variant { int method, speed, sub, pred_pos, pred_tex, pred_nor; bool builtin; std::string name() const { return "method=" + S(method) + " speed=" + S(speed) + " sub=" + S(sub) + " pred=" + S(pred_pos) + "/" + S(pred_tex) + "/" + S(pred_nor) + " builtin=" + S(builtin); } };

int main(int argc, char **argv) {
  if (argc < 4) { fprintf(stderr, "usage: h_c01 quick|thorough seed out\n"); return 2; }
  bool thorough = !strcmp(argv[1], "thorough"); Rng r(strtoull(argv[2], 0, 10)); Out o(argv[3]);
  long encodes = 0, enc_failed = 0, geos = 0; std::map<std::string, long> paths;
  int nm = thorough ? 30000 : 2000;
  for (int i = 0; i < nm; i++) {
    GenInfo gi; auto m = gen_mesh(r, i % 6, gi); if (!m) continue; geos++;
    int qp = r.chance(15) ? (int)r.range(15, 20) : (int)r.range(8, 14), qt = (int)r.range(8, 12), qn = (int)r.range(4, 10);   // (bit counts >= 24 are exercised by C04's harness: symbol tables for 2^30-sized values make the sequential reference very slow)
    auto configure = [&](Encoder &e, const Variant &v) { e.SetEncodingMethod(v.method); e.SetSpeedOptions(v.speed, v.speed);
      e.SetAttributeQuantization(GeometryAttribute::POSITION, qp); e.SetAttributeQuantization(GeometryAttribute::TEX_COORD, qt); e.SetAttributeQuantization(GeometryAttribute::NORMAL, qn);
      if (v.method == MESH_EDGEBREAKER_ENCODING) e.options().SetGlobalInt("edgebreaker_method", v.sub);
      if (v.pred_pos != -1) e.SetAttributePredictionScheme(GeometryAttribute::POSITION, v.pred_pos);
      if (v.pred_tex != -1) e.SetAttributePredictionScheme(GeometryAttribute::TEX_COORD, v.pred_tex);
      if (v.pred_nor != -1) e.SetAttributePredictionScheme(GeometryAttribute::NORMAL, v.pred_nor);
      e.options().SetGlobalBool("use_built_in_attribute_compression", v.builtin); };
    // reference: the sequential method (its round trip is the proved + byte-tied one)
    Variant ref{MESH_SEQUENTIAL_ENCODING, 5, 0, -1, -1, -1, true};
    Encoder e0; configure(e0, ref); EncoderBuffer b0; if (!e0.EncodeMeshToBuffer(*m, &b0).ok()) { o.fail("C01 sequential encode of a valid mesh failed: geo#" + S(i)); continue; }
    DecoderBuffer d0; d0.Init(b0.data(), b0.size()); Decoder dec0; auto r0 = dec0.DecodeMeshFromBuffer(&d0);
    if (!r0.ok()) { o.fail("C01 sequential encode ok but decode failed: geo#" + S(i)); continue; }
    const Mesh &R = *r0.value();
    // direct: unquantized attributes bit-identical, same faces (sequential keeps everything)
    if (canon_mesh(R, gi.unquantized_uids, false) != canon_mesh(*m, gi.unquantized_uids, false)) o.fail("C01 sequential round trip changed unquantized values or faces: geo#" + S(i));
    const auto Rfull = canon_mesh(R, gi.uids, false), Rdrop = canon_mesh(R, gi.uids, true), Indrop = canon_mesh(*m, gi.unquantized_uids, true);
    int nv = thorough ? 10 : 6;
    for (int k = 0; k < nv; k++) {
      Variant v; v.method = r.chance(85) ? MESH_EDGEBREAKER_ENCODING : MESH_SEQUENTIAL_ENCODING; v.speed = (int)r.below(11); v.sub = r.chance(50) ? MESH_EDGEBREAKER_VALENCE_ENCODING : MESH_EDGEBREAKER_STANDARD_ENCODING;
      static const int pp[] = {-1, -1, MESH_PREDICTION_PARALLELOGRAM, MESH_PREDICTION_CONSTRAINED_MULTI_PARALLELOGRAM, PREDICTION_DIFFERENCE}; v.pred_pos = pp[r.below(5)];
      static const int pt[] = {-1, -1, MESH_PREDICTION_TEX_COORDS_PORTABLE, MESH_PREDICTION_PARALLELOGRAM, PREDICTION_DIFFERENCE}; v.pred_tex = pt[r.below(5)];
      static const int pn[] = {-1, -1, MESH_PREDICTION_GEOMETRIC_NORMAL, PREDICTION_DIFFERENCE}; v.pred_nor = pn[r.below(4)]; v.builtin = !r.chance(15);
      Encoder e; configure(e, v); EncoderBuffer b; Status s = e.EncodeMeshToBuffer(*m, &b); encodes++;
      if (!s.ok()) { enc_failed++; continue; }   // e.g. "All triangles are degenerate"
      paths[std::string(v.method == MESH_EDGEBREAKER_ENCODING ? (v.sub == 2 ? "eb-valence" : "eb-standard") : "sequential") + (v.speed >= 6 ? " single-conn" : "")]++;
      DecoderBuffer d; d.Init(b.data(), b.size()); Decoder dec; auto res = dec.DecodeMeshFromBuffer(&d);
      if (!res.ok()) { o.fail(std::string("C01 encode ok but decode failed (") + res.status().error_msg() + "): " + v.name() + " geo#" + S(i) + " seed=" + argv[2]); continue; }
      if (d.remaining_size() != 0) o.fail("C06 decode did not consume the whole stream: " + v.name() + " geo#" + S(i));
      const bool eb = v.method == MESH_EDGEBREAKER_ENCODING;
      if (canon_mesh(*res.value(), gi.uids, eb) != (eb ? Rdrop : Rfull)) o.fail("C01 decoded geometry differs from the sequential reference (same quantization): " + v.name() + " geo#" + S(i) + " seed=" + argv[2]);
      if (canon_mesh(*res.value(), gi.unquantized_uids, true) != Indrop) o.fail("C01 unquantized attribute values / triangles changed: " + v.name() + " geo#" + S(i) + " seed=" + argv[2]);
    }
  }
  int np = thorough ? 20000 : 1500;
  for (int i = 0; i < np; i++) {
    GenInfo gi; auto p = gen_pc(r, gi); if (!p) continue; geos++; int qp = r.chance(25) ? (int)r.range(15, 22) : (int)r.range(6, 14);
    std::vector<Bytes> ref; bool have = false;
    for (int k = 0; k < (thorough ? 8 : 5); k++) {
      int method = k == 0 ? POINT_CLOUD_SEQUENTIAL_ENCODING : (r.chance(75) ? POINT_CLOUD_KD_TREE_ENCODING : POINT_CLOUD_SEQUENTIAL_ENCODING); int speed = (int)r.below(11);
      Encoder e; e.SetEncodingMethod(method); e.SetSpeedOptions(speed, speed); e.SetAttributeQuantization(GeometryAttribute::POSITION, qp);
      EncoderBuffer b; Status s = e.EncodePointCloudToBuffer(*p, &b); encodes++; if (!s.ok()) { enc_failed++; continue; }
      paths[method == POINT_CLOUD_KD_TREE_ENCODING ? "pc-kdtree" : "pc-sequential"]++;
      DecoderBuffer d; d.Init(b.data(), b.size()); Decoder dec; auto res = dec.DecodePointCloudFromBuffer(&d);
      if (!res.ok()) { o.fail(std::string("C01 point cloud encode ok but decode failed (") + res.status().error_msg() + "): method=" + S(method) + " speed=" + S(speed) + " pc#" + S(i) + " seed=" + argv[2]); continue; }
      auto c = canon_pc(*res.value(), gi.uids);
      if (!have) { ref = c; have = true; if (canon_pc(*res.value(), gi.unquantized_uids) != canon_pc(*p, gi.unquantized_uids)) o.fail("C01 point cloud unquantized values changed: pc#" + S(i)); }
      else if (c != ref) o.fail("C01 decoded point multiset differs across methods (same quantization): method=" + S(method) + " speed=" + S(speed) + " pc#" + S(i) + " seed=" + argv[2]);
    }
  }
  // per-attribute settings through ExpertEncoder on "odd" meshes (attribute ids, not types, select quantization / prediction; duplicate
  // attribute types, POSITION anywhere, unusual component counts, normalized flags, metadata): the same per-attribute settings through every
  // method must decode to the same geometry as the sequential reference; metadata must survive
  int nodd = thorough ? 8000 : 600;
  for (int i = 0; i < nodd; i++) {
    GenInfo gi; std::vector<OddAtt> atts; auto m = gen_odd_mesh(r, gi, atts); if (!m) continue; geos++;
    std::vector<int> qb(atts.size(), 0), pr(atts.size(), -1);
    for (size_t a = 0; a < atts.size(); a++) { if (atts[a].is_float && (atts[a].type == GeometryAttribute::POSITION || r.chance(70))) qb[a] = (int)r.range(5, 14);
      if (r.chance(30)) { static const int ps[] = {PREDICTION_DIFFERENCE, MESH_PREDICTION_PARALLELOGRAM, MESH_PREDICTION_CONSTRAINED_MULTI_PARALLELOGRAM, MESH_PREDICTION_TEX_COORDS_PORTABLE, MESH_PREDICTION_GEOMETRIC_NORMAL}; pr[a] = ps[r.below(5)]; } }
    auto encode = [&](int method, int speed, int sub, bool builtin, EncoderBuffer &b) -> bool { ExpertEncoder e(*m); e.SetEncodingMethod(method); e.SetSpeedOptions(speed, speed); if (method == MESH_EDGEBREAKER_ENCODING) e.SetEncodingSubmethod(sub);
      e.SetUseBuiltInAttributeCompression(builtin);
      for (size_t a = 0; a < atts.size(); a++) { if (qb[a]) e.SetAttributeQuantization(atts[a].att_id, qb[a]); if (pr[a] != -1) (void)e.SetAttributePredictionScheme(atts[a].att_id, pr[a]); }
      encodes++; return e.EncodeToBuffer(&b).ok(); };
    std::vector<uint32_t> unq; for (size_t a = 0; a < atts.size(); a++) if (!qb[a]) unq.push_back(m->attribute(atts[a].att_id)->unique_id());
    EncoderBuffer b0; if (!encode(MESH_SEQUENTIAL_ENCODING, 5, 0, true, b0)) { enc_failed++; continue; }
    DecoderBuffer d0; d0.Init(b0.data(), b0.size()); Decoder dec0; auto r0 = dec0.DecodeMeshFromBuffer(&d0);
    if (!r0.ok()) { o.fail("C01 sequential (ExpertEncoder) encode ok but decode failed: odd#" + S(i) + " seed=" + argv[2]); continue; }
    if (canon_mesh(*r0.value(), unq, false) != canon_mesh(*m, unq, false)) o.fail("C01 sequential (ExpertEncoder) round trip changed unquantized values or faces: odd#" + S(i) + " seed=" + argv[2]);
    auto meta_sig = [&](const Mesh &x) { std::string t = x.GetMetadata() ? "G" + S((int64_t)x.GetMetadata()->entries().size()) : std::string("-");
      for (uint32_t uid : gi.uids) { const PointAttribute *pa = x.GetAttributeByUniqueId(uid); int idx = -1; for (int k = 0; k < x.num_attributes(); k++) if (x.attribute(k) == pa) idx = k; const AttributeMetadata *am = idx >= 0 ? x.GetAttributeMetadataByAttributeId(idx) : nullptr; std::string nm; int32_t kv = -99; if (am) { am->GetEntryString("name", &nm); am->GetEntryInt("k", &kv); } t += "|" + nm + ":" + S(kv); } return t; };
    const std::string msig = meta_sig(*m);
    if (meta_sig(*r0.value()) != msig) o.fail("C01/C11 metadata changed by the sequential round trip: odd#" + S(i) + " seed=" + argv[2]);
    const auto Rfull = canon_mesh(*r0.value(), gi.uids, false), Rdrop = canon_mesh(*r0.value(), gi.uids, true);
    for (int k = 0; k < (thorough ? 6 : 4); k++) {
      int method = r.chance(80) ? MESH_EDGEBREAKER_ENCODING : MESH_SEQUENTIAL_ENCODING, speed = (int)r.below(11), sub = r.chance(50) ? MESH_EDGEBREAKER_VALENCE_ENCODING : MESH_EDGEBREAKER_STANDARD_ENCODING; bool builtin = !r.chance(15);
      EncoderBuffer b; if (!encode(method, speed, sub, builtin, b)) { enc_failed++; continue; }
      paths[std::string("odd-") + (method == MESH_EDGEBREAKER_ENCODING ? "eb" : "seq")]++;
      const std::string tag = "odd#" + S(i) + " method=" + S(method) + " speed=" + S(speed) + " sub=" + S(sub) + " builtin=" + S(builtin) + " seed=" + argv[2];
      DecoderBuffer d; d.Init(b.data(), b.size()); Decoder dec; auto res = dec.DecodeMeshFromBuffer(&d);
      if (!res.ok()) { o.fail(std::string("C01 encode ok but decode failed (") + res.status().error_msg() + "): " + tag); continue; }
      const bool eb = method == MESH_EDGEBREAKER_ENCODING;
      if (canon_mesh(*res.value(), gi.uids, eb) != (eb ? Rdrop : Rfull)) o.fail("C01 decoded geometry differs from the sequential reference (same per-attribute settings): " + tag);
      if (meta_sig(*res.value()) != msig) o.fail("C01/C11 metadata changed by the round trip: " + tag);
    }
  }
  // the same for point clouds: sequential vs kd-tree through ExpertEncoder with per-attribute quantization
  for (int i = 0; i < (thorough ? 6000 : 500); i++) {
    GenInfo gi; std::vector<OddAtt> atts; auto m = gen_odd_mesh(r, gi, atts, false); if (!m) continue; geos++;
    // quantized NORMAL attributes are octahedral in the sequential coder and plain-quantized in the kd-tree coder: not comparable across methods
    { std::vector<uint32_t> keep; for (size_t a = 0; a < atts.size(); a++) if (atts[a].type != GeometryAttribute::NORMAL) keep.push_back(m->attribute(atts[a].att_id)->unique_id()); gi.uids = keep; }
    std::vector<int> qb(atts.size(), 0); for (size_t a = 0; a < atts.size(); a++) if (atts[a].is_float) qb[a] = (int)r.range(4, 15);
    std::vector<uint32_t> unq; for (size_t a = 0; a < atts.size(); a++) if (!qb[a]) unq.push_back(m->attribute(atts[a].att_id)->unique_id());
    std::vector<Bytes> ref; bool have = false;
    for (int k = 0; k < 4; k++) { int method = k == 0 ? POINT_CLOUD_SEQUENTIAL_ENCODING : (r.chance(75) ? POINT_CLOUD_KD_TREE_ENCODING : POINT_CLOUD_SEQUENTIAL_ENCODING), speed = (int)r.below(11);
      ExpertEncoder e(static_cast<const PointCloud &>(*m)); e.SetEncodingMethod(method); e.SetSpeedOptions(speed, speed); for (size_t a = 0; a < atts.size(); a++) if (qb[a]) e.SetAttributeQuantization(atts[a].att_id, qb[a]);
      EncoderBuffer b; encodes++; if (!e.EncodeToBuffer(&b).ok()) { enc_failed++; continue; }
      paths[method == POINT_CLOUD_KD_TREE_ENCODING ? "odd-pckd" : "odd-pcseq"]++;
      const std::string tag = "oddpc#" + S(i) + " method=" + S(method) + " speed=" + S(speed) + " seed=" + argv[2];
      DecoderBuffer d; d.Init(b.data(), b.size()); Decoder dec; auto res = dec.DecodePointCloudFromBuffer(&d);
      if (!res.ok()) { o.fail(std::string("C01 point cloud encode ok but decode failed (") + res.status().error_msg() + "): " + tag); continue; }
      if (canon_pc(*res.value(), unq) != canon_pc(*m, unq)) o.fail("C01 point cloud unquantized values changed: " + tag);
      auto c = canon_pc(*res.value(), gi.uids); if (!have) { ref = c; have = true; } else if (c != ref) o.fail("C01 decoded point multiset differs across methods (same per-attribute quantization): " + tag);
    }
  }
  // point counts at and next to the limits where the sequential connectivity changes its index width (uint8 / uint16 / varint / uint32)
  for (uint32_t n : {255u, 256u, 257u, 65535u, 65536u, 65537u, 2097151u, 2097152u, 2097153u}) { if (!thorough && n > 70000) continue;
    Mesh m; m.set_num_points(n); GeometryAttribute ga; ga.Init(GeometryAttribute::POSITION, nullptr, 3, DT_UINT8, false, 3, 0); int id = m.AddAttribute(ga, true, n);
    std::vector<uint8_t> z(3 * (size_t)n); for (size_t i = 0; i < z.size(); i++) z[i] = (uint8_t)((i / 3) % 7 + (i % 3)); m.attribute(id)->buffer()->Update(z.data(), z.size());
    Mesh::Face f; f[0] = PointIndex(n - 1); f[1] = PointIndex(0); f[2] = PointIndex(n - 2); m.AddFace(f); f[0] = PointIndex(n / 2); f[1] = PointIndex(n - 1); f[2] = PointIndex(1); m.AddFace(f); f[0] = PointIndex(3); f[1] = PointIndex(2); f[2] = PointIndex(n - 3); m.AddFace(f);
    std::vector<uint32_t> uids = {m.attribute(id)->unique_id()}; geos++;
    for (int cc = 0; cc < 2; cc++) { Encoder e; e.SetEncodingMethod(MESH_SEQUENTIAL_ENCODING); e.SetSpeedOptions(5, 5); if (cc) e.options().SetGlobalBool("compress_connectivity", true);
      EncoderBuffer b; encodes++; if (!e.EncodeMeshToBuffer(m, &b).ok()) { enc_failed++; continue; }
      DecoderBuffer d; d.Init(b.data(), b.size()); Decoder dec; auto res = dec.DecodeMeshFromBuffer(&d); const std::string tag = "sequential mesh with " + U(n) + " points, 3 faces, compress_connectivity=" + S(cc);
      if (!res.ok()) { if (cc) continue;   // (compressed connectivity: known finding D10 class, reported by h_seq)
        o.fail(std::string("C01 encode ok but decode failed (") + res.status().error_msg() + "): " + tag); continue; }
      if (res.value()->num_points() != n || res.value()->num_faces() != 3) { o.fail("C01 point / face count changed: " + tag); continue; }
      bool same = true; for (FaceIndex fi(0); fi < 3 && same; ++fi) for (int j = 0; j < 3; j++) if (res.value()->face(fi)[j] != m.face(fi)[j]) same = false;
      if (!same) o.fail("C01 faces changed (the sequential method keeps face and point order): " + tag); } }
  // many attributes: the Edgebreaker stream addresses attribute data with a signed 8-bit id and counts them in a uint8
  // (fix 29338a7: the encoder refuses more than 128 non-position attributes; before, 130..255 encoded but did not decode)
  for (int na : {2, 127, 128, 129, 130, 200}) {
    Mesh m; m.set_num_points(4); GenInfo gi;
    for (int a = 0; a < na; a++) { GeometryAttribute ga; if (a == 0) ga.Init(GeometryAttribute::POSITION, nullptr, 3, DT_INT32, false, 12, 0); else ga.Init(GeometryAttribute::GENERIC, nullptr, 1, DT_INT32, false, 4, 0);
      int id = m.AddAttribute(ga, true, 4); for (int p = 0; p < 4; p++) { int32_t v[3] = {p % 2 * 10 + a, p / 2 * 10, a * p}; m.attribute(id)->SetAttributeValue(AttributeValueIndex(p), v); }
      gi.uids.push_back(m.attribute(id)->unique_id()); }
    Mesh::Face f; f[0] = PointIndex(0); f[1] = PointIndex(1); f[2] = PointIndex(3); m.AddFace(f); f[0] = PointIndex(0); f[1] = PointIndex(3); f[2] = PointIndex(2); m.AddFace(f);
    for (int method : {MESH_EDGEBREAKER_ENCODING, MESH_SEQUENTIAL_ENCODING}) for (int sub : {MESH_EDGEBREAKER_STANDARD_ENCODING, MESH_EDGEBREAKER_VALENCE_ENCODING}) {
      Encoder e; e.SetEncodingMethod(method); e.SetSpeedOptions(5, 5); e.options().SetGlobalInt("edgebreaker_method", sub);
      EncoderBuffer b; Status s = e.EncodeMeshToBuffer(m, &b); encodes++; if (!s.ok()) { enc_failed++; continue; }
      DecoderBuffer d; d.Init(b.data(), b.size()); Decoder dec; auto res = dec.DecodeMeshFromBuffer(&d);
      if (!res.ok()) { o.fail("C01 encode ok but decode failed (" + std::string(res.status().error_msg()) + "): mesh with " + S(na) + " attributes method=" + S(method) + " sub=" + S(sub)); continue; }
      if (canon_mesh(*res.value(), gi.uids, false) != canon_mesh(m, gi.uids, false)) o.fail("C01 attributes lost or changed: mesh with " + S(na) + " attributes method=" + S(method) + " sub=" + S(sub));
    }
  }
  std::string ps; for (auto &kv : paths) ps += " " + kv.first + "=" + S(kv.second);
  o.note("STATS geometries=" + S(geos) + " encodes=" + S(encodes) + " encode_failures=" + S(enc_failed) + " paths:" + ps);
  fprintf(stderr, "h_c01: %ld geometries, %ld encodes, %ld failures\n", geos, encodes, o.fails);
  return 0;
}
