// C01 search on the real library for ALL methods: encode -> decode must reproduce the geometry (canonical multiset of
// triangles with per-corner attribute values and orientation / multiset of points), and for fixed quantization settings the
// decoded geometry must be IDENTICAL across every method, speed, sub-method and forced prediction scheme (the lossy step
// is the same function everywhere — C04/C12 — and everything after it is lossless).  No tolerances anywhere.
//   h_c01 <tier> <seed> <out>
#include "common.h"
#include <algorithm>
#include <cmath>
#include <map>
#include "draco/compression/decode.h"
#include "draco/compression/encode.h"
#include "draco/mesh/mesh.h"
#include "draco/mesh/triangle_soup_mesh_builder.h"
#include "draco/point_cloud/point_cloud_builder.h"
using namespace draco;

typedef std::vector<uint8_t> Bytes;
// value bytes of all attributes (ordered by unique id) at one point; quantized attributes are taken from [ref] when given
static Bytes corner_key(const PointCloud &pc, PointIndex p, const std::vector<uint32_t> &uids) {
  Bytes k;
  for (uint32_t uid : uids) { const PointAttribute *a = pc.GetAttributeByUniqueId(uid); if (!a) { k.push_back(0xEE); continue; }
    Bytes b(a->byte_stride()); a->GetMappedValue(p, b.data()); k.push_back((uint8_t)a->attribute_type()); k.push_back((uint8_t)a->data_type()); k.push_back((uint8_t)a->num_components()); k.push_back((uint8_t)a->normalized()); k.insert(k.end(), b.begin(), b.end()); }
  return k;
}
static Bytes pos_key(const PointCloud &pc, PointIndex p) { const PointAttribute *a = pc.GetNamedAttribute(GeometryAttribute::POSITION); Bytes b(a ? a->byte_stride() : 0); if (a) a->GetMappedValue(p, b.data()); return b; }
// canonical multiset of faces; [drop_pos_degenerate]: faces using one position value twice are dropped (Edgebreaker may omit them)
static std::vector<Bytes> canon_mesh(const Mesh &m, const std::vector<uint32_t> &uids, bool drop_pos_degenerate) {
  std::vector<Bytes> fs;
  for (FaceIndex f(0); f < m.num_faces(); ++f) {
    Bytes c[3], pk[3]; for (int j = 0; j < 3; j++) { c[j] = corner_key(m, m.face(f)[j], uids); pk[j] = pos_key(m, m.face(f)[j]); }
    if (drop_pos_degenerate && (pk[0] == pk[1] || pk[1] == pk[2] || pk[0] == pk[2])) continue;
    int best = 0; for (int r = 1; r < 3; r++) { Bytes a = c[r], b = c[best]; a.insert(a.end(), c[(r + 1) % 3].begin(), c[(r + 1) % 3].end()); b.insert(b.end(), c[(best + 1) % 3].begin(), c[(best + 1) % 3].end()); a.insert(a.end(), c[(r + 2) % 3].begin(), c[(r + 2) % 3].end()); b.insert(b.end(), c[(best + 2) % 3].begin(), c[(best + 2) % 3].end()); if (a < b) best = r; }
    Bytes k; for (int j = 0; j < 3; j++) { k.insert(k.end(), c[(best + j) % 3].begin(), c[(best + j) % 3].end()); k.push_back(0xFF); }
    fs.push_back(k);
  }
  std::sort(fs.begin(), fs.end()); return fs;
}
static std::vector<Bytes> canon_pc(const PointCloud &pc, const std::vector<uint32_t> &uids) {
  std::vector<Bytes> ps; for (PointIndex p(0); p < pc.num_points(); ++p) ps.push_back(corner_key(pc, p, uids)); std::sort(ps.begin(), ps.end()); return ps;
}

struct GenInfo { std::vector<uint32_t> uids, unquantized_uids; };
static std::unique_ptr<Mesh> gen_mesh(Rng &r, int flavor, GenInfo &gi) {
  TriangleSoupMeshBuilder mb; int w = (int)r.range(1, 8), h = (int)r.range(1, 8);
  std::vector<std::array<int, 3>> faces; auto id = [&](int x, int y) { return y * (w + 1) + x; };
  for (int y = 0; y < h; y++) for (int x = 0; x < w; x++) { if (r.chance(10)) continue;
    if (r.chance(50)) { faces.push_back({id(x, y), id(x + 1, y), id(x + 1, y + 1)}); faces.push_back({id(x, y), id(x + 1, y + 1), id(x, y + 1)}); }
    else { faces.push_back({id(x, y), id(x + 1, y), id(x, y + 1)}); faces.push_back({id(x + 1, y), id(x + 1, y + 1), id(x, y + 1)}); } }
  int npts = (w + 1) * (h + 1);
  if (flavor >= 1) for (int i = 0, n = (int)r.below(5); i < n; i++) { int a = (int)r.below(npts), b = (int)r.below(npts), c = r.chance(25) ? a : (int)r.below(npts); faces.push_back({a, b, c}); }
  if (flavor >= 2 && !faces.empty()) for (int i = 0, n = (int)r.below(3); i < n; i++) { auto f = faces[r.below(faces.size())]; if (r.chance(50)) std::swap(f[0], f[1]); faces.push_back(f); }
  if (faces.empty()) faces.push_back({0, 1, npts - 1});
  mb.Start((int)faces.size());
  int pos = mb.AddAttribute(GeometryAttribute::POSITION, 3, DT_FLOAT32);
  int tex = r.chance(70) ? mb.AddAttribute(GeometryAttribute::TEX_COORD, 2, DT_FLOAT32) : -1;
  int nor = r.chance(40) ? mb.AddAttribute(GeometryAttribute::NORMAL, 3, DT_FLOAT32) : -1;
  int gi16 = r.chance(40) ? mb.AddAttribute(GeometryAttribute::GENERIC, 2, DT_INT16) : -1;
  int gu8 = r.chance(40) ? mb.AddAttribute(GeometryAttribute::GENERIC, 1, DT_UINT8) : -1;
  int seam = r.chance(50) ? (int)r.range(1, w) : -1; bool collapse = r.chance(15);
  for (size_t f = 0; f < faces.size(); f++) { auto &F = faces[f]; float P[3][3], uv[3][2], n[3][3]; int16_t g[3][2];
    for (int k = 0; k < 3; k++) { int x = F[k] % (w + 1), y = F[k] / (w + 1);
      P[k][0] = (float)x + (float)((F[k] * 7) % 13) / 40.f; P[k][1] = (float)y + (float)((F[k] * 3) % 7) / 50.f; P[k][2] = (float)((F[k] * 5) % 11) / 7.f;
      if (collapse && x == 0) { P[k][0] = 0; P[k][1] = 0; P[k][2] = 0; }   // several grid points share one position value
      bool right = seam >= 0 && (F[0] % (w + 1)) >= seam; uv[k][0] = (float)x / (w + 1) + (right ? .5f : 0.f); uv[k][1] = (float)y / (h + 1);
      float a = (float)((F[k] * 37) % 100) / 16.f; n[k][0] = std::sin(a); n[k][1] = std::cos(a) * .6f; n[k][2] = .8f * std::cos(a);
      g[k][0] = (int16_t)(F[k] % 9 - 4); g[k][1] = (int16_t)((f % 3) * 100 - 100); }
    mb.SetAttributeValuesForFace(pos, FaceIndex((uint32_t)f), P[0], P[1], P[2]);
    if (tex >= 0) mb.SetAttributeValuesForFace(tex, FaceIndex((uint32_t)f), uv[0], uv[1], uv[2]);
    if (nor >= 0) mb.SetAttributeValuesForFace(nor, FaceIndex((uint32_t)f), n[0], n[1], n[2]);
    if (gi16 >= 0) mb.SetAttributeValuesForFace(gi16, FaceIndex((uint32_t)f), g[0], g[1], g[2]);
    if (gu8 >= 0) { uint8_t v = (uint8_t)(f % 5); mb.SetPerFaceAttributeValueForFace(gu8, FaceIndex((uint32_t)f), &v); } }
  auto m = mb.Finalize(); if (!m) return nullptr;
  for (int i = 0; i < m->num_attributes(); i++) { gi.uids.push_back(m->attribute(i)->unique_id()); if (m->attribute(i)->data_type() != DT_FLOAT32) gi.unquantized_uids.push_back(m->attribute(i)->unique_id()); }
  return m;
}
static std::unique_ptr<PointCloud> gen_pc(Rng &r, GenInfo &gi) {
  PointCloudBuilder pb; int n = (int)r.range(1, 150); pb.Start(n);
  int pos = pb.AddAttribute(GeometryAttribute::POSITION, 3, DT_FLOAT32); int col = r.chance(60) ? pb.AddAttribute(GeometryAttribute::COLOR, 3, DT_UINT8) : -1;
  int g16 = r.chance(40) ? pb.AddAttribute(GeometryAttribute::GENERIC, 2, DT_INT16) : -1; int g32 = r.chance(30) ? pb.AddAttribute(GeometryAttribute::GENERIC, 1, DT_UINT32) : -1;
  for (int i = 0; i < n; i++) { float p[3] = {(float)r.range(-500, 500) / 8.f, (float)r.range(-500, 500) / 8.f, (float)r.range(-60, 60) / 4.f}; if (r.chance(10) && i > 0) p[0] = p[1] = p[2] = 1.f; pb.SetAttributeValueForPoint(pos, PointIndex(i), p);
    if (col >= 0) { uint8_t c[3] = {(uint8_t)r.below(256), (uint8_t)r.below(6), (uint8_t)i}; pb.SetAttributeValueForPoint(col, PointIndex(i), c); }
    if (g16 >= 0) { int16_t g[2] = {(int16_t)r.range(-400, 400), (int16_t)r.range(-3, 3)}; pb.SetAttributeValueForPoint(g16, PointIndex(i), g); }
    if (g32 >= 0) { uint32_t g = (uint32_t)r.below(70000); pb.SetAttributeValueForPoint(g32, PointIndex(i), &g); } }
  auto p = pb.Finalize(r.chance(50)); if (!p) return nullptr;
  for (int i = 0; i < p->num_attributes(); i++) { gi.uids.push_back(p->attribute(i)->unique_id()); if (p->attribute(i)->data_type() != DT_FLOAT32) gi.unquantized_uids.push_back(p->attribute(i)->unique_id()); }
  return p;
}

struct Variant { int method, speed, sub, pred_pos, pred_tex, pred_nor; bool builtin; std::string name() const { return "method=" + S(method) + " speed=" + S(speed) + " sub=" + S(sub) + " pred=" + S(pred_pos) + "/" + S(pred_tex) + "/" + S(pred_nor) + " builtin=" + S(builtin); } };

int main(int argc, char **argv) {
  if (argc < 4) { fprintf(stderr, "usage: h_c01 quick|thorough seed out\n"); return 2; }
  bool thorough = !strcmp(argv[1], "thorough"); Rng r(strtoull(argv[2], 0, 10)); Out o(argv[3]);
  long encodes = 0, enc_failed = 0, geos = 0; std::map<std::string, long> paths;
  int nm = thorough ? 30000 : 2000;
  for (int i = 0; i < nm; i++) {
    GenInfo gi; auto m = gen_mesh(r, i % 3, gi); if (!m) continue; geos++;
    int qp = (int)r.range(8, 14), qt = (int)r.range(8, 12), qn = (int)r.range(4, 10);
    auto configure = [&](Encoder &e, const Variant &v) { e.SetEncodingMethod(v.method); e.SetSpeedOptions(v.speed, v.speed);
      e.SetAttributeQuantization(GeometryAttribute::POSITION, qp); e.SetAttributeQuantization(GeometryAttribute::TEX_COORD, qt); e.SetAttributeQuantization(GeometryAttribute::NORMAL, qn);
      if (v.method == MESH_EDGEBREAKER_ENCODING) e.options().SetGlobalInt("edgebreaker_method", v.sub);
      if (v.pred_pos != -1) e.SetAttributePredictionScheme(GeometryAttribute::POSITION, v.pred_pos);
      if (v.pred_tex != -1) e.SetAttributePredictionScheme(GeometryAttribute::TEX_COORD, v.pred_tex);
      if (v.pred_nor != -1) e.SetAttributePredictionScheme(GeometryAttribute::NORMAL, v.pred_nor);
      e.options().SetGlobalBool("use_built_in_attribute_compression", v.builtin); };
    // reference: the sequential method (its round trip is the proved + byte-tied one)
    Variant ref{MESH_SEQUENTIAL_ENCODING, 5, 0, -1, -1, -1, true};
    Encoder e0; configure(e0, ref); EncoderBuffer b0; if (!e0.EncodeMeshToBuffer(*m, &b0).ok()) { o.fail("C01 sequential encode of a valid mesh failed: geo#" + S(i)); continue; }
    DecoderBuffer d0; d0.Init(b0.data(), b0.size()); Decoder dec0; auto r0 = dec0.DecodeMeshFromBuffer(&d0);
    if (!r0.ok()) { o.fail("C01 sequential encode ok but decode failed: geo#" + S(i)); continue; }
    const Mesh &R = *r0.value();
    // direct: unquantized attributes bit-identical, same faces (sequential keeps everything)
    if (canon_mesh(R, gi.unquantized_uids, false) != canon_mesh(*m, gi.unquantized_uids, false)) o.fail("C01 sequential round trip changed unquantized values or faces: geo#" + S(i));
    const auto Rfull = canon_mesh(R, gi.uids, false), Rdrop = canon_mesh(R, gi.uids, true), Indrop = canon_mesh(*m, gi.unquantized_uids, true);
    int nv = thorough ? 10 : 6;
    for (int k = 0; k < nv; k++) {
      Variant v; v.method = r.chance(85) ? MESH_EDGEBREAKER_ENCODING : MESH_SEQUENTIAL_ENCODING; v.speed = (int)r.below(11); v.sub = r.chance(50) ? MESH_EDGEBREAKER_VALENCE_ENCODING : MESH_EDGEBREAKER_STANDARD_ENCODING;
      static const int pp[] = {-1, -1, MESH_PREDICTION_PARALLELOGRAM, MESH_PREDICTION_CONSTRAINED_MULTI_PARALLELOGRAM, PREDICTION_DIFFERENCE}; v.pred_pos = pp[r.below(5)];
      static const int pt[] = {-1, -1, MESH_PREDICTION_TEX_COORDS_PORTABLE, MESH_PREDICTION_PARALLELOGRAM, PREDICTION_DIFFERENCE}; v.pred_tex = pt[r.below(5)];
      static const int pn[] = {-1, -1, MESH_PREDICTION_GEOMETRIC_NORMAL, PREDICTION_DIFFERENCE}; v.pred_nor = pn[r.below(4)]; v.builtin = !r.chance(15);
      Encoder e; configure(e, v); EncoderBuffer b; Status s = e.EncodeMeshToBuffer(*m, &b); encodes++;
      if (!s.ok()) { enc_failed++; continue; }   // e.g. "All triangles are degenerate"
      paths[std::string(v.method == MESH_EDGEBREAKER_ENCODING ? (v.sub == 2 ? "eb-valence" : "eb-standard") : "sequential") + (v.speed >= 6 ? " single-conn" : "")]++;
      DecoderBuffer d; d.Init(b.data(), b.size()); Decoder dec; auto res = dec.DecodeMeshFromBuffer(&d);
      if (!res.ok()) { o.fail(std::string("C01 encode ok but decode failed (") + res.status().error_msg() + "): " + v.name() + " geo#" + S(i) + " seed=" + argv[2]); continue; }
      if (d.remaining_size() != 0) o.fail("C06 decode did not consume the whole stream: " + v.name() + " geo#" + S(i));
      const bool eb = v.method == MESH_EDGEBREAKER_ENCODING;
      if (canon_mesh(*res.value(), gi.uids, eb) != (eb ? Rdrop : Rfull)) o.fail("C01 decoded geometry differs from the sequential reference (same quantization): " + v.name() + " geo#" + S(i) + " seed=" + argv[2]);
      if (canon_mesh(*res.value(), gi.unquantized_uids, true) != Indrop) o.fail("C01 unquantized attribute values / triangles changed: " + v.name() + " geo#" + S(i) + " seed=" + argv[2]);
    }
  }
  int np = thorough ? 20000 : 1500;
  for (int i = 0; i < np; i++) {
    GenInfo gi; auto p = gen_pc(r, gi); if (!p) continue; geos++; int qp = (int)r.range(6, 14);
    std::vector<Bytes> ref; bool have = false;
    for (int k = 0; k < (thorough ? 8 : 5); k++) {
      int method = k == 0 ? POINT_CLOUD_SEQUENTIAL_ENCODING : (r.chance(75) ? POINT_CLOUD_KD_TREE_ENCODING : POINT_CLOUD_SEQUENTIAL_ENCODING); int speed = (int)r.below(11);
      Encoder e; e.SetEncodingMethod(method); e.SetSpeedOptions(speed, speed); e.SetAttributeQuantization(GeometryAttribute::POSITION, qp);
      EncoderBuffer b; Status s = e.EncodePointCloudToBuffer(*p, &b); encodes++; if (!s.ok()) { enc_failed++; continue; }
      paths[method == POINT_CLOUD_KD_TREE_ENCODING ? "pc-kdtree" : "pc-sequential"]++;
      DecoderBuffer d; d.Init(b.data(), b.size()); Decoder dec; auto res = dec.DecodePointCloudFromBuffer(&d);
      if (!res.ok()) { o.fail(std::string("C01 point cloud encode ok but decode failed (") + res.status().error_msg() + "): method=" + S(method) + " speed=" + S(speed) + " pc#" + S(i) + " seed=" + argv[2]); continue; }
      auto c = canon_pc(*res.value(), gi.uids);
      if (!have) { ref = c; have = true; if (canon_pc(*res.value(), gi.unquantized_uids) != canon_pc(*p, gi.unquantized_uids)) o.fail("C01 point cloud unquantized values changed: pc#" + S(i)); }
      else if (c != ref) o.fail("C01 decoded point multiset differs across methods (same quantization): method=" + S(method) + " speed=" + S(speed) + " pc#" + S(i) + " seed=" + argv[2]);
    }
  }
  std::string ps; for (auto &kv : paths) ps += " " + kv.first + "=" + S(kv.second);
  o.note("STATS geometries=" + S(geos) + " encodes=" + S(encodes) + " encode_failures=" + S(enc_failed) + " paths:" + ps);
  fprintf(stderr, "h_c01: %ld geometries, %ld encodes, %ld failures\n", geos, encodes, o.fails);
  return 0;
}
