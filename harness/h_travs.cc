// TRAVS correspondence + search harness (sub-check of C01): the attribute traversal (DepthFirstTraverser /
// MaxPredictionDegreeTraverser + MeshTraversalSequencer + MeshAttributeIndicesEncodingObserver) of /repo against
// coq/Model/Traverser.v.
//   kinds (see driver/d_travs.ml):  pos <dfs|mpd> <faces> <c2p> <init> <order>
//                                   att <faces> <seams> <att c2v> <att lmc> <c2p> <init> <order>
//                                   tab <dfs|mpd> <c2v> <opp> <lmc> <c2p> <init> <order>
//   result: inv=1 ok d2c=<encoded_attribute_value_index_to_corner_map> v2d=<vertex_to_encoded_attribute_value_index_map>
//           pts=<generated point id sequence> n=<num_values>   |  inv=1 false  |  inv=1 err (forked child crashed)
//   "inv=1" is printed unconditionally: the model side recomputes it with tt_okb (the hypotheses of the theorems), so a
//   real table violating them is a mismatch.
// Sources of cases:  (A) the templates instantiated here exactly as GenerateAttributesEncoder / CreateAttributesDecoder do,
//   on tables built by CreateCornerTableFromPositionAttribute / FromAllAttributes / MeshAttributeCornerTable::
//   InitFromAttribute, with no corner order, the encoder's order, and random start lists;  (B) IN SITU: the maps and point
//   sequences the real Edgebreaker encoder and decoder produced while coding the mesh (private members read out).
// "!" lines: md_wf on the real maps, point multiplicities, causality, the multi-parallelogram flag guard, encoder/decoder
// agreement under the corner correspondence.
#include "common.h"
#include <algorithm>
#include <array>
#include <map>
#include <memory>
#include <set>
#include <unordered_map>
#include <signal.h>
#include <sys/wait.h>
#include <unistd.h>
#include "draco/compression/encode.h"
#include "draco/compression/expert_encode.h"
#include "draco/compression/decode.h"
#include "draco/mesh/mesh.h"
#include "draco/mesh/mesh_misc_functions.h"
#include "draco/mesh/mesh_attribute_corner_table.h"
#include "draco/compression/attributes/mesh_attribute_indices_encoding_data.h"
#include "draco/compression/mesh/traverser/depth_first_traverser.h"
#include "draco/compression/mesh/traverser/max_prediction_degree_traverser.h"
#include "draco/compression/mesh/traverser/mesh_attribute_indices_encoding_observer.h"
#include "draco/compression/mesh/traverser/mesh_traversal_sequencer.h"
#define private public
#define protected public
#include "draco/compression/attributes/sequential_attribute_encoders_controller.h"
#include "draco/compression/attributes/sequential_attribute_decoders_controller.h"
#include "draco/compression/mesh/mesh_edgebreaker_decoder.h"
#include "draco/compression/mesh/mesh_edgebreaker_decoder_impl.h"
#include "draco/compression/mesh/mesh_edgebreaker_encoder.h"
#include "draco/compression/mesh/mesh_edgebreaker_encoder_impl.h"
#include "draco/compression/mesh/mesh_edgebreaker_traversal_encoder.h"
#include "draco/compression/mesh/mesh_edgebreaker_traversal_decoder.h"
#undef private
#undef protected
using namespace draco;

static std::string join(const std::vector<long> &v) {
  if (v.empty()) return "-";
  std::string s;
  for (size_t i = 0; i < v.size(); i++) { if (i) s += ','; s += std::to_string(v[i]); }
  return s;
}
static long ci(uint32_t x) { return x == 0xFFFFFFFFu ? -1 : (long)x; }
static inline uint32_t nx(uint32_t k) { return (k % 3 == 2) ? k - 2 : k + 1; }
static inline uint32_t pv(uint32_t k) { return (k % 3 == 0) ? k + 2 : k - 1; }
static inline uint32_t rot(uint32_t i, uint32_t c) { return i == 0 ? c : i == 1 ? nx(c) : pv(c); }

static Out *g_out = nullptr; static std::string g_what;
static void on_alarm(int) { if (g_out) { g_out->fail("HANG traversal did not finish within 30 s :: " + g_what); fflush(g_out->f); } _exit(3); }

static long g_cnt[40];
enum { N_MESH, N_POS_DFS, N_POS_MPD, N_ATT, N_TAB, N_INSITU_ENC, N_INSITU_DEC, N_ORDER_NONE, N_ORDER_EB, N_ORDER_RND, N_FALSE, N_ERR,
       N_DEG, N_ISO, N_SPLIT, N_SEAM_TABLES, N_NO_INTERIOR_SEAMS, N_SINGLE, N_ENTRIES, N_AGREE, N_MPD_INSITU, N_FIRSTFACE, N_PARA_OK, N_HOLES, N_MPFLAGS };

// ---------------------------------------------------------------- meshes (abstract vertex ids + seam groups per corner)
typedef std::vector<std::array<int, 3>> Faces;
struct MeshSpec { Faces f; std::vector<std::array<int, 3>> grp; int nv = 0; std::string name; int natt = 0; int speed = 5; int single = -1; };

static void add_grid(MeshSpec &m, Rng &r, int w, int h, bool wrapx, bool wrapy, int hole_pct, bool rand_diag) {
  int base = m.nv, cols = wrapx ? w : w + 1, rows = wrapy ? h : h + 1;
  auto id = [&](int x, int y) { return base + (y % rows) * cols + (x % cols); };
  for (int y = 0; y < h; y++) for (int x = 0; x < w; x++) {
    if ((int)r.below(100) < hole_pct) continue;
    int a = id(x, y), b = id(x + 1, y), c = id(x + 1, y + 1), d = id(x, y + 1);
    bool dg = rand_diag && r.chance(50);
    std::array<int, 3> f1 = dg ? std::array<int, 3>{a, b, d} : std::array<int, 3>{a, b, c};
    std::array<int, 3> f2 = dg ? std::array<int, 3>{b, c, d} : std::array<int, 3>{a, c, d};
    bool k1 = hole_pct == 0 || !r.chance(hole_pct / 2), k2 = hole_pct == 0 || !r.chance(hole_pct / 2);
    if (k1) m.f.push_back(f1);
    if (k2) m.f.push_back(f2);
  }
  m.nv += cols * rows;
}
static void add_faces(MeshSpec &m, std::initializer_list<std::array<int, 3>> fs, int nv) {
  for (auto f : fs) m.f.push_back({f[0] + m.nv, f[1] + m.nv, f[2] + m.nv});
  m.nv += nv;
}
static void add_tetra(MeshSpec &m) { add_faces(m, {{0, 1, 2}, {0, 3, 1}, {1, 3, 2}, {2, 3, 0}}, 4); }
static void add_octa(MeshSpec &m) { add_faces(m, {{0, 2, 4}, {2, 1, 4}, {1, 3, 4}, {3, 0, 4}, {2, 0, 5}, {1, 2, 5}, {3, 1, 5}, {0, 3, 5}}, 6); }
static void add_fan(MeshSpec &m, int n, bool closed) {
  int base = m.nv;
  for (int i = 0; i < n; i++) { if (!closed && i == n - 1) break; m.f.push_back({base, base + 1 + i, base + 1 + (i + 1) % n}); }
  m.nv += n + 1;
}
static void add_dense(MeshSpec &m, Rng &r, int nv, int nf, bool allow_deg) {
  for (int i = 0; i < nf; i++) {
    int a = (int)r.below(nv), b = (int)r.below(nv), c = (int)r.below(nv);
    if (!allow_deg && (a == b || b == c || a == c)) continue;
    m.f.push_back({m.nv + a, m.nv + b, m.nv + c});
  }
  m.nv += nv;
}
static MeshSpec gen_mesh(Rng &r, int idx, bool thorough) {
  MeshSpec m;
  int big = thorough ? 11 : 7;
  m.natt = r.chance(55) ? (int)r.range(1, 2) : 0; m.speed = r.chance(45) ? 0 : (r.chance(60) ? 5 : 7); m.single = r.chance(75) ? -1 : (int)r.below(2);
  switch (idx) {
    case 0: add_tetra(m); m.name = "tetrahedron"; m.natt = 0; m.grp.assign(m.f.size(), {0, 0, 0}); return m;
    case 1: add_octa(m); m.name = "octahedron"; m.natt = 1; m.speed = 0; break;
    case 2: add_faces(m, {{0, 1, 2}}, 3); m.name = "triangle"; break;
    case 3: add_grid(m, r, 4, 4, false, false, 0, false); m.f.erase(m.f.begin() + 10, m.f.begin() + 14); m.name = "grid4x4-hole"; m.speed = 0; break;
    case 4: add_grid(m, r, 3, 3, true, true, 0, false); m.name = "torus3x3"; break;
    case 5: add_grid(m, r, 4, 3, true, false, 0, false); m.name = "cylinder4x3"; m.speed = 0; break;
    case 6: add_tetra(m); add_tetra(m); add_octa(m); m.name = "tetra+tetra+octa"; break;
    case 7: add_fan(m, 6, true); m.name = "closedfan6"; break;
    case 8: add_faces(m, {{0, 1, 2}, {0, 3, 4}}, 5); m.name = "bow-tie"; break;
    case 9: add_faces(m, {{0, 1, 2}, {1, 0, 3}, {0, 1, 4}}, 5); m.name = "three faces on an edge"; break;
    case 10: add_faces(m, {{0, 0, 1}, {2, 3, 4}, {4, 4, 4}}, 7); m.name = "triangle + degenerate faces + isolated vertices"; break;
    case 11: add_grid(m, r, 6, 6, false, false, 0, false); m.name = "disc6x6"; m.speed = 0; m.natt = 1; break;
    case 12: add_fan(m, 5, true); m.f.insert(m.f.begin(), {0, 1, 1}); m.name = "degenerate face (centre, ring, ring) first, then the closed fan: no corner order starts on it"; m.natt = 1; break;
    case 13: add_grid(m, r, 3, 3, false, false, 0, false); m.f.insert(m.f.begin(), {5, 0, 0}); m.name = "degenerate face on an interior grid vertex first"; m.natt = 0; break;
    default: {
      int parts = 1 + (int)r.below(3);
      for (int p = 0; p < parts; p++) switch (r.below(8)) {
        case 0: add_tetra(m); break;
        case 1: add_octa(m); break;
        case 2: add_fan(m, 3 + (int)r.below(7), r.chance(50)); break;
        case 3: add_dense(m, r, 3 + (int)r.below(6), 1 + (int)r.below(thorough ? 40 : 24), r.chance(30)); break;
        default: {
          int w = 1 + (int)r.below(big), h = 1 + (int)r.below(big);
          bool wx = w >= 2 && r.chance(35), wy = h >= 2 && r.chance(35);
          add_grid(m, r, w, h, wx, wy, r.chance(50) ? 0 : (int)r.below(30), r.chance(50));
        }
      }
      if (r.chance(25) && m.nv > 3) { int k = 1 + (int)r.below(3);                 // non-manifold: identify vertices
        for (int i = 0; i < k; i++) { int a = (int)r.below(m.nv), b = (int)r.below(m.nv); for (auto &f : m.f) for (int j = 0; j < 3; j++) if (f[j] == a) f[j] = b; } }
      if (r.chance(15) && !m.f.empty()) { auto &f = m.f[r.below(m.f.size())]; std::swap(f[1], f[2]); }
      if (r.chance(12) && !m.f.empty()) { auto &f = m.f[r.below(m.f.size())]; f[r.below(3)] = f[r.below(3)]; }
      if (r.chance(10) && !m.f.empty()) m.f.push_back(m.f[r.below(m.f.size())]);
      if (r.chance(10)) m.nv += 1 + (int)r.below(3);
      if (r.chance(30)) { for (size_t i = m.f.size(); i > 1; i--) std::swap(m.f[i - 1], m.f[r.below(i)]); }
      if (r.chance(20)) { for (auto &f : m.f) { int k = (int)r.below(3); std::rotate(f.begin(), f.begin() + k, f.end()); } }
      m.name = "random";
    }
  }
  // seams: blocks of faces disagree about the point of a shared vertex; or single corners get their own point
  m.grp.assign(m.f.size(), {0, 0, 0});
  if (m.natt > 0 && r.chance(70)) { int blk = 1 + (int)r.below(8); for (size_t i = 0; i < m.f.size(); i++) { int g = (int)((i / blk) % 3); m.grp[i] = {g, g, g}; } }
  if (m.natt > 0 && r.chance(25)) for (int k = 0, n = 1 + (int)r.below(4); k < n && !m.f.empty(); k++) m.grp[r.below(m.f.size())][r.below(3)] = 3 + k;
  return m;
}

// Mesh built directly: one POINT per (vertex, seam group) pair that occurs plus one per unused vertex.  POSITION (int32): one value
// per vertex, explicit point -> value map.  Generic attribute a (int32): a even: one value per point (seams wherever the points of a
// vertex differ); a odd: one value per (vertex, group % 2) (fewer seams).
static std::unique_ptr<Mesh> build_mesh(const MeshSpec &ms) {
  std::unique_ptr<Mesh> mesh(new Mesh());
  std::map<std::pair<int, int>, int> pid; std::vector<int> p2v, p2g;
  std::vector<std::array<int, 3>> pf(ms.f.size());
  std::vector<bool> used(ms.nv, false);
  for (size_t i = 0; i < ms.f.size(); i++) for (int k = 0; k < 3; k++) {
    auto key = std::make_pair(ms.f[i][k], ms.grp[i][k]);
    auto it = pid.find(key);
    if (it == pid.end()) { it = pid.insert({key, (int)p2v.size()}).first; p2v.push_back(ms.f[i][k]); p2g.push_back(ms.grp[i][k]); }
    pf[i][k] = it->second; used[ms.f[i][k]] = true;
  }
  for (int v = 0; v < ms.nv; v++) if (!used[v]) { p2v.push_back(v); p2g.push_back(0); }
  const int P = (int)p2v.size();
  mesh->set_num_points(P);
  GeometryAttribute ga; ga.Init(GeometryAttribute::POSITION, nullptr, 3, DT_INT32, false, sizeof(int32_t) * 3, 0);
  int pos = mesh->AddAttribute(ga, false, ms.nv);
  for (int v = 0; v < ms.nv; v++) { int32_t p[3] = {v, (v * 7) % 13, (v * v) % 31}; mesh->attribute(pos)->SetAttributeValue(AttributeValueIndex(v), p); }
  for (int p = 0; p < P; p++) mesh->attribute(pos)->SetPointMapEntry(PointIndex(p), AttributeValueIndex(p2v[p]));
  for (int a = 0; a < ms.natt; a++) {
    GeometryAttribute gg; gg.Init(GeometryAttribute::GENERIC, nullptr, 1, DT_INT32, false, sizeof(int32_t), 0);
    if (a % 2 == 0) {
      int id = mesh->AddAttribute(gg, true, P);
      for (int p = 0; p < P; p++) { int32_t v = p * 3 + a; mesh->attribute(id)->SetAttributeValue(AttributeValueIndex(p), &v); }
    } else {
      std::map<std::pair<int, int>, int> vid; std::vector<int> p2val(P);
      for (int p = 0; p < P; p++) { auto key = std::make_pair(p2v[p], p2g[p] % 2); auto it = vid.find(key); if (it == vid.end()) it = vid.insert({key, (int)vid.size()}).first; p2val[p] = it->second; }
      int id = mesh->AddAttribute(gg, false, (int)vid.size());
      for (auto &kv : vid) { int32_t v = 1000 + 5 * kv.second; mesh->attribute(id)->SetAttributeValue(AttributeValueIndex(kv.second), &v); }
      for (int p = 0; p < P; p++) mesh->attribute(id)->SetPointMapEntry(PointIndex(p), AttributeValueIndex(p2val[p]));
    }
  }
  for (size_t i = 0; i < pf.size(); i++) { Mesh::Face f; for (int k = 0; k < 3; k++) f[k] = PointIndex(pf[i][k]); mesh->AddFace(f); }
  return mesh;
}

// ---------------------------------------------------------------- tables as text
struct Tab {                       // the arrays the traversers see
  std::vector<long> c2v, opp, lmc; // -1 = invalid
};
template <class CT> static Tab tab_of(const CT *t) {
  Tab x;
  for (int c = 0; c < t->num_corners(); c++) { x.c2v.push_back(ci(t->Vertex(CornerIndex(c)).value())); x.opp.push_back(ci(t->Opposite(CornerIndex(c)).value())); }
  for (int v = 0; v < t->num_vertices(); v++) x.lmc.push_back(ci(t->LeftMostCorner(VertexIndex(v)).value()));
  return x;
}
static std::vector<long> c2p_of(const Mesh &m) { std::vector<long> v; for (FaceIndex f(0); f < m.num_faces(); ++f) for (int k = 0; k < 3; k++) v.push_back(m.face(f)[k].value()); return v; }
static std::string order_text(const std::vector<CornerIndex> *o) { if (!o) return "none"; std::vector<long> v; for (auto c : *o) v.push_back(ci(c.value())); return join(v); }

struct Res { bool ok = false; std::vector<long> d2c, v2d, pts; long n = 0; };
static std::string res_text(const Res &r) { return r.ok ? "inv=1 ok d2c=" + join(r.d2c) + " v2d=" + join(r.v2d) + " pts=" + join(r.pts) + " n=" + S(r.n) : "inv=1 false"; }
static Res res_of(bool ok, const MeshAttributeIndicesEncodingData &ed, const std::vector<PointIndex> &pts) {
  Res r; r.ok = ok; r.n = ed.num_values;
  for (auto c : ed.encoded_attribute_value_index_to_corner_map) r.d2c.push_back(ci(c.value()));
  for (auto v : ed.vertex_to_encoded_attribute_value_index_map) r.v2d.push_back(v);
  for (auto p : pts) r.pts.push_back(p.value());
  return r;
}

// the templates instantiated as GenerateAttributesEncoder / CreateAttributesDecoder do.  init: -1 = encoder (assign(nv, -1)),
// n >= 0 = decoder (MeshAttributeIndicesEncodingData::Init(n))
template <class CT, class Trav>
static Res run_templates(const Mesh *mesh, const CT *table, long init, const std::vector<CornerIndex> *order) {
  typedef MeshAttributeIndicesEncodingObserver<CT> Obs;
  MeshAttributeIndicesEncodingData ed;
  if (init < 0) ed.vertex_to_encoded_attribute_value_index_map.assign(table->num_vertices(), -1); else ed.Init((int)init);
  std::unique_ptr<MeshTraversalSequencer<Trav>> seq(new MeshTraversalSequencer<Trav>(mesh, &ed));
  Obs obs(table, mesh, seq.get(), &ed);
  Trav trav; trav.Init(table, obs);
  if (order) seq->SetCornerOrder(*order);
  seq->SetTraverser(trav);
  std::vector<PointIndex> pts;
  alarm(30);
  bool ok = seq->GenerateSequence(&pts);
  alarm(0);
  return res_of(ok, ed, pts);
}
// the same in a forked child (cases where the model predicts an out-of-range access): "err" when the child dies
template <class CT, class Trav>
static std::string run_forked(const Mesh *mesh, const CT *table, long init, const std::vector<CornerIndex> *order) {
  int fd[2]; if (pipe(fd)) return "pipe";
  fflush(nullptr);
  pid_t pid = fork();
  if (pid == 0) { close(fd[0]); signal(SIGALRM, SIG_DFL); alarm(20); Res r = run_templates<CT, Trav>(mesh, table, init, order); std::string t = res_text(r); ssize_t w = write(fd[1], t.data(), t.size()); (void)w; _exit(0); }
  close(fd[1]); std::string t; char buf[4096]; ssize_t k; while ((k = read(fd[0], buf, sizeof buf)) > 0) t.append(buf, k); close(fd[0]);
  int st = 0; waitpid(pid, &st, 0);
  if (WIFSIGNALED(st) || t.empty()) return "inv=1 err";
  return t;
}

// ---------------------------------------------------------------- direct checks ("!")
// md_wf of Predict.v on real maps + one entry per visited vertex + point multiplicities.  all_faces: every non-degenerate face was a
// start or reached.
template <class CT>
static void check_maps(Out &o, const CT *t, const Mesh &mesh, const Res &r, const std::string &lhs, bool starts_cover) {
  if (!r.ok) return;
  const long nc = t->num_corners(), nv = t->num_vertices();
  if ((long)r.d2c.size() != r.n || (long)r.pts.size() != r.n) { o.fail("MAPS sizes: d2c/pts/num_values differ :: " + lhs); return; }
  if (r.n > nv || r.n > nc) o.fail("GUARD num_values > num_vertices or > num_corners :: " + lhs);
  std::set<long> seenv;
  for (long d = 0; d < r.n; d++) {
    long c = r.d2c[d];
    if (c < 0 || c >= nc) { o.fail("MD_WF data_to_corner out of range :: " + lhs); return; }
    uint32_t v = t->Vertex(CornerIndex((uint32_t)c)).value();
    if (v == 0xFFFFFFFFu || (long)v >= (long)r.v2d.size() || r.v2d[v] != d) { o.fail("MD_WF data_to_corner[d] is not a corner of the vertex with entry d :: " + lhs); return; }
    if (!seenv.insert(v).second) { o.fail("MD_WF two entries for one vertex :: " + lhs); return; }
    if (r.pts[d] != (long)mesh.face(FaceIndex((uint32_t)c / 3))[c % 3].value()) { o.fail("SEQ point id is not the point of the entry's corner :: " + lhs); return; }
  }
  if (starts_cover) {
    std::map<long, int> mult; for (long p : r.pts) mult[p]++;
    // does the corner -> point map factor through Vertex, and Vertex through points?  (then: exactly once)
    std::map<uint32_t, long> v2p; std::map<long, uint32_t> p2vx; bool one_to_one = true;
    for (long c = 0; c < nc; c++) { if (t->IsDegenerated(FaceIndex((uint32_t)c / 3))) continue;
      uint32_t v = t->Vertex(CornerIndex((uint32_t)c)).value(); long p = mesh.face(FaceIndex((uint32_t)c / 3))[c % 3].value();
      auto a = v2p.find(v); if (a == v2p.end()) v2p[v] = p; else if (a->second != p) one_to_one = false;
      auto b = p2vx.find(p); if (b == p2vx.end()) p2vx[p] = v; else if (b->second != v) one_to_one = false; }
    for (long c = 0; c < nc; c++) { if (t->IsDegenerated(FaceIndex((uint32_t)c / 3))) continue;
      uint32_t v = t->Vertex(CornerIndex((uint32_t)c)).value();
      if (v == 0xFFFFFFFFu || r.v2d[v] < 0 || r.v2d[v] >= r.n || !seenv.count(v)) { o.fail("MD_WF a corner of a processed face has no entry :: " + lhs); return; }
      long p = mesh.face(FaceIndex((uint32_t)c / 3))[c % 3].value();
      if (one_to_one && mult[p] != 1) { o.fail("SEQ a point of a face appears " + S(mult[p]) + " times in the sequence (points <-> vertices one to one) :: " + lhs); return; }
      // in general: the point of SOME corner of every visited vertex appears
    }
  }
}
// causality (c): entry d made from corner c: first face of a traversal, or the whole opposite face has smaller entries
template <class CT>
static void check_causal(Out &o, const CT *t, const Res &r, const std::vector<CornerIndex> *order, const std::string &lhs) {
  if (!r.ok) return;
  std::set<uint32_t> start_faces;
  if (order) for (auto c : *order) start_faces.insert(c.value() / 3); else for (int f = 0; f < t->num_faces(); f++) start_faces.insert(f);
  for (long d = 0; d < r.n; d++) {
    uint32_t c = (uint32_t)r.d2c[d];
    uint32_t oc = t->Opposite(CornerIndex(c)).value();
    bool para = false;
    if (oc != 0xFFFFFFFFu) { para = true; for (uint32_t x : {oc, nx(oc), pv(oc)}) { uint32_t v = t->Vertex(CornerIndex(x)).value(); if (v == 0xFFFFFFFFu || r.v2d[v] < 0 || r.v2d[v] >= d) para = false; } }
    if (para) g_cnt[N_PARA_OK]++;
    else if (start_faces.count(c / 3)) g_cnt[N_FIRSTFACE]++;
    else { o.fail("CAUSAL entry " + S(d) + " (corner " + S(c) + "): not on a start face and the opposite face does not have three smaller entries :: " + lhs); return; }
  }
}

// PRED's premise mp_guard_ok on the real maps: the constrained multi-parallelogram encoder pushes, for entry d, one flag per available
// parallelogram (walk of MeshPredictionSchemeConstrainedMultiParallelogramEncoder::ComputeCorrectionValues: SwingLeft from the entry's
// corner until invalid or back, then SwingRight; at most 4) to context (count - 1); the decoder rejects a context with more than
// num_corners flags.
template <class CT>
static void check_mp_guard(Out &o, const CT *t, const Res &r, const std::string &lhs) {
  if (!r.ok) return;
  long flags[4] = {0, 0, 0, 0};
  for (long d = 1; d < r.n; d++) {
    const CornerIndex start((uint32_t)r.d2c[d]); CornerIndex c = start; int np = 0; bool first_pass = true; long guard = 0;
    while (c != kInvalidCornerIndex) {
      if (++guard > 4 * (long)t->num_corners() + 8) { o.fail("MP_GUARD the walk around a vertex does not end :: " + lhs); return; }
      const CornerIndex oc = t->Opposite(c);
      if (oc != kInvalidCornerIndex) { bool ok = true;
        for (CornerIndex x : {oc, t->Next(oc), t->Previous(oc)}) { uint32_t v = t->Vertex(x).value(); if (v == 0xFFFFFFFFu || r.v2d[v] >= d) ok = false; }
        if (ok && ++np == 4) break; }
      c = first_pass ? t->SwingLeft(c) : t->SwingRight(c);
      if (c == start) break;
      if (c == kInvalidCornerIndex && first_pass) { first_pass = false; c = t->SwingRight(start); }
    }
    if (np > 0) flags[np - 1] += np;
  }
  for (int k = 0; k < 4; k++) if (flags[k] > (long)t->num_corners()) { o.fail("MP_GUARD context " + S(k) + " would hold " + S(flags[k]) + " crease flags > num_corners :: " + lhs); return; }
  g_cnt[N_MPFLAGS] += flags[0] + flags[1] + flags[2] + flags[3];
}

// ---------------------------------------------------------------- part A
static std::vector<CornerIndex> random_order(Rng &r, int nf, const CornerTable *ct, bool avoid_deg) {
  std::vector<CornerIndex> o; int n = (int)r.below(nf + 3);
  for (int i = 0; i < n; i++) { uint32_t f = (uint32_t)r.below(nf); if (avoid_deg && ct->IsDegenerated(FaceIndex(f))) continue; o.push_back(CornerIndex(3 * f + (uint32_t)r.below(3))); }
  return o;
}
static std::vector<CornerIndex> all_faces_order(Rng &r, int nf, const CornerTable *ct) {
  std::vector<CornerIndex> o; for (uint32_t f = 0; f < (uint32_t)nf; f++) if (!ct->IsDegenerated(FaceIndex(f))) o.push_back(CornerIndex(3 * f + (uint32_t)r.below(3)));
  for (size_t i = o.size(); i > 1; i--) std::swap(o[i - 1], o[r.below(i)]);
  return o;
}
typedef MeshAttributeIndicesEncodingObserver<CornerTable> PObs;
typedef DepthFirstTraverser<CornerTable, PObs> PDfs;
typedef MaxPredictionDegreeTraverser<CornerTable, PObs> PMpd;
typedef MeshAttributeIndicesEncodingObserver<MeshAttributeCornerTable> AObs;
typedef DepthFirstTraverser<MeshAttributeCornerTable, AObs> ADfs;

static std::vector<long> flat_faces(const Mesh &mesh, const PointAttribute *pa) {   // the list CornerTable::Create gets
  std::vector<long> v; for (FaceIndex f(0); f < mesh.num_faces(); ++f) for (int k = 0; k < 3; k++) v.push_back(pa ? pa->mapped_index(mesh.face(f)[k]).value() : mesh.face(f)[k].value()); return v;
}
static std::string att_lhs(const std::vector<long> &flat, const MeshAttributeCornerTable &at, const Mesh &mesh, const std::string &init, const std::string &ord) {
  std::string seams; for (int c = 0; c < at.num_corners(); c++) seams += at.IsCornerOppositeToSeamEdge(CornerIndex(c)) ? '1' : '0';
  if (seams.empty()) seams = "-";
  Tab x = tab_of(&at);
  return "att " + join(flat) + " " + seams + " " + join(x.c2v) + " " + join(x.lmc) + " " + join(c2p_of(mesh)) + " " + init + " " + ord;
}

static void part_a(Out &o, Rng &r, const Mesh &mesh, const std::vector<CornerIndex> *eb_order_pos, bool from_all) {
  const PointAttribute *pa = from_all ? nullptr : mesh.GetNamedAttribute(GeometryAttribute::POSITION);
  std::unique_ptr<CornerTable> ct = from_all ? CreateCornerTableFromAllAttributes(&mesh) : CreateCornerTableFromPositionAttribute(&mesh);
  if (!ct) return;
  const int nf = ct->num_faces();
  const std::vector<long> flat = flat_faces(mesh, pa), c2p = c2p_of(mesh);
  const bool has_deg = ct->NumDegeneratedFaces() > 0;
  g_cnt[N_DEG] += has_deg; g_cnt[N_ISO] += ct->NumIsolatedVertices() > 0; g_cnt[N_SPLIT] += ct->num_vertices() > ct->NumOriginalVertices();
  { int holes = 0; for (int c = 0; c < ct->num_corners(); c++) if (!ct->IsDegenerated(FaceIndex(c / 3)) && ct->Opposite(CornerIndex(c)) == kInvalidCornerIndex) holes++; g_cnt[N_HOLES] += holes > 0; }
  // orders
  std::vector<std::pair<std::string, std::vector<CornerIndex>>> orders;
  if (eb_order_pos) orders.push_back({"eb", *eb_order_pos});
  orders.push_back({"all", all_faces_order(r, nf, ct.get())});
  orders.push_back({"rnd", random_order(r, nf, ct.get(), true)});
  if (r.chance(30)) orders.push_back({"rnd", random_order(r, nf, ct.get(), true)});
  for (int m = 0; m < 2; m++) {
    for (auto &ord : orders) {
      long init = r.chance(60) ? -1 : ct->num_vertices() + (long)r.below(3);
      std::string lhs = std::string("pos ") + (m ? "mpd " : "dfs ") + join(flat) + " " + join(c2p) + " " + (init < 0 ? "e" : "d" + S(init)) + " " + order_text(&ord.second);
      g_what = lhs;
      Res res = m ? run_templates<CornerTable, PMpd>(&mesh, ct.get(), init, &ord.second) : run_templates<CornerTable, PDfs>(&mesh, ct.get(), init, &ord.second);
      o.c(lhs, res_text(res)); g_cnt[m ? N_POS_MPD : N_POS_DFS]++; g_cnt[ord.first == "eb" ? N_ORDER_EB : N_ORDER_RND]++; g_cnt[N_ENTRIES] += res.n;
      check_maps(o, ct.get(), mesh, res, lhs, ord.first != "rnd");
      check_causal(o, ct.get(), res, &ord.second, lhs); check_mp_guard(o, ct.get(), res, lhs);
    }
    // the decoder's way: no corner order.  With degenerate faces the model may predict an out-of-range access: forked.
    { long init = r.chance(50) ? -1 : ct->num_vertices();
      std::string lhs = std::string("pos ") + (m ? "mpd " : "dfs ") + join(flat) + " " + join(c2p) + " " + (init < 0 ? "e" : "d" + S(init)) + " none";
      g_what = lhs;
      if (has_deg) {
        std::string t = m ? run_forked<CornerTable, PMpd>(&mesh, ct.get(), init, nullptr) : run_forked<CornerTable, PDfs>(&mesh, ct.get(), init, nullptr);
        o.c(lhs, t); if (t == "inv=1 err") g_cnt[N_ERR]++;
      } else {
        Res res = m ? run_templates<CornerTable, PMpd>(&mesh, ct.get(), init, nullptr) : run_templates<CornerTable, PDfs>(&mesh, ct.get(), init, nullptr);
        o.c(lhs, res_text(res)); check_maps(o, ct.get(), mesh, res, lhs, true); check_causal(o, ct.get(), res, nullptr, lhs); check_mp_guard(o, ct.get(), res, lhs); g_cnt[N_ENTRIES] += res.n;
      }
      g_cnt[m ? N_POS_MPD : N_POS_DFS]++; g_cnt[N_ORDER_NONE]++; }
  }
  // attribute corner tables (seams) of every non-position attribute, as InitAttributeData builds them
  if (!from_all) for (int a = 0; a < mesh.num_attributes(); a++) {
    const PointAttribute *att = mesh.attribute(a);
    if (att->attribute_type() == GeometryAttribute::POSITION) continue;
    MeshAttributeCornerTable at; if (!at.InitFromAttribute(&mesh, ct.get(), att)) continue;
    g_cnt[N_SEAM_TABLES]++; g_cnt[N_NO_INTERIOR_SEAMS] += at.no_interior_seams();
    for (auto &ord : orders) {
      long init = r.chance(60) ? -1 : std::max(at.num_vertices(), ct->num_vertices());
      std::string lhs = att_lhs(flat, at, mesh, init < 0 ? "e" : "d" + S(init), order_text(&ord.second)); g_what = lhs;
      Res res = run_templates<MeshAttributeCornerTable, ADfs>(&mesh, &at, init, &ord.second);
      o.c(lhs, res_text(res)); g_cnt[N_ATT]++; g_cnt[N_ENTRIES] += res.n; g_cnt[N_FALSE] += !res.ok;
      check_maps(o, &at, mesh, res, lhs, ord.first != "rnd"); check_causal(o, &at, res, &ord.second, lhs); check_mp_guard(o, &at, res, lhs);
    }
    { long init = std::max(at.num_vertices(), ct->num_vertices());       // no order: a degenerate face makes TraverseFromCorner return false
      std::string lhs = att_lhs(flat, at, mesh, "d" + S(init), "none"); g_what = lhs;
      if (has_deg) { std::string t = run_forked<MeshAttributeCornerTable, ADfs>(&mesh, &at, init, nullptr); o.c(lhs, t); g_cnt[N_FALSE] += t == "inv=1 false"; if (t == "inv=1 err") g_cnt[N_ERR]++; }
      else { Res res = run_templates<MeshAttributeCornerTable, ADfs>(&mesh, &at, init, nullptr); o.c(lhs, res_text(res)); check_maps(o, &at, mesh, res, lhs, true); check_causal(o, &at, res, nullptr, lhs); check_mp_guard(o, &at, res, lhs); }
      g_cnt[N_ATT]++; g_cnt[N_ORDER_NONE]++; }
  }
}

// ---------------------------------------------------------------- part B: in situ
struct TEnc : public MeshEdgebreakerEncoder {
  bool InitializeEncoder() override {
    buffer()->Encode(static_cast<uint8_t>(0));
    impl_ = std::unique_ptr<MeshEdgebreakerEncoderImplInterface>(new MeshEdgebreakerEncoderImpl<MeshEdgebreakerTraversalEncoder>());
    return impl_->Init(this);
  }
  MeshEdgebreakerEncoderImpl<MeshEdgebreakerTraversalEncoder> *ri() { return static_cast<MeshEdgebreakerEncoderImpl<MeshEdgebreakerTraversalEncoder> *>(impl_.get()); }
};
typedef MeshEdgebreakerDecoderImpl<MeshEdgebreakerTraversalDecoder> DImpl;

static void part_b(Out &o, Rng &r, const MeshSpec &ms, const Mesh &mesh, std::vector<CornerIndex> *pcc_out, bool *single_out) {
  Encoder enc;
  enc.SetEncodingMethod(MESH_EDGEBREAKER_ENCODING);
  enc.SetSpeedOptions(ms.speed, ms.speed);
  enc.options().SetGlobalInt("edgebreaker_method", 0);
  if (ms.single >= 0) enc.options().SetGlobalBool("split_mesh_on_seams", ms.single == 1);
  EncoderOptions eo = enc.CreateExpertEncoderOptions(mesh);
  TEnc te; te.SetMesh(mesh);
  EncoderBuffer eb;
  g_what = "in-situ encode " + ms.name; alarm(60);
  Status st = te.Encode(eo, &eb);
  alarm(0);
  auto *ei = te.ri();
  if (!st.ok() || !ei || !ei->corner_table_) return;    // only degenerate faces etc. (C01/EBENC check that)
  const CornerTable *ect = ei->corner_table_.get();
  const bool single = ei->use_single_connectivity_; g_cnt[N_SINGLE] += single; *single_out = single;
  *pcc_out = ei->processed_connectivity_corners_;
  const std::vector<long> flat = flat_faces(mesh, single ? nullptr : mesh.GetNamedAttribute(GeometryAttribute::POSITION)), c2p = c2p_of(mesh);
  const std::string ord = order_text(&ei->processed_connectivity_corners_);
  struct Side { bool is_att; const CornerTable *ct; const MeshAttributeCornerTable *at; Res res; int method; };
  std::vector<Side> esides;
  for (int i = 0; i < te.num_attributes_encoders(); i++) {
    auto *ctl = static_cast<SequentialAttributeEncodersController *>(te.attributes_encoder(i));
    int did = ei->attribute_encoder_to_data_id_map_[i];
    Side s; s.ct = ect; s.at = nullptr; s.is_att = false;
    const MeshAttributeIndicesEncodingData *ed = &ei->pos_encoding_data_; s.method = ei->pos_traversal_method_;
    if (did >= 0) { auto &ad = ei->attribute_data_[did]; ed = &ad.encoding_data; s.method = ad.traversal_method; if (ad.is_connectivity_used) { s.is_att = true; s.at = &ad.connectivity_data; } }
    s.res = res_of(true, *ed, ctl->point_ids_);
    std::string lhs = s.is_att ? att_lhs(flat, *s.at, mesh, "e", ord)
                               : std::string("pos ") + (s.method == MESH_TRAVERSAL_PREDICTION_DEGREE ? "mpd " : "dfs ") + join(flat) + " " + join(c2p) + " e " + ord;
    o.c(lhs, res_text(s.res)); g_cnt[N_INSITU_ENC]++; g_cnt[N_MPD_INSITU] += s.method == MESH_TRAVERSAL_PREDICTION_DEGREE; g_cnt[N_ENTRIES] += s.res.n;
    if (s.is_att) { check_maps(o, s.at, mesh, s.res, lhs, true); check_causal(o, s.at, s.res, &ei->processed_connectivity_corners_, lhs); check_mp_guard(o, s.at, s.res, lhs); }
    else { check_maps(o, s.ct, mesh, s.res, lhs, true); check_causal(o, s.ct, s.res, &ei->processed_connectivity_corners_, lhs); check_mp_guard(o, s.ct, s.res, lhs); }
    esides.push_back(s);
  }
  // the real decoder on the stream
  DecoderBuffer db; db.Init(eb.data(), eb.size());
  MeshEdgebreakerDecoder dec; Mesh outm; DecoderOptions opts;
  g_what = "in-situ decode " + ms.name; alarm(60);
  Status ds = dec.Decode(opts, &db, &outm);
  alarm(0);
  if (!ds.ok()) { o.fail("DECODE-OF-ENCODER-OUTPUT failed (" + ms.name + "): " + ds.error_msg_string()); return; }
  DImpl *di = static_cast<DImpl *>(dec.impl_.get());
  const CornerTable *dct = dec.GetCornerTable();
  const std::vector<CornerIndex> &pcc = ei->processed_connectivity_corners_;
  if ((size_t)dct->num_faces() != pcc.size() || dec.num_attributes_decoders() != te.num_attributes_encoders()) { o.fail("AGREE decoder faces / attribute decoders differ from the encoder's (" + ms.name + ")"); return; }
  auto cm = [&](uint32_t d) { return rot(d % 3, pcc[d / 3].value()); };     // decoder corner -> encoder corner
  const std::vector<long> dc2p = c2p_of(outm);
  for (int i = 0; i < dec.num_attributes_decoders(); i++) {
    auto *ctl = static_cast<const SequentialAttributeDecodersController *>(dec.attributes_decoder(i));
    const MeshAttributeIndicesEncodingData *ed = nullptr; const MeshAttributeCornerTable *at = nullptr;
    if (di->pos_data_decoder_id_ == i) ed = &di->pos_encoding_data_;
    else for (auto &ad : di->attribute_data_) if (ad.decoder_id == i) { ed = &ad.encoding_data; if (ad.is_connectivity_used) at = &ad.connectivity_data; }
    if (!ed) { o.fail("AGREE no encoding data for attribute decoder " + S(i)); continue; }
    const Side &es = esides[i];
    if ((at != nullptr) != es.is_att) { o.fail("AGREE decoder " + S(i) + " uses another kind of corner table than the encoder (" + ms.name + ")"); continue; }
    Res dres = res_of(true, *ed, ctl->point_ids_);
    Tab x = at ? tab_of(at) : tab_of(dct);
    std::string lhs = std::string("tab ") + (es.method == MESH_TRAVERSAL_PREDICTION_DEGREE ? "mpd " : "dfs ") + join(x.c2v) + " " + join(x.opp) + " " + join(x.lmc) + " " + join(dc2p) +
                      " d" + S((long)ed->vertex_to_encoded_attribute_value_index_map.size()) + " none";
    o.c(lhs, res_text(dres)); g_cnt[N_INSITU_DEC]++; g_cnt[N_TAB]++;
    if (at) { check_maps(o, at, outm, dres, lhs, true); check_causal(o, at, dres, nullptr, lhs); check_mp_guard(o, at, dres, lhs); } else { check_maps(o, dct, outm, dres, lhs, true); check_causal(o, dct, dres, nullptr, lhs); check_mp_guard(o, dct, dres, lhs); }
    // (d) agreement under the corner correspondence
    const Res &eres = es.res;
    if (dres.n != eres.n) { o.fail("AGREE num_values: encoder " + S(eres.n) + " decoder " + S(dres.n) + " (" + ms.name + ") :: " + lhs); continue; }
    bool good = true;
    for (long k = 0; k < dres.n && good; k++) if ((long)cm((uint32_t)dres.d2c[k]) != eres.d2c[k]) { o.fail("AGREE entry " + S(k) + ": decoder corner " + S(dres.d2c[k]) + " corresponds to encoder corner " + S(cm((uint32_t)dres.d2c[k])) + ", encoder used " + S(eres.d2c[k]) + " (" + ms.name + ") :: " + lhs); good = false; }
    for (uint32_t d = 0; d < 3 * pcc.size() && good; d++) {
      uint32_t dv = at ? at->Vertex(CornerIndex(d)).value() : dct->Vertex(CornerIndex(d)).value();
      uint32_t ev = es.is_att ? es.at->Vertex(CornerIndex(cm(d))).value() : ect->Vertex(CornerIndex(cm(d))).value();
      if (dv == 0xFFFFFFFFu || ev == 0xFFFFFFFFu || dres.v2d[dv] != eres.v2d[ev]) { o.fail("AGREE vertex_to_data differs at decoder corner " + S(d) + " (" + ms.name + ") :: " + lhs); good = false; }
    }
    // the values: what the encoder encodes as entry k is what the decoder stores at its point of entry k
    for (int a = 0; a < mesh.num_attributes() && good; a++) {
      // attribute a of the input mesh is coded by encoder GetAttributeEncoder... : find through the controller
      bool mine = false; for (int j = 0; j < te.attributes_encoder(i)->num_attributes(); j++) if (te.attributes_encoder(i)->GetAttributeId(j) == a) mine = true;
      if (!mine) continue;
      const PointAttribute *ia = mesh.attribute(a); const PointAttribute *oa = outm.GetAttributeByUniqueId(ia->unique_id());
      if (!oa) { o.fail("AGREE decoded mesh lacks attribute " + S(a)); good = false; break; }
      for (long k = 0; k < dres.n && good; k++) {
        int32_t vi[4] = {0, 0, 0, 0}, vo[4] = {0, 0, 0, 0};
        ia->GetMappedValue(PointIndex((uint32_t)eres.pts[k]), vi); oa->GetMappedValue(PointIndex((uint32_t)dres.pts[k]), vo);
        if (memcmp(vi, vo, ia->byte_stride())) { o.fail("AGREE value of entry " + S(k) + " of attribute " + S(a) + " differs between the encoder's point and the decoder's point (" + ms.name + ") :: " + lhs); good = false; }
      }
    }
    if (good) g_cnt[N_AGREE]++;
  }
}

int main(int argc, char **argv) {
  if (argc < 4) { fprintf(stderr, "usage: h_travs <tier> <seed> <outfile>\n"); return 2; }
  const bool thorough = std::string(argv[1]) == "thorough";
  Rng r((uint64_t)atoll(argv[2]));
  Out o(argv[3]); g_out = &o;
  signal(SIGALRM, on_alarm);
  int nmesh = thorough ? 900 : 260;
  for (int i = 0; i < nmesh; i++) {
    MeshSpec ms = gen_mesh(r, i, thorough);
    std::unique_ptr<Mesh> mesh = build_mesh(ms);
    if (!mesh || mesh->num_faces() == 0) continue;
    g_cnt[N_MESH]++;
    std::vector<CornerIndex> pcc; bool single = false;
    part_b(o, r, ms, *mesh, &pcc, &single);
    part_a(o, r, *mesh, (!pcc.empty() && !single) ? &pcc : nullptr, false);
    if (r.chance(35)) part_a(o, r, *mesh, (!pcc.empty() && single) ? &pcc : nullptr, true);
  }
  o.note("counts meshes=" + S(g_cnt[N_MESH]) + " pos_dfs=" + S(g_cnt[N_POS_DFS]) + " pos_mpd=" + S(g_cnt[N_POS_MPD]) + " att=" + S(g_cnt[N_ATT]) + " tab=" + S(g_cnt[N_TAB]) +
         " insitu_enc=" + S(g_cnt[N_INSITU_ENC]) + " insitu_enc_mpd=" + S(g_cnt[N_MPD_INSITU]) + " insitu_dec=" + S(g_cnt[N_INSITU_DEC]) + " agree=" + S(g_cnt[N_AGREE]) +
         " order_none=" + S(g_cnt[N_ORDER_NONE]) + " order_eb=" + S(g_cnt[N_ORDER_EB]) + " order_other=" + S(g_cnt[N_ORDER_RND]) + " returned_false=" + S(g_cnt[N_FALSE]) + " crashed_as_predicted=" + S(g_cnt[N_ERR]) +
         " with_degenerate=" + S(g_cnt[N_DEG]) + " with_isolated=" + S(g_cnt[N_ISO]) + " with_split_vertices=" + S(g_cnt[N_SPLIT]) + " with_holes=" + S(g_cnt[N_HOLES]) + " seam_tables=" + S(g_cnt[N_SEAM_TABLES]) +
         " no_interior_seams=" + S(g_cnt[N_NO_INTERIOR_SEAMS]) + " single_connectivity=" + S(g_cnt[N_SINGLE]) + " entries=" + S(g_cnt[N_ENTRIES]) +
         " entries_first_face=" + S(g_cnt[N_FIRSTFACE]) + " entries_parallelogram_available=" + S(g_cnt[N_PARA_OK]) + " mp_flags=" + S(g_cnt[N_MPFLAGS]));
  return 0;
}
