// EBENC correspondence + search harness: the Edgebreaker connectivity ENCODER state machine
// (MeshEdgebreakerEncoderImpl<TE>::EncodeConnectivity and everything below it) of /repo against coq/Model/EbEncoder.v,
// and the encoder -> decoder round trip of the CONNECTIVITY (property C01 for Edgebreaker connectivity; hypothesis H_conn of C09).
//
// The REAL encoder template is instantiated here (the .cc is included) with recording subclasses of the two real traversal
// encoders; the members of the impl are read after the run.  One case per mesh:
//   enc <rm> <faces>   | ok nv=<declared vertices> nf=<declared faces> ns=<symbols> nsp=<split symbols> sy=<symbols in
//                        encoding order> ev=<split events> sb=<start-face bits> pcc=<processed_connectivity_corners_>
//                        rt=<1: the REAL decoder's corner table is the encoder's up to eb_iso> dv=<decoder c2v> do=<decoder opposite>
//                      | fail        (EncodeConnectivity returned an error: all triangles degenerate)
// <faces> = the triangle list handed to CornerTable::Create, recomputed here exactly as CreateCornerTableFromPositionAttribute /
// CreateCornerTableFromAllAttributes do (and checked: a table created from it equals the encoder's own corner_table_).
// The driver rebuilds the table with the C13 model of CornerTable::Create, runs the model encoder, the model decoder
// (Model/Edgebreaker.v: eb_full) on the model encoder's output and the proved checker eb_iso_b; it prints the same text.
// '!' lines: any of the direct checks below failing on the implementation itself.
#include "common.h"
#include <algorithm>
#include <array>
#include <atomic>
#include <bitset>
#include <cmath>
#include <deque>
#include <fstream>
#include <functional>
#include <iostream>
#include <iterator>
#include <limits>
#include <list>
#include <map>
#include <memory>
#include <mutex>
#include <numeric>
#include <queue>
#include <set>
#include <sstream>
#include <stack>
#include <thread>
#include <tuple>
#include <type_traits>
#include <unordered_map>
#include <unordered_set>
#include <utility>
#include "draco/compression/encode.h"
#include "draco/compression/expert_encode.h"
#include "draco/compression/decode.h"
#include "draco/mesh/mesh.h"
#include "draco/mesh/mesh_misc_functions.h"
#include "draco/core/varint_encoding.h"
#define private public
#define protected public
#include "draco/compression/mesh/mesh_edgebreaker_traversal_valence_encoder.h"
#include "draco/compression/mesh/mesh_edgebreaker_decoder.h"
#include "draco/compression/mesh/mesh_edgebreaker_encoder.h"
#include "draco/compression/mesh/mesh_edgebreaker_encoder_impl.cc"
#undef private
#undef protected
using namespace draco;

template <typename T, typename F>
static std::string join(const std::vector<T> &v, F f, const char *sep = ",") {
  if (v.empty()) return "-";
  std::string s;
  for (size_t i = 0; i < v.size(); i++) { if (i) s += sep; s += f(v[i]); }
  return s;
}
static std::string bits_text(const std::vector<bool> &b) { if (b.empty()) return "-"; std::string s; for (bool x : b) s += x ? '1' : '0'; return s; }
static std::string u32s_text(const std::vector<uint32_t> &v) { return join(v, [](uint32_t x) { return x == 0xFFFFFFFFu ? std::string("-1") : U(x); }); }

// ---------------------------------------------------------------- recording traversal encoders
struct RecStdTE : public MeshEdgebreakerTraversalEncoder {
  std::vector<uint32_t> syms; std::vector<bool> start; std::vector<uint32_t> reached;
  void EncodeStartFaceConfiguration(bool b) { start.push_back(b); MeshEdgebreakerTraversalEncoder::EncodeStartFaceConfiguration(b); }
  void EncodeSymbol(EdgebreakerTopologyBitPattern s) { syms.push_back((uint32_t)s); MeshEdgebreakerTraversalEncoder::EncodeSymbol(s); }
  void NewCornerReached(CornerIndex c) { reached.push_back(c.value()); MeshEdgebreakerTraversalEncoder::NewCornerReached(c); }
};
struct RecValTE : public MeshEdgebreakerTraversalValenceEncoder {
  std::vector<uint32_t> syms; std::vector<bool> start; std::vector<uint32_t> reached;
  void EncodeStartFaceConfiguration(bool b) { start.push_back(b); MeshEdgebreakerTraversalValenceEncoder::EncodeStartFaceConfiguration(b); }
  void EncodeSymbol(EdgebreakerTopologyBitPattern s) { syms.push_back((uint32_t)s); MeshEdgebreakerTraversalValenceEncoder::EncodeSymbol(s); }
  void NewCornerReached(CornerIndex c) { reached.push_back(c.value()); MeshEdgebreakerTraversalValenceEncoder::NewCornerReached(c); }
};
template <class TE, int METHOD>
struct RecEncoder : public MeshEdgebreakerEncoder {
  bool InitializeEncoder() override {
    buffer()->Encode(static_cast<uint8_t>(METHOD));
    impl_ = std::unique_ptr<MeshEdgebreakerEncoderImplInterface>(new MeshEdgebreakerEncoderImpl<TE>());
    return impl_->Init(this);
  }
  MeshEdgebreakerEncoderImpl<TE> *ri() { return static_cast<MeshEdgebreakerEncoderImpl<TE> *>(impl_.get()); }
};

// ---------------------------------------------------------------- meshes
typedef std::vector<std::array<int, 3>> Faces;
// f: faces over abstract vertex ids 0..nv-1 (ids never used by a face = isolated vertices); grp[i][k]: seam group of
// corner k of face i (corners of one vertex in different groups get different POINT ids but the same position index)
struct MeshSpec {
  Faces f; std::vector<std::array<int, 3>> grp; int nv = 0; std::string name;
  int natt = 0; int speed = 5; int single = -1;   // single: -1 = leave split_mesh_on_seams unset (speed decides), 0/1 = set it
  int method = 0;                                   // 0 standard, 2 valence
};

static void add_grid(MeshSpec &m, Rng &r, int w, int h, bool wrapx, bool wrapy, int hole_pct, bool rand_diag) {
  int base = m.nv, cols = wrapx ? w : w + 1, rows = wrapy ? h : h + 1;
  auto id = [&](int x, int y) { return base + (y % rows) * cols + (x % cols); };
  for (int y = 0; y < h; y++) for (int x = 0; x < w; x++) {
    if ((int)r.below(100) < hole_pct) continue;
    int a = id(x, y), b = id(x + 1, y), c = id(x + 1, y + 1), d = id(x, y + 1);
    bool dg = rand_diag && r.chance(50);
    std::array<int, 3> f1 = dg ? std::array<int, 3>{a, b, d} : std::array<int, 3>{a, b, c};
    std::array<int, 3> f2 = dg ? std::array<int, 3>{b, c, d} : std::array<int, 3>{a, c, d};
    bool k1 = hole_pct == 0 || !r.chance(hole_pct / 2), k2 = hole_pct == 0 || !r.chance(hole_pct / 2);
    if (k1) m.f.push_back(f1);
    if (k2) m.f.push_back(f2);
  }
  m.nv += cols * rows;
}
// closed torus grid with [handles] extra handles: two quads removed, their boundary squares joined by a tube (genus 1 + handles)
static void add_genus(MeshSpec &m, int w, int h, int handles) {
  int base = m.nv;
  auto id = [&](int x, int y) { return base + (y % h) * w + (x % w); };
  std::set<std::pair<int, int>> removed;
  std::vector<std::array<int, 4>> rings;
  for (int k = 0; k < 2 * handles; k++) { int x = (3 * k) % w, y = (2 * (k / (w / 3 > 0 ? w / 3 : 1)) + (k % 2)) % h; // spread the holes
    x = (3 * k) % w; y = (k * 2) % h; if (removed.count({x, y})) continue; removed.insert({x, y});
    rings.push_back({id(x, y), id(x + 1, y), id(x + 1, y + 1), id(x, y + 1)}); }
  for (int y = 0; y < h; y++) for (int x = 0; x < w; x++) {
    if (removed.count({x, y})) continue;
    int a = id(x, y), b = id(x + 1, y), c = id(x + 1, y + 1), d = id(x, y + 1);
    m.f.push_back({a, b, c}); m.f.push_back({a, c, d});
  }
  for (size_t k = 0; k + 1 < rings.size(); k += 2) {
    auto &R0 = rings[k]; std::array<int, 4> R1; for (int i = 0; i < 4; i++) R1[i] = rings[k + 1][(4 - i) % 4];
    for (int i = 0; i < 4; i++) { int j = (i + 1) % 4;
      m.f.push_back({R0[i], R0[j], R1[j]}); m.f.push_back({R0[i], R1[j], R1[i]}); }
  }
  m.nv += w * h;
}
static void add_faces(MeshSpec &m, std::initializer_list<std::array<int, 3>> fs, int nv) {
  for (auto f : fs) m.f.push_back({f[0] + m.nv, f[1] + m.nv, f[2] + m.nv});
  m.nv += nv;
}
static void add_tetra(MeshSpec &m) { add_faces(m, {{0, 1, 2}, {0, 3, 1}, {1, 3, 2}, {2, 3, 0}}, 4); }
static void add_octa(MeshSpec &m) { add_faces(m, {{0, 2, 4}, {2, 1, 4}, {1, 3, 4}, {3, 0, 4}, {2, 0, 5}, {1, 2, 5}, {3, 1, 5}, {0, 3, 5}}, 6); }
static void add_fan(MeshSpec &m, int n, bool closed) {
  int base = m.nv;
  for (int i = 0; i < n; i++) { if (!closed && i == n - 1) break; m.f.push_back({base, base + 1 + i, base + 1 + (i + 1) % n}); }
  m.nv += n + 1;
}
// many random faces over few vertices: multi-edges, mirrored faces, edges shared by many faces (everything Create repairs)
static void add_dense(MeshSpec &m, Rng &r, int nv, int nf, bool allow_deg) {
  for (int i = 0; i < nf; i++) {
    int a = (int)r.below(nv), b = (int)r.below(nv), c = (int)r.below(nv);
    if (!allow_deg && (a == b || b == c || a == c)) continue;
    m.f.push_back({m.nv + a, m.nv + b, m.nv + c});
  }
  m.nv += nv;
}

static MeshSpec gen_mesh(Rng &r, int idx, bool thorough) {
  MeshSpec m;
  int big = thorough ? 12 : 7;
  m.natt = r.chance(25) ? 1 : 0; m.speed = r.chance(70) ? 5 : (r.chance(50) ? 0 : 7); m.single = r.chance(80) ? -1 : (int)r.below(2);
  m.method = r.chance(80) ? 0 : 2;
  switch (idx) {
    case 0: add_tetra(m); m.name = "tetrahedron"; m.natt = 0; return m;
    case 1: add_octa(m); m.name = "octahedron"; return m;
    case 2: add_faces(m, {{0, 1, 2}}, 3); m.name = "triangle"; return m;
    case 3: add_grid(m, r, 3, 3, false, false, 0, false); m.f.erase(m.f.begin() + 8, m.f.begin() + 10); m.name = "grid3x3-hole"; return m;
    case 4: add_grid(m, r, 3, 3, true, true, 0, false); m.name = "torus3x3"; return m;
    case 5: add_grid(m, r, 4, 3, true, false, 0, false); m.name = "cylinder4x3"; return m;
    case 6: add_tetra(m); add_tetra(m); add_octa(m); m.name = "tetra+tetra+octa"; return m;
    case 7: add_fan(m, 6, true); m.name = "closedfan6"; return m;
    case 8: add_grid(m, r, 4, 4, true, true, 0, false); m.f.erase(m.f.begin() + 5, m.f.begin() + 7); m.name = "torus4x4-hole"; return m;
    case 9: add_genus(m, 6, 6, 1); m.name = "genus2"; return m;
    case 10: add_grid(m, r, 2, 2, true, true, 0, false); m.name = "torus2x2(multi-edges)"; return m;
    case 11: add_faces(m, {{0, 1, 2}, {0, 2, 1}}, 3); m.name = "pillow"; return m;
    case 12: add_faces(m, {{0, 1, 2}, {0, 2, 1}, {0, 1, 2}, {0, 2, 1}}, 3); m.name = "4 copies of a face"; return m;
    case 13: add_faces(m, {{0, 0, 1}, {1, 1, 1}}, 2); m.name = "only degenerate faces (encode must fail)"; return m;
    case 14: add_faces(m, {{0, 0, 1}, {2, 3, 4}, {4, 4, 4}}, 7); m.name = "triangle + degenerate faces + isolated vertices"; return m;
    case 15: add_genus(m, 9, 6, 2); m.name = "genus3"; return m;
    case 16: add_faces(m, {{0, 1, 2}, {0, 3, 4}}, 5); m.name = "bow-tie"; return m;
    case 17: add_faces(m, {{0, 1, 2}, {1, 0, 3}, {0, 1, 4}}, 5); m.name = "three faces on an edge"; return m;
    case 18: add_grid(m, r, 5, 5, false, false, 0, false); m.name = "disc5x5"; return m;
    case 19: add_grid(m, r, 6, 2, true, false, 0, false); add_grid(m, r, 3, 3, true, true, 0, false); add_faces(m, {{0, 1, 2}}, 3); m.name = "cylinder+torus+triangle"; return m;
    default: break;
  }
  int parts = 1 + (int)r.below(3);
  for (int p = 0; p < parts; p++) {
    switch (r.below(9)) {
      case 0: add_tetra(m); break;
      case 1: add_octa(m); break;
      case 2: add_fan(m, 3 + (int)r.below(7), r.chance(50)); break;
      case 3: add_dense(m, r, 3 + (int)r.below(6), 1 + (int)r.below(thorough ? 40 : 24), r.chance(30)); break;
      case 4: add_genus(m, 6 + (int)r.below(4), 4 + (int)r.below(4), 1 + (int)r.below(2)); break;
      default: {
        int w = 1 + (int)r.below(big), h = 1 + (int)r.below(big);
        bool wx = w >= 2 && r.chance(35), wy = h >= 2 && r.chance(35);
        add_grid(m, r, w, h, wx, wy, r.chance(50) ? 0 : (int)r.below(30), r.chance(50));
      }
    }
  }
  if (r.chance(25) && m.nv > 3) {   // non-manifold input: identify vertices (degenerate faces are KEPT)
    int k = 1 + (int)r.below(3);
    for (int i = 0; i < k; i++) {
      int a = (int)r.below(m.nv), b = (int)r.below(m.nv);
      for (auto &f : m.f) for (int j = 0; j < 3; j++) if (f[j] == a) f[j] = b;
    }
  }
  if (r.chance(15) && !m.f.empty()) { auto &f = m.f[r.below(m.f.size())]; std::swap(f[1], f[2]); }            // flipped face
  if (r.chance(10) && !m.f.empty()) { auto &f = m.f[r.below(m.f.size())]; f[r.below(3)] = f[r.below(3)]; }      // degenerate face
  if (r.chance(10) && !m.f.empty()) m.f.push_back(m.f[r.below(m.f.size())]);                                     // duplicated face
  if (r.chance(10)) m.nv += 1 + (int)r.below(3);                                                                 // isolated vertices at the end
  if (r.chance(30)) { for (size_t i = m.f.size(); i > 1; i--) std::swap(m.f[i - 1], m.f[r.below(i)]); }
  if (r.chance(20)) { for (auto &f : m.f) { int k = (int)r.below(3); std::rotate(f.begin(), f.begin() + k, f.end()); } }   // first corner of every face varies
  // seams: faces in blocks disagree about the point id of a shared vertex
  m.grp.assign(m.f.size(), {0, 0, 0});
  if (r.chance(30)) { int blk = 1 + (int)r.below(6); for (size_t i = 0; i < m.f.size(); i++) { int g = (int)((i / blk) % 3); m.grp[i] = {g, g, g}; } }
  m.name = "random";
  return m;
}

// Mesh built directly (no de-duplication): one POINT per (vertex, seam group) pair that occurs plus one per unused vertex;
// POSITION has one value per vertex with an explicit point -> value map; generic attributes are per point.
static std::unique_ptr<Mesh> build_mesh(const MeshSpec &ms) {
  std::unique_ptr<Mesh> mesh(new Mesh());
  std::map<std::pair<int, int>, int> pid; std::vector<int> p2v;
  std::vector<std::array<int, 3>> pf(ms.f.size());
  std::vector<bool> used(ms.nv, false);
  for (size_t i = 0; i < ms.f.size(); i++) for (int k = 0; k < 3; k++) {
    int g = ms.grp.empty() ? 0 : ms.grp[i][k];
    auto key = std::make_pair(ms.f[i][k], g);
    auto it = pid.find(key);
    if (it == pid.end()) { it = pid.insert({key, (int)p2v.size()}).first; p2v.push_back(ms.f[i][k]); }
    pf[i][k] = it->second; used[ms.f[i][k]] = true;
  }
  for (int v = 0; v < ms.nv; v++) if (!used[v]) p2v.push_back(v);
  const int P = (int)p2v.size();
  mesh->set_num_points(P);
  GeometryAttribute ga; ga.Init(GeometryAttribute::POSITION, nullptr, 3, DT_FLOAT32, false, sizeof(float) * 3, 0);
  int pos = mesh->AddAttribute(ga, false, ms.nv);
  for (int v = 0; v < ms.nv; v++) { float p[3] = {(float)v, (float)((v * 7) % 13), (float)((v * v) % 31)}; mesh->attribute(pos)->SetAttributeValue(AttributeValueIndex(v), p); }
  for (int p = 0; p < P; p++) mesh->attribute(pos)->SetPointMapEntry(PointIndex(p), AttributeValueIndex(p2v[p]));
  for (int a = 0; a < ms.natt; a++) {
    GeometryAttribute gg; gg.Init(GeometryAttribute::GENERIC, nullptr, 1, DT_INT32, false, sizeof(int32_t), 0);
    int id = mesh->AddAttribute(gg, true, P);
    for (int p = 0; p < P; p++) { int32_t v = p * 3 + a; mesh->attribute(id)->SetAttributeValue(AttributeValueIndex(p), &v); }
  }
  for (size_t i = 0; i < pf.size(); i++) { Mesh::Face f; for (int k = 0; k < 3; k++) f[k] = PointIndex(pf[i][k]); mesh->AddFace(f); }
  return mesh;
}

static long g_meshes = 0, g_syms = 0, g_events = 0, g_interior = 0, g_boundary = 0, g_S = 0, g_fail = 0, g_degfaces = 0, g_isoverts = 0,
            g_split_vertices = 0, g_single = 0, g_rmfalse = 0, g_valence = 0, g_guard_tight = 0;

static inline uint32_t nx(uint32_t k) { return (k % 3 == 2) ? k - 2 : k + 1; }
static inline uint32_t pv(uint32_t k) { return (k % 3 == 0) ? k + 2 : k - 1; }
static inline uint32_t rot(uint32_t i, uint32_t c) { return i == 0 ? c : i == 1 ? nx(c) : pv(c); }

// eb_iso on the implementation: the decoder's table [dct] is the encoder's table [ect] (non-degenerated faces) under the
// corner renaming d -> Next^(d%3)(pcc[d/3]); returns "" or what fails
static std::string iso_check(const CornerTable *ect, const CornerTable *dct, const std::vector<uint32_t> &pcc) {
  const uint32_t n = 3 * (uint32_t)pcc.size();
  if ((uint32_t)dct->num_corners() != n) return "decoder table has " + S(dct->num_corners()) + " corners, encoder processed " + S(n);
  std::vector<int> seen(ect->num_faces(), 0);
  for (uint32_t c : pcc) {
    if (c >= (uint32_t)ect->num_corners()) return "processed corner out of range";
    if (ect->IsDegenerated(FaceIndex(c / 3))) return "processed corner on a degenerated face";
    if (seen[c / 3]++) return "face " + S(c / 3) + " processed twice";
  }
  for (int f = 0; f < ect->num_faces(); f++) if (!ect->IsDegenerated(FaceIndex(f)) && !seen[f]) return "face " + S(f) + " never processed";
  auto cm = [&](uint32_t d) { return rot(d % 3, pcc[d / 3]); };
  std::map<uint32_t, uint32_t> d2e, e2d;
  for (uint32_t d = 0; d < n; d++) {
    uint32_t e = cm(d);
    uint32_t eo = ect->Opposite(CornerIndex(e)).value(), dopp = dct->Opposite(CornerIndex(d)).value();
    if (eo == 0xFFFFFFFFu) { if (dopp != 0xFFFFFFFFu) return "decoder corner " + S(d) + " has an opposite, encoder corner " + S(e) + " has none"; }
    else { if (dopp == 0xFFFFFFFFu || dopp >= n) return "decoder corner " + S(d) + " has no opposite, encoder corner " + S(e) + " has one";
           if (cm(dopp) != eo) return "Opposite not carried over at decoder corner " + S(d); }
    uint32_t dvx = dct->Vertex(CornerIndex(d)).value(), evx = ect->Vertex(CornerIndex(e)).value();
    auto i1 = d2e.find(dvx); if (i1 == d2e.end()) d2e[dvx] = evx; else if (i1->second != evx) return "decoder vertex " + S(dvx) + " corresponds to two encoder vertices";
    auto i2 = e2d.find(evx); if (i2 == e2d.end()) e2d[evx] = dvx; else if (i2->second != dvx) return "encoder vertex " + S(evx) + " corresponds to two decoder vertices";
  }
  return "";
}

template <class TE, int METHOD>
static bool run_case(Out &o, const MeshSpec &ms) {
  std::unique_ptr<Mesh> mesh = build_mesh(ms);
  if (!mesh || mesh->num_faces() == 0) return false;
  Encoder enc;
  enc.SetEncodingMethod(MESH_EDGEBREAKER_ENCODING);
  enc.SetSpeedOptions(ms.speed, ms.speed);
  enc.SetAttributeQuantization(GeometryAttribute::POSITION, 12);
  enc.options().SetGlobalInt("edgebreaker_method", METHOD);
  if (ms.single >= 0) enc.options().SetGlobalBool("split_mesh_on_seams", ms.single == 1);
  EncoderOptions eo = enc.CreateExpertEncoderOptions(*mesh);
  RecEncoder<TE, METHOD> re;
  re.SetMesh(*mesh);
  EncoderBuffer eb;
  Status st = re.Encode(eo, &eb);
  auto *ei = re.ri();
  const bool single = ei->use_single_connectivity_;
  // the triangle list CornerTable::Create gets (mesh_misc_functions.cc)
  const PointAttribute *pa = mesh->GetNamedAttribute(GeometryAttribute::POSITION);
  std::vector<uint32_t> flat;
  IndexTypeVector<FaceIndex, CornerTable::FaceType> faces(mesh->num_faces());
  for (FaceIndex i(0); i < mesh->num_faces(); ++i) for (int j = 0; j < 3; j++) {
    uint32_t v = single ? mesh->face(i)[j].value() : pa->mapped_index(mesh->face(i)[j]).value();
    flat.push_back(v); faces[i][j] = VertexIndex(v);
  }
  const bool rm = ei->attribute_data_.empty();
  std::string lhs = "enc " + S(rm ? 1 : 0) + " " + u32s_text(flat);
  std::unique_ptr<CornerTable> ref = CornerTable::Create(faces);
  const CornerTable *ect = ei->corner_table_.get();
  if (!ref || !ect) { o.fail("no corner table (" + ms.name + ")"); return false; }
  // the encoder's own table is the one Create builds from that list
  bool same = ref->num_corners() == ect->num_corners() && ref->num_vertices() == ect->num_vertices();
  for (int c = 0; same && c < ref->num_corners(); c++)
    same = ref->Vertex(CornerIndex(c)) == ect->Vertex(CornerIndex(c)) && ref->Opposite(CornerIndex(c)) == ect->Opposite(CornerIndex(c));
  if (!same) o.fail("ENCODER-TABLE differs from CornerTable::Create(face list) (" + ms.name + ")");
  if (!st.ok()) {
    if (ect->num_faces() == ect->NumDegeneratedFaces()) { o.c(lhs, "fail"); g_fail++; return true; }
    o.fail("ENCODE failed on a mesh with non-degenerated faces (" + ms.name + "): " + st.error_msg_string() + " :: " + lhs);
    return false;
  }
  if (ect->num_faces() == ect->NumDegeneratedFaces()) o.fail("ENCODE accepted a mesh with only degenerated faces :: " + lhs);
  TE &te = ei->traversal_encoder_;
  uint32_t nv = (uint32_t)(ect->num_vertices() - ect->NumIsolatedVertices());
  uint32_t nf = (uint32_t)(ect->num_faces() - ect->NumDegeneratedFaces());
  uint32_t nsym = (uint32_t)te.NumEncodedSymbols(), nsplit = ei->num_split_symbols_;
  std::string evs = join(ei->topology_split_event_data_, [](const TopologySplitEventData &e) { return U(e.source_symbol_id) + ":" + U(e.split_symbol_id) + ":" + U(e.source_edge); });
  std::vector<uint32_t> pcc; for (CornerIndex c : ei->processed_connectivity_corners_) pcc.push_back(c.value());
  // direct checks on the implementation (clauses of C01_ebenc_total / C09_ebenc_counts)
  long interior = 0; for (bool b : te.start) interior += b;
  if (te.syms.size() != nsym) o.fail("COUNT NumEncodedSymbols != EncodeSymbol calls :: " + lhs);
  if ((long)nsym + interior != (long)nf) o.fail("COUNT symbols + interior start faces != declared faces :: " + lhs);
  if (pcc.size() != nf) o.fail("COUNT processed corners != declared faces :: " + lhs);
  if (te.reached.size() != nsym) o.fail("COUNT NewCornerReached calls != symbols :: " + lhs);
  if ((uint32_t)std::count(te.syms.begin(), te.syms.end(), 1u) != nsplit) o.fail("COUNT num_split_symbols_ != number of S symbols :: " + lhs);
  { // the decoder's header guards (DecodeConnectivity) on the counts the encoder declares
    uint64_t v64 = nv; bool g = !(nf > 0xFFFFFFFFu / 3) && !(nv > nf * 3) && !(v64 * (v64 - 1) / 2 < 3 * nf / 2) && !(nf < nsym) && !(nf > nsym + nsym / 3) && !(nsplit > nsym) &&
                          !(ei->topology_split_event_data_.size() > nf);
    if (!g) o.fail("GUARD a header guard of the decoder rejects the counts the encoder declares :: " + lhs);
    if (v64 * (v64 - 1) / 2 < 3 * nf / 2 + 2) g_guard_tight++; }
  // the real decoder on the stream
  DecoderBuffer db; db.Init(eb.data(), eb.size());
  MeshEdgebreakerDecoder dec; Mesh outm; DecoderOptions opts;
  Status ds = dec.Decode(opts, &db, &outm);
  std::string rt = "0", dvs = "-", dos = "-";
  if (!ds.ok()) o.fail("DECODE-OF-ENCODER-OUTPUT failed (" + ms.name + "): " + ds.error_msg_string() + " :: " + lhs);
  else {
    const CornerTable *dct = dec.GetCornerTable();
    std::string why = iso_check(ect, dct, pcc);
    if (!why.empty()) o.fail("ROUNDTRIP decoder's corner table is not the encoder's: " + why + " (" + ms.name + ") :: " + lhs);
    else rt = "1";
    std::vector<uint32_t> dv, dop;
    for (int c = 0; c < dct->num_corners(); c++) { dv.push_back(dct->Vertex(CornerIndex(c)).value()); dop.push_back(dct->Opposite(CornerIndex(c)).value()); }
    dvs = u32s_text(dv); dos = u32s_text(dop);
    if ((uint32_t)outm.num_faces() != nf) o.fail("ROUNDTRIP decoded mesh has " + S(outm.num_faces()) + " faces, encoder declared " + S(nf) + " :: " + lhs);
    // H_conn of C09: per-vertex boundary flag survives: a decoder vertex is on a boundary iff its encoder vertex is
    if (why.empty()) for (uint32_t d = 0; d < 3 * pcc.size(); d++) {
      bool db_ = dct->IsOnBoundary(dct->Vertex(CornerIndex(d))), eb_ = ect->IsOnBoundary(ect->Vertex(CornerIndex(rot(d % 3, pcc[d / 3]))));
      if (db_ != eb_) { o.fail("ROUNDTRIP boundary flag of a vertex changed :: " + lhs); break; }
    }
  }
  o.c(lhs, "ok nv=" + U(nv) + " nf=" + U(nf) + " ns=" + U(nsym) + " nsp=" + U(nsplit) + " sy=" + u32s_text(te.syms) + " ev=" + evs +
           " sb=" + bits_text(te.start) + " pcc=" + u32s_text(pcc) + " rt=" + rt + " dv=" + dvs + " do=" + dos);
  g_meshes++; g_syms += nsym; g_events += (long)ei->topology_split_event_data_.size(); g_interior += interior; g_boundary += (long)te.start.size() - interior;
  g_S += nsplit; g_degfaces += ect->NumDegeneratedFaces(); g_isoverts += ect->NumIsolatedVertices();
  g_split_vertices += ect->num_vertices() - ect->NumOriginalVertices(); g_single += single; g_rmfalse += !rm; g_valence += METHOD == 2;
  return true;
}

int main(int argc, char **argv) {
  if (argc < 4) { fprintf(stderr, "usage: h_ebenc <tier> <seed> <outfile>\n"); return 2; }
  const bool thorough = std::string(argv[1]) == "thorough";
  // common.h's Rng(seed) starts at seed*G + K and advances by G per call: the streams of seed k and k+1 are the same stream
  // shifted by one call (they re-synchronise: seeds 1 and 2 gave byte-identical case files).  Seed through one output instead.
  Rng r0((uint64_t)atoll(argv[2]));
  Rng r(r0.next());
  Out o(argv[3]);
  int nmesh = thorough ? 2500 : 420;
  for (int i = 0; i < nmesh; i++) {
    MeshSpec ms = gen_mesh(r, i, thorough);
    if (ms.grp.empty()) ms.grp.assign(ms.f.size(), {0, 0, 0});
    if (ms.method == 2) run_case<RecValTE, 2>(o, ms); else run_case<RecStdTE, 0>(o, ms);
  }
  // dense random face sets over very few vertices: everything CornerTable::Create repairs at once (multi-edges, mirrored and
  // duplicated faces, edges shared by many faces), and the decoder's "simple graph" guard num_vertices*(num_vertices-1)/2 >= 3*num_faces/2
  int ndense = thorough ? 4000 : 500;
  for (int i = 0; i < ndense; i++) {
    MeshSpec ms; add_dense(ms, r, 3 + (int)r.below(5), 1 + (int)r.below(30), r.chance(15)); ms.name = "dense";
    ms.natt = 0; ms.speed = r.chance(80) ? 5 : 7; ms.single = -1; ms.method = r.chance(85) ? 0 : 2;
    if (ms.f.empty()) continue;
    ms.grp.assign(ms.f.size(), {0, 0, 0});
    if (ms.method == 2) run_case<RecValTE, 2>(o, ms); else run_case<RecStdTE, 0>(o, ms);
  }
  o.note("meshes=" + S(g_meshes) + " symbols=" + S(g_syms) + " S_symbols=" + S(g_S) + " split_events=" + S(g_events) + " interior_start_faces=" + S(g_interior) +
         " boundary_start_faces=" + S(g_boundary) + " encode_fail_all_degenerate=" + S(g_fail) + " degenerated_faces=" + S(g_degfaces) +
         " isolated_vertices=" + S(g_isoverts) + " vertices_split_by_Create=" + S(g_split_vertices) + " single_connectivity=" + S(g_single) +
         " with_attribute_data=" + S(g_rmfalse) + " valence_traversal=" + S(g_valence) + " edge_guard_within_2=" + S(g_guard_tight));
  return 0;
}
