// Sequential codecs (point cloud, mesh, keyframe animation): correspondence with the Coq model
// (Model/SeqCodec.v) and direct search of the properties C01 / C20 / C03 / C06 on the implementation.
//   h_seq <tier> <seed> <out>            (mode from env SEQ_MODE: all | pc | mesh | anim)
#include "common.h"
#include <cmath>
#include <memory>
#include "draco/animation/keyframe_animation.h"
#include "draco/animation/keyframe_animation_decoder.h"
#include "draco/animation/keyframe_animation_encoder.h"
#include "draco/compression/decode.h"
#include "draco/compression/encode.h"
#include "draco/compression/expert_encode.h"
#include "draco/attributes/attribute_quantization_transform.h"
#include "draco/attributes/attribute_octahedron_transform.h"
#include "draco/mesh/mesh.h"
#include "draco/metadata/geometry_metadata.h"
#include "draco/metadata/metadata_encoder.h"
#include "draco/metadata/metadata_decoder.h"
#include "draco/point_cloud/point_cloud.h"
using namespace draco;

struct AttSpec {
  GeometryAttribute::Type type; DataType dt; int nc; bool norm; uint32_t uid;
  char kind;          // G, I, Q, N (quantized normals)
  bool geo_normal = false;   // N on a mesh: ask for MESH_PREDICTION_GEOMETRIC_NORMAL (falls back to the delta predictor without a corner table)
  int q = 0; int pred = 1; bool explicit_q = false; std::vector<float> origin; float range = 1.f;
  std::vector<uint8_t> rows;   // np * stride raw bytes, point order
};
struct Geo {
  int np = 0; bool mesh = false; bool compress_conn = false;
  std::vector<std::array<uint32_t, 3>> faces;
  std::vector<AttSpec> atts;
  int speed = 5; bool builtin = true;
  std::vector<uint8_t> md;      // encoded geometry metadata (empty = none)
};

static int dt_len(DataType dt) { return DataTypeLength(dt); }
static bool dt_int(DataType dt) { return dt >= DT_INT8 && dt <= DT_UINT32; }

static std::string att_text(const AttSpec &a, const Geo &g) {
  std::string k;
  const int lvl = 10 - g.speed;
  if (a.kind == 'G') k = "G";
  else if (a.kind == 'I') k = "I/" + S(a.pred) + "/" + S(g.builtin) + "/" + S(lvl);
  else if (a.kind == 'N') k = "N/" + S(a.q) + "/" + S(a.pred) + "/" + S(g.builtin) + "/" + S(lvl);
  else {
    k = "Q/" + S(a.q) + "/" + S(a.pred) + "/" + S(g.builtin) + "/" + S(lvl) + "/";
    if (!a.explicit_q) k += "-";
    else { for (int c = 0; c < a.nc; c++) { uint32_t b; memcpy(&b, &a.origin[c], 4); k += (c ? "," : "") + U(b); } uint32_t rb; memcpy(&rb, &a.range, 4); k += ":" + U(rb); }
  }
  return S(a.type) + "." + S(a.dt) + "." + S(a.nc) + "." + S(a.norm) + "." + U(a.uid) + "." + k + "." + hex(a.rows.data(), a.rows.size());
}
static std::string faces_text(const Geo &g) {
  if (g.faces.empty()) return "-";
  std::string t; for (size_t i = 0; i < g.faces.size(); i++) for (int j = 0; j < 3; j++) { if (!t.empty()) t += ","; t += U(g.faces[i][j]); }
  return t;
}
static std::string geo_text(const Geo &g) {
  std::string t = S(g.np) + " " + hex(g.md.data(), g.md.size());
  if (g.mesh) t += std::string(" ") + (g.compress_conn ? "c" : "r") + " " + faces_text(g);
  t += " " + S(g.atts.size());
  for (auto &a : g.atts) t += " " + att_text(a, g);
  return t;
}

// canonical text of a decoded geometry: what the decoder returned, read through the public accessors
static std::string decoded_text(const PointCloud &pc, const Mesh *m, int64_t rem) {
  std::string t = "ok " + U(pc.num_points()) + " ";
  if (pc.GetMetadata()) { EncoderBuffer mb; MetadataEncoder me; me.EncodeGeometryMetadata(&mb, pc.GetMetadata()); t += hex(mb.data(), mb.size()); } else t += "-";
  if (m) {
    t += " ";
    if (m->num_faces() == 0) t += "-";
    for (FaceIndex f(0); f < m->num_faces(); ++f) for (int j = 0; j < 3; j++) { if (f.value() || j) t += ","; t += U(m->face(f)[j].value()); }
  }
  t += " " + S(pc.num_attributes());
  for (int i = 0; i < pc.num_attributes(); i++) {
    const PointAttribute *a = pc.attribute(i);
    std::string rows; std::vector<uint8_t> buf(a->byte_stride());
    std::vector<uint8_t> all;
    for (PointIndex p(0); p < pc.num_points(); ++p) { a->GetMappedValue(p, buf.data()); all.insert(all.end(), buf.begin(), buf.end()); }
    // a NaN has no portable bit pattern across arithmetic (dequantizing a corrupted stream whose parameters are signalling NaNs: the
    // hardware quiets them, operand order is the compiler's): every float32 NaN is printed as 0x7fc00000, by the driver too.
    // (Bit-exact preservation of NaN payloads by the generic coder is checked directly on the implementation by check_roundtrip.)
    if (a->data_type() == DT_FLOAT32) for (size_t k = 0; k + 4 <= all.size(); k += 4) {
      uint32_t b = (uint32_t)all[k] | ((uint32_t)all[k + 1] << 8) | ((uint32_t)all[k + 2] << 16) | ((uint32_t)all[k + 3] << 24);
      if ((b & 0x7f800000u) == 0x7f800000u && (b & 0x007fffffu) != 0) { all[k] = 0; all[k + 1] = 0; all[k + 2] = 0xc0; all[k + 3] = 0x7f; }
    }
    t += " " + S(a->attribute_type()) + "." + S(a->data_type()) + "." + S(a->num_components()) + "." + S(a->normalized()) + "." + U(a->unique_id()) + "." + hex(all.data(), all.size());
    if (a->GetAttributeTransformData() && a->GetAttributeTransformData()->transform_type() == ATTRIBUTE_QUANTIZATION_TRANSFORM) {
      AttributeQuantizationTransform qt; if (qt.InitFromAttribute(*a)) {
        t += ".T" + S(qt.quantization_bits());
        for (int c = 0; c < a->num_components(); c++) { float m = qt.min_value(c); uint32_t b; memcpy(&b, &m, 4); t += "," + U(b); }
        float rg = qt.range(); uint32_t rb; memcpy(&rb, &rg, 4); t += "," + U(rb);
      }
    }
    if (a->GetAttributeTransformData() && a->GetAttributeTransformData()->transform_type() == ATTRIBUTE_OCTAHEDRON_TRANSFORM) {
      AttributeOctahedronTransform ot; if (ot.InitFromAttribute(*a)) t += ".O" + S(ot.quantization_bits());
    }
  }
  return t + " " + S(rem);
}

// ---------------------------------------------------------------- generation
static float rnd_float(Rng &r) {
  switch (r.below(6)) {
    case 0: return (float)r.range(-8, 8);
    case 1: return (float)r.range(-1000, 1000) * 0.125f;
    case 2: { float v = (float)(r.next() % 100000) / 977.f; return r.chance(50) ? -v : v; }
    case 3: return std::ldexp((float)r.range(-1000, 1000), (int)r.range(-20, 20));
    case 4: return 0.f;
    default: { uint32_t b = (uint32_t)r.next(); float f; memcpy(&f, &b, 4); if (std::isnan(f) || std::isinf(f)) f = 1.5f; return f; }
  }
}
static void put_val(std::vector<uint8_t> &out, DataType dt, Rng &r, int flavor) {
  int w = dt_len(dt); uint64_t v;
  if (dt == DT_FLOAT32) { float f = rnd_float(r); memcpy(&v, &f, 4); }
  else if (dt == DT_FLOAT64) { double d = rnd_float(r); memcpy(&v, &d, 8); }
  else if (dt == DT_BOOL) v = r.below(2);
  else {
    switch (flavor) {
      case 0: v = r.below(7); break;                                   // few distinct values
      case 1: v = r.biased(8 * w); break;                              // boundaries of the type
      case 2: v = (uint64_t)(int64_t)r.range(-40, 40); break;          // small signed
      default: v = r.next(); break;
    }
    if (dt == DT_UINT32 && r.chance(97)) v &= 0x7fffffffu;            // >= 2^31 makes the encode fail (by design): keep it rare
    // the extracted model builds the same dense frequency tables as the C++ does: keep most symbols small so the model stays fast
    if (dt_len(dt) >= 2 && r.chance(96)) v = (uint64_t)(int64_t)((int64_t)(v % 2048) - (dt == DT_UINT16 || dt == DT_UINT32 ? 0 : 1024));
    else if ((dt == DT_INT32 || dt == DT_UINT32)) v = (uint64_t)(int64_t)(int32_t)((int32_t)v % (1 << 17));
  }
  for (int i = 0; i < w; i++) out.push_back((uint8_t)(v >> (8 * i)));
}
static bool md_skip = false;
static Geo gen_geo(Rng &r, bool mesh, bool big) {
  Geo g; g.mesh = mesh;
  g.np = r.chance(4) ? 0 : (r.chance(10) ? 1 : (int)r.range(1, big ? 400 : 40));
  if (mesh && r.chance(6)) g.np = (int)r.range(256, 300);                     // 16-bit indices
  g.speed = (int)r.below(11); g.builtin = !r.chance(25);
  if (mesh) {
    int nf = g.np == 0 ? 0 : (r.chance(8) ? 0 : (int)r.range(1, big ? 300 : 30));
    for (int i = 0; i < nf; i++) g.faces.push_back({(uint32_t)r.below(g.np), (uint32_t)r.below(g.np), (uint32_t)r.below(g.np)});
    g.compress_conn = r.chance(30);
  }
  int na = r.chance(5) ? 0 : (int)r.range(1, 3);
  for (int i = 0; i < na; i++) {
    AttSpec a; a.uid = r.chance(70) ? (uint32_t)i : (uint32_t)r.biased(32); a.norm = r.chance(15);
    int sel = (int)r.below(10);
    if (md_skip && sel >= 5) sel = (int)r.below(4);
    const bool normal_att = r.chance(md_skip ? 30 : 18);
    if (normal_att) { a.type = GeometryAttribute::NORMAL; a.dt = DT_FLOAT32; a.nc = r.chance(3) ? (int)r.range(1, 4) : 3; }
    else if (sel < 3) { a.type = i == 0 ? GeometryAttribute::POSITION : GeometryAttribute::GENERIC; a.dt = DT_FLOAT32; a.nc = r.chance(70) ? 3 : (int)r.range(1, 4); }
    else if (sel < 4) { a.type = GeometryAttribute::TEX_COORD; a.dt = DT_FLOAT32; a.nc = 2; }
    else if (sel < 5) { a.type = GeometryAttribute::COLOR; a.dt = DT_UINT8; a.nc = (int)r.range(3, 4); }
    else if (sel < 9) { static const DataType ints[] = {DT_INT8, DT_UINT8, DT_INT16, DT_UINT16, DT_INT32, DT_UINT32}; a.type = GeometryAttribute::GENERIC; a.dt = ints[r.below(6)]; a.nc = (int)r.range(1, 5); }
    else { static const DataType oth[] = {DT_INT64, DT_UINT64, DT_FLOAT64, DT_BOOL}; a.type = GeometryAttribute::GENERIC; a.dt = oth[r.below(4)]; a.nc = (int)r.range(1, 3); }
    for (auto &b : g.atts) if (b.uid == a.uid) a.uid = b.uid + 1000 + i;
    a.pred = r.chance(25) ? 0 : 1;
    if (dt_int(a.dt)) a.kind = 'I';
    else if (normal_att && r.chance(90)) {
      a.kind = 'N'; a.q = r.chance(85) ? (int)r.range(2, 14) : (r.chance(70) ? (int)r.range(15, 20) : 1);
      a.geo_normal = mesh && a.pred == 1 && r.chance(30);
    }
    else if (normal_att) a.kind = 'G';      // NORMAL attribute without quantization: the generic coder
    else if (a.dt == DT_FLOAT32 && r.chance(getenv("SEQ_MODE") && !strcmp(getenv("SEQ_MODE"), "skip") ? 95 : 60)) { a.kind = 'Q'; a.q = r.chance(10) ? (int)r.range(1, 3) : (int)r.range(4, 12); if (r.chance(3)) a.q = (int)r.range(13, 18); }
    else a.kind = 'G';
    int flavor = (int)r.below(4);
    bool constant = r.chance(8);
    for (int p = 0; p < g.np; p++) {
      if (constant && p > 0) { for (int k = 0; k < a.nc * dt_len(a.dt); k++) a.rows.push_back(a.rows[k]); continue; }
      for (int c = 0; c < a.nc; c++) {
        if (a.kind == 'N') {   // unit-ish and arbitrary finite vectors; rarely zero / tiny / NaN components (never Inf: the conversion is undefined)
          static int nflavor = 0; if (c == 0) nflavor = (int)r.below(20);
          float f;
          if (nflavor < 9) f = (float)r.range(-1000, 1000) / 1000.f;
          else if (nflavor < 14) f = rnd_float(r);
          else if (nflavor < 16) f = (float)r.range(-3, 3);
          else if (nflavor < 17) f = 0.f;
          else if (nflavor < 18) f = std::ldexp((float)r.range(-8, 8), -24);
          else if (nflavor < 19) f = r.chance(20) ? std::nanf("") : (float)r.range(-2, 2);
          else f = std::ldexp((float)r.range(-1000, 1000), (int)r.range(-30, 60));
          if (std::isinf(f)) f = 1.f;
          uint32_t b; memcpy(&b, &f, 4); for (int k = 0; k < 4; k++) a.rows.push_back((uint8_t)(b >> (8 * k)));
        } else if (a.kind == 'Q') {   // finite, moderate values for quantization
          float f = (float)r.range(-2000, 2000) / (float)(1 << r.below(8)); if (r.chance(5)) f = std::ldexp(f, (int)r.range(-10, 10));
          uint32_t b; memcpy(&b, &f, 4); for (int k = 0; k < 4; k++) a.rows.push_back((uint8_t)(b >> (8 * k)));
        } else put_val(a.rows, a.dt, r, flavor);
      }
    }
    if (a.kind == 'Q' && g.np == 0) a.kind = 'G', a.q = 0;          // quantizing an empty attribute fails (by design)
    if (a.kind == 'Q' && r.chance(20)) {                               // explicit quantization, parameters exactly representable in 6 decimals (D13)
      a.explicit_q = true; for (int c = 0; c < a.nc; c++) a.origin.push_back((float)r.range(-3000, 0)); a.range = (float)r.range(5000, 9000);
    }
    g.atts.push_back(a);
  }
  return g;
}

static std::unique_ptr<PointCloud> build(const Geo &g) {
  std::unique_ptr<PointCloud> pc(g.mesh ? (PointCloud *)new Mesh() : new PointCloud());
  pc->set_num_points(g.np);
  if (g.mesh) { Mesh *m = static_cast<Mesh *>(pc.get()); for (auto &f : g.faces) m->AddFace({PointIndex(f[0]), PointIndex(f[1]), PointIndex(f[2])}); }
  for (auto &a : g.atts) {
    GeometryAttribute ga; ga.Init(a.type, nullptr, a.nc, a.dt, a.norm, (int64_t)a.nc * dt_len(a.dt), 0);
    int id = pc->AddAttribute(ga, true, g.np);
    pc->attribute(id)->set_unique_id(a.uid);
    const int stride = a.nc * dt_len(a.dt);
    for (int p = 0; p < g.np; p++) pc->attribute(id)->SetAttributeValue(AttributeValueIndex(p), a.rows.data() + (size_t)p * stride);
  }
  return pc;
}

static bool encode(const Geo &g, const PointCloud &pc, EncoderBuffer &eb, std::string &err) {
  std::unique_ptr<ExpertEncoder> enc(g.mesh ? new ExpertEncoder(*static_cast<const Mesh *>(&pc)) : new ExpertEncoder(pc));
  enc->SetEncodingMethod(g.mesh ? (int)MESH_SEQUENTIAL_ENCODING : (int)POINT_CLOUD_SEQUENTIAL_ENCODING);
  enc->SetSpeedOptions(g.speed, g.speed);
  enc->SetUseBuiltInAttributeCompression(g.builtin);
  if (g.mesh && g.compress_conn) enc->options().SetGlobalBool("compress_connectivity", true);
  for (size_t i = 0; i < g.atts.size(); i++) {
    const AttSpec &a = g.atts[i];
    if (a.kind == 'Q') { if (a.explicit_q) enc->SetAttributeExplicitQuantization((int)i, a.q, a.nc, a.origin.data(), a.range); else enc->SetAttributeQuantization((int)i, a.q); }
    if (a.kind == 'N') enc->SetAttributeQuantization((int)i, a.q);
    if (a.kind != 'G' && a.pred == 0) {
      // for NORMAL attributes the public setter refuses PREDICTION_NONE; the option itself still selects "no prediction"
      if (a.type == GeometryAttribute::NORMAL) enc->options().SetAttributeInt((int)i, "prediction_scheme", PREDICTION_NONE);
      else enc->SetAttributePredictionScheme((int)i, PREDICTION_NONE);
    }
    if (a.kind == 'N' && a.geo_normal) enc->SetAttributePredictionScheme((int)i, MESH_PREDICTION_GEOMETRIC_NORMAL);
  }
  Status s = enc->EncodeToBuffer(&eb);
  if (!s.ok()) err = s.error_msg();
  return s.ok();
}

// search oracle for C01/C20 (sequential): same attributes by unique id, point/face order kept, unquantized values bit-identical,
// quantized values within half a step + 4 ulp
static void check_roundtrip(Out &o, const Geo &g, const PointCloud &dec, const Mesh *dm, const std::string &gt) {
  if ((int)dec.num_points() != g.np) { o.fail("C01 point count changed: " + gt); return; }
  if (g.mesh) {
    if (!dm || dm->num_faces() != g.faces.size()) { o.fail("C01 face count changed: " + gt); return; }
    for (FaceIndex f(0); f < dm->num_faces(); ++f) for (int j = 0; j < 3; j++) if (dm->face(f)[j].value() != g.faces[f.value()][j]) { o.fail("C01 face changed: " + gt); return; }
  }
  if (dec.num_attributes() != (int)g.atts.size()) { o.fail("C01 attribute count changed: " + gt); return; }
  for (auto &a : g.atts) {
    const PointAttribute *d = dec.GetAttributeByUniqueId(a.uid);
    if (!d || d->attribute_type() != a.type || d->data_type() != a.dt || d->num_components() != a.nc || d->normalized() != a.norm) { o.fail("C01 attribute descriptor changed (uid " + U(a.uid) + "): " + gt); return; }
    const int stride = a.nc * dt_len(a.dt); std::vector<uint8_t> buf(stride);
    std::vector<float> lo(a.nc > 0 ? a.nc : 1), hi(a.nc > 0 ? a.nc : 1);
    if (a.kind == 'Q') for (int c = 0; c < a.nc; c++) { lo[c] = INFINITY; hi[c] = -INFINITY; }
    if (a.kind == 'Q') for (int p = 0; p < g.np; p++) for (int c = 0; c < a.nc; c++) { float f; memcpy(&f, a.rows.data() + (size_t)p * stride + 4 * c, 4); lo[c] = std::min(lo[c], f); hi[c] = std::max(hi[c], f); }
    float range = 0; if (a.kind == 'Q') { for (int c = 0; c < a.nc; c++) range = std::max(range, hi[c] - lo[c]); if (range == 0) range = 1; if (a.explicit_q) range = a.range; }
    for (int p = 0; p < g.np; p++) {
      d->GetMappedValue(PointIndex(p), buf.data());
      if (a.kind == 'N') {   // C07: unit length, angle to the input within 3*(2/(2^q-2)) + 2e-6; no claim for NaN input or |v|_1 <= 1e-6 (known finding)
        float x[3], y[3]; memcpy(x, a.rows.data() + (size_t)p * stride, 12); memcpy(y, buf.data(), 12);
        if (!(std::isfinite(y[0]) && std::isfinite(y[1]) && std::isfinite(y[2]))) { o.fail("C07/C01 decoded normal not finite (uid " + U(a.uid) + " point " + S(p) + "): " + gt); return; }
        if (!(std::isfinite(x[0]) && std::isfinite(x[1]) && std::isfinite(x[2]))) continue;
        const double l1 = std::fabs((double)x[0]) + std::fabs((double)x[1]) + std::fabs((double)x[2]);
        if (!(l1 > 1e-6)) continue;
        long double ax = x[0], ay = x[1], az = x[2], bx = y[0], by = y[1], bz = y[2];
        long double m = std::max(fabsl(ax), std::max(fabsl(ay), fabsl(az))); ax /= m; ay /= m; az /= m;
        long double cx = ay * bz - az * by, cy = az * bx - ax * bz, cz = ax * by - ay * bx;
        long double ang = atan2l(sqrtl(cx * cx + cy * cy + cz * cz), ax * bx + ay * by + az * bz);
        long double bd = 3.0L * (2.0L / (ldexpl(1.0L, a.q) - 2.0L)) + 2e-6L;
        if (!(ang <= bd)) { o.fail("C07/C01 decoded normal off by more than the angle bound (uid " + U(a.uid) + " point " + S(p) + " angle " + std::to_string((double)ang) + "): " + gt); return; }
        continue;
      }
      if (a.kind != 'Q') { if (memcmp(buf.data(), a.rows.data() + (size_t)p * stride, stride)) { o.fail("C01 unquantized value changed (uid " + U(a.uid) + " point " + S(p) + "): " + gt); return; } }
      else for (int c = 0; c < a.nc; c++) {
        float x, y; memcpy(&x, a.rows.data() + (size_t)p * stride + 4 * c, 4); memcpy(&y, buf.data() + 4 * c, 4);
        if (a.explicit_q && (x < a.origin[c] || x > a.origin[c] + a.range)) continue;   // outside the configured box: no claim
        double step = (double)range / (double)((1u << a.q) - 1);
        float mag = std::max(std::max(std::fabs(x), std::fabs(a.explicit_q ? a.origin[c] : lo[c])), range);
        double ulp = std::ldexp(1.0, std::ilogb(mag) - 23);
        if (!(std::fabs((double)x - (double)y) <= step / 2 + 4 * ulp)) { o.fail("C04/C01 quantized value off by more than half a step (uid " + U(a.uid) + " point " + S(p) + "): " + gt); return; }
      }
    }
  }
}

static std::vector<uint8_t> corrupt(Rng &r, const std::vector<uint8_t> &in, size_t keep_prefix) {
  std::vector<uint8_t> b = in;
  size_t lo = std::min(keep_prefix, b.size());
  switch (r.below(6)) {
    case 0: if (b.size() > lo) b.resize(lo + r.below(b.size() - lo)); break;                                // truncation
    case 1: if (b.size() > lo) b[lo + r.below(b.size() - lo)] ^= (uint8_t)(1u << r.below(8)); break;        // bit flip
    case 2: if (b.size() > lo) b[lo + r.below(b.size() - lo)] = (uint8_t)r.next(); break;                   // byte
    case 3: if (b.size() > lo) { size_t p = lo + r.below(std::min<size_t>(b.size() - lo, 24)); b[p] = (uint8_t)r.below(6); } break;  // small value near the framing
    case 4: if (b.size() > lo) { size_t p = lo + r.below(b.size() - lo); b.insert(b.begin() + p, (uint8_t)r.next()); } break;       // insertion
    default: if (b.size() > lo + 1) { size_t p = lo + r.below(b.size() - lo - 1); b.erase(b.begin() + p); } break;                   // deletion
  }
  return b;
}

static std::string validate(const PointCloud &pc, const Mesh *m) {
  if (m) for (FaceIndex f(0); f < m->num_faces(); ++f) for (int j = 0; j < 3; j++) if (m->face(f)[j].value() >= pc.num_points()) return "face index >= num_points";
  for (int i = 0; i < pc.num_attributes(); i++) {
    const PointAttribute *a = pc.attribute(i);
    if (a->num_components() <= 0) return "num_components <= 0";
    if (!a->is_mapping_identity() && a->indices_map_size() != pc.num_points()) return "point map size != num_points";
    for (PointIndex p(0); p < pc.num_points(); ++p) if (a->mapped_index(p).value() >= a->size()) return "point maps to a missing value";
    if ((uint64_t)a->buffer()->data_size() < (uint64_t)a->size() * a->byte_stride()) return "attribute buffer too small";
    if (a->byte_stride() != (int64_t)a->num_components() * DataTypeLength(a->data_type())) return "stride != components * type length";
  }
  return "";
}
static void decode_case(Out &o, const std::vector<uint8_t> &bytes, bool mesh, const char *kind, const std::vector<int> &skip = {}) {
  DecoderBuffer db; db.Init((const char *)bytes.data(), bytes.size());
  Decoder d; std::string res, bad;
  std::string sk = "-"; for (size_t i = 0; i < skip.size(); i++) { d.SetSkipAttributeTransform((GeometryAttribute::Type)skip[i]); sk = (i ? sk + "," : std::string()) + S(skip[i]); }
  if (mesh) { auto r = d.DecodeMeshFromBuffer(&db); res = r.ok() ? decoded_text(*r.value(), r.value().get(), db.remaining_size()) : "fail"; if (r.ok()) bad = validate(*r.value(), r.value().get()); }
  else { auto r = d.DecodePointCloudFromBuffer(&db); res = r.ok() ? decoded_text(*r.value(), nullptr, db.remaining_size()) : "fail"; if (r.ok()) bad = validate(*r.value(), nullptr); }
  o.c(std::string(kind) + " " + sk + " " + hex(bytes.data(), bytes.size()), res);
  if (!bad.empty()) o.fail("C03 decode returned ok with an invalid geometry (" + bad + "): " + hex(bytes.data(), bytes.size()));
}
// C10: decode with some attribute types skipped; re-applying the described transform reproduces the normal decode bit for bit
static void check_skip(Out &o, const std::vector<uint8_t> &bytes, bool mesh, const std::vector<int> &skip, const std::string &gt) {
  auto dec = [&](bool sk) -> std::unique_ptr<PointCloud> {
    DecoderBuffer db; db.Init((const char *)bytes.data(), bytes.size()); Decoder d;
    if (sk) for (int t : skip) d.SetSkipAttributeTransform((GeometryAttribute::Type)t);
    if (mesh) { auto r = d.DecodeMeshFromBuffer(&db); if (!r.ok()) return nullptr; return std::unique_ptr<PointCloud>(std::move(r).value().release()); }
    auto r = d.DecodePointCloudFromBuffer(&db); if (!r.ok()) return nullptr; return std::move(r).value();
  };
  std::unique_ptr<PointCloud> a = dec(false), b = dec(true);
  if (!a || !b) { o.fail("C10 decode with/without skip failed: " + gt); return; }
  if (a->num_points() != b->num_points() || a->num_attributes() != b->num_attributes()) { o.fail("C10 skip changed point/attribute count: " + gt); return; }
  if (mesh) { const Mesh *ma = static_cast<Mesh *>(a.get()), *mb = static_cast<Mesh *>(b.get()); if (ma->num_faces() != mb->num_faces()) { o.fail("C10 skip changed faces: " + gt); return; }
    for (FaceIndex f(0); f < ma->num_faces(); ++f) for (int j = 0; j < 3; j++) if (ma->face(f)[j] != mb->face(f)[j]) { o.fail("C10 skip changed faces: " + gt); return; } }
  for (int i = 0; i < a->num_attributes(); i++) {
    const PointAttribute *pa = a->attribute(i); const PointAttribute *pb = b->GetAttributeByUniqueId(pa->unique_id());
    if (!pb) { o.fail("C10 attribute lost its unique id under skip: " + gt); return; }
    bool skipped = false; for (int t : skip) if (t == (int)pa->attribute_type()) skipped = true;
    const bool quantized = pb->GetAttributeTransformData() != nullptr;
    if (!skipped || !quantized) {
      if (skipped && pa->data_type() != pb->data_type()) continue;   // skipped integer attribute: exposed as its int32 portable form (no transform to re-apply)
      if (pa->data_type() != pb->data_type() || pa->num_components() != pb->num_components()) { o.fail("C10 unskipped attribute changed type: " + gt); return; }
      std::vector<uint8_t> x(pa->byte_stride()), y(pb->byte_stride());
      for (PointIndex p(0); p < a->num_points(); ++p) { pa->GetMappedValue(p, x.data()); pb->GetMappedValue(p, y.data()); if (x != y) { o.fail("C10 unskipped attribute changed value: " + gt); return; } }
      continue;
    }
    if (pb->GetAttributeTransformData()->transform_type() == ATTRIBUTE_OCTAHEDRON_TRANSFORM) {
      AttributeOctahedronTransform ot; if (!ot.InitFromAttribute(*pb)) { o.fail("C10 transform data unusable: " + gt); return; }
      PointAttribute out; out.Init(pa->attribute_type(), 3, DT_FLOAT32, false, pb->size());
      if (!ot.InverseTransformAttribute(*pb, &out)) { o.fail("C10 inverse transform failed: " + gt); return; }
      std::vector<uint8_t> x(pa->byte_stride()), y(out.byte_stride());
      for (PointIndex p(0); p < a->num_points(); ++p) { pa->GetMappedValue(p, x.data()); out.GetValue(pb->mapped_index(p), y.data()); if (x != y) { o.fail("C10 re-applied transform differs from the normal decode (uid " + U(pa->unique_id()) + "): " + gt); return; } }
      continue;
    }
    AttributeQuantizationTransform qt; if (!qt.InitFromAttribute(*pb)) { o.fail("C10 transform data unusable: " + gt); return; }
    PointAttribute out; out.Init(pa->attribute_type(), pa->num_components(), DT_FLOAT32, false, pb->size());
    if (!qt.InverseTransformAttribute(*pb, &out)) { o.fail("C10 inverse transform failed: " + gt); return; }
    std::vector<uint8_t> x(pa->byte_stride()), y(out.byte_stride());
    for (PointIndex p(0); p < a->num_points(); ++p) { pa->GetMappedValue(p, x.data()); out.GetValue(pb->mapped_index(p), y.data()); if (x != y) { o.fail("C10 re-applied transform differs from the normal decode (uid " + U(pa->unique_id()) + "): " + gt); return; } }
  }
}

static std::vector<uint8_t> gen_md(Rng &r) {
  GeometryMetadata gm;
  int n = (int)r.range(1, 3);
  for (int i = 0; i < n; i++) { if (r.chance(50)) gm.AddEntryInt("k" + S(i), (int32_t)r.next()); else gm.AddEntryString("name" + S(i), std::string("v") + S((int64_t)r.below(1000))); }
  if (r.chance(40)) { std::unique_ptr<Metadata> sub(new Metadata()); sub->AddEntryDouble("d", 1.5); gm.AddSubMetadata("sub", std::move(sub)); }
  EncoderBuffer mb; MetadataEncoder me; me.EncodeGeometryMetadata(&mb, &gm);
  return std::vector<uint8_t>(mb.data(), mb.data() + mb.size());
}

int main(int argc, char **argv) {
  if (argc < 4) { fprintf(stderr, "usage: h_seq quick|thorough seed out\n"); return 2; }
  bool thorough = !strcmp(argv[1], "thorough");
  Rng r(strtoull(argv[2], 0, 10));
  Out o(argv[3]);
  const char *mode = getenv("SEQ_MODE"); std::string md = mode ? mode : "all"; md_skip = md == "skip";
  int n = thorough ? 4000 : 320; if (md == "anim") n = 0; if (md == "skip") n = thorough ? 2500 : 260;
  long enc_fail = 0, dec_cases = 0;
  for (int i = 0; i < n; i++) {
    bool mesh = md == "mesh" || ((md == "all" || md == "skip") && r.chance(45));
    if (md == "pc" || md == "anim") mesh = false;
    Geo g = gen_geo(r, mesh, i % 40 == 0);
    bool with_md = r.chance(12);
    std::unique_ptr<PointCloud> pc = build(g);
    if (with_md) {
      g.md = gen_md(r);
      std::unique_ptr<GeometryMetadata> gm(new GeometryMetadata());
      DecoderBuffer mdb; mdb.Init((const char *)g.md.data(), g.md.size()); MetadataDecoder mdd; mdd.DecodeGeometryMetadata(&mdb, gm.get());
      pc->AddMetadata(std::move(gm));
    }
    EncoderBuffer eb; std::string err;
    bool ok = encode(g, *pc, eb, err);
    const std::string gt = geo_text(g);
    const std::string ih = ok ? hex(eb.data(), eb.size()) : std::string("fail");
    o.c(std::string(mesh ? "meshseq " : "pcseq ") + gt + " " + ih, ih);
    if (!ok) { enc_fail++; continue; }
    std::vector<uint8_t> bytes(eb.data(), eb.data() + eb.size());
    // search: decode with trailing junk; exact consumption; geometry
    {
      std::vector<uint8_t> b2 = bytes; int junk = (int)r.below(5); for (int k = 0; k < junk; k++) b2.push_back((uint8_t)r.next());
      DecoderBuffer db; db.Init((const char *)b2.data(), b2.size()); Decoder d;
      if (mesh) {
        auto res = d.DecodeMeshFromBuffer(&db);
        if (!res.ok()) { bool d11 = g.np == 0 && !g.atts.empty(); bool hasint = false; for (auto &a : g.atts) if (a.kind == 'I' || a.kind == 'N') hasint = true;
          const bool d10 = g.compress_conn && std::string(res.status().error_msg()) == "Failed to decode geometry data.";
          o.fail(std::string(d11 && hasint ? "D11-empty-geometry-integer-attribute: " : d10 ? "D10-compressed-connectivity-guard: " : "C01 encode ok but decode failed: ") + res.status().error_msg() + " " + gt); }
        else { if (db.remaining_size() != junk) o.fail("C06 decoder did not consume exactly the stream: " + gt); check_roundtrip(o, g, *res.value(), res.value().get(), gt); }
      } else {
        auto res = d.DecodePointCloudFromBuffer(&db);
        if (!res.ok()) { bool hasint = false; for (auto &a : g.atts) if (a.kind == 'I' || a.kind == 'N') hasint = true;
          o.fail(std::string(g.np == 0 && hasint ? "D11-empty-geometry-integer-attribute: " : "C01 encode ok but decode failed: ") + res.status().error_msg() + " " + gt); }
        else { if (db.remaining_size() != junk) o.fail("C06 decoder did not consume exactly the stream: " + gt); check_roundtrip(o, g, *res.value(), nullptr, gt); }
      }
      // determinism: a second encode with fresh objects gives identical bytes
      EncoderBuffer eb2; std::string e2; std::unique_ptr<PointCloud> pc2 = build(g);
      if (with_md) { std::unique_ptr<GeometryMetadata> gm(new GeometryMetadata()); DecoderBuffer mdb; mdb.Init((const char *)g.md.data(), g.md.size()); MetadataDecoder mdd; mdd.DecodeGeometryMetadata(&mdb, gm.get()); pc2->AddMetadata(std::move(gm)); }
      if (!encode(g, *pc2, eb2, e2) || eb2.size() != eb.size() || memcmp(eb2.data(), eb.data(), eb.size())) o.fail("C06 re-encoding the same geometry gave different bytes: " + gt);
    }
    // correspondence of the decoders: the valid stream (+junk) and corrupted variants
    {
      std::vector<uint8_t> b2 = bytes; int junk = (int)r.below(3); for (int k = 0; k < junk; k++) b2.push_back((uint8_t)r.next());
      decode_case(o, b2, mesh, mesh ? "dmeshseq" : "dpcseq"); dec_cases++;
      if (r.chance(md == "skip" ? 100 : 50)) {   // C10: a random subset of attribute types skipped
        std::vector<int> skip; for (int t = 0; t <= 4; t++) if (r.chance(45)) skip.push_back(t);
        if (!skip.empty()) { decode_case(o, bytes, mesh, mesh ? "dmeshseq" : "dpcseq", skip); dec_cases++; bool ok2 = true; if (g.np == 0) for (auto &a : g.atts) if (a.kind != 'G') ok2 = false; if (ok2 && !(g.compress_conn)) check_skip(o, bytes, mesh, skip, gt); }
      }
      // keep the header and the declared element counts intact (huge declared counts are C18's subject, not the model's)
      size_t keep = with_md ? bytes.size() : (mesh ? 11 + 6 : 11 + 4);
      int nc = thorough ? 4 : 2;
      for (int k = 0; k < nc && keep < bytes.size(); k++) { decode_case(o, corrupt(r, bytes, keep), mesh, mesh ? "dmeshseq" : "dpcseq"); dec_cases++; }
      // targeted: a delta-coded normal block re-labelled with the legacy octahedral transform (type 2), for point clouds also
      // under a bitstream version below 2.2 (the legacy transform then reads a second int32), and with a changed max_quantized_value
      bool has_n = false; for (auto &a : g.atts) if (a.kind == 'N' && a.pred == 1) has_n = true;
      if (has_n && g.np > 0) for (size_t p = keep; p + 2 < bytes.size(); p++) if (bytes[p] == 0 && bytes[p + 1] == 3 && bytes[p + 2] <= 1) {
        std::vector<uint8_t> b2 = bytes; b2[p + 1] = 2; if (!mesh && r.chance(50)) b2[6] = (uint8_t)r.below(3);
        decode_case(o, b2, mesh, mesh ? "dmeshseq" : "dpcseq"); dec_cases++;
        if (r.chance(50)) { std::vector<uint8_t> b3 = bytes; b3[p + 1] = (uint8_t)r.below(4); decode_case(o, b3, mesh, mesh ? "dmeshseq" : "dpcseq"); dec_cases++; }
        break;
      }
    }
  }
  // keyframe animations (C20): a point cloud coded by the sequential codec
  int na = md == "anim" ? (thorough ? 2500 : 260) : md == "all" ? (thorough ? 1000 : 80) : 0;
  for (int i = 0; i < na; i++) {
    KeyframeAnimation anim; int frames = (int)r.range(1, i % 30 == 0 ? 3000 : 60);
    std::vector<float> ts(frames); float t = 0; for (int f = 0; f < frames; f++) { t += (float)r.range(1, 50) / 16.f; ts[f] = t; }
    bool ts_first = r.chance(50); if (ts_first) anim.SetTimestamps(ts);
    int tracks = (int)r.below(4);
    std::vector<std::vector<uint8_t>> data; std::vector<int> ncs, ids; std::vector<DataType> dts;   // raw bytes of every track as given
    for (int k = 0; k < tracks; k++) { int nc = (int)r.range(1, r.chance(20) ? 16 : 4); int tk = (int)r.below(10); const bool still = r.chance(15);   // constant track: one unique correction symbol (raw-scheme bit length boundary)
      int id = -1; std::vector<uint8_t> raw; DataType dt = DT_FLOAT32;
      auto fill = [&](auto tag, DataType d, int64_t lo, int64_t hi) { typedef decltype(tag) T; std::vector<T> v((size_t)frames * nc); for (auto &x : v) x = (T)r.range(lo, hi); if (still) { const T c0 = r.chance(30) ? (T)0 : v[0]; for (auto &x : v) x = c0; } id = anim.AddKeyframes(d, nc, v); raw.assign((const uint8_t *)v.data(), (const uint8_t *)v.data() + v.size() * sizeof(T)); dt = d; };
      if (tk < 6) { std::vector<float> d((size_t)frames * nc); for (auto &x : d) x = (float)r.range(-4000, 4000) / 64.f; if (still) { const float c0 = r.chance(30) ? 0.f : d[0]; for (auto &x : d) x = c0; } id = anim.AddKeyframes(DT_FLOAT32, nc, d); raw.assign((const uint8_t *)d.data(), (const uint8_t *)d.data() + d.size() * 4); }
      else if (tk == 6) fill((int32_t)0, DT_INT32, -100000, 100000); else if (tk == 7) fill((uint32_t)0, DT_UINT32, 0, 70000); else if (tk == 8) fill((int16_t)0, DT_INT16, -3000, 3000); else fill((uint8_t)0, DT_UINT8, 0, 255);
      data.push_back(raw); ncs.push_back(nc); ids.push_back(id); dts.push_back(dt); }
    if (!ts_first) { if (!anim.SetTimestamps(ts)) continue; }
    EncoderOptions opt = EncoderOptions::CreateDefaultOptions(); int speed = (int)r.below(11); opt.SetSpeed(speed, speed);
    std::vector<int> qs(anim.num_attributes(), 0);
    for (int a = 0; a < anim.num_attributes(); a++) if (r.chance(40)) { qs[a] = (int)r.range(5, 20); opt.SetAttributeInt(a, "quantization_bits", qs[a]); }
    EncoderBuffer eb; KeyframeAnimationEncoder enc; Status s = enc.EncodeKeyframeAnimation(anim, opt, &eb);
    // the model sees it as a point cloud: describe it that way
    Geo g; g.np = frames; g.speed = speed; g.builtin = true;
    for (int a = 0; a < anim.num_attributes(); a++) { const PointAttribute *pa = anim.attribute(a); AttSpec as; as.type = pa->attribute_type(); as.dt = pa->data_type(); as.nc = pa->num_components(); as.norm = pa->normalized(); as.uid = pa->unique_id(); as.kind = dt_int(pa->data_type()) ? 'I' : (qs[a] ? 'Q' : 'G'); as.q = as.kind == 'Q' ? qs[a] : 0; as.pred = 1;
      std::vector<uint8_t> buf(pa->byte_stride()); for (PointIndex p(0); p < anim.num_points(); ++p) { pa->GetMappedValue(p, buf.data()); as.rows.insert(as.rows.end(), buf.begin(), buf.end()); } g.atts.push_back(as); }
    const std::string gt = geo_text(g); const std::string ih = s.ok() ? hex(eb.data(), eb.size()) : std::string("fail");
    o.c("pcseq " + gt + " " + ih, ih);
    if (!s.ok()) { o.fail(std::string("C20 animation encode failed: ") + s.error_msg() + " " + gt); continue; }
    DecoderBuffer db; db.Init(eb.data(), eb.size()); KeyframeAnimation out; KeyframeAnimationDecoder dec; DecoderOptions dopt;
    Status ds = dec.Decode(dopt, &db, &out);
    if (!ds.ok()) { o.fail(std::string("C20 animation decode failed: ") + ds.error_msg() + " " + gt); continue; }
    if (out.num_frames() != frames || db.remaining_size() != 0) { o.fail("C20 frame count / consumption: " + gt); continue; }
    check_roundtrip(o, g, out, nullptr, gt);
    for (size_t k = 0; k < ids.size(); k++) { const PointAttribute *kf = out.keyframes(ids[k]); if (!kf || kf->num_components() != ncs[k]) o.fail("C20 track not retrievable under its id: " + gt); }
    if (!out.timestamps() || out.timestamps()->num_components() != 1) o.fail("C20 timestamps lost: " + gt);
    // the ids the API handed out are the keys of the per-attribute options: a track (or the timestamps, id 0) for which no
    // quantization was requested UNDER ITS OWN ID must come back bit-exact, whatever order the animation was built in
    auto exact = [&](const PointAttribute *pa, const std::vector<uint8_t> &want, int nc, DataType dt) { if (!pa || (int)pa->num_components() != nc || pa->data_type() != dt) return false;
      const size_t st = (size_t)nc * dt_len(dt); std::vector<uint8_t> v(st); for (int f = 0; f < frames; f++) { pa->GetMappedValue(PointIndex(f), v.data()); if (memcmp(v.data(), &want[(size_t)f * st], st) != 0) return false; } return true; };
    std::vector<uint8_t> tsraw((const uint8_t *)ts.data(), (const uint8_t *)ts.data() + ts.size() * 4);
    if ((int)qs.size() > 0 && qs[0] == 0 && !exact(out.timestamps(), tsraw, 1, DT_FLOAT32)) o.fail("C20 timestamps (no quantization requested for id 0) are not bit-exact: " + gt + (ts_first ? " timestamps-first" : " keyframes-first"));
    for (size_t k = 0; k < ids.size(); k++) if (ids[k] >= 0 && ids[k] < (int)qs.size() && (qs[ids[k]] == 0 || dts[k] != DT_FLOAT32) && !exact(out.keyframes(ids[k]), data[k], ncs[k], dts[k]))
      o.fail("C20 track " + S(ids[k]) + " (no quantization requested for its id) is not bit-exact: " + gt + (ts_first ? " timestamps-first" : " keyframes-first"));
  }
  // long integer tracks with large alphabets of corrections (1500 .. 13000 distinct symbols: the raw scheme's 11..14-bit coders, chosen
  // by speed): implementation only (the extracted model is too slow on tables of this size), every speed class
  if (na > 0) for (int V : {800, 1600, 3200, 6400}) for (int speed : {0, 3, 4, 7, 10}) for (int still = 0; still < 2; still++) {
    KeyframeAnimation anim; const int frames = thorough ? 9000 : 4000, nc = 4; std::vector<float> ts(frames); for (int f = 0; f < frames; f++) ts[f] = (float)f * 0.04f; anim.SetTimestamps(ts);
    // still = 1: a mostly still track (three quarters of the values repeat the previous frame: one correction with probability > 1/2 next to
    // a large alphabet of rare ones)
    std::vector<int32_t> d((size_t)frames * nc); for (size_t q = 0; q < d.size(); q++) d[q] = (still && q >= (size_t)nc && r.chance(75)) ? d[q - nc] : (int32_t)r.below(V); const int id = anim.AddKeyframes(DT_INT32, nc, d);
    EncoderOptions opt = EncoderOptions::CreateDefaultOptions(); opt.SetSpeed(speed, speed); EncoderBuffer eb; KeyframeAnimationEncoder enc; Status s = enc.EncodeKeyframeAnimation(anim, opt, &eb);
    const std::string tag = std::string(still ? "mostly still " : "") + "long int32 track, values below " + S(V) + ", " + S(frames) + " frames x " + S(nc) + " components, speed " + S(speed);
    if (!s.ok()) { o.fail(std::string("C20 animation encode failed: ") + s.error_msg() + " " + tag); continue; }
    DecoderBuffer db; db.Init(eb.data(), eb.size()); KeyframeAnimation out; KeyframeAnimationDecoder dec; DecoderOptions dopt; Status ds = dec.Decode(dopt, &db, &out);
    if (!ds.ok()) { o.fail(std::string("C20 animation encode ok but decode failed (") + ds.error_msg() + "): " + tag); continue; }
    const PointAttribute *kf = out.keyframes(id); bool same = kf && kf->num_components() == nc && kf->data_type() == DT_INT32 && out.num_frames() == frames && db.remaining_size() == 0;
    std::vector<int32_t> v(nc); for (int f = 0; same && f < frames; f++) { kf->GetMappedValue(PointIndex(f), v.data()); if (memcmp(v.data(), &d[(size_t)f * nc], sizeof(int32_t) * nc) != 0) same = false; }
    if (!same) o.fail("C20 long integer track not reproduced bit-exactly: " + tag);
  }
  fprintf(stderr, "h_seq: %ld cases (%ld encode failures, %ld decode cases), %ld direct failures\n", o.cases, enc_fail, dec_cases, o.fails);
  return 0;
}
