// C05: existing bitstreams keep decoding to the same geometry, in the same order.
//   h_c05 freeze <dir>            writes a corpus from the CURRENT encoder into <dir> and prints "name digest" lines
//   h_c05 <tier> <seed> <out>     decodes every stream of the frozen corpus (env C05_CORPUS, default /verif/corpus/C05) with
//                                 the current decoder and compares ORDERED digests with the frozen ones; emits version-gate
//                                 cases and model-decoder cases for the streams the Coq model covers.
#include "common.h"
#include <dirent.h>
#include <cmath>
#include <fstream>
#include <map>
#include "draco/compression/decode.h"
#include "draco/compression/encode.h"
#include "draco/compression/expert_encode.h"
#include "draco/mesh/mesh.h"
#include "draco/mesh/triangle_soup_mesh_builder.h"
#include "draco/metadata/metadata_encoder.h"
#include "draco/point_cloud/point_cloud_builder.h"
using namespace draco;

static uint64_t fnv(uint64_t h, const void *p, size_t n) { const uint8_t *b = (const uint8_t *)p; for (size_t i = 0; i < n; i++) { h ^= b[i]; h *= 1099511628211ull; } return h; }
template <class T> static uint64_t fnv_v(uint64_t h, T v) { return fnv(h, &v, sizeof(v)); }

// ordered digest: points, faces, attributes in order, every value in point order, metadata
static std::string digest(const PointCloud &pc, const Mesh *m) {
  uint64_t h = 1469598103934665603ull;
  h = fnv_v<uint32_t>(h, pc.num_points()); h = fnv_v<uint32_t>(h, m ? m->num_faces() : 0xffffffffu);
  if (m) for (FaceIndex f(0); f < m->num_faces(); ++f) for (int j = 0; j < 3; j++) h = fnv_v<uint32_t>(h, m->face(f)[j].value());
  h = fnv_v<int32_t>(h, pc.num_attributes());
  for (int i = 0; i < pc.num_attributes(); i++) {
    const PointAttribute *a = pc.attribute(i);
    h = fnv_v<int32_t>(h, a->attribute_type()); h = fnv_v<int32_t>(h, a->data_type()); h = fnv_v<int32_t>(h, a->num_components()); h = fnv_v<uint8_t>(h, a->normalized()); h = fnv_v<uint32_t>(h, a->unique_id());
    std::vector<uint8_t> buf(a->byte_stride());
    for (PointIndex p(0); p < pc.num_points(); ++p) { a->GetMappedValue(p, buf.data()); h = fnv(h, buf.data(), buf.size()); }
  }
  if (pc.GetMetadata()) { EncoderBuffer mb; MetadataEncoder me; me.EncodeGeometryMetadata(&mb, pc.GetMetadata()); h = fnv(h, mb.data(), mb.size()); }
  char t[40]; snprintf(t, sizeof t, "%016llx", (unsigned long long)h);
  return std::string(t) + ":" + U(pc.num_points()) + ":" + (m ? U(m->num_faces()) : std::string("-")) + ":" + S(pc.num_attributes());
}
static std::string decode_digest(const std::vector<uint8_t> &b, std::string *err = nullptr, int *code = nullptr) {
  DecoderBuffer db; db.Init((const char *)b.data(), b.size());
  auto t = Decoder::GetEncodedGeometryType(&db);
  if (!t.ok()) { if (err) *err = t.status().error_msg(); if (code) *code = t.status().code(); return ""; }
  Decoder d;
  if (t.value() == TRIANGULAR_MESH) { auto m = d.DecodeMeshFromBuffer(&db); if (!m.ok()) { if (err) *err = m.status().error_msg(); if (code) *code = m.status().code(); return ""; } return digest(*m.value(), m.value().get()); }
  auto p = d.DecodePointCloudFromBuffer(&db); if (!p.ok()) { if (err) *err = p.status().error_msg(); if (code) *code = p.status().code(); return ""; } return digest(*p.value(), nullptr);
}

static std::unique_ptr<Mesh> gen_mesh(Rng &r) {
  TriangleSoupMeshBuilder mb; int w = (int)r.range(2, 6), h = (int)r.range(2, 6);
  std::vector<std::array<int, 3>> faces; auto id = [&](int x, int y) { return y * (w + 1) + x; };
  for (int y = 0; y < h; y++) for (int x = 0; x < w; x++) { if (r.chance(10)) continue; faces.push_back({id(x, y), id(x + 1, y), id(x + 1, y + 1)}); faces.push_back({id(x, y), id(x + 1, y + 1), id(x, y + 1)}); }
  if (r.chance(40)) for (int i = 0; i < 3; i++) faces.push_back({(int)r.below((w + 1) * (h + 1)), (int)r.below((w + 1) * (h + 1)), (int)r.below((w + 1) * (h + 1))});
  if (faces.empty()) faces.push_back({0, 1, w + 2});
  mb.Start((int)faces.size());
  int pos = mb.AddAttribute(GeometryAttribute::POSITION, 3, DT_FLOAT32);
  int tex = r.chance(70) ? mb.AddAttribute(GeometryAttribute::TEX_COORD, 2, DT_FLOAT32) : -1;
  int nor = r.chance(50) ? mb.AddAttribute(GeometryAttribute::NORMAL, 3, DT_FLOAT32) : -1;
  int gen = r.chance(50) ? mb.AddAttribute(GeometryAttribute::GENERIC, 2, DT_INT16) : -1;
  int seam = r.chance(50) ? (int)r.range(1, w) : -1;
  for (size_t f = 0; f < faces.size(); f++) { auto &F = faces[f]; float P[3][3], uv[3][2], n[3][3]; int16_t g[3][2];
    for (int k = 0; k < 3; k++) { int x = F[k] % (w + 1), y = F[k] / (w + 1); P[k][0] = (float)x + (float)((F[k] * 7) % 13) / 40.f; P[k][1] = (float)y; P[k][2] = (float)((F[k] * 5) % 11) / 7.f;
      bool right = seam >= 0 && (F[0] % (w + 1)) >= seam; uv[k][0] = (float)x / (w + 1) + (right ? .5f : 0.f); uv[k][1] = (float)y / (h + 1);
      float a = (float)((F[k] * 37) % 100) / 16.f; n[k][0] = std::sin(a); n[k][1] = std::cos(a) * .6f; n[k][2] = .8f * std::cos(a); g[k][0] = (int16_t)(F[k] % 9 - 4); g[k][1] = (int16_t)(f % 3); }
    mb.SetAttributeValuesForFace(pos, FaceIndex((uint32_t)f), P[0], P[1], P[2]);
    if (tex >= 0) mb.SetAttributeValuesForFace(tex, FaceIndex((uint32_t)f), uv[0], uv[1], uv[2]);
    if (nor >= 0) mb.SetAttributeValuesForFace(nor, FaceIndex((uint32_t)f), n[0], n[1], n[2]);
    if (gen >= 0) mb.SetAttributeValuesForFace(gen, FaceIndex((uint32_t)f), g[0], g[1], g[2]); }
  return mb.Finalize();
}
static std::unique_ptr<PointCloud> gen_pc(Rng &r) {
  PointCloudBuilder pb; int n = (int)r.range(1, 90); pb.Start(n);
  int pos = pb.AddAttribute(GeometryAttribute::POSITION, 3, DT_FLOAT32); int col = r.chance(60) ? pb.AddAttribute(GeometryAttribute::COLOR, 4, DT_UINT8) : -1; int gen = r.chance(40) ? pb.AddAttribute(GeometryAttribute::GENERIC, 1, DT_UINT32) : -1;
  for (int i = 0; i < n; i++) { float p[3] = {(float)r.range(-900, 900) / 16.f, (float)r.range(-900, 900) / 16.f, (float)r.range(-90, 90) / 4.f}; pb.SetAttributeValueForPoint(pos, PointIndex(i), p);
    if (col >= 0) { uint8_t c[4] = {(uint8_t)r.below(256), (uint8_t)r.below(4), (uint8_t)i, 255}; pb.SetAttributeValueForPoint(col, PointIndex(i), c); } if (gen >= 0) { uint32_t g = (uint32_t)r.below(5000); pb.SetAttributeValueForPoint(gen, PointIndex(i), &g); } }
  return pb.Finalize(r.chance(50));
}

static void freeze(const std::string &dir) {
  Rng r(20260930); int k = 0;
  auto emit = [&](const EncoderBuffer &eb, const std::string &tag) { char name[64]; snprintf(name, sizeof name, "cur_%03d_%s.drc", k++, tag.c_str()); std::ofstream f(dir + "/" + name, std::ios::binary); f.write(eb.data(), eb.size()); f.close();
    std::vector<uint8_t> b(eb.data(), eb.data() + eb.size()); printf("%s %s\n", name, decode_digest(b).c_str()); };
  for (int i = 0; i < 16; i++) { auto m = gen_mesh(r); if (!m) continue;
    struct V { int method, speed, sub, pred; const char *tag; };
    V vs[] = {{MESH_SEQUENTIAL_ENCODING, 5, 0, -1, "seq"}, {MESH_EDGEBREAKER_ENCODING, 0, 0, -1, "eb0"}, {MESH_EDGEBREAKER_ENCODING, 1, 2, -1, "ebval"}, {MESH_EDGEBREAKER_ENCODING, 3, 0, MESH_PREDICTION_PARALLELOGRAM, "ebpar"},
              {MESH_EDGEBREAKER_ENCODING, 5, 0, MESH_PREDICTION_CONSTRAINED_MULTI_PARALLELOGRAM, "ebcmp"}, {MESH_EDGEBREAKER_ENCODING, 7, 0, -1, "eb7"}, {MESH_EDGEBREAKER_ENCODING, 10, 0, PREDICTION_DIFFERENCE, "eb10"}, {MESH_SEQUENTIAL_ENCODING, 10, 0, PREDICTION_NONE, "seqraw"}};
    for (auto &v : vs) { if (r.chance(35)) continue; Encoder enc; enc.SetEncodingMethod(v.method); enc.SetSpeedOptions(v.speed, v.speed);
      enc.SetAttributeQuantization(GeometryAttribute::POSITION, 11); enc.SetAttributeQuantization(GeometryAttribute::TEX_COORD, 10); enc.SetAttributeQuantization(GeometryAttribute::NORMAL, 8);
      if (v.method == MESH_EDGEBREAKER_ENCODING) enc.options().SetGlobalInt("edgebreaker_method", v.sub);
      if (v.pred != -1) enc.SetAttributePredictionScheme(GeometryAttribute::POSITION, v.pred);
      if (std::string(v.tag) == "seqraw") enc.options().SetGlobalBool("use_built_in_attribute_compression", false);
      EncoderBuffer eb; if (enc.EncodeMeshToBuffer(*m, &eb).ok()) emit(eb, v.tag); } }
  for (int i = 0; i < 12; i++) { auto p = gen_pc(r); if (!p) continue;
    for (int speed : {0, 2, 4, 6, 8, 10}) { if (r.chance(40)) continue; for (int method : {POINT_CLOUD_SEQUENTIAL_ENCODING, POINT_CLOUD_KD_TREE_ENCODING}) { Encoder enc; enc.SetEncodingMethod(method); enc.SetSpeedOptions(speed, speed); enc.SetAttributeQuantization(GeometryAttribute::POSITION, 12);
        EncoderBuffer eb; if (enc.EncodePointCloudToBuffer(*p, &eb).ok()) emit(eb, method == POINT_CLOUD_KD_TREE_ENCODING ? "pckd" : "pcseq"); } } }
}

// boundary-size streams: the format derives field widths from declared counts (sequential mesh indices: uint8 below 256 points,
// uint16 below 65536, varint below 2^21, uint32 above), so streams with counts exactly at and next to those limits are frozen too
static void freeze_boundary(const std::string &dir) {
  for (uint32_t n : {255u, 256u, 257u, 65535u, 65536u, 65537u, 2097151u, 2097152u, 2097153u}) for (int raw = 0; raw < 2; raw++) {
    Mesh m; m.set_num_points(n); GeometryAttribute ga; ga.Init(GeometryAttribute::POSITION, nullptr, 3, DT_UINT8, false, 3, 0); int id = m.AddAttribute(ga, true, n);
    std::vector<uint8_t> z(3 * (size_t)n); for (size_t i = 0; i < z.size(); i++) z[i] = (uint8_t)((i / 3) % 7); m.attribute(id)->buffer()->Update(z.data(), z.size());
    Mesh::Face f; f[0] = PointIndex(n - 1); f[1] = PointIndex(0); f[2] = PointIndex(n - 2); m.AddFace(f); f[0] = PointIndex(n / 2); f[1] = PointIndex(n - 1); f[2] = PointIndex(1); m.AddFace(f); f[0] = PointIndex(3); f[1] = PointIndex(2); f[2] = PointIndex(n - 3); m.AddFace(f);
    Encoder enc; enc.SetEncodingMethod(MESH_SEQUENTIAL_ENCODING); enc.SetSpeedOptions(5, 5); if (raw) enc.options().SetGlobalBool("compress_connectivity", true);
    EncoderBuffer eb; if (!enc.EncodeMeshToBuffer(m, &eb).ok()) continue;
    char name[64]; snprintf(name, sizeof name, "bnd_seqmesh_%u_%s.drc", n, raw ? "cc" : "direct"); std::ofstream f2(dir + "/" + name, std::ios::binary); f2.write(eb.data(), eb.size()); f2.close();
    std::vector<uint8_t> b(eb.data(), eb.data() + eb.size()); printf("%s %s\n", name, decode_digest(b).c_str());
  }
  // tall thin triangles with integer positions and quantized tex coords, Edgebreaker speed 0 (portable tex-coord prediction): the
  // predictor takes IntSqrt of |CX|^2 * |PN|^2 = (2^j + 1)^2 - 1, i.e. of numbers >= 2^50 directly below a perfect square
  for (int j : {27, 29}) for (int rot = 0; rot < 6; rot++) for (int qt : {30, 16}) {
    TriangleSoupMeshBuilder mb; mb.Start(2); const int pos = mb.AddAttribute(GeometryAttribute::POSITION, 3, DT_INT32); const int tex = mb.AddAttribute(GeometryAttribute::TEX_COORD, 2, DT_FLOAT32);
    int32_t P[3][3] = {{0, 0, 0}, {1, 0, 0}, {0, 1 << ((j + 1) / 2), 1 << j}}; const float u = 1.0f / (float)(1u << std::min(qt, 30));
    float T[3][2] = {{0.f, 0.5f + 1.0f / 1048576.0f}, {4 * u, 0.5f + 1.0f / 1048576.0f}, {0.f, 1000 * u}};
    int o[3] = {rot % 3, (rot + 1) % 3, (rot + 2) % 3}; if (rot >= 3) std::swap(o[1], o[2]);
    mb.SetAttributeValuesForFace(pos, FaceIndex(0), P[o[0]], P[o[1]], P[o[2]]); mb.SetAttributeValuesForFace(tex, FaceIndex(0), T[o[0]], T[o[1]], T[o[2]]);
    int32_t P2[3][3] = {{10, 10, 10}, {11, 10, 10}, {10, 11, 10}}; float T2[3][2] = {{0.f, 0.f}, {1.f, 1.f}, {1.f, 0.f}};   // pins the tex-coord range to [0,1]
    mb.SetAttributeValuesForFace(pos, FaceIndex(1), P2[0], P2[1], P2[2]); mb.SetAttributeValuesForFace(tex, FaceIndex(1), T2[0], T2[1], T2[2]);
    auto m = mb.Finalize(); if (!m) continue;
    Encoder enc; enc.SetSpeedOptions(3, 3); enc.SetAttributeQuantization(GeometryAttribute::TEX_COORD, qt);
    EncoderBuffer eb; if (!enc.EncodeMeshToBuffer(*m, &eb).ok()) continue;
    char name[64]; snprintf(name, sizeof name, "bnd_texpred_j%d_r%d_q%d.drc", j, rot, qt); std::ofstream f3(dir + "/" + name, std::ios::binary); f3.write(eb.data(), eb.size()); f3.close();
    std::vector<uint8_t> b(eb.data(), eb.data() + eb.size()); printf("%s %s\n", name, decode_digest(b).c_str()); }
  // raw (not entropy-coded) integer values occupy 1 + msb/8 bytes each: one stream per width 1..4 and per method
  for (int q : {7, 12, 20, 28}) for (int mesh = 0; mesh < 2; mesh++) {
    Mesh m; const int n = 14; m.set_num_points(n); GeometryAttribute ga; ga.Init(GeometryAttribute::POSITION, nullptr, 3, DT_FLOAT32, false, 12, 0); int id = m.AddAttribute(ga, true, n);
    for (int i = 0; i < n; i++) { float p[3] = {(float)(i % 4) * 1.25f + 0.01f * (float)i, (float)(i / 4) * 0.75f, (float)((i * 5) % 7) / 3.f}; m.attribute(id)->SetAttributeValue(AttributeValueIndex(i), p); }
    for (int f = 0; f + 2 < n; f += 1) { Mesh::Face fc; fc[0] = PointIndex(f); fc[1] = PointIndex(f + 1); fc[2] = PointIndex(f + 2); m.AddFace(fc); }
    for (int pred = 0; pred < 2; pred++) { Encoder enc; enc.SetSpeedOptions(5, 5); enc.SetAttributeQuantization(GeometryAttribute::POSITION, q); enc.options().SetGlobalBool("use_built_in_attribute_compression", false);
      if (pred) enc.SetAttributePredictionScheme(GeometryAttribute::POSITION, PREDICTION_NONE);
      EncoderBuffer eb; Status st; if (mesh) { enc.SetEncodingMethod(MESH_SEQUENTIAL_ENCODING); st = enc.EncodeMeshToBuffer(m, &eb); } else { enc.SetEncodingMethod(POINT_CLOUD_SEQUENTIAL_ENCODING); st = enc.EncodePointCloudToBuffer(m, &eb); }
      if (!st.ok()) continue;
      char name[64]; snprintf(name, sizeof name, "bnd_rawvalues_q%d_%s_%s.drc", q, mesh ? "mesh" : "pc", pred ? "nopred" : "delta"); std::ofstream f2(dir + "/" + name, std::ios::binary); f2.write(eb.data(), eb.size()); f2.close();
      std::vector<uint8_t> b(eb.data(), eb.data() + eb.size()); printf("%s %s\n", name, decode_digest(b).c_str()); } }
}

int main(int argc, char **argv) {
  if (argc >= 3 && !strcmp(argv[1], "freeze")) { freeze(argv[2]); return 0; }
  if (argc >= 3 && !strcmp(argv[1], "freeze-boundary")) { freeze_boundary(argv[2]); return 0; }
  if (argc >= 3 && !strcmp(argv[1], "digest")) {
    for (int i = 2; i < argc; i++) { std::ifstream f(argv[i], std::ios::binary); std::vector<uint8_t> b((std::istreambuf_iterator<char>(f)), std::istreambuf_iterator<char>()); std::string e; std::string d = decode_digest(b, &e);
      const char *bn = strrchr(argv[i], '/'); printf("%s %s\n", bn ? bn + 1 : argv[i], d.empty() ? ("DECODE-FAILED:" + e).c_str() : d.c_str()); }
    return 0; }
  if (argc < 4) { fprintf(stderr, "usage: h_c05 freeze <dir> | h_c05 quick|thorough seed out\n"); return 2; }
  Out o(argv[3]);
  const char *cd = getenv("C05_CORPUS"); std::string dir = cd ? cd : "/verif/corpus/C05";
  std::map<std::string, std::string> frozen; { std::ifstream f(dir + "/digests.txt"); std::string n, d; while (f >> n >> d) frozen[n] = d; }
  if (frozen.empty()) { o.fail("C05 frozen digest list missing or empty: " + dir + "/digests.txt"); return 0; }
  long checked = 0; std::map<std::string, int> versions;
  for (auto &kv : frozen) {
    std::ifstream f(dir + "/" + kv.first, std::ios::binary); std::vector<uint8_t> b((std::istreambuf_iterator<char>(f)), std::istreambuf_iterator<char>());
    if (b.size() < 11) { o.fail("C05 corpus file missing: " + kv.first); continue; }
    std::string err; std::string d = decode_digest(b, &err);
    versions[S(b[5]) + "." + S(b[6]) + (b[7] == 1 ? (b[8] == 1 ? " mesh-edgebreaker" : " mesh-sequential") : (b[8] == 1 ? " pc-kdtree" : " pc-sequential"))]++;
    checked++;
    if (d.empty()) o.fail("C05 frozen stream no longer decodes (" + err + "): " + kv.first);
    else if (d != kv.second) o.fail("C05 frozen stream decodes to a different geometry/order: " + kv.first + " now " + d + " frozen " + kv.second);
    // streams of the methods/versions the Coq model covers also go through the model decoder
    if (b.size() < 6000 && b[7] == 1 && b[8] == 0 && b[5] == 2 && b[6] >= 2) {
      DecoderBuffer db; db.Init((const char *)b.data(), b.size()); Decoder dd; auto m = dd.DecodeMeshFromBuffer(&db);
      (void)m;   // the textual result is produced by h_seq's printer in the C01 check; here the digest is the oracle
    }
  }
  for (auto &v : versions) o.note("VERSION " + v.first + " x" + S(v.second));
  o.note("STATS corpus_streams=" + S(checked));
  // version gate: every (major, minor) for both geometry types on an otherwise valid stream
  std::vector<uint8_t> mesh_s, pc_s;
  for (auto &kv : frozen) { std::ifstream f(dir + "/" + kv.first, std::ios::binary); std::vector<uint8_t> b((std::istreambuf_iterator<char>(f)), std::istreambuf_iterator<char>());
    if (b.size() > 11 && b[5] == 2 && b[7] == 1 && b[8] == 0 && mesh_s.empty()) mesh_s = b; if (b.size() > 11 && b[5] == 2 && b[7] == 0 && b[8] == 0 && pc_s.empty()) pc_s = b; }
  for (int ty = 0; ty < 2; ty++) { std::vector<uint8_t> base = ty ? mesh_s : pc_s; if (base.empty()) continue;
    for (int maj = 0; maj < 256; maj++) for (int mnr = 0; mnr < 256; mnr++) { base[5] = (uint8_t)maj; base[6] = (uint8_t)mnr; std::string err; int code = 0; std::string d = decode_digest(base, &err, &code);
      o.c("vgate " + S(ty) + " " + S(maj) + " " + S(mnr), (d.empty() && code == Status::UNKNOWN_VERSION) ? "unknown" : "known"); } }
  fprintf(stderr, "h_c05: %ld corpus streams, %ld cases, %ld failures\n", checked, o.cases, o.fails);
  return 0;
}
