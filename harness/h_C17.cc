// C17 correspondence + search harness: bitstream primitives of /repo against the Coq model.
#include "common.h"
#include "draco/core/encoder_buffer.h"
#include "draco/core/decoder_buffer.h"
#include "draco/core/varint_encoding.h"
#include "draco/core/varint_decoding.h"
using namespace draco;

template <typename T> struct W { static constexpr int bits = sizeof(T) * 8; };

template <typename T>
static void varint_case(Out &o, T v) {
  const bool sg = std::is_signed<T>::value;
  EncoderBuffer eb;
  bool ok = EncodeVarint<T>(v, &eb);
  std::string lhs = std::string(sg ? "vs " : "vu ") + S(W<T>::bits) + " " + (sg ? S((int64_t)v) : U((uint64_t)v));
  o.c(lhs, ok ? hex(eb.data(), eb.size()) : "fail");
  if (!ok) { o.fail("EncodeVarint returned false: " + lhs); return; }
  // search: real round trip with a sentinel behind the value
  std::vector<char> buf(eb.data(), eb.data() + eb.size()); buf.push_back((char)0xA5);
  DecoderBuffer db; db.Init(buf.data(), buf.size());
  T r = 0;
  if (!DecodeVarint<T>(&r, &db) || r != v || db.remaining_size() != 1)
    o.fail("varint round trip: " + lhs);
}

template <typename T>
static void varint_dec_case(Out &o, const std::vector<uint8_t> &bytes) {
  const bool sg = std::is_signed<T>::value;
  DecoderBuffer db; db.Init((const char *)bytes.data(), bytes.size());
  T r = 0;
  bool ok = DecodeVarint<T>(&r, &db);
  std::string lhs = std::string(sg ? "dvs " : "dvu ") + S(W<T>::bits) + " " + hex(bytes.data(), bytes.size());
  o.c(lhs, ok ? "ok " + (sg ? S((int64_t)r) : U((uint64_t)r)) + " " + S(db.remaining_size()) : "fail");
}

template <typename T>
static void le_case(Out &o, T v) {
  EncoderBuffer eb; eb.Encode(v);
  o.c("le " + S(sizeof(T)) + " " + U((uint64_t)v), hex(eb.data(), eb.size()));
  std::vector<char> buf(eb.data(), eb.data() + eb.size()); buf.push_back(0x5A);
  DecoderBuffer db; db.Init(buf.data(), buf.size());
  T r = 0; T pk = 0;
  if (!db.Peek(&pk) || pk != v || !db.Decode(&r) || r != v || db.remaining_size() != 1) o.fail("scalar round trip " + U((uint64_t)v));
}
template <typename T>
static void le_dec_case(Out &o, const std::vector<uint8_t> &bytes) {
  DecoderBuffer db; db.Init((const char *)bytes.data(), bytes.size());
  T r = 0; bool ok = db.Decode(&r);
  o.c("dle " + S(sizeof(T)) + " " + hex(bytes.data(), bytes.size()), ok ? "ok " + U((uint64_t)r) + " " + S(db.remaining_size()) : "fail");
}

static std::vector<uint8_t> rand_varint_bytes(Rng &r) {
  // mostly continuation-heavy byte strings (the interesting malformed/non-canonical varints)
  int n = (int)r.below(14);
  std::vector<uint8_t> v;
  for (int i = 0; i < n; i++) {
    uint8_t b = (uint8_t)r.next();
    if (r.chance(70)) b |= 0x80; if (r.chance(10)) b = 0x80; if (r.chance(5)) b = 0xff;
    v.push_back(b);
  }
  if (r.chance(60)) v.push_back((uint8_t)(r.next() & 0x7f));
  if (r.chance(50)) v.push_back((uint8_t)r.next());
  return v;
}

int main(int argc, char **argv) {
  if (argc < 4) { fprintf(stderr, "usage: h_C17 quick|thorough seed out\n"); return 2; }
  bool thorough = !strcmp(argv[1], "thorough");
  Rng r(strtoull(argv[2], 0, 10));
  Out o(argv[3]);
  o.note("C17 tier=" + std::string(argv[1]) + " seed=" + argv[2]);
  // exhaustive 8- and 16-bit varints (property: "exhaustive for 8 and 16 bit")
  for (int v = 0; v < 256; v++) { varint_case<uint8_t>(o, (uint8_t)v); varint_case<int8_t>(o, (int8_t)v); le_case<uint8_t>(o, (uint8_t)v); }
  int step16 = thorough ? 1 : 7;
  for (int v = (int)r.below(step16); v < 65536; v += step16) { varint_case<uint16_t>(o, (uint16_t)v); varint_case<int16_t>(o, (int16_t)v); }
  for (int k = 0; k <= 16; k++) for (int d = -2; d <= 2; d++) { int v = ((1 << k) + d) & 0xffff; varint_case<uint16_t>(o, (uint16_t)v); varint_case<int16_t>(o, (int16_t)v); le_case<uint16_t>(o, (uint16_t)v); }
  int n = thorough ? 200000 : 6000;
  for (int i = 0; i < n; i++) {
    uint64_t a = r.biased(32), b = r.biased(64);
    varint_case<uint32_t>(o, (uint32_t)a); varint_case<int32_t>(o, (int32_t)a);
    varint_case<uint64_t>(o, b); varint_case<int64_t>(o, (int64_t)b);
    if (i % 4 == 0) { le_case<uint32_t>(o, (uint32_t)a); le_case<uint64_t>(o, b); le_case<uint16_t>(o, (uint16_t)a); }
  }
  // arbitrary / malformed byte strings through the decoders
  int m = thorough ? 100000 : 5000;
  for (int i = 0; i < m; i++) {
    std::vector<uint8_t> bs = rand_varint_bytes(r);
    switch (r.below(8)) {
      case 0: varint_dec_case<uint8_t>(o, bs); break;
      case 1: varint_dec_case<int8_t>(o, bs); break;
      case 2: varint_dec_case<uint16_t>(o, bs); break;
      case 3: varint_dec_case<int16_t>(o, bs); break;
      case 4: varint_dec_case<uint32_t>(o, bs); break;
      case 5: varint_dec_case<int32_t>(o, bs); break;
      case 6: varint_dec_case<uint64_t>(o, bs); break;
      default: varint_dec_case<int64_t>(o, bs); break;
    }
    if (i % 5 == 0) { le_dec_case<uint32_t>(o, bs); le_dec_case<uint64_t>(o, bs); le_dec_case<uint16_t>(o, bs); }
  }
  fprintf(stderr, "h_C17: %ld cases, %ld direct failures\n", o.cases, o.fails);
  return 0;
}
