// C17 correspondence + search harness: bitstream primitives of /repo against the Coq model.
#include "common.h"
#include <array>
#include "draco/core/encoder_buffer.h"
#include "draco/core/decoder_buffer.h"
#include "draco/core/varint_encoding.h"
#include "draco/core/varint_decoding.h"
#include "draco/compression/bit_coders/rans_bit_encoder.h"
#include "draco/compression/bit_coders/rans_bit_decoder.h"
#include "draco/compression/bit_coders/adaptive_rans_bit_encoder.h"
#include "draco/compression/bit_coders/adaptive_rans_bit_decoder.h"
#include "draco/compression/bit_coders/direct_bit_encoder.h"
#include "draco/compression/bit_coders/direct_bit_decoder.h"
#include "draco/compression/bit_coders/folded_integer_bit_encoder.h"
#include "draco/compression/bit_coders/folded_integer_bit_decoder.h"
using namespace draco;

template <typename T> struct W { static constexpr int bits = sizeof(T) * 8; };

template <typename T>
static void varint_case(Out &o, T v) {
  const bool sg = std::is_signed<T>::value;
  EncoderBuffer eb;
  bool ok = EncodeVarint<T>(v, &eb);
  std::string lhs = std::string(sg ? "vs " : "vu ") + S(W<T>::bits) + " " + (sg ? S((int64_t)v) : U((uint64_t)v));
  o.c(lhs, ok ? hex(eb.data(), eb.size()) : "fail");
  if (!ok) { o.fail("EncodeVarint returned false: " + lhs); return; }
  // search: real round trip with a sentinel behind the value
  std::vector<char> buf(eb.data(), eb.data() + eb.size()); buf.push_back((char)0xA5);
  DecoderBuffer db; db.Init(buf.data(), buf.size());
  T r = 0;
  if (!DecodeVarint<T>(&r, &db) || r != v || db.remaining_size() != 1)
    o.fail("varint round trip: " + lhs);
}

template <typename T>
static void varint_dec_case(Out &o, const std::vector<uint8_t> &bytes) {
  const bool sg = std::is_signed<T>::value;
  DecoderBuffer db; db.Init((const char *)bytes.data(), bytes.size());
  T r = 0;
  bool ok = DecodeVarint<T>(&r, &db);
  std::string lhs = std::string(sg ? "dvs " : "dvu ") + S(W<T>::bits) + " " + hex(bytes.data(), bytes.size());
  o.c(lhs, ok ? "ok " + (sg ? S((int64_t)r) : U((uint64_t)r)) + " " + S(db.remaining_size()) : "fail");
}

template <typename T>
static void le_case(Out &o, T v) {
  EncoderBuffer eb; eb.Encode(v);
  o.c("le " + S(sizeof(T)) + " " + U((uint64_t)v), hex(eb.data(), eb.size()));
  std::vector<char> buf(eb.data(), eb.data() + eb.size()); buf.push_back(0x5A);
  DecoderBuffer db; db.Init(buf.data(), buf.size());
  T r = 0; T pk = 0;
  if (!db.Peek(&pk) || pk != v || !db.Decode(&r) || r != v || db.remaining_size() != 1) o.fail("scalar round trip " + U((uint64_t)v));
}
template <typename T>
static void le_dec_case(Out &o, const std::vector<uint8_t> &bytes) {
  DecoderBuffer db; db.Init((const char *)bytes.data(), bytes.size());
  T r = 0; bool ok = db.Decode(&r);
  o.c("dle " + S(sizeof(T)) + " " + hex(bytes.data(), bytes.size()), ok ? "ok " + U((uint64_t)r) + " " + S(db.remaining_size()) : "fail");
}

static std::vector<uint8_t> rand_varint_bytes(Rng &r) {
  // mostly continuation-heavy byte strings (the interesting malformed/non-canonical varints)
  int n = (int)r.below(14);
  std::vector<uint8_t> v;
  for (int i = 0; i < n; i++) {
    uint8_t b = (uint8_t)r.next();
    if (r.chance(70)) b |= 0x80; if (r.chance(10)) b = 0x80; if (r.chance(5)) b = 0xff;
    v.push_back(b);
  }
  if (r.chance(60)) v.push_back((uint8_t)(r.next() & 0x7f));
  if (r.chance(50)) v.push_back((uint8_t)r.next());
  return v;
}


// ---------------------------------------------------------------- bit sequences in Encoder/DecoderBuffer
struct Item { bool block; std::vector<uint8_t> bytes; int64_t req; bool ws; std::vector<std::pair<int, uint32_t>> puts; };
static std::string items_text(const std::vector<Item> &its) {
  std::string t;
  for (size_t i = 0; i < its.size(); i++) {
    if (i) t += ";";
    const Item &it = its[i];
    if (!it.block) { t += "B:" + hex(it.bytes.data(), it.bytes.size()); continue; }
    t += "K:" + S(it.req) + ":" + (it.ws ? "1" : "0") + ":";
    if (it.puts.empty()) t += "-";
    for (size_t k = 0; k < it.puts.size(); k++) { if (k) t += ","; t += S(it.puts[k].first) + "/" + U(it.puts[k].second); }
  }
  return its.empty() ? "-" : t;
}
static std::string shape_text(const std::vector<Item> &its) {
  std::string t;
  for (size_t i = 0; i < its.size(); i++) {
    if (i) t += ";";
    const Item &it = its[i];
    if (!it.block) { t += "B:" + S(it.bytes.size()); continue; }
    t += std::string("K:") + (it.ws ? "1" : "0") + ":";
    if (it.puts.empty()) t += "-";
    for (size_t k = 0; k < it.puts.size(); k++) { if (k) t += ","; t += S(it.puts[k].first); }
  }
  return its.empty() ? "-" : t;
}
static std::vector<Item> gen_items(Rng &r) {
  std::vector<Item> its; int n = (int)r.below(6);
  for (int i = 0; i < n; i++) {
    Item it; it.block = r.chance(60);
    if (!it.block) { int len = (int)r.below(7); for (int k = 0; k < len; k++) it.bytes.push_back((uint8_t)r.next()); }
    else {
      it.ws = r.chance(50); int np = (int)r.below(9); int64_t total = 0;
      for (int k = 0; k < np; k++) { int nb = r.chance(15) ? 32 : (r.chance(10) ? 0 : (int)r.range(1, 31)); it.puts.push_back({nb, (uint32_t)r.biased(32)}); total += nb; }
      // required_bits: exactly enough, or generous (the block must fit: writing more is out of bounds in the C++)
      it.req = total == 0 ? (int64_t)r.range(1, 40) : (r.chance(50) ? total : total + (int64_t)r.below(70));
      if (r.chance(3)) it.req = 1 + (int64_t)r.below(200000) + total;
    }
    its.push_back(it);
  }
  return its;
}
// encodes the items with the real EncoderBuffer; false if any call reported failure
static bool encode_items(const std::vector<Item> &its, EncoderBuffer &eb) {
  for (const Item &it : its) {
    if (!it.block) { if (!eb.Encode(it.bytes.data(), it.bytes.size())) return false; continue; }
    if (!eb.StartBitEncoding(it.req, it.ws)) return false;
    for (auto &p : it.puts) if (!eb.EncodeLeastSignificantBits32(p.first, p.second)) return false;
    eb.EndBitEncoding();
  }
  return true;
}
// decodes with the real DecoderBuffer following the shape; result text
static std::string decode_items(const std::vector<Item> &its, const std::vector<uint8_t> &buf, int ver_major, int ver_minor) {
  DecoderBuffer db; db.Init((const char *)buf.data(), buf.size(), (uint16_t)((ver_major << 8) | ver_minor));
  std::string t = "ok ";
  for (size_t i = 0; i < its.size(); i++) {
    const Item &it = its[i];
    if (i) t += ";";
    if (!it.block) {
      std::vector<uint8_t> out(it.bytes.size() + 1);
      if (!db.Decode(out.data(), it.bytes.size())) return "fail";
      t += "B:" + hex(out.data(), it.bytes.size()); continue;
    }
    uint64_t sz = 0;
    if (!db.StartBitDecoding(it.ws, &sz)) return "fail";
    t += "K:" + (it.ws ? U(sz) : std::string("n")) + ":";
    if (it.puts.empty()) t += "-";
    for (size_t k = 0; k < it.puts.size(); k++) {
      uint32_t v = 0; if (!db.DecodeLeastSignificantBits32(it.puts[k].first, &v)) return "fail";
      if (k) t += ","; t += U(v);
    }
    db.EndBitDecoding();
  }
  if (its.empty()) t += "-";
  return t + " " + S(db.remaining_size());
}
static void bitseq_cases(Out &o, Rng &r, int n) {
  for (int i = 0; i < n; i++) {
    std::vector<Item> its = gen_items(r);
    EncoderBuffer eb; bool ok = encode_items(its, eb);
    std::string it = items_text(its);
    o.c("bs " + it, ok ? hex(eb.data(), eb.size()) : "fail");
    if (!ok) { o.fail("EncoderBuffer call failed on a well-formed item list: " + it); continue; }
    std::vector<uint8_t> buf(eb.data(), eb.data() + eb.size());
    int extra = (int)r.below(4); for (int k = 0; k < extra; k++) buf.push_back((uint8_t)r.next());
    std::string res = decode_items(its, buf, 2, 2);
    o.c("dbs 514 " + shape_text(its) + " " + hex(buf.data(), buf.size()), res);
    // search: values and exact consumption
    std::string want = "ok ";
    for (size_t q = 0; q < its.size(); q++) {
      if (q) want += ";";
      if (!its[q].block) { want += "B:" + hex(its[q].bytes.data(), its[q].bytes.size()); continue; }
      int64_t total = 0; for (auto &p : its[q].puts) total += p.first;
      want += "K:" + (its[q].ws ? U((uint64_t)((total + 7) / 8)) : std::string("n")) + ":";
      if (its[q].puts.empty()) want += "-";
      for (size_t k = 0; k < its[q].puts.size(); k++) { if (k) want += ","; uint32_t v = its[q].puts[k].second; int nb = its[q].puts[k].first; want += U(nb == 32 ? v : (nb == 0 ? 0 : (v & ((1u << nb) - 1)))); }
    }
    if (its.empty()) want += "-";
    want += " " + S(extra);
    if (res != want) o.fail("bit/byte item round trip: " + it + " got [" + res + "] want [" + want + "]");
    // decoding arbitrary bytes with the same shape, both size formats (version < 2.2 reads a fixed uint64 size)
    std::vector<uint8_t> junk; int jl = (int)r.below(24); for (int k = 0; k < jl; k++) junk.push_back(r.chance(30) ? (uint8_t)r.below(4) : (uint8_t)r.next());
    o.c("dbs 513 " + shape_text(its) + " " + hex(junk.data(), junk.size()), decode_items(its, junk, 2, 1));
    o.c("dbs 514 " + shape_text(its) + " " + hex(junk.data(), junk.size()), decode_items(its, junk, 2, 2));
  }
}

// ---------------------------------------------------------------- bit coders
struct Op { bool lsb; int n; uint32_t v; };
static std::string ops_text(const std::vector<Op> &ops) {
  if (ops.empty()) return "-";
  std::string t;
  for (size_t i = 0; i < ops.size(); i++) { if (i) t += ","; t += ops[i].lsb ? ("l" + S(ops[i].n) + "/" + U(ops[i].v)) : (ops[i].v ? "b1" : "b0"); }
  return t;
}
static std::string rops_text(const std::vector<Op> &ops) {
  if (ops.empty()) return "-";
  std::string t;
  for (size_t i = 0; i < ops.size(); i++) { if (i) t += ","; t += ops[i].lsb ? ("l" + S(ops[i].n)) : "b"; }
  return t;
}
static std::vector<Op> gen_ops(Rng &r, int maxops, bool only_bits) {
  std::vector<Op> ops; int n = (int)r.below(maxops + 1);
  int bias = (int)r.below(5);   // 0: all zero, 1: all one, 2: fair, 3: skewed to 0, 4: skewed to 1
  auto bit = [&]() -> uint32_t { switch (bias) { case 0: return 0; case 1: return 1; case 2: return r.next() & 1; case 3: return r.chance(7); default: return !r.chance(7); } };
  for (int i = 0; i < n; i++) {
    Op op; op.lsb = !only_bits && r.chance(35);
    if (op.lsb) { op.n = r.chance(15) ? 32 : (int)r.range(1, 31); uint32_t v = 0; for (int k = 0; k < 32; k++) v |= bit() << k; if (r.chance(20)) v = (uint32_t)r.biased(32); op.v = v; }
    else { op.n = 1; op.v = bit(); }
    ops.push_back(op);
  }
  return ops;
}
static uint32_t low(uint32_t v, int n) { return n >= 32 ? v : (v & ((1u << n) - 1)); }

template <class Enc> static void run_enc(Enc &e, const std::vector<Op> &ops, EncoderBuffer &eb) {
  e.StartEncoding();
  for (auto &op : ops) { if (op.lsb) e.EncodeLeastSignificantBits32(op.n, op.v); else e.EncodeBit(op.v != 0); }
  e.EndEncoding(&eb);
}
// decode following rops; `extra` additional single bits are read past the written data
template <class Dec> static std::string run_dec(Dec &d, const std::vector<Op> &ops, const std::vector<uint8_t> &buf, int ver, int extra) {
  DecoderBuffer db; db.Init((const char *)buf.data(), buf.size(), (uint16_t)ver);
  if (!d.StartDecoding(&db)) return "fail";
  std::string t = "ok ";
  for (size_t i = 0; i < ops.size(); i++) {
    if (i) t += ",";
    if (ops[i].lsb) { uint32_t v = 0; d.DecodeLeastSignificantBits32(ops[i].n, &v); t += U(v); }
    else t += d.DecodeNextBit() ? "1" : "0";
  }
  if (ops.empty()) t += "-";
  t += " x";
  for (int i = 0; i < extra; i++) t += d.DecodeNextBit() ? "1" : "0";
  d.EndDecoding();
  return t + " " + S(db.remaining_size());
}
// DirectBitDecoder::DecodeLeastSignificantBits32 returns bool
static std::string run_dec_direct(const std::vector<Op> &ops, const std::vector<uint8_t> &buf, int extra) {
  DirectBitDecoder d; DecoderBuffer db; db.Init((const char *)buf.data(), buf.size(), 0x0202);
  if (!d.StartDecoding(&db)) return "fail";
  std::string t = "ok ";
  for (size_t i = 0; i < ops.size(); i++) {
    if (i) t += ",";
    if (ops[i].lsb) { uint32_t v = 0; if (!d.DecodeLeastSignificantBits32(ops[i].n, &v)) { t += "F"; break; } t += U(v); }
    else t += d.DecodeNextBit() ? "1" : "0";
  }
  if (ops.empty()) t += "-";
  t += " x";
  for (int i = 0; i < extra; i++) t += d.DecodeNextBit() ? "1" : "0";
  return t + " " + S(db.remaining_size());
}
static std::string want_text(const std::vector<Op> &ops, int extra_zero, int rem) {
  std::string t = "ok ";
  for (size_t i = 0; i < ops.size(); i++) { if (i) t += ","; t += ops[i].lsb ? U(low(ops[i].v, ops[i].n)) : (ops[i].v ? "1" : "0"); }
  if (ops.empty()) t += "-";
  t += " x"; (void)extra_zero;
  return t + " " + S(rem);
}
static std::vector<uint8_t> corrupt(Rng &r, std::vector<uint8_t> b) {
  switch (r.below(4)) {
    case 0: if (!b.empty()) b.resize(r.below(b.size())); break;
    case 1: if (!b.empty()) b[r.below(b.size())] ^= (uint8_t)(1u << r.below(8)); break;
    case 2: if (!b.empty()) b[r.below(b.size() < 6 ? b.size() : 6)] = (uint8_t)r.next(); break;
    default: { b.clear(); int n = (int)r.below(20); for (int i = 0; i < n; i++) b.push_back((uint8_t)r.next()); }
  }
  return b;
}
static void coder_cases(Out &o, Rng &r, int n, int maxops) {
  for (int i = 0; i < n; i++) {
    int which = (int)r.below(4);
    std::vector<Op> ops = gen_ops(r, maxops, which == 1 && r.chance(50));
    EncoderBuffer eb; std::string name;
    switch (which) {
      case 0: { RAnsBitEncoder e; run_enc(e, ops, eb); name = "ransbit"; break; }
      case 1: { AdaptiveRAnsBitEncoder e; run_enc(e, ops, eb); name = "adaptive"; break; }
      case 2: { DirectBitEncoder e; run_enc(e, ops, eb); name = "direct"; break; }
      default: { FoldedBit32Encoder<RAnsBitEncoder> e; run_enc(e, ops, eb); name = "folded"; break; }
    }
    o.c(name + " " + ops_text(ops), hex(eb.data(), eb.size()));
    std::vector<uint8_t> buf(eb.data(), eb.data() + eb.size());
    int junk = (int)r.below(3); for (int k = 0; k < junk; k++) buf.push_back((uint8_t)r.next());
    // valid stream: values + exact consumption (search), and decode correspondence incl. reading past the end
    int extra = r.chance(30) ? (int)r.below(40) : 0;
    std::string res;
    switch (which) {
      case 0: { RAnsBitDecoder d; res = run_dec(d, ops, buf, 0x0202, 0); break; }
      case 1: { AdaptiveRAnsBitDecoder d; res = run_dec(d, ops, buf, 0x0202, 0); break; }
      case 2: res = run_dec_direct(ops, buf, 0); break;
      default: { FoldedBit32Decoder<RAnsBitDecoder> d; res = run_dec(d, ops, buf, 0x0202, 0); break; }
    }
    if (res != want_text(ops, 0, junk)) o.fail(name + " round trip: " + ops_text(ops) + " got [" + res + "]");
    { // the same sequence through coder OBJECTS THAT HAVE BEEN USED BEFORE (every earlier case of this run): a coder must forget its history
      static RAnsBitEncoder re0; static AdaptiveRAnsBitEncoder re1; static DirectBitEncoder re2; static FoldedBit32Encoder<RAnsBitEncoder> re3; static FoldedBit32Encoder<AdaptiveRAnsBitEncoder> re4;
      static RAnsBitDecoder rd0; static AdaptiveRAnsBitDecoder rd1; static FoldedBit32Decoder<RAnsBitDecoder> rd3; static FoldedBit32Decoder<AdaptiveRAnsBitDecoder> rd4;
      EncoderBuffer eb2; std::string r2;
      switch (which) { case 0: run_enc(re0, ops, eb2); r2 = run_dec(rd0, ops, buf, 0x0202, 0); break; case 1: run_enc(re1, ops, eb2); r2 = run_dec(rd1, ops, buf, 0x0202, 0); break;
                       case 2: run_enc(re2, ops, eb2); r2 = res; break; default: run_enc(re3, ops, eb2); r2 = run_dec(rd3, ops, buf, 0x0202, 0); break; }
      if (eb2.size() != eb.size() || memcmp(eb2.data(), eb.data(), eb.size()) != 0) o.fail(name + " reused ENCODER object produced different bytes: " + ops_text(ops));
      if (r2 != res) o.fail(name + " reused DECODER object decoded differently: " + ops_text(ops) + " got [" + r2 + "]");
      // folded over the adaptive coder (not used by the current encoders, still part of the library): fresh vs reused objects
      EncoderBuffer f1, f2; { FoldedBit32Encoder<AdaptiveRAnsBitEncoder> fe; run_enc(fe, ops, f1); } run_enc(re4, ops, f2);
      if (f1.size() != f2.size() || memcmp(f1.data(), f2.data(), f1.size()) != 0) o.fail("folded-adaptive reused ENCODER object produced different bytes: " + ops_text(ops));
      std::vector<uint8_t> fb(f1.data(), f1.data() + f1.size()); std::string a1, a2; { FoldedBit32Decoder<AdaptiveRAnsBitDecoder> fd; a1 = run_dec(fd, ops, fb, 0x0202, 0); } a2 = run_dec(rd4, ops, fb, 0x0202, 0);
      if (a1 != want_text(ops, 0, 0)) o.fail("folded-adaptive round trip: " + ops_text(ops) + " got [" + a1 + "]");
      if (a2 != a1) o.fail("folded-adaptive reused DECODER object decoded differently: " + ops_text(ops) + " got [" + a2 + "]"); }
    for (int pass = 0; pass < 2; pass++) {
      std::vector<uint8_t> b2 = pass == 0 ? buf : corrupt(r, buf);
      int ver = (pass == 1 && which != 1 && which != 2 && r.chance(30)) ? 0x0201 : 0x0202;
      std::string rr;
      switch (which) {
        case 0: { RAnsBitDecoder d; rr = run_dec(d, ops, b2, ver, extra); break; }
        case 1: { AdaptiveRAnsBitDecoder d; rr = run_dec(d, ops, b2, ver, extra); break; }
        case 2: rr = run_dec_direct(ops, b2, extra); break;
        default: { FoldedBit32Decoder<RAnsBitDecoder> d; rr = run_dec(d, ops, b2, ver, extra); break; }
      }
      o.c("d" + name + " " + S(ver) + " " + rops_text(ops) + " " + S(extra) + " " + hex(b2.data(), b2.size()), rr);
    }
  }
}

int main(int argc, char **argv) {
  if (argc < 4) { fprintf(stderr, "usage: h_C17 quick|thorough seed out\n"); return 2; }
  bool thorough = !strcmp(argv[1], "thorough");
  Rng r(strtoull(argv[2], 0, 10));
  Out o(argv[3]);
  o.note("C17 tier=" + std::string(argv[1]) + " seed=" + argv[2]);
  // exhaustive 8- and 16-bit varints (property: "exhaustive for 8 and 16 bit")
  for (int v = 0; v < 256; v++) { varint_case<uint8_t>(o, (uint8_t)v); varint_case<int8_t>(o, (int8_t)v); le_case<uint8_t>(o, (uint8_t)v); }
  int step16 = thorough ? 1 : 7;
  for (int v = (int)r.below(step16); v < 65536; v += step16) { varint_case<uint16_t>(o, (uint16_t)v); varint_case<int16_t>(o, (int16_t)v); }
  for (int k = 0; k <= 16; k++) for (int d = -2; d <= 2; d++) { int v = ((1 << k) + d) & 0xffff; varint_case<uint16_t>(o, (uint16_t)v); varint_case<int16_t>(o, (int16_t)v); le_case<uint16_t>(o, (uint16_t)v); }
  int n = thorough ? 200000 : 6000;
  for (int i = 0; i < n; i++) {
    uint64_t a = r.biased(32), b = r.biased(64);
    varint_case<uint32_t>(o, (uint32_t)a); varint_case<int32_t>(o, (int32_t)a);
    varint_case<uint64_t>(o, b); varint_case<int64_t>(o, (int64_t)b);
    if (i % 4 == 0) { le_case<uint32_t>(o, (uint32_t)a); le_case<uint64_t>(o, b); le_case<uint16_t>(o, (uint16_t)a); }
  }
  // arbitrary / malformed byte strings through the decoders
  int m = thorough ? 100000 : 5000;
  for (int i = 0; i < m; i++) {
    std::vector<uint8_t> bs = rand_varint_bytes(r);
    switch (r.below(8)) {
      case 0: varint_dec_case<uint8_t>(o, bs); break;
      case 1: varint_dec_case<int8_t>(o, bs); break;
      case 2: varint_dec_case<uint16_t>(o, bs); break;
      case 3: varint_dec_case<int16_t>(o, bs); break;
      case 4: varint_dec_case<uint32_t>(o, bs); break;
      case 5: varint_dec_case<int32_t>(o, bs); break;
      case 6: varint_dec_case<uint64_t>(o, bs); break;
      default: varint_dec_case<int64_t>(o, bs); break;
    }
    if (i % 5 == 0) { le_dec_case<uint32_t>(o, bs); le_dec_case<uint64_t>(o, bs); le_dec_case<uint16_t>(o, bs); }
  }
  bitseq_cases(o, r, thorough ? 40000 : 2500);
  coder_cases(o, r, thorough ? 30000 : 2500, 60);
  coder_cases(o, r, thorough ? 300 : 30, 6000);
  fprintf(stderr, "h_C17: %ld cases, %ld direct failures\n", o.cases, o.fails);
  return 0;
}
