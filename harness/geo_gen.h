// Shared geometry generators + canonical forms for the all-method search harnesses (h_c01, h_c10).
#pragma once
#include "common.h"
#include <algorithm>
#include <array>
#include <cmath>
#include <map>
#include <memory>
#include "draco/compression/decode.h"
#include "draco/compression/encode.h"
#include "draco/mesh/mesh.h"
#include "draco/mesh/triangle_soup_mesh_builder.h"
#include "draco/point_cloud/point_cloud_builder.h"
#include "draco/compression/expert_encode.h"
#include "draco/metadata/geometry_metadata.h"
using namespace draco;

typedef std::vector<uint8_t> Bytes;
// value bytes of all attributes (ordered by unique id) at one point; quantized attributes are taken from [ref] when given
static Bytes corner_key(const PointCloud &pc, PointIndex p, const std::vector<uint32_t> &uids) {
  Bytes k;
  for (uint32_t uid : uids) { const PointAttribute *a = pc.GetAttributeByUniqueId(uid); if (!a) { k.push_back(0xEE); continue; }
    Bytes b(a->byte_stride()); a->GetMappedValue(p, b.data()); k.push_back((uint8_t)a->attribute_type()); k.push_back((uint8_t)a->data_type()); k.push_back((uint8_t)a->num_components()); k.push_back((uint8_t)a->normalized()); k.insert(k.end(), b.begin(), b.end()); }
  return k;
}
static Bytes pos_key(const PointCloud &pc, PointIndex p) { const PointAttribute *a = pc.GetNamedAttribute(GeometryAttribute::POSITION); Bytes b(a ? a->byte_stride() : 0); if (a) a->GetMappedValue(p, b.data()); return b; }
// canonical multiset of faces; [drop_pos_degenerate]: faces using one position value twice are dropped (Edgebreaker may omit them)
static std::vector<Bytes> canon_mesh(const Mesh &m, const std::vector<uint32_t> &uids, bool drop_pos_degenerate) {
  std::vector<Bytes> fs;
  for (FaceIndex f(0); f < m.num_faces(); ++f) {
    Bytes c[3], pk[3]; for (int j = 0; j < 3; j++) { c[j] = corner_key(m, m.face(f)[j], uids); pk[j] = pos_key(m, m.face(f)[j]); }
    if (drop_pos_degenerate && (pk[0] == pk[1] || pk[1] == pk[2] || pk[0] == pk[2])) continue;
    int best = 0; for (int r = 1; r < 3; r++) { Bytes a = c[r], b = c[best]; a.insert(a.end(), c[(r + 1) % 3].begin(), c[(r + 1) % 3].end()); b.insert(b.end(), c[(best + 1) % 3].begin(), c[(best + 1) % 3].end()); a.insert(a.end(), c[(r + 2) % 3].begin(), c[(r + 2) % 3].end()); b.insert(b.end(), c[(best + 2) % 3].begin(), c[(best + 2) % 3].end()); if (a < b) best = r; }
    Bytes k; for (int j = 0; j < 3; j++) { k.insert(k.end(), c[(best + j) % 3].begin(), c[(best + j) % 3].end()); k.push_back(0xFF); }
    fs.push_back(k);
  }
  std::sort(fs.begin(), fs.end()); return fs;
}
static std::vector<Bytes> canon_pc(const PointCloud &pc, const std::vector<uint32_t> &uids) {
  std::vector<Bytes> ps; for (PointIndex p(0); p < pc.num_points(); ++p) ps.push_back(corner_key(pc, p, uids)); std::sort(ps.begin(), ps.end()); return ps;
}

struct GenInfo { std::vector<uint32_t> uids, unquantized_uids; };
// flavor 4: smooth integer height field around the origin (negative and positive int32 positions, smooth int16 generic): the
// parallelogram family predicts well here, so several parallelograms are averaged, with negative sums (truncation vs floor)
static std::unique_ptr<Mesh> gen_smooth_int_mesh(Rng &r, GenInfo &gi) {
  int n = (int)r.range(7, 12), nv = n * n; std::unique_ptr<Mesh> m(new Mesh()); m->set_num_points(nv);
  GeometryAttribute pa; pa.Init(GeometryAttribute::POSITION, nullptr, 3, DT_INT32, false, 12, 0); int pid = m->AddAttribute(pa, true, nv);
  GeometryAttribute ga; ga.Init(GeometryAttribute::GENERIC, nullptr, 2, DT_INT16, false, 4, 0); int gid = m->AddAttribute(ga, true, nv);
  int cx = (int)r.range(-200, 60), cy = (int)r.range(-200, 60), step = (int)r.range(3, 40), amp = (int)r.range(1, 6);
  for (int j = 0; j < n; j++) for (int i = 0; i < n; i++) { int v = j * n + i;
    int32_t pos[3] = {cx + step * (i - n / 2) + (int)r.range(-amp, amp), cy + step * (j - n / 2) + (int)r.range(-amp, amp), -((i - n / 2) * (i - n / 2) + (j - n / 2) * (j - n / 2)) / 2 + (int)r.range(-amp, amp)};
    int16_t g[2] = {(int16_t)(-3 * i - 2 * j + (int)r.range(-1, 1)), (int16_t)(5 * (i - j) - 40)};
    m->attribute(pid)->SetAttributeValue(AttributeValueIndex(v), pos); m->attribute(gid)->SetAttributeValue(AttributeValueIndex(v), g); }
  for (int j = 0; j + 1 < n; j++) for (int i = 0; i + 1 < n; i++) { if (r.chance(4)) continue; uint32_t a = j * n + i, b = a + 1, c = a + n, d = c + 1; Mesh::Face f1, f2;
    f1[0] = PointIndex(a); f1[1] = PointIndex(b); f1[2] = PointIndex(d); f2[0] = PointIndex(a); f2[1] = PointIndex(d); f2[2] = PointIndex(c); m->AddFace(f1); m->AddFace(f2); }
  for (int i = 0; i < m->num_attributes(); i++) { gi.uids.push_back(m->attribute(i)->unique_id()); gi.unquantized_uids.push_back(m->attribute(i)->unique_id()); }
  return m;
}
// "odd" meshes for the per-attribute (ExpertEncoder) paths: 1..5 attributes in random order (POSITION anywhere, duplicate types allowed),
// 1..6 components, int8..uint32 / float32, normalized flag at random, identity or explicit point->value maps with shared values,
// per-vertex element types, attribute and geometry metadata; tiny sizes included (1 face, isolated points)
struct OddAtt { int att_id; bool is_float; int nc; GeometryAttribute::Type type; };
static std::unique_ptr<Mesh> gen_odd_mesh(Rng &r, GenInfo &gi, std::vector<OddAtt> &atts, bool with_faces = true) {
  int w = (int)r.range(1, 6), h = (int)r.range(1, 6), np = (w + 1) * (h + 1) + (r.chance(20) ? (int)r.range(1, 3) : 0);   // + isolated points
  std::unique_ptr<Mesh> m(new Mesh()); m->set_num_points(np);
  int na = (int)r.range(1, 5), pos_at = (int)r.below(na);
  static const GeometryAttribute::Type types[] = {GeometryAttribute::NORMAL, GeometryAttribute::COLOR, GeometryAttribute::TEX_COORD, GeometryAttribute::GENERIC, GeometryAttribute::GENERIC};
  static const DataType dts[] = {DT_INT8, DT_UINT8, DT_INT16, DT_UINT16, DT_INT32, DT_UINT32, DT_FLOAT32, DT_FLOAT32};
  for (int a = 0; a < na; a++) {
    GeometryAttribute::Type t = a == pos_at ? GeometryAttribute::POSITION : types[r.below(5)];
    DataType dt = a == pos_at ? (r.chance(70) ? DT_FLOAT32 : DT_INT32) : dts[r.below(8)];
    int nc = t == GeometryAttribute::POSITION || t == GeometryAttribute::NORMAL ? 3 : (t == GeometryAttribute::TEX_COORD ? 2 : (int)r.range(1, 6));
    if (t == GeometryAttribute::NORMAL) dt = DT_FLOAT32;
    bool norm = dt != DT_FLOAT32 && r.chance(30); int sz = DataTypeLength(dt);
    GeometryAttribute ga; ga.Init(t, nullptr, (uint8_t)nc, dt, norm, (int64_t)sz * nc, 0);
    bool ident = a == pos_at ? true : r.chance(60); int nv = ident ? np : (int)r.range(1, np);
    int id = m->AddAttribute(ga, ident, nv); PointAttribute *pa = m->attribute(id);
    for (int v = 0; v < nv; v++) { uint8_t buf[64] = {0};
      for (int c = 0; c < nc; c++) { int x = v % (w + 1), y = v / (w + 1);
        if (dt == DT_FLOAT32) { float f = t == GeometryAttribute::POSITION ? (c == 0 ? (float)x + 0.03f * (float)((v * 7) % 5) : c == 1 ? (float)y : (float)((v * 5) % 7) / 3.f) : (float)r.range(-300, 300) / 37.f; if (t == GeometryAttribute::NORMAL) f = (c == v % 3) ? 1.f : 0.1f * (float)(c + 1); memcpy(buf + 4 * c, &f, 4); }
        else { int64_t val = t == GeometryAttribute::POSITION ? (c == 0 ? x * 9 + (v % 3) : c == 1 ? y * 9 : (v * 5) % 11) - 20 : r.range(-100, 100); if (dt == DT_UINT8 || dt == DT_UINT16 || dt == DT_UINT32) val = val < 0 ? -val : val; memcpy(buf + sz * c, &val, sz); } }
      pa->SetAttributeValue(AttributeValueIndex(v), buf); }
    if (!ident) { pa->SetExplicitMapping(np); for (int p = 0; p < np; p++) pa->SetPointMapEntry(PointIndex(p), AttributeValueIndex((uint32_t)(r.chance(70) ? p % nv : r.below(nv)))); }
    if (a != pos_at && ident && r.chance(25)) m->SetAttributeElementType(id, MESH_VERTEX_ATTRIBUTE);
    if (r.chance(25)) { std::unique_ptr<AttributeMetadata> am(new AttributeMetadata()); am->AddEntryString("name", "att" + S(a)); am->AddEntryInt("k", a * 3 - 1); m->AddAttributeMetadata(id, std::move(am)); }
    atts.push_back({id, dt == DT_FLOAT32, nc, t}); gi.uids.push_back(pa->unique_id());
  }
  if (r.chance(25)) { std::unique_ptr<GeometryMetadata> gm(new GeometryMetadata()); gm->AddEntryString("generator", "odd"); gm->AddEntryDouble("d", 0.5); if (m->GetMetadata() == nullptr) m->AddMetadata(std::move(gm)); }
  if (!with_faces) return m;
  auto id = [&](int x, int y) { return y * (w + 1) + x; };
  for (int y = 0; y < h; y++) for (int x = 0; x < w; x++) { if (r.chance(10)) continue; Mesh::Face f1, f2; f1[0] = PointIndex(id(x, y)); f1[1] = PointIndex(id(x + 1, y)); f1[2] = PointIndex(id(x + 1, y + 1)); f2[0] = PointIndex(id(x, y)); f2[1] = PointIndex(id(x + 1, y + 1)); f2[2] = PointIndex(id(x, y + 1)); m->AddFace(f1); m->AddFace(f2); }
  if (m->num_faces() == 0) { Mesh::Face f; f[0] = PointIndex(0); f[1] = PointIndex(1); f[2] = PointIndex(w + 2); m->AddFace(f); }
  return m;
}
// flavor 5: closed surface of genus 1 (w x h grid wrapped both ways) with its faces in random order: the Edgebreaker traversal then
// needs topology split events, sometimes two for one symbol
static std::unique_ptr<Mesh> gen_torus_mesh(Rng &r, GenInfo &gi) {
  int w = (int)r.range(3, 6), h = (int)r.range(3, 6); std::vector<std::array<int, 3>> faces; auto id = [&](int x, int y) { return (y % h) * w + (x % w); };
  for (int y = 0; y < h; y++) for (int x = 0; x < w; x++) { faces.push_back({id(x, y), id(x + 1, y), id(x + 1, y + 1)}); faces.push_back({id(x, y), id(x + 1, y + 1), id(x, y + 1)}); }
  for (int i = (int)faces.size() - 1; i > 0; i--) std::swap(faces[i], faces[r.below(i + 1)]);
  if (r.chance(30)) faces.resize(faces.size() - 1 - r.below(3));   // sometimes with a small hole
  TriangleSoupMeshBuilder mb; mb.Start((int)faces.size()); int pos = mb.AddAttribute(GeometryAttribute::POSITION, 3, DT_FLOAT32); int gen = r.chance(50) ? mb.AddAttribute(GeometryAttribute::GENERIC, 1, DT_UINT8) : -1;
  auto P = [&](int v, float *o) { float a = 6.2831853f * (float)(v % w) / (float)w, b = 6.2831853f * (float)(v / w) / (float)h; o[0] = (3.f + std::cos(b)) * std::cos(a); o[1] = (3.f + std::cos(b)) * std::sin(a); o[2] = std::sin(b); };
  for (size_t f = 0; f < faces.size(); f++) { float a[3], b[3], c[3]; P(faces[f][0], a); P(faces[f][1], b); P(faces[f][2], c); mb.SetAttributeValuesForFace(pos, FaceIndex((uint32_t)f), a, b, c);
    if (gen >= 0) { uint8_t v = (uint8_t)(f % 3); mb.SetPerFaceAttributeValueForFace(gen, FaceIndex((uint32_t)f), &v); } }
  auto m = mb.Finalize(); if (!m) return nullptr;
  for (int i = 0; i < m->num_attributes(); i++) { gi.uids.push_back(m->attribute(i)->unique_id()); if (m->attribute(i)->data_type() != DT_FLOAT32) gi.unquantized_uids.push_back(m->attribute(i)->unique_id()); }
  return m;
}
static std::unique_ptr<Mesh> gen_mesh(Rng &r, int flavor, GenInfo &gi) {
  if (flavor == 4) return gen_smooth_int_mesh(r, gi);
  if (flavor == 5) return gen_torus_mesh(r, gi);
  // flavor 3: "curtain" - (x,y) from the column only, z from the row only: all faces vertical after quantization (integer geometric normals with z == 0)
  const bool curtain = flavor == 3; if (curtain) flavor = 0;
  TriangleSoupMeshBuilder mb; int w = (int)r.range(1, 8), h = (int)r.range(1, 8);
  std::vector<std::array<int, 3>> faces; auto id = [&](int x, int y) { return y * (w + 1) + x; };
  for (int y = 0; y < h; y++) for (int x = 0; x < w; x++) { if (r.chance(10)) continue;
    if (r.chance(50)) { faces.push_back({id(x, y), id(x + 1, y), id(x + 1, y + 1)}); faces.push_back({id(x, y), id(x + 1, y + 1), id(x, y + 1)}); }
    else { faces.push_back({id(x, y), id(x + 1, y), id(x, y + 1)}); faces.push_back({id(x + 1, y), id(x + 1, y + 1), id(x, y + 1)}); } }
  int npts = (w + 1) * (h + 1);
  if (flavor >= 1) for (int i = 0, n = (int)r.below(5); i < n; i++) { int a = (int)r.below(npts), b = (int)r.below(npts), c = r.chance(25) ? a : (int)r.below(npts); faces.push_back({a, b, c}); }
  if (flavor >= 2 && !faces.empty()) for (int i = 0, n = (int)r.below(3); i < n; i++) { auto f = faces[r.below(faces.size())]; if (r.chance(50)) std::swap(f[0], f[1]); faces.push_back(f); }
  if (faces.empty()) faces.push_back({0, 1, npts - 1});
  mb.Start((int)faces.size());
  const bool ipos = !curtain && r.chance(25);   // integer positions (plain integer attribute decoder, nothing to skip or dequantize)
  int pos = mb.AddAttribute(GeometryAttribute::POSITION, 3, ipos ? DT_INT32 : DT_FLOAT32);
  int tex = r.chance(70) ? mb.AddAttribute(GeometryAttribute::TEX_COORD, 2, DT_FLOAT32) : -1;
  int nor = (curtain || r.chance(40)) ? mb.AddAttribute(GeometryAttribute::NORMAL, 3, DT_FLOAT32) : -1;
  int gi16 = r.chance(40) ? mb.AddAttribute(GeometryAttribute::GENERIC, 2, DT_INT16) : -1;
  int gu8 = r.chance(40) ? mb.AddAttribute(GeometryAttribute::GENERIC, 1, DT_UINT8) : -1;
  int seam = r.chance(50) ? (int)r.range(1, w) : -1; bool collapse = r.chance(15);
  for (size_t f = 0; f < faces.size(); f++) { auto &F = faces[f]; float P[3][3], uv[3][2], n[3][3]; int16_t g[3][2];
    for (int k = 0; k < 3; k++) { int x = F[k] % (w + 1), y = F[k] / (w + 1);
      P[k][0] = (float)x + (float)((F[k] * 7) % 13) / 40.f; P[k][1] = (float)y + (float)((F[k] * 3) % 7) / 50.f; P[k][2] = (float)((F[k] * 5) % 11) / 7.f;
      if (curtain) { P[k][0] = (float)x; P[k][1] = 0.5f * (float)x + ((x & 1) ? 0.75f : 0.f); P[k][2] = 1.25f * (float)y; }
      if (collapse && x == 0) { P[k][0] = 0; P[k][1] = 0; P[k][2] = 0; }   // several grid points share one position value
      bool right = seam >= 0 && (F[0] % (w + 1)) >= seam; uv[k][0] = (float)x / (w + 1) + (right ? .5f : 0.f); uv[k][1] = (float)y / (h + 1);
      float a = (float)((F[k] * 37) % 100) / 16.f; n[k][0] = std::sin(a); n[k][1] = std::cos(a) * .6f; n[k][2] = .8f * std::cos(a);
      g[k][0] = (int16_t)(F[k] % 9 - 4); g[k][1] = (int16_t)((f % 3) * 100 - 100); }
    if (ipos) { int32_t q[3][3]; for (int k = 0; k < 3; k++) for (int c = 0; c < 3; c++) q[k][c] = (int32_t)std::lround(P[k][c] * 40.f); mb.SetAttributeValuesForFace(pos, FaceIndex((uint32_t)f), q[0], q[1], q[2]); }
    else mb.SetAttributeValuesForFace(pos, FaceIndex((uint32_t)f), P[0], P[1], P[2]);
    if (tex >= 0) mb.SetAttributeValuesForFace(tex, FaceIndex((uint32_t)f), uv[0], uv[1], uv[2]);
    if (nor >= 0) mb.SetAttributeValuesForFace(nor, FaceIndex((uint32_t)f), n[0], n[1], n[2]);
    if (gi16 >= 0) mb.SetAttributeValuesForFace(gi16, FaceIndex((uint32_t)f), g[0], g[1], g[2]);
    if (gu8 >= 0) { uint8_t v = (uint8_t)(f % 5); mb.SetPerFaceAttributeValueForFace(gu8, FaceIndex((uint32_t)f), &v); } }
  auto m = mb.Finalize(); if (!m) return nullptr;
  for (int i = 0; i < m->num_attributes(); i++) { gi.uids.push_back(m->attribute(i)->unique_id()); if (m->attribute(i)->data_type() != DT_FLOAT32) gi.unquantized_uids.push_back(m->attribute(i)->unique_id()); }
  return m;
}
static std::unique_ptr<PointCloud> gen_pc(Rng &r, GenInfo &gi, bool extra_float = false) {
  PointCloudBuilder pb; int n = (int)r.range(1, 150); pb.Start(n);
  int pos = pb.AddAttribute(GeometryAttribute::POSITION, 3, DT_FLOAT32); int col = r.chance(60) ? pb.AddAttribute(GeometryAttribute::COLOR, 3, DT_UINT8) : -1;
  int g16 = r.chance(40) ? pb.AddAttribute(GeometryAttribute::GENERIC, 2, DT_INT16) : -1;
  int tex = extra_float && r.chance(70) ? pb.AddAttribute(GeometryAttribute::TEX_COORD, 2, DT_FLOAT32) : -1, nor = extra_float && r.chance(50) ? pb.AddAttribute(GeometryAttribute::NORMAL, 3, DT_FLOAT32) : -1, gf = extra_float && r.chance(40) ? pb.AddAttribute(GeometryAttribute::GENERIC, 1, DT_FLOAT32) : -1; int g32 = r.chance(30) ? pb.AddAttribute(GeometryAttribute::GENERIC, 1, DT_UINT32) : -1;
  for (int i = 0; i < n; i++) { float p[3] = {(float)r.range(-500, 500) / 8.f, (float)r.range(-500, 500) / 8.f, (float)r.range(-60, 60) / 4.f}; if (r.chance(10) && i > 0) p[0] = p[1] = p[2] = 1.f; pb.SetAttributeValueForPoint(pos, PointIndex(i), p);
    if (tex >= 0) { float t[2] = {(float)r.below(64) / 64.f, (float)r.below(1000) / 999.f}; pb.SetAttributeValueForPoint(tex, PointIndex(i), t); }
    if (nor >= 0) { float a = (float)r.below(1000) / 100.f, b = (float)r.below(1000) / 150.f; float nn[3] = {std::sin(a) * std::cos(b), std::sin(a) * std::sin(b), std::cos(a)}; pb.SetAttributeValueForPoint(nor, PointIndex(i), nn); }
    if (gf >= 0) { float g = (float)r.range(-100, 100) / 3.f; pb.SetAttributeValueForPoint(gf, PointIndex(i), &g); }
    if (col >= 0) { uint8_t c[3] = {(uint8_t)r.below(256), (uint8_t)r.below(6), (uint8_t)i}; pb.SetAttributeValueForPoint(col, PointIndex(i), c); }
    if (g16 >= 0) { int16_t g[2] = {(int16_t)r.range(-400, 400), (int16_t)r.range(-3, 3)}; pb.SetAttributeValueForPoint(g16, PointIndex(i), g); }
    if (g32 >= 0) { uint32_t g = (uint32_t)r.below(70000); pb.SetAttributeValueForPoint(g32, PointIndex(i), &g); } }
  auto p = pb.Finalize(r.chance(50)); if (!p) return nullptr;
  for (int i = 0; i < p->num_attributes(); i++) { gi.uids.push_back(p->attribute(i)->unique_id()); if (p->attribute(i)->data_type() != DT_FLOAT32) gi.unquantized_uids.push_back(p->attribute(i)->unique_id()); }
  return p;
}
