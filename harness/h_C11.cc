// C11 correspondence + search harness: MetadataEncoder / MetadataDecoder of /repo against the Coq
// model, directly and through full point-cloud / mesh encodes.
//
// Tree text (see driver/d_C11.ml): node = {name=value,...;name:node,...}, geometry = <id:node,...>node,
// names/values in hex ("-" = empty).  Trees are built through the public container API from a random
// description (unsorted, with duplicate names) and then printed in the order the C++ containers iterate,
// so what the model receives is exactly what the encoder sees.
#include "common.h"
#include <map>
#include <memory>
#include "draco/core/encoder_buffer.h"
#include "draco/core/decoder_buffer.h"
#include "draco/metadata/metadata_encoder.h"
#include "draco/metadata/metadata_decoder.h"
#include "draco/metadata/geometry_metadata.h"
#include "draco/point_cloud/point_cloud.h"
#include "draco/mesh/mesh.h"
#include "draco/compression/encode.h"
#include "draco/compression/decode.h"
using namespace draco;

// ------------------------------------------------------------------ printing what the containers hold
static void print_node(const Metadata &m, std::string &o) {
  o += '{';
  bool first = true;
  for (const auto &e : m.entries()) {
    if (!first) o += ','; first = false;
    o += hex(e.first.data(), e.first.size()); o += '=';
    const std::vector<uint8_t> &d = e.second.data();
    o += hex(d.data(), d.size());
  }
  o += ';';
  first = true;
  for (const auto &s : m.sub_metadatas()) {
    if (!first) o += ','; first = false;
    o += hex(s.first.data(), s.first.size()); o += ':';
    print_node(*s.second, o);
  }
  o += '}';
}
static std::string print_geom(const GeometryMetadata &g) {
  std::string o = "<";
  bool first = true;
  for (const auto &a : g.attribute_metadatas()) {
    if (!first) o += ','; first = false;
    o += U(a->att_unique_id()); o += ':';
    print_node(*a, o);
  }
  o += '>';
  print_node(g, o);
  return o;
}
static std::string print_meta(const Metadata &m) { std::string o = "<>"; print_node(m, o); return o; }

// ------------------------------------------------------------------ generators
struct Cfg { bool long_names, empty_values, big_values; int max_depth, max_entries, max_subs; int *budget; };
struct Stats { long names[8] = {0}, vals[8] = {0}, trees = 0, enc_fail = 0, enc_ok = 0, deep = 0, dup_entry = 0, dup_sub = 0,
               dec_ok = 0, dec_fail = 0, full = 0, maxdepth[12] = {0}; } st;

static const uint8_t kAlpha[] = {0x00, 0x01, 0x41, 0x61, 0x62, 0x7f, 0x80, 0xff};
static std::string gen_name(Rng &r, const Cfg &c) {
  size_t n;
  int k = (int)r.below(100);
  if (k < 8) n = 0; else if (k < 45) n = 1; else if (k < 70) n = 2; else if (k < 85) n = 3 + r.below(6);
  else if (k < 89) n = 254; else if (k < 94) n = 255;
  else if (c.long_names) n = r.chance(50) ? 256 : 300; else n = 10 + r.below(100);
  std::string s(n, '\0');
  if (n >= 254 && r.chance(60)) {  // long names sharing a long prefix: ordering decided late / by length
    for (size_t i = 0; i < n; i++) s[i] = (char)0x61;
    if (r.chance(50)) s[n - 1] = (char)kAlpha[r.below(8)];
  } else {
    for (size_t i = 0; i < n; i++) s[i] = (char)(r.chance(75) ? kAlpha[r.below(8)] : (uint8_t)r.next());
  }
  st.names[n == 0 ? 0 : n == 1 ? 1 : n < 254 ? 2 : n == 254 ? 3 : n == 255 ? 4 : n == 256 ? 5 : 6]++;
  return s;
}
static std::vector<uint8_t> gen_value(Rng &r, const Cfg &c) {
  size_t n;
  int k = (int)r.below(1000);
  if (k < 20) n = c.empty_values ? 0 : 1;
  else if (k < 500) n = 1 + r.below(8);
  else if (k < 800) n = 1 + r.below(40);
  else if (k < 960) { static const size_t b[] = {126, 127, 128, 129, 255, 256, 257}; n = b[r.below(7)]; }
  else if (k < 990) n = 300 + r.below(3000);
  else if (c.big_values && *c.budget > 100) { static const size_t b[] = {16383, 16384, 16385, 65535, 65536}; n = b[r.below(5)]; *c.budget -= 100; }
  else n = 1 + r.below(16);
  std::vector<uint8_t> v(n);
  for (size_t i = 0; i < n; i++) v[i] = (uint8_t)r.next();
  st.vals[n == 0 ? 0 : n < 127 ? 1 : n < 300 ? 2 : n < 16000 ? 3 : 4]++;
  return v;
}

// fill a Metadata through the public API, exercising every entry type
static void add_entry(Rng &r, const Cfg &c, Metadata *m, const std::string &name) {
  int32_t dummy_i; std::vector<uint8_t> dummy;
  if (m->GetEntryBinary(name, &dummy) || m->entries().count(name)) st.dup_entry++;
  switch (r.below(10)) {
    case 0: m->AddEntryInt(name, (int32_t)r.next()); break;
    case 1: { uint64_t b = r.next(); double d; memcpy(&d, &b, 8); m->AddEntryDouble(name, d); break; }
    case 2: { std::vector<uint8_t> v = gen_value(r, c); m->AddEntryString(name, std::string(v.begin(), v.end())); break; }
    case 3: { int n = (int)r.below(5) + (c.empty_values ? 0 : 1); std::vector<int32_t> a(n); for (auto &x : a) x = (int32_t)r.next();
              if (n) m->AddEntryIntArray(name, a); else m->AddEntryString(name, ""); break; }
    case 4: { int n = (int)r.below(4) + 1; std::vector<double> a(n); for (auto &x : a) { uint64_t b = r.next(); memcpy(&x, &b, 8); }
              m->AddEntryDoubleArray(name, a); break; }
    default: { std::vector<uint8_t> v = gen_value(r, c); if (v.empty()) m->AddEntryString(name, ""); else m->AddEntryBinary(name, v); break; }
  }
  (void)dummy_i;
}
static int fill(Rng &r, const Cfg &c, Metadata *m, int depth) {
  int ne = 0;
  int k = (int)r.below(100);
  if (k < 25) ne = 0; else if (k < 70) ne = 1 + (int)r.below(3); else if (k < 95) ne = (int)r.below(12); else ne = (int)r.below(c.max_entries + 1);
  if (c.max_entries > 100 && depth == 0) ne = (int)r.range(254, c.max_entries);
  std::vector<std::string> used;
  for (int i = 0; i < ne && *c.budget > 0; i++) {
    std::string nm = (!used.empty() && r.chance(10)) ? used[r.below(used.size())] : gen_name(r, c);
    if (c.max_entries > 100 && depth == 0) nm = S(i) + "_" + nm.substr(0, 3);   // wide levels: distinct names, so that the level really has > 255 entries
    used.push_back(nm);
    add_entry(r, c, m, nm);
    (*c.budget)--;
  }
  int maxd = depth;
  if (depth < c.max_depth) {
    int ns = r.chance(30) ? 0 : 1 + (int)r.below(c.max_subs);
    if (c.max_subs > 100 && depth == 0) ns = (int)r.range(254, c.max_subs);
    for (int i = 0; i < ns && *c.budget > 0; i++) {
      // sub names may repeat entry names (different maps) and, rarely, each other (AddSubMetadata then fails)
      std::string nm = (!used.empty() && r.chance(25)) ? used[r.below(used.size())] : gen_name(r, c);
      if (c.max_subs > 100 && depth == 0) nm = "s" + S(i) + "_" + nm.substr(0, 3);
      used.push_back(nm);
      std::unique_ptr<Metadata> sub(new Metadata());
      (*c.budget) -= 2;
      int d = fill(r, c, sub.get(), depth + 1);
      if (!m->AddSubMetadata(nm, std::move(sub))) st.dup_sub++; else if (d > maxd) maxd = d;
    }
  }
  return maxd;
}
// a chain of n nested sub-metadata below m (iteratively built bottom-up to keep the harness stack flat)
static void chain(Rng &r, Metadata *m, int n, bool with_entries) {
  std::unique_ptr<Metadata> cur;
  for (int i = 0; i < n; i++) {
    std::unique_ptr<Metadata> p(new Metadata());
    if (with_entries && r.chance(5)) p->AddEntryInt("d", i);
    if (cur) p->AddSubMetadata(r.chance(50) ? "" : "c", std::move(cur));
    cur = std::move(p);
  }
  if (cur) m->AddSubMetadata("chain", std::move(cur));
}

static std::unique_ptr<GeometryMetadata> gen_geom(Rng &r, int &maxdepth) {
  int budget = 30 + (int)r.below(r.chance(10) ? 600 : 120);
  Cfg c;
  c.long_names = r.chance(6); c.empty_values = r.chance(6); c.big_values = r.chance(8);
  c.max_depth = (int)r.below(9); c.max_entries = 40; c.max_subs = 1 + (int)r.below(4); c.budget = &budget;
  // counts are varints: levels with more than 255 entries / more than 255 sub-metadata (a count squeezed into one byte would wrap)
  const int wide = (int)r.below(100); if (wide < 3) { c.max_entries = 330; budget = 1500; c.max_depth = (int)r.below(2); } else if (wide < 5) { c.max_subs = 290; budget = 1800; c.max_depth = 1; }
  std::unique_ptr<GeometryMetadata> g(new GeometryMetadata());
  maxdepth = fill(r, c, g.get(), 0);
  int na = r.chance(50) ? 0 : (int)r.below(4);
  uint32_t last_id = 0;
  for (int i = 0; i < na; i++) {
    std::unique_ptr<AttributeMetadata> a(new AttributeMetadata());
    uint32_t id = (i > 0 && r.chance(25)) ? last_id : (uint32_t)r.biased(32);  // equal ids are legal for the container
    if (r.chance(40)) id = (uint32_t)r.below(4);
    last_id = id;
    a->set_att_unique_id(id);
    Cfg ca = c; ca.max_depth = (int)r.below(4);
    int d = fill(r, ca, a.get(), 0);
    if (d > maxdepth) maxdepth = d;
    g->AddAttributeMetadata(std::move(a));
  }
  return g;
}

// ------------------------------------------------------------------ cases
static bool decode_geom(const std::vector<uint8_t> &bytes, std::string *text, int64_t *remaining) {
  DecoderBuffer db; db.Init((const char *)bytes.data(), bytes.size());
  GeometryMetadata g;
  MetadataDecoder d;
  if (!d.DecodeGeometryMetadata(&db, &g)) return false;
  *text = print_geom(g); *remaining = db.remaining_size();
  return true;
}
static bool decode_meta(const std::vector<uint8_t> &bytes, std::string *text, int64_t *remaining) {
  DecoderBuffer db; db.Init((const char *)bytes.data(), bytes.size());
  Metadata m;
  MetadataDecoder d;
  if (!d.DecodeMetadata(&db, &m)) return false;
  *text = print_meta(m); *remaining = db.remaining_size();
  return true;
}
static void mdec_case(Out &o, const std::vector<uint8_t> &bytes) {
  std::string t; int64_t rem = 0;
  bool ok = decode_geom(bytes, &t, &rem);
  o.c("mdec " + hex(bytes.data(), bytes.size()), ok ? "ok " + t + " " + S(rem) : "fail");
  (ok ? st.dec_ok : st.dec_fail)++;
}
static void ndec_case(Out &o, const std::vector<uint8_t> &bytes) {
  std::string t; int64_t rem = 0;
  bool ok = decode_meta(bytes, &t, &rem);
  o.c("ndec " + hex(bytes.data(), bytes.size()), ok ? "ok " + t + " " + S(rem) : "fail");
  (ok ? st.dec_ok : st.dec_fail)++;
}

static std::string brief(const std::string &t) { return t.size() > 600 ? t.substr(0, 600) + "...(" + S(t.size()) + " chars)" : t; }

// full geometry round trip with the metadata attached: decode must succeed and return the same metadata
static void full_roundtrip(Out &o, Rng &r, const GeometryMetadata &g, const std::string &text, bool menc_ok, int which) {
  st.full++;
  const int n = 4;
  float pts[n][3] = {{0, 0, 0}, {1, 0, 0}, {0, 1, 0}, {0.5f, 0.25f, 1}};
  std::unique_ptr<PointCloud> pc;
  Mesh *mesh = nullptr;
  bool is_mesh = which >= 2;
  if (is_mesh) { mesh = new Mesh(); pc.reset(mesh); } else pc.reset(new PointCloud());
  pc->set_num_points(n);
  GeometryAttribute ga; ga.Init(GeometryAttribute::POSITION, nullptr, 3, DT_FLOAT32, false, 12, 0);
  int aid = pc->AddAttribute(ga, true, n);
  for (int i = 0; i < n; i++) pc->attribute(aid)->SetAttributeValue(AttributeValueIndex(i), pts[i]);
  if (is_mesh) {
    Mesh::Face f; f[0] = PointIndex(0); f[1] = PointIndex(1); f[2] = PointIndex(2); mesh->AddFace(f);
    f[0] = PointIndex(1); f[1] = PointIndex(3); f[2] = PointIndex(2); mesh->AddFace(f);
  }
  pc->AddMetadata(std::unique_ptr<GeometryMetadata>(new GeometryMetadata(g)));
  Encoder enc;
  static const int methods[] = {POINT_CLOUD_SEQUENTIAL_ENCODING, POINT_CLOUD_KD_TREE_ENCODING, MESH_SEQUENTIAL_ENCODING, MESH_EDGEBREAKER_ENCODING};
  enc.SetEncodingMethod(methods[which]);
  if (which == 1 || r.chance(50)) enc.SetAttributeQuantization(GeometryAttribute::POSITION, 10);
  enc.SetSpeedOptions((int)r.below(11), (int)r.below(11));
  EncoderBuffer eb;
  Status s = is_mesh ? enc.EncodeMeshToBuffer(*mesh, &eb) : enc.EncodePointCloudToBuffer(*pc, &eb);
  std::string tag = "full method=" + S(methods[which]) + (is_mesh ? " mesh " : " pc ");
  if (s.ok() != menc_ok) { o.fail(tag + "geometry encode " + (s.ok() ? "succeeded" : "failed") + " but MetadataEncoder " + (menc_ok ? "succeeded" : "failed") + ": " + brief(text)); return; }
  if (!s.ok()) return;
  // header flag METADATA_FLAG_MASK (0x8000) at offset 9..10
  if (eb.size() < 11 || !((uint8_t)eb.data()[10] & 0x80)) { o.fail(tag + "metadata flag not set in header: " + brief(text)); return; }
  DecoderBuffer db; db.Init(eb.data(), eb.size());
  Decoder dec;
  const GeometryMetadata *got = nullptr;
  std::unique_ptr<PointCloud> opc; std::unique_ptr<Mesh> om;
  if (is_mesh) { auto so = dec.DecodeMeshFromBuffer(&db); if (so.ok()) { om = std::move(so).value(); got = om->GetMetadata(); } }
  else { auto so = dec.DecodePointCloudFromBuffer(&db); if (so.ok()) { opc = std::move(so).value(); got = opc->GetMetadata(); } }
  if (!got) { o.fail(tag + "encode ok but decode failed or returned no metadata: " + brief(text)); return; }
  if (print_geom(*got) != text) o.fail(tag + "metadata altered by the round trip: in=" + brief(text) + " out=" + brief(print_geom(*got)));
}

// per-attribute metadata is keyed by the attribute's UNIQUE ID: geometries whose attributes carry application-chosen unique ids (not
// their indices), in an order the coder may change, must come back with every attribute findable under its id and with its own metadata
static void attribute_metadata_roundtrip(Out &o, Rng &r, int which) {
  const bool is_mesh = which >= 2; std::unique_ptr<PointCloud> pc; Mesh *mesh = nullptr; if (is_mesh) { mesh = new Mesh(); pc.reset(mesh); } else pc.reset(new PointCloud());
  const int n = 6; pc->set_num_points(n);
  struct A { GeometryAttribute::Type t; int nc; DataType dt; uint32_t uid; std::string meta; }; std::vector<A> as;
  static const GeometryAttribute::Type ts[] = {GeometryAttribute::NORMAL, GeometryAttribute::COLOR, GeometryAttribute::TEX_COORD, GeometryAttribute::GENERIC};
  int na = (int)r.range(2, 4), pos_at = (int)r.below(na); std::vector<uint32_t> ids = {7, 42, 3, 19, 100, 1, 0, 2}; for (int i = (int)ids.size() - 1; i > 0; i--) std::swap(ids[i], ids[r.below(i + 1)]);
  for (int a = 0; a < na; a++) { A x; x.t = a == pos_at ? GeometryAttribute::POSITION : ts[r.below(4)]; x.nc = x.t == GeometryAttribute::TEX_COORD ? 2 : (x.t == GeometryAttribute::GENERIC ? 1 : 3);
    x.dt = (x.t == GeometryAttribute::COLOR) ? DT_UINT8 : (x.t == GeometryAttribute::GENERIC ? DT_INT32 : DT_FLOAT32); x.uid = ids[a];
    GeometryAttribute ga; ga.Init(x.t, nullptr, (uint8_t)x.nc, x.dt, false, (int64_t)DataTypeLength(x.dt) * x.nc, 0); int id = pc->AddAttribute(ga, true, n); pc->attribute(id)->set_unique_id(x.uid);
    for (int p = 0; p < n; p++) { uint8_t buf[16] = {0}; for (int c = 0; c < x.nc; c++) { if (x.dt == DT_FLOAT32) { float f = x.t == GeometryAttribute::NORMAL ? (c == p % 3 ? 1.f : 0.f) : (float)((p * (c + 2) + a) % 7) / 3.f + (c == 0 ? (float)p : 0.f); memcpy(buf + 4 * c, &f, 4); } else if (x.dt == DT_INT32) { int32_t v = p * 3 - a; memcpy(buf + 4 * c, &v, 4); } else buf[c] = (uint8_t)(p * 40 + c); }
      pc->attribute(id)->SetAttributeValue(AttributeValueIndex(p), buf); }
    if (r.chance(75)) { std::unique_ptr<AttributeMetadata> am(new AttributeMetadata()); am->AddEntryString("owner", "uid" + U(x.uid)); am->AddEntryInt("type", (int)x.t); if (r.chance(40)) { std::unique_ptr<Metadata> sub(new Metadata()); sub->AddEntryInt("deep", (int)x.uid * 2); am->AddSubMetadata("s", std::move(sub)); }
      x.meta = print_meta(*am); pc->AddAttributeMetadata(id, std::move(am)); }
    as.push_back(x); }
  if (is_mesh) { Mesh::Face f; f[0] = PointIndex(0); f[1] = PointIndex(1); f[2] = PointIndex(2); mesh->AddFace(f); f[0] = PointIndex(1); f[1] = PointIndex(3); f[2] = PointIndex(2); mesh->AddFace(f); f[0] = PointIndex(3); f[1] = PointIndex(4); f[2] = PointIndex(5); mesh->AddFace(f); }
  static const int methods[] = {POINT_CLOUD_SEQUENTIAL_ENCODING, POINT_CLOUD_KD_TREE_ENCODING, MESH_SEQUENTIAL_ENCODING, MESH_EDGEBREAKER_ENCODING};
  Encoder enc; enc.SetEncodingMethod(methods[which]); int speed = (int)r.below(11); enc.SetSpeedOptions(speed, speed);
  enc.SetAttributeQuantization(GeometryAttribute::POSITION, 11); enc.SetAttributeQuantization(GeometryAttribute::NORMAL, 8); enc.SetAttributeQuantization(GeometryAttribute::TEX_COORD, 10);
  EncoderBuffer eb; Status s = is_mesh ? enc.EncodeMeshToBuffer(*mesh, &eb) : enc.EncodePointCloudToBuffer(*pc, &eb);
  std::string tag = "attmeta method=" + S(methods[which]) + " speed=" + S(speed) + " uids="; for (auto &x : as) tag += U(x.uid) + "/" + S((int)x.t) + ","; tag += " ";
  if (!s.ok()) { o.fail(tag + "encode of a valid geometry with attribute metadata failed: " + s.error_msg()); return; }
  DecoderBuffer db; db.Init(eb.data(), eb.size()); Decoder dec; std::unique_ptr<PointCloud> out;
  if (is_mesh) { auto so = dec.DecodeMeshFromBuffer(&db); if (so.ok()) out.reset(std::move(so).value().release()); } else { auto so = dec.DecodePointCloudFromBuffer(&db); if (so.ok()) out = std::move(so).value(); }
  if (!out) { o.fail(tag + "encode ok but decode failed"); return; }
  for (auto &x : as) { int idx = out->GetAttributeIdByUniqueId(x.uid);
    if (idx < 0 || out->attribute(idx)->attribute_type() != x.t) { o.fail(tag + "attribute with unique id " + U(x.uid) + " not found under its id (or under another type) after decoding"); continue; }
    const AttributeMetadata *am = out->GetAttributeMetadataByAttributeId(idx); std::string got = am ? print_meta(*am) : std::string();
    if (got != x.meta) o.fail(tag + "metadata of attribute " + U(x.uid) + " altered / lost / attached to another attribute: in=" + brief(x.meta) + " out=" + brief(got)); }
}

static std::vector<std::vector<uint8_t>> valid_streams;  // small valid streams kept as seeds for corruption

static void menc_case(Out &o, Rng &r, const GeometryMetadata &g, int maxdepth, bool full) {
  std::string text = print_geom(g);
  EncoderBuffer eb; MetadataEncoder e;
  bool ok = e.EncodeGeometryMetadata(&eb, &g);
  o.c("menc " + text, ok ? hex(eb.data(), eb.size()) : "fail");
  st.trees++; (ok ? st.enc_ok : st.enc_fail)++;
  st.maxdepth[maxdepth > 10 ? 11 : maxdepth]++;
  if (ok) {
    std::vector<uint8_t> bytes(eb.data(), eb.data() + eb.size());
    if (bytes.size() < 3000 && valid_streams.size() < 4000) valid_streams.push_back(bytes);
    // search: the property itself on the real classes, with and without trailing bytes
    for (int tail = 0; tail < 2; tail++) {
      std::vector<uint8_t> b2 = bytes;
      size_t extra = tail ? 1 + r.below(5) : 0;
      for (size_t i = 0; i < extra; i++) b2.push_back(r.chance(50) ? 0 : (uint8_t)r.next());
      std::string t; int64_t rem = -1;
      bool dok = decode_geom(b2, &t, &rem);
      if (!dok) o.fail(std::string("encode ok but decode failed") + " (tail=" + S(extra) + " depth=" + S(maxdepth) + "): " + brief(text));
      else if (t != text) o.fail("metadata altered by the round trip: in=" + brief(text) + " out=" + brief(t));
      else if (rem != (int64_t)extra) o.fail("decoder consumed " + S((int64_t)b2.size() - rem) + " bytes of a " + S(bytes.size()) + "-byte block: " + brief(text));
    }
  }
  if (full) for (int which = 0; which < 4; which++) full_roundtrip(o, r, g, text, ok, which);
}
static void nenc_case(Out &o, Rng &r, const Metadata &m) {
  std::string text = print_meta(m);
  EncoderBuffer eb; MetadataEncoder e;
  bool ok = e.EncodeMetadata(&eb, &m);
  o.c("nenc " + text, ok ? hex(eb.data(), eb.size()) : "fail");
  if (ok) {
    std::vector<uint8_t> bytes(eb.data(), eb.data() + eb.size());
    bytes.push_back((uint8_t)r.next());
    std::string t; int64_t rem = -1;
    if (!decode_meta(bytes, &t, &rem) || t != text || rem != 1) o.fail("Metadata round trip failed: " + brief(text));
  }
}

// ------------------------------------------------------------------ malformed streams
static void put_varint(std::vector<uint8_t> &v, uint32_t x) { while (x >= 128) { v.push_back((uint8_t)(x | 128)); x >>= 7; } v.push_back((uint8_t)x); }
static void put_name(std::vector<uint8_t> &v, const std::string &s) { v.push_back((uint8_t)s.size()); v.insert(v.end(), s.begin(), s.end()); }

// hand-made streams aimed at each check of the decoder (no att metadata: leading 0)
static void crafted(Out &o, Rng &r) {
  auto geom = [&](std::vector<uint8_t> body) { std::vector<uint8_t> v; v.push_back(0); v.insert(v.end(), body.begin(), body.end()); return v; };
  // duplicate entry names (last wins), unsorted names, duplicate sub names, at root and one level down
  for (int rep = 0; rep < 40; rep++) {
    std::vector<uint8_t> b;
    int ne = 1 + (int)r.below(5);
    put_varint(b, ne);
    std::vector<std::string> names;
    for (int i = 0; i < ne; i++) {
      std::string nm = (!names.empty() && r.chance(40)) ? names[r.below(names.size())] : std::string(r.below(3), (char)kAlpha[r.below(8)]);
      names.push_back(nm); put_name(b, nm);
      int vl = 1 + (int)r.below(3); put_varint(b, vl); for (int k = 0; k < vl; k++) b.push_back((uint8_t)r.next());
    }
    int ns = (int)r.below(4);
    put_varint(b, ns);
    for (int i = 0; i < ns; i++) {
      std::string nm = r.chance(40) ? names[r.below(names.size())] : std::string(r.below(3), (char)kAlpha[r.below(8)]);
      names.push_back(nm); put_name(b, nm);
      b.push_back(0);  // no entries
      int ns2 = (int)r.below(3); put_varint(b, ns2);
      for (int k = 0; k < ns2; k++) { put_name(b, r.chance(50) ? "x" : std::string(1, (char)kAlpha[r.below(8)])); b.push_back(0); b.push_back(0); }
    }
    mdec_case(o, geom(b)); ndec_case(o, b);
  }
  // num_sub_metadata against remaining_size(): equal, one more, one less; with and without the bytes to back it
  for (int ns = 0; ns < 12; ns++) for (int tail = 0; tail < 14; tail++) {
    std::vector<uint8_t> b; b.push_back(0); put_varint(b, ns);
    for (int k = 0; k < tail; k++) b.push_back(0);
    mdec_case(o, geom(b));
    std::vector<uint8_t> b2; b2.push_back(0); put_varint(b2, ns);
    for (int k = 0; k < tail; k++) b2.push_back((uint8_t)(k % 3 == 0 ? 1 : 0));
    if (tail % 2) b2[b2.size() - 1] = 0x61;
    ndec_case(o, b2);
  }
  // entry sizes against remaining: data_size 0, == remaining, remaining + 1, huge varints, over-long varints
  for (int rep = 0; rep < 60; rep++) {
    std::vector<uint8_t> b; b.push_back(1); put_name(b, r.chance(50) ? "" : "k");
    int have = (int)r.below(6);
    switch (r.below(6)) {
      case 0: put_varint(b, 0); break;
      case 1: put_varint(b, have); break;
      case 2: put_varint(b, have + 1); break;
      case 3: put_varint(b, 0xffffffffu - (uint32_t)r.below(3)); break;
      case 4: b.push_back(0x80 | have); b.push_back(0x80); b.push_back(0); break;          // over-long encoding of `have`
      default: b.push_back(0xff); b.push_back(0xff); b.push_back(0xff); b.push_back(0xff); b.push_back(0x7f); break;  // > 32 bits: truncated by the decoder
    }
    for (int k = 0; k < have; k++) b.push_back((uint8_t)r.next());
    if (r.chance(50)) { b.push_back(0); }
    mdec_case(o, geom(b)); ndec_case(o, b);
  }
  // name length against remaining
  for (int nl = 0; nl < 6; nl++) for (int have = 0; have < 6; have++) {
    std::vector<uint8_t> b; b.push_back(1); b.push_back((uint8_t)nl); for (int k = 0; k < have; k++) b.push_back((uint8_t)(1 + k));
    ndec_case(o, b);
    std::vector<uint8_t> c; c.push_back(0); c.push_back(1); c.push_back((uint8_t)(nl ? 250 + nl : 0)); for (int k = 0; k < 250 + have; k++) c.push_back((uint8_t)k);
    ndec_case(o, c);
  }
  // nesting chains around kMaxSubmetadataLevel written as raw bytes: root, then n levels of {name "", 0 entries, 1 sub}
  static const int depths[] = {1, 2, 999, 1000, 1001, 1002, 1003, 1100};
  for (int di = 0; di < 8; di++) for (int variant = 0; variant < 2; variant++) {
    int n = depths[di];
    std::vector<uint8_t> b; b.push_back(0); b.push_back(1);
    for (int i = 0; i < n; i++) { b.push_back(variant ? 1 : 0); if (variant) b.push_back(0x61); b.push_back(0); b.push_back(i + 1 < n ? 1 : 0); }
    if (variant) b.push_back(0x77);
    mdec_case(o, geom(b)); ndec_case(o, b);
    // the same chain inside attribute metadata
    std::vector<uint8_t> a; a.push_back(1); put_varint(a, 7); a.insert(a.end(), b.begin(), b.end()); a.push_back(0); a.push_back(0);
    mdec_case(o, a);
  }
  // wide and deep: every level announces more children than it has bytes for / exactly as many
  for (int rep = 0; rep < 30; rep++) {
    std::vector<uint8_t> b; b.push_back(0);
    int levels = 1 + (int)r.below(6);
    std::vector<uint8_t> tail;
    for (int i = 0; i < levels; i++) { put_varint(b, (uint32_t)r.below(5)); b.push_back((uint8_t)r.below(2)); if (b.back()) b.push_back(kAlpha[r.below(8)]); b.push_back(0); }
    put_varint(b, 0);
    int extra = (int)r.below(8); for (int k = 0; k < extra; k++) b.push_back((uint8_t)r.below(3));
    ndec_case(o, b); mdec_case(o, geom(b));
  }
  // attribute metadata counts
  for (int na = 0; na < 6; na++) for (int have = 0; have < 6; have++) {
    std::vector<uint8_t> b; put_varint(b, na);
    for (int k = 0; k < have; k++) { put_varint(b, (uint32_t)r.biased(32)); b.push_back(0); b.push_back(0); }
    if (r.chance(50)) { b.push_back(0); b.push_back(0); }
    mdec_case(o, b);
  }
  { std::vector<uint8_t> b; put_varint(b, 0xffffffffu); for (int k = 0; k < 40; k++) b.push_back(0); mdec_case(o, b); }
}

static std::vector<uint8_t> corrupt(Rng &r, std::vector<uint8_t> v) {
  int k = (int)r.below(10);
  if (v.empty()) { v.push_back((uint8_t)r.next()); return v; }
  size_t p = r.below(v.size());
  switch (k) {
    case 0: case 1: v.resize(p); break;                                     // truncation
    case 2: v[p] = 0; break;
    case 3: v[p] = (uint8_t)(v[p] + 1); break;
    case 4: v[p] = (uint8_t)(v[p] - 1); break;
    case 5: v[p] = (uint8_t)r.next(); break;
    case 6: v[p] ^= (uint8_t)(1u << r.below(8)); break;
    case 7: v.insert(v.begin() + p, (uint8_t)r.below(4)); break;
    case 8: v.erase(v.begin() + p); break;
    default: { size_t q = r.below(v.size()); std::swap(v[p], v[q]); break; }
  }
  return v;
}

int main(int argc, char **argv) {
  if (argc < 4) { fprintf(stderr, "usage: h_C11 quick|thorough seed out\n"); return 2; }
  bool thorough = !strcmp(argv[1], "thorough");
  Rng r(strtoull(argv[2], 0, 10));
  Out o(argv[3]);
  o.note("C11 tier=" + std::string(argv[1]) + " seed=" + argv[2]);

  // 0. attribute metadata keyed by application-chosen unique ids, all four methods
  for (int i = 0; i < (thorough ? 4000 : 400); i++) attribute_metadata_roundtrip(o, r, i % 4);
  // 1. random trees: encoder correspondence + direct round trip + full geometry round trips
  int ntrees = thorough ? 12000 : 2500;
  for (int i = 0; i < ntrees; i++) {
    int maxdepth = 0;
    std::unique_ptr<GeometryMetadata> g = gen_geom(r, maxdepth);
    menc_case(o, r, *g, maxdepth, i % (thorough ? 4 : 5) == 0);
    if (i % 3 == 0) nenc_case(o, r, *g);
  }
  // tiny trees exhaustively-ish: every combination of {0,1,2} entries/subs with 1-byte names
  for (int a = 0; a < 3; a++) for (int b = 0; b < 3; b++) for (int c = 0; c < 3; c++) {
    GeometryMetadata g;
    for (int i = 0; i < a; i++) g.AddEntryBinary(std::string(1, (char)(0x80 - i)), std::vector<uint8_t>(1 + i, 7));
    for (int i = 0; i < b; i++) { std::unique_ptr<Metadata> s(new Metadata());
      for (int j = 0; j < c; j++) { std::unique_ptr<Metadata> s2(new Metadata()); s2->AddEntryInt("", j); s->AddSubMetadata(std::string(j, 'z'), std::move(s2)); }
      g.AddSubMetadata(std::string(1, (char)(0xff - i)), std::move(s)); }
    menc_case(o, r, g, 2, true);
  }
  // large values and longest legal names, explicitly (varint length boundaries of data_size)
  {
    static const size_t sizes[] = {127, 128, 16383, 16384, 65535, 65536};
    for (int i = 0; i < 6; i++) {
      GeometryMetadata g;
      std::vector<uint8_t> v(sizes[i]); for (auto &b : v) b = (uint8_t)r.next();
      g.AddEntryBinary(std::string(255, (char)0xfe), v);
      g.AddEntryBinary(std::string(254, (char)0xfe), std::vector<uint8_t>(1, 0));
      std::unique_ptr<Metadata> s2(new Metadata()); s2->AddEntryBinary("", v);
      g.AddSubMetadata(std::string(255, (char)0x00), std::move(s2));
      std::unique_ptr<AttributeMetadata> a(new AttributeMetadata()); a->set_att_unique_id(0xffffffffu); a->AddEntryBinary("v", v);
      g.AddAttributeMetadata(std::move(a));
      menc_case(o, r, g, 1, i % 2 == 1);
    }
  }
  // 2. deep chains around the decoder's nesting limit (few: each is ~1000 nested objects)
  {
    static const int depths[] = {998, 999, 1000, 1001, 1002, 1003, 1100};
    for (int di = 0; di < 7; di++) for (int where = 0; where < (thorough ? 3 : 2); where++) {
      std::unique_ptr<GeometryMetadata> g(new GeometryMetadata());
      int n = depths[di];
      if (where == 1) { std::unique_ptr<AttributeMetadata> a(new AttributeMetadata()); a->set_att_unique_id(3); chain(r, a.get(), n, true); g->AddAttributeMetadata(std::move(a)); g->AddEntryInt("x", 1); }
      else chain(r, g.get(), n, where == 2);
      st.deep++;
      menc_case(o, r, *g, n, di % 2 == 0 && where == 0);
    }
  }
  // 3. decoder on valid streams (exact and with a tail), corrupted streams, crafted streams, random bytes
  crafted(o, r);
  int nmal = thorough ? 60000 : 6000;
  for (int i = 0; i < nmal && !valid_streams.empty(); i++) {
    std::vector<uint8_t> v = valid_streams[r.below(valid_streams.size())];
    int rounds = r.chance(70) ? 1 : 2 + (int)r.below(3);
    if (i % 10 != 0) for (int k = 0; k < rounds; k++) v = corrupt(r, v);
    if (i % 4 == 0) { if (!v.empty()) { std::vector<uint8_t> w(v.begin() + 1, v.end()); ndec_case(o, r.chance(50) ? w : v); } }
    else mdec_case(o, v);
  }
  int nrand = thorough ? 30000 : 3000;
  for (int i = 0; i < nrand; i++) {
    size_t n = r.below(40);
    std::vector<uint8_t> v(n);
    for (auto &b : v) { int k = (int)r.below(10); b = k < 5 ? (uint8_t)r.below(3) : k < 8 ? (uint8_t)r.below(8) : (uint8_t)r.next(); }
    if (i % 3 == 0) ndec_case(o, v); else mdec_case(o, v);
  }
  char buf[1024];
  snprintf(buf, sizeof buf, "stats trees=%ld enc_ok=%ld enc_fail=%ld deep_chains=%ld dup_entry_names=%ld dup_sub_names=%ld full_roundtrips=%ld dec_ok=%ld dec_fail=%ld "
           "names[len0,1,2-253,254,255,256,300]=%ld,%ld,%ld,%ld,%ld,%ld,%ld values[len0,<127,<300,<16000,>=16000]=%ld,%ld,%ld,%ld,%ld",
           st.trees, st.enc_ok, st.enc_fail, st.deep, st.dup_entry, st.dup_sub, st.full, st.dec_ok, st.dec_fail,
           st.names[0], st.names[1], st.names[2], st.names[3], st.names[4], st.names[5], st.names[6], st.vals[0], st.vals[1], st.vals[2], st.vals[3], st.vals[4]);
  o.note(buf);
  std::string d = "stats maxdepth histogram 0..10,>10:"; for (int i = 0; i < 12; i++) d += " " + S(st.maxdepth[i]);
  o.note(d);
  fprintf(stderr, "h_C11: %ld cases, %ld direct failures\n", o.cases, o.fails);
  return 0;
}
