// C07: octahedral quantisation of normals.  OctahedronToolBox and AttributeOctahedronTransform of /repo
// against the Coq model (bit-exact: (s,t) integers, decoded floats as uint32 bit patterns), plus the
// search of the property itself (length, angle, square, no NaN) on the classes and end to end through
// the real Encoder/Decoder.      usage: h_C07 quick|thorough seed out
#include "common.h"
#include <algorithm>
#include <array>
#include <cmath>
#include <memory>
#include <set>
#include "draco/attributes/attribute_octahedron_transform.h"
#include "draco/attributes/point_attribute.h"
#include "draco/compression/attributes/normal_compression_utils.h"
#include "draco/compression/decode.h"
#include "draco/compression/encode.h"
#include "draco/core/decoder_buffer.h"
#include "draco/core/encoder_buffer.h"
#include "draco/mesh/mesh.h"
#include "draco/point_cloud/point_cloud.h"
using namespace draco;

static inline uint32_t fbits(float f) { uint32_t u; memcpy(&u, &f, 4); return u; }
static inline float bitsf(uint32_t u) { float f; memcpy(&f, &u, 4); return f; }
static inline std::string FB(float f) { return std::isnan(f) ? std::string("-1") : U(fbits(f)); }
static std::string join_u(const std::vector<uint32_t> &v) {
  if (v.empty()) return "-";
  std::string s; for (size_t i = 0; i < v.size(); i++) { if (i) s += ","; s += U(v[i]); } return s;
}
static std::string join_i(const std::vector<int32_t> &v) {
  if (v.empty()) return "-";
  std::string s; for (size_t i = 0; i < v.size(); i++) { if (i) s += ","; s += S(v[i]); } return s;
}
static std::string join_f(const std::vector<float> &v) {
  if (v.empty()) return "-";
  std::string s; for (size_t i = 0; i < v.size(); i++) { if (i) s += ","; s += U(fbits(v[i])); } return s;
}
static std::string join_fobs(const std::vector<float> &v) {
  if (v.empty()) return "-";
  std::string s; for (size_t i = 0; i < v.size(); i++) { if (i) s += ","; s += FB(v[i]); } return s;
}

struct V3 { float v[3]; };
static std::string v3s(const float *v) { return U(fbits(v[0])) + " " + U(fbits(v[1])) + " " + U(fbits(v[2])); }

// ---- counters (written as a '#' note, picked up by props/C07.py)
static long n_fv = 0, n_uv = 0, n_bound = 0, n_fallback = 0, n_repair = 0, n_left = 0, n_ub = 0, n_e2e = 0, n_e2e_points = 0,
            n_tiny_finding = 0, n_enc_fail = 0, n_geo_pred = 0, n_canon_moved = 0;
static long double worst_ratio = 0, worst_len = 0;
static long n_q[32];

// the same double operations as the library up to the conversions: would static_cast<int32_t> be undefined?
static bool fv_would_be_ub(const float *v, int32_t center) {
  volatile double a = std::abs((double)v[0]) + std::abs((double)v[1]);
  a = a + std::abs((double)v[2]);
  if (!(a > 1e-6)) return false;
  volatile double scale = 1.0 / a;
  for (int i = 0; i < 2; i++) {
    volatile double s = v[i] * scale;
    volatile double r = s * center;
    r = r + 0.5;
    double f = std::floor(r);
    if (!(f >= -2147483648.0 && f < 2147483648.0)) return true;
  }
  return false;
}
static double l1_as_library(const float *v) {
  volatile double a = std::abs((double)v[0]) + std::abs((double)v[1]);
  a = a + std::abs((double)v[2]);
  return a;
}
static bool all_finite(const float *v) { return std::isfinite(v[0]) && std::isfinite(v[1]) && std::isfinite(v[2]); }
static bool all_zero_or_denormal(const float *v) {
  for (int i = 0; i < 3; i++) if (std::fpclassify(v[i]) != FP_ZERO && std::fpclassify(v[i]) != FP_SUBNORMAL) return false;
  return true;
}
static long double bound_of(int q) { return 3.0L * (2.0L / (ldexpl(1.0L, q) - 2.0L)) + 2e-6L; }
static long double angle_between(const float *a, const float *b) {
  long double ax = a[0], ay = a[1], az = a[2], bx = b[0], by = b[1], bz = b[2];
  // scale a to avoid overflow/underflow of the products (direction only matters)
  long double m = std::max(fabsl(ax), std::max(fabsl(ay), fabsl(az)));
  ax /= m; ay /= m; az /= m;
  long double cx = ay * bz - az * by, cy = az * bx - ax * bz, cz = ax * by - ay * bx;
  long double cr = sqrtl(cx * cx + cy * cy + cz * cz), dt = ax * bx + ay * by + az * bz;
  return atan2l(cr, dt);
}
static long double length_of(const float *b) {
  long double x = b[0], y = b[1], z = b[2];
  return sqrtl(x * x + y * y + z * z);
}

// The property on one (original, decoded) pair.  where: text for the failure line.
static void check_pair(Out &o, int q, const float *orig, int32_t s, int32_t t, const float *dec, const std::string &where) {
  OctahedronToolBox tb; tb.SetQuantizationBits(q);
  std::string id = where + " q=" + S(q) + " v=" + v3s(orig) + " s=" + S(s) + " t=" + S(t) + " decoded=" + v3s(dec);
  if (s < 0 || t < 0 || s > tb.max_value() || t > tb.max_value()) { o.fail("C07-square " + id); return; }
  if (!all_finite(dec)) { o.fail("C07-nan " + id); return; }
  long double len = length_of(dec);
  if (fabsl(len - 1.0L) > worst_len) worst_len = fabsl(len - 1.0L);
  if (fabsl(len - 1.0L) > 1e-6L) { o.fail("C07-length " + id + " len-1=" + std::to_string((double)(len - 1.0L))); return; }
  if (!all_finite(orig)) return;                       // the property does not speak about NaN/Inf input
  if (all_zero_or_denormal(orig)) {                    // zero / denormal: the x axis, nothing else asked than no NaN, in range
    if (s != tb.center_value() || t != tb.center_value()) o.fail("C07-zero-not-x-axis " + id);
    return;
  }
  if (!(l1_as_library(orig) > 1e-6)) {
    // finite, non-zero, not denormal, but |v|_1 <= 1e-6: the library replaces the vector by (1,0,0)
    long double ang = angle_between(orig, dec);
    if (ang > bound_of(q)) { n_tiny_finding++; if (n_tiny_finding <= 3) o.fail("C07-tiny-l1 " + id + " angle=" + std::to_string((double)ang)); }
    return;
  }
  long double ang = angle_between(orig, dec), bd = bound_of(q);
  n_bound++;
  if (ang / bd > worst_ratio) worst_ratio = ang / bd;
  if (!(ang <= bd)) o.fail("C07-angle " + id + " angle=" + std::to_string((double)ang) + " bound=" + std::to_string((double)bd));
}

// ---- OctahedronToolBox directly
static void fv_case(Out &o, int q, const float *v, bool also_int = false) {
  OctahedronToolBox tb;
  std::string lhs = "fv " + S(q) + " " + v3s(v);
  if (!tb.SetQuantizationBits(q)) { o.c(lhs, "fail"); return; }
  if (fv_would_be_ub(v, tb.center_value())) { o.c(lhs, "ub"); n_ub++; return; }
  int32_t s = -7, t = -7;
  tb.FloatVectorToQuantizedOctahedralCoords(v, &s, &t);
  o.c(lhs, S(s) + " " + S(t));
  n_fv++; n_q[q]++;
  if (!(l1_as_library(v) > 1e-6)) n_fallback++;
  else {   // coverage only: did this input reach the `int_vec[2] < 0` repair branch? (same double operations as the library)
    volatile double a = l1_as_library(v), sc = 1.0 / a;
    volatile double p0 = v[0] * sc, p1 = v[1] * sc; p0 = p0 * tb.center_value(); p1 = p1 * tb.center_value(); p0 = p0 + 0.5; p1 = p1 + 0.5;
    long long i0 = (long long)std::floor(p0), i1 = (long long)std::floor(p1);
    if (tb.center_value() - std::llabs(i0) - std::llabs(i1) < 0) n_repair++;
    if (i0 < 0) n_left++;
  }
  // the encoder's output is a fixed point of CanonicalizeOctahedralCoords
  int32_t cs, ct; tb.CanonicalizeOctahedralCoords(s, t, &cs, &ct);
  if (cs != s || ct != t) o.fail("C07-not-canonical q=" + S(q) + " v=" + v3s(v) + " s=" + S(s) + " t=" + S(t));
  float dec[3];
  tb.QuantizedOctahedralCoordsToUnitVector(s, t, dec);
  check_pair(o, q, v, s, t, dec, "class");
  (void)also_int;
}
static void uv_case(Out &o, int q, int32_t s, int32_t t) {
  OctahedronToolBox tb;
  std::string lhs = "uv " + S(q) + " " + S(s) + " " + S(t);
  if (!tb.SetQuantizationBits(q)) { o.c(lhs, "fail"); return; }
  float dec[3];
  tb.QuantizedOctahedralCoordsToUnitVector(s, t, dec);
  o.c(lhs, FB(dec[0]) + " " + FB(dec[1]) + " " + FB(dec[2]));
  n_uv++;
  if (s >= 0 && t >= 0 && s <= tb.max_value() && t <= tb.max_value()) {
    // every point of the square decodes to a finite unit vector
    if (!all_finite(dec)) { o.fail("C07-nan decode q=" + S(q) + " s=" + S(s) + " t=" + S(t)); return; }
    long double len = length_of(dec);
    if (fabsl(len - 1.0L) > worst_len) worst_len = fabsl(len - 1.0L);
    if (fabsl(len - 1.0L) > 1e-6L) o.fail("C07-length decode q=" + S(q) + " s=" + S(s) + " t=" + S(t) + " decoded=" + v3s(dec));
  }
}
static void iv_case(Out &o, int q, int32_t i0, int32_t i1, int32_t i2) {
  OctahedronToolBox tb; tb.SetQuantizationBits(q);
  int32_t iv[3] = {i0, i1, i2}, s, t;
  tb.IntegerVectorToQuantizedOctahedralCoords(iv, &s, &t);
  o.c("iv " + S(q) + " " + S(i0) + " " + S(i1) + " " + S(i2), S(s) + " " + S(t));
  if (i0 < 0) n_left++;
  if (s < 0 || t < 0 || s > tb.max_value() || t > tb.max_value())
    o.fail("C07-square int_vec q=" + S(q) + " i=" + S(i0) + "," + S(i1) + "," + S(i2) + " s=" + S(s) + " t=" + S(t));
}
static void civ_case(Out &o, int q, int32_t v0, int32_t v1, int32_t v2) {
  OctahedronToolBox tb; tb.SetQuantizationBits(q);
  int32_t v[3] = {v0, v1, v2};
  tb.CanonicalizeIntegerVector(v);
  o.c("civ " + S(q) + " " + S(v0) + " " + S(v1) + " " + S(v2), S(v[0]) + " " + S(v[1]) + " " + S(v[2]));
  int64_t sum = std::llabs((long long)v[0]) + std::llabs((long long)v[1]) + std::llabs((long long)v[2]);
  if (sum != tb.center_value()) o.fail("C07-canonicalize-int-vector abs sum q=" + S(q) + " in=" + S(v0) + "," + S(v1) + "," + S(v2));
}

// ---- attribute builders
static std::unique_ptr<PointAttribute> make_att(GeometryAttribute::Type ty, int nc, DataType dt, size_t n) {
  std::unique_ptr<PointAttribute> a(new PointAttribute());
  a->Init(ty, (int8_t)nc, dt, false, n);
  return a;
}
static std::unique_ptr<PointAttribute> make_float3(const std::vector<float> &flat) {
  size_t n = flat.size() / 3;
  auto a = make_att(GeometryAttribute::NORMAL, 3, DT_FLOAT32, n);
  for (size_t i = 0; i < n; i++) a->SetAttributeValue(AttributeValueIndex((uint32_t)i), &flat[i * 3]);
  return a;
}

// ---- the whole AttributeOctahedronTransform: parameter byte, portable attribute, inverse transform
static void transform_case(Out &o, int q, const std::vector<uint32_t> &ids, const std::vector<float> &flat) {
  size_t n = flat.size() / 3;
  auto att = make_float3(flat);
  std::string lhs = "tf " + S(q) + " " + join_u(ids) + " " + join_f(flat);
  AttributeOctahedronTransform t;
  t.SetParameters(q);
  EncoderBuffer eb;
  if (!t.EncodeParameters(&eb)) { o.c(lhs, "encode-parameters-failed"); return; }
  std::string ehex = hex(eb.data(), eb.size());
  std::vector<char> blk(eb.data(), eb.data() + eb.size()); blk.push_back((char)0x5A);
  DecoderBuffer db; db.Init(blk.data(), blk.size());
  AttributeOctahedronTransform t2;
  if (!t2.DecodeParameters(*att, &db)) { o.c(lhs, "decode-parameters-failed"); return; }
  std::string q2 = S(t2.quantization_bits());
  std::vector<uint32_t> visit = ids;
  if (visit.empty()) for (size_t i = 0; i < n; i++) visit.push_back((uint32_t)i);
  if (q >= 2 && q <= 30) {
    int32_t center = (int32_t)(((1u << q) - 2) / 2);
    for (uint32_t i : visit) if (fv_would_be_ub(&flat[(size_t)i * 3], center)) { o.c(lhs, "ub"); n_ub++; return; }
  }
  auto port = t.InitTransformedAttribute(*att, (int)visit.size());
  std::vector<PointIndex> pids; for (uint32_t i : ids) pids.push_back(PointIndex(i));
  if (!t.TransformAttribute(*att, pids, port.get())) { o.c(lhs, "transform-failed " + ehex + " " + q2); return; }
  std::vector<int32_t> words(visit.size() * 2);
  for (size_t i = 0; i < visit.size(); i++) port->GetValue(AttributeValueIndex((uint32_t)i), &words[i * 2]);
  std::vector<float> zero(visit.size() * 3, 7.f);
  auto dst = make_float3(zero);
  if (!t2.InverseTransformAttribute(*port, dst.get())) { o.c(lhs, "inverse-failed " + ehex + " " + q2); return; }
  std::vector<float> back(visit.size() * 3);
  for (size_t i = 0; i < visit.size(); i++) dst->GetValue(AttributeValueIndex((uint32_t)i), &back[i * 3]);
  o.c(lhs, ehex + " " + q2 + " " + S(db.remaining_size()) + " " + join_i(words) + " " + join_fobs(back));
  for (size_t k = 0; k < visit.size(); k++)
    check_pair(o, q, &flat[(size_t)visit[k] * 3], words[k * 2], words[k * 2 + 1], &back[k * 3], "transform");
}
static void decode_params_case(Out &o, const std::vector<uint8_t> &bytes) {
  auto att = make_float3({0.f, 0.f, 1.f});
  DecoderBuffer db; db.Init((const char *)bytes.data(), bytes.size());
  AttributeOctahedronTransform t;
  std::string lhs = "dp " + hex(bytes.data(), bytes.size());
  if (!t.DecodeParameters(*att, &db)) { o.c(lhs, "fail"); return; }
  o.c(lhs, "ok " + S(t.quantization_bits()) + " " + S(db.remaining_size()));
}
// InverseTransformAttribute on arbitrary q and arbitrary int32 (s,t) (what a hostile stream can deliver)
static void inverse_case(Out &o, int q, const std::vector<int32_t> &words) {
  size_t n = words.size() / 2;
  auto port = make_att(GeometryAttribute::NORMAL, 2, DT_UINT32, n);
  for (size_t i = 0; i < n; i++) port->SetAttributeValue(AttributeValueIndex((uint32_t)i), &words[i * 2]);
  std::vector<float> zero(n * 3, 7.f);
  auto dst = make_float3(zero);
  AttributeOctahedronTransform t; t.SetParameters(q);
  std::string lhs = "it " + S(q) + " " + join_i(words);
  if (!t.InverseTransformAttribute(*port, dst.get())) { o.c(lhs, "fail"); return; }
  std::vector<float> back(n * 3);
  for (size_t i = 0; i < n; i++) dst->GetValue(AttributeValueIndex((uint32_t)i), &back[i * 3]);
  o.c(lhs, join_fobs(back));
}

// ---------------------------------------------------------------- generators
struct Gen {
  Rng &r;
  explicit Gen(Rng &rr) : r(rr) {}
  double u01() { return (double)(r.next() >> 11) / 9007199254740992.0; }
  double sym() { return 2.0 * u01() - 1.0; }
  float nudge(float x, int steps) {
    for (int s = 0; s < std::abs(steps); s++) x = nextafterf(x, steps > 0 ? INFINITY : -INFINITY);
    return x;
  }
  float tiny_component() {
    switch (r.below(8)) {
      case 0: return 0.f; case 1: return -0.f;
      case 2: return bitsf((uint32_t)r.range(1, 8388607)) * (r.chance(50) ? 1.f : -1.f);   // denormal
      case 3: return (float)(sym() * 1e-7);
      case 4: return (float)(sym() * 1e-3);
      case 5: return (float)(sym() * 1e-12);
      case 6: return nudge(0.f, (int)r.range(-3, 3));
      default: return (float)(sym() * 1e-5);
    }
  }
  float length() {
    switch (r.below(10)) {
      case 0: return 1e30f; case 1: return 3.0e38f; case 2: return (float)pow(10.0, -4.0 + 8.0 * u01());
      case 3: return (float)pow(10.0, -5.7 + 1.0 * u01());    // around the 1e-6 threshold of abs_sum
      case 4: return (float)pow(10.0, 3.0 + 30.0 * u01());
      default: return 1.f;
    }
  }
  void scale(float *v, float L) { for (int i = 0; i < 3; i++) v[i] *= L; }
  void perm(float *v) {
    int k = (int)r.below(6);
    static const int P[6][3] = {{0,1,2},{0,2,1},{1,0,2},{1,2,0},{2,0,1},{2,1,0}};
    float w[3] = {v[P[k][0]], v[P[k][1]], v[P[k][2]]}; memcpy(v, w, sizeof w);
  }
  void signs(float *v) { for (int i = 0; i < 3; i++) if (r.chance(50)) v[i] = -v[i]; }
  // a vector aimed at one of the case splits; c = center value for the rounding-boundary class
  void vec(float *v, int32_t c) {
    switch (r.below(12)) {
      case 0: case 1: {                                   // random direction
        do { for (int i = 0; i < 3; i++) v[i] = (float)sym(); } while (v[0] == 0 && v[1] == 0 && v[2] == 0);
        if (r.chance(50)) { double n = sqrt((double)v[0]*v[0] + (double)v[1]*v[1] + (double)v[2]*v[2]); for (int i = 0; i < 3; i++) v[i] = (float)(v[i] / n); }
        scale(v, length()); break; }
      case 2: {                                           // axis neighbourhood
        v[0] = 1.f; v[1] = tiny_component(); v[2] = tiny_component(); signs(v); perm(v); scale(v, r.chance(70) ? 1.f : length()); break; }
      case 3: {                                           // edge neighbourhood: one component (nearly) zero
        v[0] = tiny_component(); v[1] = (float)u01(); v[2] = (float)u01(); signs(v); perm(v); scale(v, r.chance(70) ? 1.f : length()); break; }
      case 4: {                                           // equal magnitudes (face centres, edge midpoints), ulp perturbations
        float a = r.chance(50) ? 1.f : (float)(0.1 + u01());
        v[0] = a; v[1] = nudge(a, (int)r.range(-2, 2)); v[2] = r.chance(50) ? nudge(a, (int)r.range(-2, 2)) : tiny_component();
        signs(v); perm(v); break; }
      case 5: case 6: case 7: {                           // at the floor(x + 0.5) boundaries of int_vec[0], int_vec[1]
        int64_t k0 = r.range(0, c), k1 = r.range(0, c - k0);
        if (r.chance(25)) k1 = c - k0;                    // both round up: abs sum c+1, the repair branch
        if (r.chance(10)) { k0 = r.chance(50) ? 0 : c; k1 = c - k0; }
        double s0 = ((double)k0 + (r.chance(80) ? 0.5 : 0.0)) / (double)c, s1 = ((double)k1 + (r.chance(80) ? 0.5 : 0.0)) / (double)c;
        if (r.chance(50)) s0 -= 1.0 / c;
        if (r.chance(50)) s1 -= 1.0 / c;
        double s2 = 1.0 - fabs(s0) - fabs(s1); if (s2 < 0) s2 = 0;
        v[0] = nudge((float)s0, (int)r.range(-2, 2)); v[1] = nudge((float)s1, (int)r.range(-2, 2)); v[2] = r.chance(30) ? tiny_component() : (float)s2;
        signs(v); if (r.chance(20)) scale(v, length()); break; }
      case 8: {                                           // left hemisphere edges: x <= 0 and small
        v[0] = -fabsf(tiny_component()); v[1] = (float)sym(); v[2] = (float)sym(); if (r.chance(30)) v[r.range(1, 2)] = tiny_component(); break; }
      case 9: {                                           // all tiny: zero, denormal, below / around the 1e-6 threshold
        for (int i = 0; i < 3; i++) v[i] = tiny_component();
        if (r.chance(30)) { float a = (float)(1e-6 * (0.3 + 0.05 * r.range(0, 20))); v[0] = a / 3; v[1] = -a / 3; v[2] = a / 3; perm(v); }
        if (r.chance(15)) { v[0] = 0; v[1] = 0; v[2] = r.chance(50) ? 0.f : -0.f; }
        break; }
      case 10: {                                          // special values
        static const uint32_t sp[] = {0x7F800000u, 0xFF800000u, 0x7FC00000u, 0xFFC00001u, 0x7F7FFFFFu, 0xFF7FFFFFu, 0x00800000u, 0x80800000u,
                                      0x00000001u, 0x807FFFFFu, 0x358637BDu /*1e-6f*/, 0x358637BEu, 0x358637BCu, 0x3F800000u, 0xBF800000u, 0, 0x80000000u};
        for (int i = 0; i < 3; i++) v[i] = r.chance(45) ? bitsf(sp[r.below(sizeof sp / sizeof sp[0])]) : (r.chance(50) ? tiny_component() : (float)sym());
        break; }
      default: for (int i = 0; i < 3; i++) v[i] = bitsf((uint32_t)r.next()); break;   // raw bit patterns
    }
  }
  // (s,t) aimed at the decoder's case splits
  void st(int q, int32_t *s, int32_t *t) {
    int64_t mq = (1ll << q) - 1, mx = mq - 1, c = mx / 2;
    auto edge = [&](int64_t a) -> int64_t { switch (r.below(8)) { case 0: return 0; case 1: return mx; case 2: return c; case 3: return c - 1; case 4: return c + 1; case 5: return 1; case 6: return mx - 1; default: return a; } };
    int64_t a = (int64_t)r.below((uint64_t)mx + 1), b = (int64_t)r.below((uint64_t)mx + 1);
    switch (r.below(8)) {
      case 0: case 1: break;
      case 2: a = edge(a); break;
      case 3: b = edge(b); break;
      case 4: a = edge(a); b = edge(b); break;
      case 5: { int64_t d = (int64_t)r.below((uint64_t)c + 1), e = c - d + r.range(-1, 1);   // on / next to the diamond edges |s-c|+|t-c| = c
                a = c + (r.chance(50) ? d : -d); b = c + (r.chance(50) ? e : -e); break; }
      case 6: a = (int64_t)(int32_t)r.biased(32); b = (int64_t)(int32_t)r.biased(32); break;  // hostile: any int32
      default: a = r.chance(50) ? mq + r.range(0, 3) : -r.range(1, 3); if (r.chance(50)) std::swap(a, b); break;  // just outside
    }
    a = std::max<int64_t>(INT32_MIN, std::min<int64_t>(INT32_MAX, a)); b = std::max<int64_t>(INT32_MIN, std::min<int64_t>(INT32_MAX, b));
    *s = (int32_t)a; *t = (int32_t)b;
  }
};

// ---------------------------------------------------------------- end to end
enum Method { M_PC_SEQ = 0, M_MESH_SEQ = 1, M_MESH_EB = 2 };
static const char *method_name(int m) { static const char *n[] = {"pcseq", "meshseq", "mesheb"}; return n[m]; }

static void e2e_case(Out &o, Gen &G, int method, int q, int n_target, bool floatpos_probe = false) {
  Rng &r = G.r;
  bool mesh = method != M_PC_SEQ;
  int w = 2 + (int)r.below(6), h = std::max(2, n_target / w);
  int n = mesh ? w * h : std::max(1, n_target);
  // positions: a jittered grid (all distinct, no degenerate triangle)
  std::vector<float> pos((size_t)n * 3);
  for (int i = 0; i < n; i++) { pos[i*3] = (float)(i % w) + 0.25f * (float)G.sym(); pos[i*3+1] = (float)(i / w) + 0.25f * (float)G.sym(); pos[i*3+2] = (float)G.sym(); }
  // "curtain": (x,y) depend on the column only, z on the row only -> every face is vertical also after quantization, so the integer
  // geometric normal has z == 0 exactly with x,y != 0 (the asymmetric case of CanonicalizeIntegerVector under negation)
  const bool curtain = mesh && r.chance(30);
  if (curtain) for (int i = 0; i < n; i++) { int cx = i % w; pos[i*3] = (float)cx; pos[i*3+1] = 0.5f * (float)cx + ((cx & 1) ? 0.75f : 0.f); pos[i*3+2] = (float)(i / w) * 1.25f; }
  // normal values: m <= n values, point i -> value i % m when mapped explicitly
  bool explicit_map = r.chance(25);
  int m = explicit_map ? (int)r.range(1, n) : n;
  OctahedronToolBox tb; tb.SetQuantizationBits(q);
  std::vector<float> nrm((size_t)m * 3);
  for (int i = 0; i < m; i++) {
    float *v = &nrm[(size_t)i * 3];
    do { G.vec(v, tb.center_value()); } while (!all_finite(v) || (!(l1_as_library(v) > 1e-6) && !all_zero_or_denormal(v)));
    // smooth-ish field for some runs so that prediction has something to predict
  }
  std::unique_ptr<PointCloud> geo(mesh ? new Mesh() : new PointCloud());
  geo->set_num_points((uint32_t)n);
  // the NORMAL attribute is added before the POSITION attribute in a third of the cases (attribute order is the caller's choice;
  // the coders initialise their per-attribute controllers in that order, parents included)
  const bool normal_first = r.chance(33);
  int pid = -1, nid = -1;
  for (int step = 0; step < 2; step++) {
    if ((step == 0) == normal_first) { GeometryAttribute gn; gn.Init(GeometryAttribute::NORMAL, nullptr, 3, DT_FLOAT32, false, sizeof(float) * 3, 0); nid = geo->AddAttribute(gn, !explicit_map, (uint32_t)m);
      for (int i = 0; i < m; i++) geo->attribute(nid)->SetAttributeValue(AttributeValueIndex((uint32_t)i), &nrm[(size_t)i * 3]); }
    else { GeometryAttribute ga; ga.Init(GeometryAttribute::POSITION, nullptr, 3, DT_FLOAT32, false, sizeof(float) * 3, 0); pid = geo->AddAttribute(ga, true, (uint32_t)n);
      for (int i = 0; i < n; i++) geo->attribute(pid)->SetAttributeValue(AttributeValueIndex((uint32_t)i), &pos[(size_t)i * 3]); }
  }
  if (explicit_map) { geo->attribute(nid)->SetExplicitMapping(n); for (int i = 0; i < n; i++) geo->attribute(nid)->SetPointMapEntry(PointIndex(i), AttributeValueIndex((uint32_t)(i % m))); }
  if (mesh) {
    Mesh *me = static_cast<Mesh *>(geo.get());
    for (int y = 0; y + 1 < h; y++) for (int x = 0; x + 1 < w; x++) {
      uint32_t a = y * w + x, b = a + 1, c = a + w, e = c + 1;
      Mesh::Face f1, f2;
      if (r.chance(50)) { f1[0] = PointIndex(a); f1[1] = PointIndex(b); f1[2] = PointIndex(c); f2[0] = PointIndex(b); f2[1] = PointIndex(e); f2[2] = PointIndex(c); }
      else { f1[0] = PointIndex(a); f1[1] = PointIndex(b); f1[2] = PointIndex(e); f2[0] = PointIndex(a); f2[1] = PointIndex(e); f2[2] = PointIndex(c); }
      me->AddFace(f1); me->AddFace(f2);
    }
  }
  int speed = (int)r.range(0, 10);
  int pos_q = r.chance(80) ? (int)r.range(8, 16) : 0;
  int pred = (int)r.below(3);   // 0 default, 1 difference, 2 geometric normal (meshes only)
  if (!mesh && pred == 2) pred = 0;
  // geometric-normal prediction needs integral or quantized positions (the automatic selection tests it; an explicit
  // request with raw float positions encodes but cannot be decoded: known finding, probed once per run)
  if (pred == 2 && pos_q == 0) pos_q = 12;
  if (floatpos_probe) { pred = 2; pos_q = 0; }
  const std::string dec_fail_tag = floatpos_probe ? "C07-e2e-geonormal-floatpos decode failed: " : "C07-e2e decode failed: ";
  Encoder enc;
  enc.SetSpeedOptions(speed, speed);
  enc.SetAttributeQuantization(GeometryAttribute::NORMAL, q);
  if (pos_q) enc.SetAttributeQuantization(GeometryAttribute::POSITION, pos_q);
  if (pred == 1) enc.SetAttributePredictionScheme(GeometryAttribute::NORMAL, PREDICTION_DIFFERENCE);
  if (pred == 2) enc.SetAttributePredictionScheme(GeometryAttribute::NORMAL, MESH_PREDICTION_GEOMETRIC_NORMAL);
  std::string id = std::string(method_name(method)) + " speed=" + S(speed) + " q=" + S(q) + " posq=" + S(pos_q) + " pred=" + S(pred) +
                   " n=" + S(n) + " m=" + S(m) + (explicit_map ? " mapped" : "") + (curtain ? " curtain" : "") + (normal_first ? " normal-first" : "");
  EncoderBuffer eb; Status st;
  switch (method) {
    case M_PC_SEQ: enc.SetEncodingMethod(POINT_CLOUD_SEQUENTIAL_ENCODING); st = enc.EncodePointCloudToBuffer(*geo, &eb); break;
    case M_MESH_SEQ: enc.SetEncodingMethod(MESH_SEQUENTIAL_ENCODING); st = enc.EncodeMeshToBuffer(*static_cast<Mesh *>(geo.get()), &eb); break;
    default: enc.SetEncodingMethod(MESH_EDGEBREAKER_ENCODING); st = enc.EncodeMeshToBuffer(*static_cast<Mesh *>(geo.get()), &eb); break;
  }
  if (!st.ok()) { n_enc_fail++; o.note("encode failed (" + std::string(st.error_msg()) + "): " + id); return; }
  std::unique_ptr<PointCloud> out[2];
  for (int pass = 0; pass < 2; pass++) {
    DecoderBuffer db; db.Init(eb.data(), eb.size());
    Decoder dec;
    if (pass == 1) dec.SetSkipAttributeTransform(GeometryAttribute::NORMAL);
    if (mesh) { auto rr = dec.DecodeMeshFromBuffer(&db); if (!rr.ok()) { o.fail(dec_fail_tag + id + " " + rr.status().error_msg()); return; } out[pass] = std::move(rr).value(); }
    else { auto rr = dec.DecodePointCloudFromBuffer(&db); if (!rr.ok()) { o.fail(dec_fail_tag + id + " " + rr.status().error_msg()); return; } out[pass] = std::move(rr).value(); }
  }
  const PointAttribute *fa = out[0]->GetNamedAttribute(GeometryAttribute::NORMAL);
  const PointAttribute *ia = out[1]->GetNamedAttribute(GeometryAttribute::NORMAL);
  if (!fa || !ia) { o.fail("C07-e2e decoded geometry has no NORMAL: " + id); return; }
  AttributeOctahedronTransform t;
  if (!t.InitFromAttribute(*ia)) { o.fail("C07-e2e skip-transform decode exposes no octahedron transform data: " + id); return; }
  if (t.quantization_bits() != q) { o.fail("C07-e2e quantization bits in the stream differ: " + id + " stream=" + S(t.quantization_bits())); return; }
  if (fa->size() != ia->size() || fa->num_components() != 3 || ia->num_components() != 2 || fa->data_type() != DT_FLOAT32 ||
      out[0]->num_points() != out[1]->num_points()) { o.fail("C07-e2e decoded attribute shapes: " + id); return; }
  n_e2e++;
  std::vector<int32_t> words(ia->size() * 2); std::vector<float> vals(fa->size() * 3);
  for (uint32_t i = 0; i < ia->size(); i++) { ia->GetValue(AttributeValueIndex(i), &words[(size_t)i * 2]); fa->GetValue(AttributeValueIndex(i), &vals[(size_t)i * 3]); }
  // (1) the decoder's inverse transform of the integers it decoded, against the model (bit-exact)
  o.c("e2d " + S(q) + " " + join_i(words), join_fobs(vals));
  // (2) the decoded integers are the quantization of the original values (as a set of (s,t)), against the model
  std::set<std::pair<int32_t, int32_t>> got, expect;
  for (uint32_t i = 0; i < ia->size(); i++) got.insert({words[(size_t)i * 2], words[(size_t)i * 2 + 1]});
  for (int i = 0; i < m; i++) { int32_t s, t; tb.FloatVectorToQuantizedOctahedralCoords(&nrm[(size_t)i * 3], &s, &t); expect.insert({s, t}); }
  { std::string gs; bool first = true; for (auto &p : got) { if (!first) gs += ","; first = false; gs += S(p.first) + "," + S(p.second); }
    o.c("e2q " + S(q) + " " + join_f(nrm), gs.empty() ? "-" : gs); }
  if (got != expect) o.fail("C07-e2e decoded (s,t) set is not the quantization of the originals: " + id + " normals=" + join_f(nrm));
  // (3) per point, where the point order is preserved (sequential methods): the property itself
  if (method != M_MESH_EB) {
    if ((int)out[0]->num_points() != n) { o.fail("C07-e2e point count changed: " + id); return; }
    for (int p = 0; p < n; p++) {
      const float *orig = &nrm[(size_t)(explicit_map ? p % m : p) * 3];
      uint32_t fi = fa->mapped_index(PointIndex(p)).value(), ii = ia->mapped_index(PointIndex(p)).value();
      check_pair(o, q, orig, words[(size_t)ii * 2], words[(size_t)ii * 2 + 1], &vals[(size_t)fi * 3], "e2e " + id + " point=" + S(p));
      n_e2e_points++;
    }
  } else {
    // Edgebreaker reorders points: every decoded value must be the decode of the quantization of some original (checked by (1),(2));
    // the property for every original through the class (the same function): done here on the originals
    for (uint32_t p = 0; p < out[0]->num_points(); p++) {
      uint32_t fi = fa->mapped_index(PointIndex(p)).value(), ii = ia->mapped_index(PointIndex(p)).value();
      float chk[3]; tb.QuantizedOctahedralCoordsToUnitVector(words[(size_t)ii * 2], words[(size_t)ii * 2 + 1], chk);
      if (memcmp(chk, &vals[(size_t)fi * 3], sizeof chk) != 0 && !(std::isnan(chk[0]) && std::isnan(vals[(size_t)fi * 3])))
        o.fail("C07-e2e decoded normal is not the decode of its (s,t): " + id + " point=" + S(p));
      n_e2e_points++;
    }
    for (int i = 0; i < m; i++) { int32_t s, t; float d[3]; tb.FloatVectorToQuantizedOctahedralCoords(&nrm[(size_t)i * 3], &s, &t);
      tb.QuantizedOctahedralCoordsToUnitVector(s, t, d); check_pair(o, q, &nrm[(size_t)i * 3], s, t, d, "e2e-class " + id); }
  }
  if (pred == 2 || (pred == 0 && mesh && speed < 4 && pos_q > 0)) n_geo_pred++;
}

int main(int argc, char **argv) {
  if (argc < 4) { fprintf(stderr, "usage: h_C07 quick|thorough seed out\n"); return 2; }
  bool thorough = !strcmp(argv[1], "thorough");
  Rng r(strtoull(argv[2], 0, 10));
  Gen G(r);
  Out o(argv[argc - 1]);
  o.note("C07 tier=" + std::string(argv[1]) + " seed=" + argv[2]);

  // 0. fixed cases: q outside 2..30; the axes, zero, -0, the (0.5,0.5,0) repair case, 1e-6 threshold, NaN/Inf, every q
  for (int q : {-1, 0, 1, 31, 32}) { float v[3] = {0, 0, 1}; fv_case(o, q, v); uv_case(o, q, 1, 1); }
  for (int q = 2; q <= 30; q++) {
    static const float fx[][3] = {{1,0,0},{-1,0,0},{0,1,0},{0,-1,0},{0,0,1},{0,0,-1},{0,0,0},{-0.f,-0.f,-0.f},{0.5f,0.5f,0},{0.5f,-0.5f,-0.f},
      {1,1,1},{-1,-1,-1},{-1,1,1},{-1,1e-30f,0},{1e-30f,0,0},{0,1e-7f,0},{3e-7f,3e-7f,-3e-7f},{4e-7f,4e-7f,-4e-7f},{1e30f,-1e30f,1e30f},
      {3.4e38f,3.4e38f,3.4e38f},{1e-45f,0,0},{0,-1.1e-38f,0},{NAN,0,1},{0,0,NAN},{INFINITY,0,0},{0,-INFINITY,1},{0,1,INFINITY},{1,0,-INFINITY},
      {INFINITY,INFINITY,INFINITY},{-1e-20f,1,0},{-0.f,1,0},{-0.f,0,1},{-0.f,0,-1},{-1,0,-0.f}};
    for (auto &v : fx) fv_case(o, q, v);
    int64_t mx = (1ll << q) - 2, c = mx / 2;
    for (int64_t s : {(int64_t)0, c, mx, c - 1, c + 1}) for (int64_t t : {(int64_t)0, c, mx, c - 1, c + 1}) uv_case(o, q, (int32_t)s, (int32_t)t);
    uv_case(o, q, INT32_MIN, INT32_MAX); uv_case(o, q, -1, (int32_t)mx + 1);
  }
  // 1. exhaustive small squares and integer vectors: q = 2..5 (thorough: ..7)
  for (int q = 2; q <= (thorough ? 7 : 5); q++) {
    int32_t mq = (1 << q) - 1, c = (mq - 1) / 2;
    for (int32_t s = -1; s <= mq + 1; s++) for (int32_t t = -1; t <= mq + 1; t++) uv_case(o, q, s, t);
    for (int32_t i0 = -c; i0 <= c; i0++) for (int32_t i1 = -(c - std::abs(i0)); i1 <= c - std::abs(i0); i1++) {
      int32_t i2 = c - std::abs(i0) - std::abs(i1);
      iv_case(o, q, i0, i1, i2); if (i2) iv_case(o, q, i0, i1, -i2);
    }
  }
  // 2. random vectors aimed at the case splits, every q
  int n2 = thorough ? 12000 : 520;
  for (int q = 2; q <= 30; q++) {
    int32_t c = (int32_t)(((1u << q) - 2) / 2);
    for (int i = 0; i < n2; i++) { float v[3]; G.vec(v, c); fv_case(o, q, v); }
    for (int i = 0; i < n2 / 2; i++) { int32_t s, t; G.st(q, &s, &t); uv_case(o, q, s, t); }
    for (int i = 0; i < n2 / 8; i++) {   // integer vectors with abs sum = c
      int32_t i0 = (int32_t)r.range(-c, c), rest = c - std::abs(i0), i1 = (int32_t)r.range(-rest, rest), i2 = rest - std::abs(i1);
      if (r.chance(20)) { i0 = r.chance(50) ? 0 : (r.chance(50) ? c : -c); rest = c - std::abs(i0); i1 = (int32_t)r.range(-rest, rest); i2 = rest - std::abs(i1); }
      if (r.chance(20)) { i1 = r.chance(50) ? rest : -rest; i2 = 0; }
      iv_case(o, q, i0, i1, r.chance(50) ? i2 : -i2);
    }
    for (int i = 0; i < n2 / 8; i++) {   // CanonicalizeIntegerVector<int32_t>
      int k = (int)r.range(1, 31);
      auto comp = [&]() -> int32_t { int64_t lim = (1ll << k) - 1; int64_t x = r.range(-lim, lim); if (r.chance(15)) x = 0; if (r.chance(5)) x = r.chance(50) ? INT32_MAX : -INT32_MAX; return (int32_t)x; };
      int32_t v0 = comp(), v1 = comp(), v2 = comp();
      if (r.chance(3)) v0 = v1 = v2 = 0;
      civ_case(o, q, v0, v1, v2);
    }
  }
  // 3. the transform class: valid and invalid q, both overloads
  int n3 = thorough ? 4000 : 400;
  for (int i = 0; i < n3; i++) {
    int q = (int)r.range(2, 30);
    if (r.chance(8)) { static const int bad[] = {-1, 0, 1, 31, 32, 255, 256, 264, -2, 100}; q = bad[r.below(10)]; }
    int32_t c = (q >= 2 && q <= 30) ? (int32_t)(((1u << q) - 2) / 2) : 1000;
    int n = (int)r.range(r.chance(5) ? 0 : 1, 8);
    std::vector<float> flat((size_t)n * 3);
    for (int k = 0; k < n; k++) G.vec(&flat[(size_t)k * 3], c);
    std::vector<uint32_t> ids;
    if (n > 0 && r.chance(40)) { int cnt = (int)r.range(1, 10); for (int k = 0; k < cnt; k++) ids.push_back((uint32_t)r.below(n)); }
    transform_case(o, q, ids, flat);
  }
  for (int i = 0; i < (thorough ? 600 : 80); i++) {
    std::vector<uint8_t> b((size_t)r.range(0, 3)); for (auto &x : b) x = (uint8_t)r.biased(8);
    decode_params_case(o, b);
    int q = r.chance(70) ? (int)r.range(2, 30) : (int)r.range(-3, 40);
    std::vector<int32_t> w((size_t)r.range(0, 5) * 2);
    for (size_t k = 0; k + 1 < w.size(); k += 2) { int qq = (q >= 2 && q <= 30) ? q : 10; G.st(qq, &w[k], &w[k + 1]); }
    inverse_case(o, q, w);
  }
  // 4. end to end through Encoder / Decoder
  int n4 = thorough ? 5000 : 450;
  for (int i = 0; i < n4; i++) {
    int method = (int)r.below(3);
    int q = (int)r.range(2, 22);
    if (r.chance(25)) q = (int)r.range(2, 8);
    e2e_case(o, G, method, q, (int)r.range(1, r.chance(10) ? 200 : 40));
  }
  e2e_case(o, G, M_MESH_EB, 10, 8, true);
  for (int q : {23, 24, 25}) for (int k = 0; k < (thorough ? 3 : 1); k++) e2e_case(o, G, (int)r.below(3), q, (int)r.range(4, 20));
  if (thorough) for (int q : {26, 28, 30}) e2e_case(o, G, (int)r.below(3), q, 8);

  char buf[600];
  snprintf(buf, sizeof buf, "counts: fv=%ld uv=%ld angle_checked=%ld fallback=%ld repair_branch=%ld left_hemisphere=%ld ub_inputs=%ld e2e_runs=%ld e2e_points=%ld "
           "e2e_geometric_normal=%ld encode_failed=%ld tiny_l1_findings=%ld worst_angle_ratio=%.4Lf worst_len_err=%.3Le",
           n_fv, n_uv, n_bound, n_fallback, n_repair, n_left, n_ub, n_e2e, n_e2e_points, n_geo_pred, n_enc_fail, n_tiny_finding, worst_ratio, worst_len);
  o.note(buf);
  std::string qs = "per_q:"; for (int q = 2; q <= 30; q++) qs += " " + S(n_q[q]);
  o.note(qs);
  return 0;
}
