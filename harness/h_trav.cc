// TRAV correspondence + search harness: the serialisation layer of the Edgebreaker connectivity stream of /repo
// (traversal encoders/decoders, split-event block, EncodeConnectivity/DecodeConnectivity() framing)
// against coq/Model/EbTraversal.v.
//
// The REAL encoder and decoder implementation templates are instantiated here (the .cc files are included) with
// traversal encoders/decoders that derive from the real ones and only RECORD what passes through them:
//   encoder side: symbols, start-face bits, seam bits, (context, symbol id) pairs of the valence encoder, split events,
//                 header counts, the bytes of the connectivity section of the stream;
//   decoder side: symbols / bits / seams handed to the state machine, the split events, the valence decoder's contexts,
//                 NewActiveCornerReached / MergeVertices calls, the exact number of bytes consumed.
// Case kinds ("<lhs> | <implementation result>"):
//   enc_std <mesh_faces> <nv> <nf> <nattr> <nsym> <nsplit> <syms> <events> <start bits> <seams>   | hex of the section
//   enc_val <nv> <nf> <nattr> <nsym> <nsplit> <methods> <pairs> <events> <start bits> <seams>       | hex of the section
//   dec <nsym to drain> <start bits to drain> <seam bits to drain per attribute> <hex>             | rej / ign / ok ...
//   vrun <steps> <hex>                                                                             | sy=.. cx=.. left=..
// '!' lines: direct failures of the property on the implementation (decoder's lists != encoder's lists, consumption not
// exact, official API stream differs, premises of the theorems violated by the real encoder, crash/hang on hostile bytes).
#include "common.h"
#include <algorithm>
#include <array>
#include <atomic>
#include <bitset>
#include <cmath>
#include <deque>
#include <fstream>
#include <functional>
#include <iostream>
#include <iterator>
#include <limits>
#include <list>
#include <map>
#include <memory>
#include <mutex>
#include <numeric>
#include <queue>
#include <set>
#include <sstream>
#include <stack>
#include <thread>
#include <tuple>
#include <type_traits>
#include <unordered_map>
#include <unordered_set>
#include <utility>
#include <signal.h>
#include <sys/wait.h>
#include <unistd.h>
#include "draco/compression/encode.h"
#include "draco/compression/expert_encode.h"
#include "draco/compression/decode.h"
#include "draco/mesh/mesh.h"
#include "draco/mesh/triangle_soup_mesh_builder.h"
#include "draco/core/varint_encoding.h"
#include "draco/compression/entropy/symbol_encoding.h"
#include "draco/compression/entropy/symbol_decoding.h"
// The valence decoder ignores the result of DecodeSymbols: route its call through a hook that remembers a failure.
namespace draco { bool TravHookDecodeSymbols(uint32_t n, int nc, DecoderBuffer *b, uint32_t *out); }
#define private public
#define protected public
#define DecodeSymbols TravHookDecodeSymbols
#include "draco/compression/mesh/mesh_edgebreaker_traversal_valence_decoder.h"
#undef DecodeSymbols
#include "draco/compression/mesh/mesh_edgebreaker_decoder.h"
#include "draco/compression/mesh/mesh_edgebreaker_decoder_impl.cc"
#include "draco/compression/mesh/mesh_edgebreaker_encoder.h"
#include "draco/compression/mesh/mesh_edgebreaker_encoder_impl.cc"
#undef private
#undef protected
using namespace draco;

static bool g_ignored_failure = false;
namespace draco {
bool TravHookDecodeSymbols(uint32_t n, int nc, DecoderBuffer *b, uint32_t *out) {
  bool ok = DecodeSymbols(n, nc, b, out);
  if (!ok) g_ignored_failure = true;
  return ok;
}
}  // namespace draco

struct Ev { uint32_t src, spl, edge; };
template <typename T, typename F>
static std::string join(const std::vector<T> &v, F f, const char *sep = ",") {
  if (v.empty()) return "-";
  std::string s;
  for (size_t i = 0; i < v.size(); i++) { if (i) s += sep; s += f(v[i]); }
  return s;
}
static std::string bits_text(const std::vector<bool> &b) { if (b.empty()) return "-"; std::string s; for (bool x : b) s += x ? '1' : '0'; return s; }
static std::string seams_text(const std::vector<std::vector<bool>> &l) {
  if (l.empty()) return "-";
  std::string s;
  for (size_t i = 0; i < l.size(); i++) { if (i) s += ";"; s += l[i].empty() ? std::string("e") : bits_text(l[i]); }
  return s;
}
static std::string u32s_text(const std::vector<uint32_t> &v) { return join(v, [](uint32_t x) { return U(x); }); }
static std::string evs_text(const std::vector<Ev> &v) { return join(v, [](const Ev &e) { return U(e.src) + ":" + U(e.spl) + ":" + U(e.edge); }); }

// ---------------------------------------------------------------- recording traversal ENCODERS
struct RecStdTE : public MeshEdgebreakerTraversalEncoder {
  std::vector<uint32_t> syms; std::vector<bool> start; std::vector<std::vector<bool>> seams;
  void SetNumAttributeData(int n) { seams.assign(n, {}); MeshEdgebreakerTraversalEncoder::SetNumAttributeData(n); }
  void EncodeStartFaceConfiguration(bool b) { start.push_back(b); MeshEdgebreakerTraversalEncoder::EncodeStartFaceConfiguration(b); }
  void EncodeSymbol(EdgebreakerTopologyBitPattern s) { syms.push_back((uint32_t)s); MeshEdgebreakerTraversalEncoder::EncodeSymbol(s); }
  void EncodeAttributeSeam(int a, bool s) { seams[a].push_back(s); MeshEdgebreakerTraversalEncoder::EncodeAttributeSeam(a, s); }
};
struct RecValTE : public MeshEdgebreakerTraversalValenceEncoder {
  std::vector<uint32_t> syms; std::vector<bool> start; std::vector<std::vector<bool>> seams;
  std::vector<std::pair<int, uint32_t>> pairs;   // (context, symbol id) in push_back order
  void SetNumAttributeData(int n) { seams.assign(n, {}); MeshEdgebreakerTraversalValenceEncoder::SetNumAttributeData(n); }
  void EncodeStartFaceConfiguration(bool b) { start.push_back(b); MeshEdgebreakerTraversalValenceEncoder::EncodeStartFaceConfiguration(b); }
  void EncodeAttributeSeam(int a, bool s) { seams[a].push_back(s); MeshEdgebreakerTraversalValenceEncoder::EncodeAttributeSeam(a, s); }
  void EncodeSymbol(EdgebreakerTopologyBitPattern s) {
    syms.push_back((uint32_t)s);
    std::vector<size_t> before; for (auto &l : context_symbols_) before.push_back(l.size());
    MeshEdgebreakerTraversalValenceEncoder::EncodeSymbol(s);
    for (size_t c = 0; c < context_symbols_.size(); c++)
      if (context_symbols_[c].size() != before[c]) pairs.push_back({(int)c, context_symbols_[c].back()});
  }
};

template <class TE, int METHOD>
struct RecEncoder : public MeshEdgebreakerEncoder {
  size_t conn_begin = 0, conn_end = 0;
  bool InitializeEncoder() override {
    conn_begin = buffer()->size();
    buffer()->Encode(static_cast<uint8_t>(METHOD));
    impl_ = std::unique_ptr<MeshEdgebreakerEncoderImplInterface>(new MeshEdgebreakerEncoderImpl<TE>());
    return impl_->Init(this);
  }
  Status EncodeConnectivity() override { Status s = MeshEdgebreakerEncoder::EncodeConnectivity(); conn_end = buffer()->size(); return s; }
  MeshEdgebreakerEncoderImpl<TE> *ri() { return static_cast<MeshEdgebreakerEncoderImpl<TE> *>(impl_.get()); }
};

// ---------------------------------------------------------------- recording traversal DECODERS
struct Step { bool merge = false; uint32_t d = 0, s = 0, vc = 0, vn = 0, vp = 0; };
struct DecRecord {
  bool started = false, start_ok = false;
  uint32_t nv = 0, nf = 0, nattr = 0; uint64_t maxv = 0;
  std::vector<Ev> evs;
  std::vector<uint32_t> syms; std::vector<bool> start; std::vector<std::vector<bool>> seams;
  std::vector<int> ctx_used; std::vector<Step> steps; std::vector<std::vector<uint32_t>> lists;
  size_t rest_at_start = 0;
};
template <class Impl>
static void snapshot_header(Impl *ri, DecRecord &R) {
  R.nv = (uint32_t)ri->num_encoded_vertices_; R.nf = (uint32_t)ri->corner_table_->num_faces();
  R.nattr = (uint32_t)ri->attribute_data_.size(); R.maxv = ri->is_vert_hole_.size();
  R.evs.clear();
  for (const TopologySplitEventData &e : ri->topology_split_data_) R.evs.push_back({e.source_symbol_id, e.split_symbol_id, e.source_edge});
}
struct RecStdTD;
typedef MeshEdgebreakerDecoderImpl<RecStdTD> RecStdImpl;
struct RecStdTD : public MeshEdgebreakerTraversalDecoder {
  DecRecord R; MeshEdgebreakerDecoderImplInterface *impl = nullptr;
  int drain_syms = -1, drain_start = 0, drain_seam = 0;      // drain mode: >= 0
  void Init(MeshEdgebreakerDecoderImplInterface *d) { impl = d; MeshEdgebreakerTraversalDecoder::Init(d); }
  bool Start(DecoderBuffer *out);
  uint32_t DecodeSymbol() { uint32_t s = MeshEdgebreakerTraversalDecoder::DecodeSymbol(); R.syms.push_back(s); return s; }
  bool DecodeStartFaceConfiguration() { bool b = MeshEdgebreakerTraversalDecoder::DecodeStartFaceConfiguration(); R.start.push_back(b); return b; }
  bool DecodeAttributeSeam(int a) { bool b = MeshEdgebreakerTraversalDecoder::DecodeAttributeSeam(a); R.seams[a].push_back(b); return b; }
};
bool RecStdTD::Start(DecoderBuffer *out) {
  snapshot_header(static_cast<RecStdImpl *>(impl), R);
  R.started = true;
  R.start_ok = MeshEdgebreakerTraversalDecoder::Start(out);
  if (!R.start_ok) return false;
  R.seams.assign(R.nattr, {});
  R.rest_at_start = (size_t)out->remaining_size();
  if (drain_syms < 0) return true;
  for (int i = 0; i < drain_syms; i++) DecodeSymbol();
  for (int i = 0; i < drain_start; i++) DecodeStartFaceConfiguration();
  for (uint32_t a = 0; a < R.nattr; a++) for (int i = 0; i < drain_seam; i++) DecodeAttributeSeam((int)a);
  return false;   // drain mode: stop before the state machine runs
}
struct RecValTD;
typedef MeshEdgebreakerDecoderImpl<RecValTD> RecValImpl;
struct RecValTD : public MeshEdgebreakerTraversalValenceDecoder {
  DecRecord R; MeshEdgebreakerDecoderImplInterface *impl = nullptr;
  int drain_syms = -1, drain_start = 0, drain_seam = 0;
  bool have_merge = false; uint32_t md = 0, ms = 0;
  void Init(MeshEdgebreakerDecoderImplInterface *d) { impl = d; MeshEdgebreakerTraversalValenceDecoder::Init(d); }
  bool Start(DecoderBuffer *out);
  uint32_t DecodeSymbol() { R.ctx_used.push_back(active_context_); uint32_t s = MeshEdgebreakerTraversalValenceDecoder::DecodeSymbol(); R.syms.push_back(s); return s; }
  bool DecodeStartFaceConfiguration() { bool b = MeshEdgebreakerTraversalValenceDecoder::DecodeStartFaceConfiguration(); R.start.push_back(b); return b; }
  bool DecodeAttributeSeam(int a) { bool b = MeshEdgebreakerTraversalValenceDecoder::DecodeAttributeSeam(a); R.seams[a].push_back(b); return b; }
  void MergeVertices(VertexIndex dest, VertexIndex source) { have_merge = true; md = dest.value(); ms = source.value(); MeshEdgebreakerTraversalValenceDecoder::MergeVertices(dest, source); }
  void NewActiveCornerReached(CornerIndex c) {
    Step st; st.merge = have_merge; st.d = md; st.s = ms; have_merge = false;
    st.vc = corner_table_->Vertex(c).value(); st.vn = corner_table_->Vertex(corner_table_->Next(c)).value();
    st.vp = corner_table_->Vertex(corner_table_->Previous(c)).value();
    R.steps.push_back(st);
    MeshEdgebreakerTraversalValenceDecoder::NewActiveCornerReached(c);
  }
};
bool RecValTD::Start(DecoderBuffer *out) {
  snapshot_header(static_cast<RecValImpl *>(impl), R);
  R.started = true;
  g_ignored_failure = false;
  R.start_ok = MeshEdgebreakerTraversalValenceDecoder::Start(out);
  if (!R.start_ok) return false;
  R.seams.assign(R.nattr, {});
  R.lists = context_symbols_;
  R.rest_at_start = (size_t)out->remaining_size();
  if (drain_syms < 0) return true;
  for (int i = 0; i < drain_start; i++) DecodeStartFaceConfiguration();
  for (uint32_t a = 0; a < R.nattr; a++) for (int i = 0; i < drain_seam; i++) DecodeAttributeSeam((int)a);
  return false;
}

template <class TD, int METHOD>
struct RecDecoder : public MeshEdgebreakerDecoder {
  size_t rem_before = 0, rem_after = 0; bool conn_ok = false;
  bool InitializeDecoder() override {
    rem_before = (size_t)buffer()->remaining_size();
    uint8_t t;
    if (!buffer()->Decode(&t)) return false;
    if (t != METHOD) return false;
    impl_ = std::unique_ptr<MeshEdgebreakerDecoderImplInterface>(new MeshEdgebreakerDecoderImpl<TD>());
    return impl_->Init(this);
  }
  bool DecodeConnectivity() override { conn_ok = MeshEdgebreakerDecoder::DecodeConnectivity(); rem_after = (size_t)buffer()->remaining_size(); return conn_ok; }
  MeshEdgebreakerDecoderImpl<TD> *ri() { return static_cast<MeshEdgebreakerDecoderImpl<TD> *>(impl_.get()); }
};

// result text shared by valid and hostile decodes (the driver prints the same from the model)
static std::string dec_text(const DecRecord &R, int method, bool ok) {
  if (!ok) return g_ignored_failure && method == 2 ? "ign" : "rej";
  if (method == 2 && g_ignored_failure) return "ign";
  std::string t = "ok m=" + S(method) + " nv=" + U(R.nv) + " nf=" + U(R.nf) + " na=" + U(R.nattr) + " mv=" + U(R.maxv) + " ev=" + evs_text(R.evs);
  if (method == 0) t += " sy=" + u32s_text(R.syms);
  t += " sb=" + bits_text(R.start) + " se=" + seams_text(R.seams);
  if (method == 2) {
    std::string c;
    for (size_t i = 0; i < R.lists.size(); i++) { if (i) c += ";"; c += R.lists[i].empty() ? std::string("e") : u32s_text(R.lists[i]); }
    t += " ctx=" + c;
  }
  t += " rest=" + U(R.rest_at_start);
  return t;
}

// ---------------------------------------------------------------- meshes
typedef std::vector<std::array<int, 3>> Faces;
struct MeshSpec { Faces f; int nv = 0; std::string name; int natt = 0; int seam_block = 1; int speed = 5; };

static void add_grid(MeshSpec &m, Rng &r, int w, int h, bool wrapx, bool wrapy, int hole_pct, bool rand_diag) {
  int base = m.nv, cols = wrapx ? w : w + 1, rows = wrapy ? h : h + 1;
  auto id = [&](int x, int y) { return base + (y % rows) * cols + (x % cols); };
  for (int y = 0; y < h; y++) for (int x = 0; x < w; x++) {
    if ((int)r.below(100) < hole_pct) continue;
    int a = id(x, y), b = id(x + 1, y), c = id(x + 1, y + 1), d = id(x, y + 1);
    bool dg = rand_diag && r.chance(50);
    std::array<int, 3> f1 = dg ? std::array<int, 3>{a, b, d} : std::array<int, 3>{a, b, c};
    std::array<int, 3> f2 = dg ? std::array<int, 3>{b, c, d} : std::array<int, 3>{a, c, d};
    bool k1 = hole_pct == 0 || !r.chance(hole_pct / 2), k2 = hole_pct == 0 || !r.chance(hole_pct / 2);
    auto nondeg = [](const std::array<int, 3> &f) { return f[0] != f[1] && f[1] != f[2] && f[0] != f[2]; };
    if (k1 && nondeg(f1)) m.f.push_back(f1);
    if (k2 && nondeg(f2)) m.f.push_back(f2);
  }
  m.nv += cols * rows;
}
static void add_faces(MeshSpec &m, std::initializer_list<std::array<int, 3>> fs, int nv) {
  for (auto f : fs) m.f.push_back({f[0] + m.nv, f[1] + m.nv, f[2] + m.nv});
  m.nv += nv;
}
static void add_tetra(MeshSpec &m) { add_faces(m, {{0, 1, 2}, {0, 3, 1}, {1, 3, 2}, {2, 3, 0}}, 4); }
static void add_octa(MeshSpec &m) { add_faces(m, {{0, 2, 4}, {2, 1, 4}, {1, 3, 4}, {3, 0, 4}, {2, 0, 5}, {1, 2, 5}, {3, 1, 5}, {0, 3, 5}}, 6); }
static void add_fan(MeshSpec &m, int n, bool closed) {
  int base = m.nv;
  for (int i = 0; i < n; i++) { if (!closed && i == n - 1) break; m.f.push_back({base, base + 1 + i, base + 1 + (i + 1) % n}); }
  m.nv += n + 1;
}
static MeshSpec gen_mesh(Rng &r, int idx, bool thorough) {
  MeshSpec m;
  int big = thorough ? 12 : 7;
  m.natt = (int)r.below(3); m.seam_block = 1 + (int)r.below(6); m.speed = r.chance(85) ? 5 : (r.chance(50) ? 0 : 7);
  switch (idx) {
    case 0: add_tetra(m); m.name = "tetrahedron"; m.natt = 0; return m;
    case 1: add_octa(m); m.name = "octahedron"; m.natt = 1; return m;
    case 2: add_faces(m, {{0, 1, 2}}, 3); m.name = "triangle"; m.natt = 0; return m;
    case 3: add_grid(m, r, 3, 3, false, false, 0, false); m.f.erase(m.f.begin() + 8, m.f.begin() + 10); m.name = "grid3x3-hole"; m.natt = 2; m.speed = 5; return m;
    case 4: add_grid(m, r, 3, 3, true, true, 0, false); m.name = "torus3x3"; m.natt = 0; return m;
    case 5: add_grid(m, r, 4, 3, true, false, 0, false); m.name = "cylinder4x3"; m.natt = 1; m.speed = 5; return m;
    case 6: add_tetra(m); add_tetra(m); add_octa(m); m.name = "tetra+tetra+octa"; return m;
    case 7: add_fan(m, 6, true); m.name = "closedfan6"; return m;
    case 8: add_grid(m, r, 4, 4, true, true, 0, false); m.f.erase(m.f.begin() + 5, m.f.begin() + 7); m.name = "torus4x4-hole"; m.natt = 1; m.speed = 5; return m;
    case 9: add_faces(m, {{0, 1, 2}}, 3); m.name = "triangle+2attrs"; m.natt = 2; m.speed = 5; return m;
    case 10: add_grid(m, r, 5, 2, true, true, 0, false); m.name = "torus5x2(multi-edges)"; return m;
    case 11: add_faces(m, {{0, 1, 2}, {0, 2, 1}}, 3); m.name = "pillow"; return m;
    case 12: add_faces(m, {{0, 1, 2}, {0, 2, 1}, {0, 1, 2}, {0, 2, 1}}, 3); m.name = "4 copies of a face"; return m;
    case 13: add_tetra(m); add_tetra(m); add_tetra(m); add_tetra(m); m.name = "4 tetrahedra (num_faces = 4/3 num_symbols)"; return m;
    case 14: add_faces(m, {{0, 1, 2}, {0, 2, 3}}, 4); m.name = "quad with 128 attribute data (the encoder's limit)"; m.natt = 128; m.speed = 5; return m;
    case 15: add_faces(m, {{0, 1, 2}, {0, 2, 3}}, 4); m.name = "quad with 129 attribute data (encode must fail)"; m.natt = 129; m.speed = 5; return m;
    case 16: add_grid(m, r, 2, 2, false, false, 0, false); m.name = "grid with 127 attribute data"; m.natt = 127; m.speed = 5; return m;
    case 17: add_grid(m, r, 2, 2, false, false, 0, false); m.f.push_back({0, 1, 1}); m.f.insert(m.f.begin(), {4, 4, 4}); m.name = "grid2x2 + 2 degenerate faces"; m.natt = 1; m.speed = 5; return m;
    case 18: add_faces(m, {{0, 1, 2}, {2, 2, 1}}, 3); m.name = "triangle + degenerate face"; return m;
    default: break;
  }
  int parts = 1 + (int)r.below(3);
  for (int p = 0; p < parts; p++) {
    switch (r.below(6)) {
      case 0: add_tetra(m); break;
      case 1: add_octa(m); break;
      case 2: add_fan(m, 3 + (int)r.below(7), r.chance(50)); break;
      default: {
        int w = 1 + (int)r.below(big), h = 1 + (int)r.below(big);
        bool wx = w >= 2 && r.chance(35), wy = h >= 2 && r.chance(35);
        add_grid(m, r, w, h, wx, wy, r.chance(50) ? 0 : (int)r.below(30), r.chance(50));
      }
    }
  }
  if (r.chance(25) && m.nv > 3) {   // non-manifold input: identify vertices (the encoder's corner table splits them)
    int k = 1 + (int)r.below(3);
    for (int i = 0; i < k; i++) {
      int a = (int)r.below(m.nv), b = (int)r.below(m.nv);
      for (auto &f : m.f) for (int j = 0; j < 3; j++) if (f[j] == a) f[j] = b;
    }
    Faces g; for (auto &f : m.f) if (f[0] != f[1] && f[1] != f[2] && f[0] != f[2]) g.push_back(f);
    m.f = g;
  }
  if (r.chance(15) && !m.f.empty()) { auto &f = m.f[r.below(m.f.size())]; std::swap(f[1], f[2]); }
  if (r.chance(30)) { for (size_t i = m.f.size(); i > 1; i--) std::swap(m.f[i - 1], m.f[r.below(i)]); }
  m.name = "random";
  return m;
}
static std::unique_ptr<Mesh> build_mesh(const MeshSpec &ms) {
  TriangleSoupMeshBuilder mb;
  mb.Start((int)ms.f.size());
  int pos = mb.AddAttribute(GeometryAttribute::POSITION, 3, DT_FLOAT32);
  std::vector<int> atts;
  for (int a = 0; a < ms.natt; a++) atts.push_back(mb.AddAttribute(GeometryAttribute::GENERIC, 1, DT_INT32));
  for (size_t i = 0; i < ms.f.size(); i++) {
    float p[3][3];
    for (int k = 0; k < 3; k++) { int v = ms.f[i][k]; p[k][0] = (float)v; p[k][1] = (float)((v * 7) % 13); p[k][2] = (float)((v * v) % 31); }
    mb.SetAttributeValuesForFace(pos, FaceIndex((uint32_t)i), p[0], p[1], p[2]);
    for (int a = 0; a < ms.natt; a++) {
      // attribute value = f(vertex, block of the face): faces of different blocks disagree on shared vertices -> seams
      int32_t blk = (int32_t)((i / (size_t)(ms.seam_block + a)) % 3);
      int32_t v[3]; for (int k = 0; k < 3; k++) v[k] = ms.f[i][k] * 4 + blk;
      mb.SetAttributeValuesForFace(atts[a], FaceIndex((uint32_t)i), &v[0], &v[1], &v[2]);
    }
  }
  return mb.Finalize();
}

// ---------------------------------------------------------------- valid streams
struct Section { std::vector<uint8_t> bytes; std::vector<uint8_t> after; int method = 0; uint32_t nf = 0; };
static long g_meshes = 0, g_syms = 0, g_events = 0, g_seambits = 0, g_interior = 0, g_unsorted_events = 0, g_ctx_pairs = 0;

template <class TE, class TD, int METHOD>
static bool valid_case(Out &o, const MeshSpec &ms, Section *sec) {
  std::unique_ptr<Mesh> mesh = build_mesh(ms);
  if (!mesh || mesh->num_faces() == 0) return false;
  Encoder enc;
  enc.SetEncodingMethod(MESH_EDGEBREAKER_ENCODING);
  enc.SetSpeedOptions(ms.speed, ms.speed);
  enc.SetAttributeQuantization(GeometryAttribute::POSITION, 12);
  enc.options().SetGlobalInt("edgebreaker_method", METHOD);
  EncoderOptions eo = enc.CreateExpertEncoderOptions(*mesh);
  // 1. the recording encoder
  RecEncoder<TE, METHOD> re;
  re.SetMesh(*mesh);
  EncoderBuffer eb;
  Status st = re.Encode(eo, &eb);
  // the encoder's own guard: more than 128 attribute data (the decoder's int8_t id) make the encode fail
  const bool separate = ms.speed < 6;
  if (st.ok() && separate && ms.natt > 128) o.fail("ENCODE-ACCEPTED " + S(ms.natt) + " attribute data (" + ms.name + ")");
  if (!st.ok()) {
    if (separate && ms.natt > 128 && st.error_msg_string() == "Too many attributes.") {
      auto *fi = re.ri();
      std::string hdr0 = U((uint32_t)(fi->corner_table_->num_vertices() - fi->corner_table_->NumIsolatedVertices())) + " " +
                         U((uint32_t)(fi->corner_table_->num_faces() - fi->corner_table_->NumDegeneratedFaces())) + " " + S(ms.natt) + " 0 0";
      std::vector<std::vector<bool>> es((size_t)ms.natt);
      if (METHOD == 0) o.c("enc_std " + U(mesh->num_faces()) + " " + hdr0 + " - - - " + seams_text(es), "fail");
      else o.c("enc_val " + hdr0 + " 0,0,0,0,0,0 - - - " + seams_text(es), "fail");
    } else if (st.error_msg_string() == "Too many attributes.") o.fail("ENCODE-REJECTED " + S(ms.natt) + " attribute data (" + ms.name + ")");
    else o.note("encode failed for " + ms.name + ": " + st.error_msg_string());
    return false;
  }
  // the official API must produce the same stream (ties InitializeEncoder's method byte / impl choice)
  { EncoderBuffer eb2; Status s2 = enc.EncodeMeshToBuffer(*mesh, &eb2);
    if (!s2.ok() || eb2.size() != eb.size() || memcmp(eb2.data(), eb.data(), eb.size()) != 0)
      o.fail("OFFICIAL-API-STREAM-DIFFERS (" + ms.name + " method " + S(METHOD) + ")"); }
  auto *ei = re.ri();
  TE &te = ei->traversal_encoder_;
  std::vector<uint8_t> all((const uint8_t *)eb.data(), (const uint8_t *)eb.data() + eb.size());
  std::vector<uint8_t> section(all.begin() + re.conn_begin, all.begin() + re.conn_end);
  std::vector<uint8_t> after(all.begin() + re.conn_end, all.end());
  uint32_t nv = (uint32_t)(ei->corner_table_->num_vertices() - ei->corner_table_->NumIsolatedVertices());
  uint32_t nf = (uint32_t)(ei->corner_table_->num_faces() - ei->corner_table_->NumDegeneratedFaces());
  uint32_t nattr = (uint8_t)ei->attribute_data_.size();
  uint32_t nsym = (uint32_t)te.NumEncodedSymbols(), nsplit = ei->num_split_symbols_;
  std::vector<Ev> evs;
  for (const TopologySplitEventData &e : ei->topology_split_event_data_) evs.push_back({e.source_symbol_id, e.split_symbol_id, e.source_edge});
  // premises of the theorems, checked on what the real encoder produced
  for (size_t i = 0; i < evs.size(); i++) {
    if (evs[i].spl > evs[i].src) o.fail("EVENT-INVARIANT split_symbol_id > source_symbol_id (" + ms.name + ")");
    if (i && evs[i].src < evs[i - 1].src) g_unsorted_events++;
  }
  for (uint32_t s : te.syms) if (!(s == 0 || s == 1 || s == 3 || s == 5 || s == 7)) o.fail("SYMBOL-OUTSIDE-CSLRE from the encoder (" + ms.name + ")");
  if (te.syms.size() != nsym) o.fail("NumEncodedSymbols != number of EncodeSymbol calls (" + ms.name + ")");
  if (te.syms.size() > mesh->num_faces()) o.fail("more symbols than mesh faces (" + ms.name + ")");
  std::string common_tail = evs_text(evs) + " " + bits_text(te.start) + " " + seams_text(te.seams);
  std::string hdr = U(nv) + " " + U(nf) + " " + U(nattr) + " " + U(nsym) + " " + U(nsplit);
  if (METHOD == 0) {
    o.c("enc_std " + U(mesh->num_faces()) + " " + hdr + " " + u32s_text(te.syms) + " " + common_tail, hex(section.data(), section.size()));
  }
  std::vector<int> enc_ctx;   // contexts c_2..c_n in encoder order (valence)
  if constexpr (METHOD == 2) {
    std::vector<uint32_t> methods;
    for (auto &l : te.context_symbols_) {
      uint32_t m = 0;
      if (!l.empty()) { EncoderBuffer tmp; EncodeSymbols(l.data(), (int)l.size(), 1, nullptr, &tmp); m = (uint8_t)tmp.data()[0]; }
      methods.push_back(m);
    }
    std::string ps = join(te.pairs, [](const std::pair<int, uint32_t> &p) { return S(p.first) + ":" + U(p.second); });
    o.c("enc_val " + hdr + " " + u32s_text(methods) + " " + ps + " " + common_tail, hex(section.data(), section.size()));
    for (auto &p : te.pairs) enc_ctx.push_back(p.first);
    g_ctx_pairs += (long)te.pairs.size();
    // premises of C01_trav_valence_roundtrip on the real encoder: the last symbol is E; one pair per symbol but the
    // last; the pair appended with symbol i carries the id of symbol i-1
    if (!te.syms.empty() && te.syms.back() != 7) o.fail("VALENCE last encoded symbol is not E (" + ms.name + ")");
    if (te.pairs.size() + 1 != te.syms.size() && !te.syms.empty()) o.fail("VALENCE number of (context, symbol) pairs != symbols - 1 (" + ms.name + ")");
    static const uint32_t sid[8] = {0, 1, 5, 2, 5, 3, 5, 4};
    for (size_t i = 0; i + 1 < te.syms.size() && i < te.pairs.size(); i++)
      if (te.pairs[i].second != sid[te.syms[i] & 7]) { o.fail("VALENCE pair does not carry the previous symbol (" + ms.name + ")"); break; }
  }
  // 2. the recording decoder on the whole stream
  DecoderBuffer db; db.Init(eb.data(), eb.size());
  RecDecoder<TD, METHOD> dec; Mesh outm; DecoderOptions opts;
  g_ignored_failure = false;
  Status ds = dec.Decode(opts, &db, &outm);
  if (!ds.ok()) { o.fail("DECODE-OF-ENCODER-OUTPUT failed (" + ms.name + " method " + S(METHOD) + "): " + ds.error_msg_string()); return false; }
  { DecoderBuffer db2; db2.Init(eb.data(), eb.size()); Decoder d2; auto r2 = d2.DecodeMeshFromBuffer(&db2);
    if (!r2.ok() || r2.value()->num_faces() != outm.num_faces() || r2.value()->num_points() != outm.num_points())
      o.fail("OFFICIAL-DECODER differs from the recording decoder (" + ms.name + ")"); }
  TD &td = dec.ri()->traversal_decoder_;
  const DecRecord &R = td.R;
  size_t dec_begin = eb.size() - dec.rem_before, dec_end = eb.size() - dec.rem_after;
  if (dec_begin != re.conn_begin || dec_end != re.conn_end)
    o.fail("CONSUMPTION decoder consumed [" + U(dec_begin) + "," + U(dec_end) + ") encoder wrote [" + U(re.conn_begin) + "," + U(re.conn_end) + ") (" + ms.name + ")");
  if (R.rest_at_start != eb.size() - re.conn_end) o.fail("CONSUMPTION traversal_end_buffer is not the end of the traversal buffer (" + ms.name + ")");
  std::vector<uint32_t> rsy(R.syms.rbegin(), R.syms.rend());
  if (rsy != te.syms) o.fail("SYMBOLS decoder's sequence reversed != encoder's sequence (" + ms.name + " method " + S(METHOD) + ")");
  if (R.start != te.start) o.fail("START-FACE-BITS differ (" + ms.name + ")");
  if (R.seams != te.seams) o.fail("SEAM-BITS differ (" + ms.name + ")");
  if (R.evs.size() != evs.size()) o.fail("EVENTS differ in number (" + ms.name + ")");
  else for (size_t i = 0; i < evs.size(); i++) if (R.evs[i].src != evs[i].src || R.evs[i].spl != evs[i].spl || R.evs[i].edge != evs[i].edge) { o.fail("EVENTS differ (" + ms.name + ")"); break; }
  if (R.nv != nv || R.nf != nf || R.nattr != nattr || R.maxv != (uint64_t)nv + nsplit) o.fail("HEADER counts differ (" + ms.name + ")");
  int nseam = R.seams.empty() ? 0 : (int)R.seams[0].size();
  for (auto &l : R.seams) if ((int)l.size() != nseam) o.fail("seam bit counts differ between attributes (" + ms.name + ")");
  std::vector<uint8_t> sa = section; sa.insert(sa.end(), after.begin(), after.end());
  o.c("dec " + U(R.syms.size()) + " " + U(R.start.size()) + " " + S(nseam) + " " + hex(sa.data(), sa.size()), dec_text(R, METHOD, true));
  if constexpr (METHOD == 2) {
    // ctx_agree: the contexts active at the decoder's DecodeSymbol calls 2..n are the encoder's contexts reversed
    std::vector<int> want; want.push_back(-1); for (size_t i = enc_ctx.size(); i > 0; i--) want.push_back(enc_ctx[i - 1]);
    if (R.ctx_used != want) o.fail("CTX-AGREE decoder's context sequence != reverse of the encoder's (" + ms.name + ")");
    for (int c = 0; c < 6; c++) if (td.context_counters_[c] != 0) { o.fail("VALENCE context " + S(c) + " not consumed exactly (" + ms.name + ")"); break; }
    std::string steps = join(R.steps, [](const Step &s) {
      std::string t = U(s.vc) + "." + U(s.vn) + "." + U(s.vp); if (s.merge) t += "." + U(s.d) + "." + U(s.s); return t; });
    std::vector<uint32_t> cx; for (int c : R.ctx_used) cx.push_back((uint32_t)c);
    std::string cxs = join(R.ctx_used, [](int c) { return S(c); });
    o.c("vrun " + steps + " " + hex(sa.data(), sa.size()), "sy=" + u32s_text(R.syms) + " cx=" + cxs + " left=0,0,0,0,0,0");
  }
  g_meshes++; g_syms += (long)te.syms.size(); g_events += (long)evs.size();
  for (auto &l : te.seams) g_seambits += (long)l.size();
  for (bool b : te.start) g_interior += b;
  if (sec) { sec->bytes = section; sec->after = after; sec->method = METHOD; sec->nf = nf; }
  return true;
}

// ---------------------------------------------------------------- hostile sections through the real DecodeConnectivity()
struct Hostile { std::vector<uint8_t> bytes; int ns, nb, nseam; };
static bool parse_varint(const std::vector<uint8_t> &b, size_t &p, uint64_t *v) {
  *v = 0; int sh = 0;
  for (int i = 0; i < 10; i++) { if (p >= b.size()) return false; uint8_t x = b[p++]; *v |= (uint64_t)(x & 127) << sh; sh += 7; if (!(x & 128)) return true; }
  return false;
}
// the declared face count (only used to keep the REAL decoder from allocating gigabytes in this harness)
static bool too_big(const std::vector<uint8_t> &b) {
  size_t p = 1; uint64_t nv, nf;
  if (!parse_varint(b, p, &nv) || !parse_varint(b, p, &nf)) return false;
  return (uint32_t)nf > 300000u;
}
template <class TD>
static std::string run_drain(const Hostile &h, int method) {
  Mesh mesh; MeshEdgebreakerDecoder dec; DecoderOptions opts; DecoderBuffer db;
  dec.mesh_ = &mesh; dec.point_cloud_ = &mesh; dec.options_ = &opts;
  dec.version_major_ = 2; dec.version_minor_ = 2; dec.buffer_ = &db;
  db.Init((const char *)h.bytes.data() + 1, h.bytes.size() - 1, DRACO_BITSTREAM_VERSION(2, 2));
  MeshEdgebreakerDecoderImpl<TD> impl;
  impl.Init(&dec);
  impl.traversal_decoder_.drain_syms = h.ns; impl.traversal_decoder_.drain_start = h.nb; impl.traversal_decoder_.drain_seam = h.nseam;
  g_ignored_failure = false;
  impl.DecodeConnectivity();
  const DecRecord &R = impl.traversal_decoder_.R;
  return dec_text(R, method, R.started && R.start_ok);
}
static std::string run_hostile(const Hostile &h) {
  if (h.bytes.empty()) return "rej";
  if (h.bytes[0] == 0) return run_drain<RecStdTD>(h, 0);
  if (h.bytes[0] == 2) return run_drain<RecValTD>(h, 2);
  return "rej";
}
static long g_h_ok = 0, g_h_rej = 0, g_h_ign = 0, g_crashes = 0, g_hangs = 0;
static std::string lhs_of(const Hostile &h) { return "dec " + S(h.ns) + " " + S(h.nb) + " " + S(h.nseam) + " " + hex(h.bytes.data(), h.bytes.size()); }
static void run_all(Out &o, const std::vector<Hostile> &hs, const std::string &tmp) {
  size_t i = 0;
  while (i < hs.size()) {
    fflush(o.f);
    pid_t pid = fork();
    if (pid < 0) { perror("fork"); exit(2); }
    if (pid == 0) {
      FILE *f = fopen(tmp.c_str(), "w");
      for (size_t k = i; k < hs.size(); k++) {
        alarm(20);
        std::string r = run_hostile(hs[k]);
        alarm(0);
        fprintf(f, "%zu\t%s\n", k, r.c_str());
        fflush(f);
      }
      fclose(f);
      _exit(0);
    }
    int status = 0; waitpid(pid, &status, 0);
    std::ifstream in(tmp);
    std::string line; size_t done = i;
    while (std::getline(in, line)) {
      size_t t1 = line.find('\t');
      if (t1 == std::string::npos) break;
      size_t k = std::stoul(line.substr(0, t1));
      std::string r = line.substr(t1 + 1);
      if (r.empty()) break;
      o.c(lhs_of(hs[k]), r);
      if (r == "rej") g_h_rej++; else if (r == "ign") g_h_ign++; else g_h_ok++;
      done = k + 1;
    }
    if (done >= hs.size()) break;
    std::string how;
    if (WIFSIGNALED(status) && WTERMSIG(status) == SIGALRM) { how = "HANG (watchdog 20s)"; g_hangs++; }
    else { how = std::string("CRASH ") + (WIFSIGNALED(status) ? "signal " + S(WTERMSIG(status)) : "exit " + S(WEXITSTATUS(status))); g_crashes++; }
    o.c(lhs_of(hs[done]), how);
    o.fail(how + " of the real decoder :: " + lhs_of(hs[done]));
    i = done + 1;
  }
  unlink(tmp.c_str());
}
static void put_varint(std::vector<uint8_t> &v, uint64_t x) { while (x >= 128) { v.push_back((uint8_t)(x & 127) | 128); x >>= 7; } v.push_back((uint8_t)x); }
static Hostile mutate(const Section &s, Rng &r) {
  Hostile h; h.bytes = s.bytes;
  for (int i = 0; i < 8; i++) h.bytes.push_back((uint8_t)r.below(256));   // something behind the section
  size_t n = s.bytes.size();
  int kind = (int)r.below(10);
  auto pos = [&]() { return r.chance(60) ? (size_t)r.below(std::min<size_t>(n, 24)) : (size_t)r.below(n); };
  switch (kind) {
    case 0: break;                                                        // unchanged section, arbitrary drain counts
    case 1: h.bytes[pos()] ^= (uint8_t)(1u << r.below(8)); break;
    case 2: h.bytes[pos()] = (uint8_t)r.below(256); break;
    case 3: { static const uint8_t B[] = {0, 1, 2, 127, 128, 129, 254, 255}; h.bytes[pos()] = B[r.below(8)]; break; }
    case 4: h.bytes.resize(r.below(n + 1)); break;                       // truncation
    case 5: { size_t p = pos(); h.bytes.insert(h.bytes.begin() + p, (uint8_t)r.below(256)); break; }
    case 6: { size_t p = pos(); h.bytes.erase(h.bytes.begin() + p); break; }
    case 7: { int k = 2 + (int)r.below(4); for (int i = 0; i < k; i++) h.bytes[pos()] = (uint8_t)r.below(256); break; }
    case 8: h.bytes[0] = h.bytes[0] == 0 ? 2 : 0; break;                 // the other traversal method on the same bytes
    default: {                                                            // rewrite the header counts around the guards
      std::vector<uint8_t> v; v.push_back(h.bytes[0]);
      uint32_t nf = (uint32_t)r.below(40), nsym = nf ? (uint32_t)r.range((int64_t)nf * 3 / 4 - 1 < 0 ? 0 : (int64_t)nf * 3 / 4 - 1, nf + 1) : (uint32_t)r.below(2);
      uint32_t nvv = (uint32_t)r.range(0, 3 * (int64_t)nf + 1);
      if (r.chance(10)) nvv = (uint32_t)r.biased(32);
      if (r.chance(5)) nf = 300000u - (uint32_t)r.below(3);
      put_varint(v, nvv); put_varint(v, nf); v.push_back((uint8_t)(r.chance(80) ? r.below(3) : r.below(256)));
      put_varint(v, nsym); put_varint(v, r.chance(80) ? r.below(nsym + 2) : r.biased(32));
      // events: count and delta pairs around the guards
      uint32_t ne = (uint32_t)r.below(4); if (r.chance(10)) ne = nf + (uint32_t)r.below(2);
      put_varint(v, ne);
      for (uint32_t i = 0; i < ne && i < 50; i++) { uint64_t d1 = r.chance(85) ? r.below(6) : r.biased(32); put_varint(v, d1); put_varint(v, r.chance(85) ? r.below(d1 + 2) : r.biased(32)); }
      if (ne) v.push_back((uint8_t)r.below(256));
      // then the traversal part of the original section (found behind its own header: reuse the tail bytes)
      size_t cut = std::min<size_t>(n, 6 + r.below(6));
      v.insert(v.end(), s.bytes.begin() + cut, s.bytes.end());
      for (int i = 0; i < 8; i++) v.push_back((uint8_t)r.below(256));
      h.bytes = v;
    }
  }
  if (!h.bytes.empty() && h.bytes[0] == 1) h.bytes[0] = 3;   // method 1 (predictive, legacy only) is outside the model
  size_t len = h.bytes.size();
  h.ns = r.chance(15) ? (int)std::min<size_t>(8 * len + 16, 3000) : (int)r.below(80);
  h.nb = (int)r.below(12); h.nseam = (int)r.below(12);
  return h;
}

int main(int argc, char **argv) {
  if (argc < 4) { fprintf(stderr, "usage: h_trav <tier> <seed> <outfile>\n"); return 2; }
  const bool thorough = std::string(argv[1]) == "thorough";
  Rng r((uint64_t)atoll(argv[2]));
  Out o(argv[3]);
  std::vector<Section> secs;
  int nmesh = thorough ? 700 : 150;
  for (int i = 0; i < nmesh; i++) {
    MeshSpec ms = gen_mesh(r, i, thorough);
    if (ms.f.empty()) continue;
    Section s0, s2;
    if (valid_case<RecStdTE, RecStdTD, 0>(o, ms, &s0)) secs.push_back(s0);
    if (valid_case<RecValTE, RecValTD, 2>(o, ms, &s2)) secs.push_back(s2);
  }
  o.note("valid streams: meshes=" + S(g_meshes) + " symbols=" + S(g_syms) + " split_events=" + S(g_events) + " seam_bits=" + S(g_seambits) +
         " interior_start_faces=" + S(g_interior) + " valence_pairs=" + S(g_ctx_pairs) + " event_lists_not_sorted_by_source=" + S(g_unsorted_events));
  std::vector<Hostile> hs;
  int nh = thorough ? 40000 : 6000;
  for (int i = 0; i < nh && !secs.empty(); i++) {
    const Section &s = secs[r.below(secs.size())];
    if (s.bytes.size() > 400) continue;
    Hostile h = mutate(s, r);
    if (too_big(h.bytes)) continue;
    hs.push_back(h);
  }
  run_all(o, hs, std::string(argv[3]) + ".tmp");
  o.note("hostile sections: total=" + S((long)hs.size()) + " accepted=" + S(g_h_ok) + " rejected=" + S(g_h_rej) + " ignored_DecodeSymbols_failure=" + S(g_h_ign) +
         " crashes=" + S(g_crashes) + " hangs=" + S(g_hangs));
  return 0;
}
