// Shared by h_C04.cc and h_C12.cc: float bit helpers, generators, attribute builders, and the
// end-to-end encode/decode plumbing for quantized float attributes.
#pragma once
#include "common.h"
#include <algorithm>
#include <cmath>
#include <memory>
#include <set>
#include "draco/attributes/attribute_quantization_transform.h"
#include "draco/attributes/point_attribute.h"
#include "draco/compression/decode.h"
#include "draco/compression/encode.h"
#include "draco/core/quantization_utils.h"
#include "draco/mesh/mesh.h"
#include "draco/point_cloud/point_cloud.h"
using namespace draco;

static inline uint32_t fbits(float f) { uint32_t u; memcpy(&u, &f, 4); return u; }
static inline float bitsf(uint32_t u) { float f; memcpy(&f, &u, 4); return f; }
// observers print every NaN as -1 (model: obs_bits)
static inline std::string FB(float f) { return std::isnan(f) ? std::string("-1") : U(fbits(f)); }
static std::string join_u(const std::vector<uint32_t> &v) {
  if (v.empty()) return "-";
  std::string s; for (size_t i = 0; i < v.size(); i++) { if (i) s += ","; s += U(v[i]); } return s;
}
static std::string join_f(const std::vector<float> &v) {
  if (v.empty()) return "-";
  std::string s; for (size_t i = 0; i < v.size(); i++) { if (i) s += ","; s += U(fbits(v[i])); } return s;
}
static std::string join_fobs(const std::vector<float> &v) {
  if (v.empty()) return "-";
  std::string s; for (size_t i = 0; i < v.size(); i++) { if (i) s += ","; s += FB(v[i]); } return s;
}

// Would Quantizer::QuantizeFloat(val) with this inverse_delta convert a value outside int32 (UB)?
// (the same two float operations as the library; used only to avoid executing UB)
static inline bool quantize_would_be_ub(float inv, float val) {
  volatile float t = val * inv; volatile float s = t + 0.5f;
  return !(s >= -2147483648.0f && s < 2147483648.0f);
}

// ulp of binary32 at magnitude y (y >= 0), as a long double; 2^-149 at and below the subnormals
static inline long double ulp32(long double y) {
  if (!(y > 0)) return ldexpl(1.0L, -149);
  int e; frexpl(y, &e);           // y = m * 2^e, m in [0.5,1)
  int u = e - 24; if (u < -149) u = -149;
  return ldexpl(1.0L, u);
}
// the C04 bound with K = 4
static inline bool within_bound(float d, float x, float mn, float range, int q, long double *excess_ulps = nullptr) {
  long double step = (long double)range / (long double)((1ll << q) - 1);
  long double mag = std::max(std::max(fabsl((long double)x), fabsl((long double)mn)), fabsl((long double)range));
  long double u = ulp32(mag);
  long double err = fabsl((long double)d - (long double)x);
  if (excess_ulps) *excess_ulps = (err - step / 2) / u;
  return err <= step / 2 + 4 * u;
}
static inline bool within_box(float d, float x, float mn, float range, int q) {
  long double mag = std::max(std::max(fabsl((long double)x), fabsl((long double)mn)), fabsl((long double)range));
  long double a = 4 * ulp32(mag);
  return (long double)d >= (long double)mn - a && (long double)d <= (long double)mn + (long double)range + a;
}

// ---------------------------------------------------------------- value generators
struct Gen {
  Rng &r;
  explicit Gen(Rng &rr) : r(rr) {}
  double u01() { return (double)(r.next() >> 11) / 9007199254740992.0; }
  // magnitude 1e-6 .. 1e9, log-uniform
  float magnitude() { return (float)pow(10.0, -6.0 + 15.0 * u01()); }
  // a set of n values for one component: centre (maybe large offset) and extent
  void component(std::vector<float> &out, int n, int style) {
    out.resize(n);
    float ext = magnitude();
    float centre = 0.f;
    switch (style) {
      case 0: centre = 0.f; break;                                        // around zero
      case 1: centre = magnitude() * (r.chance(50) ? 1.f : -1.f); break;  // arbitrary offset
      case 2: centre = (float)pow(10.0, 3.0 + 6.0 * u01()) * (r.chance(50) ? 1.f : -1.f);  // large offset, small extent
              ext = (float)pow(10.0, -6.0 + 5.0 * u01()); break;
      case 3: ext = 0.f; centre = r.chance(30) ? 0.f : magnitude() * (r.chance(50) ? 1.f : -1.f); break;  // constant
      default: centre = magnitude(); break;
    }
    for (int i = 0; i < n; i++) {
      float v = centre + ext * (float)(u01() - 0.5);
      if (r.chance(3)) v = centre;
      if (r.chance(2)) v = r.chance(50) ? 0.f : -0.f;
      out[i] = v;
    }
  }
  // n rows x nc components
  std::vector<float> rows(int n, int nc, int forced_style = -1) {
    std::vector<float> flat((size_t)n * nc), col;
    for (int c = 0; c < nc; c++) {
      int st = forced_style >= 0 ? forced_style : (int)r.below(5);
      component(col, n, st);
      for (int i = 0; i < n; i++) flat[(size_t)i * nc + c] = col[i];
    }
    return flat;
  }
  int bits() {
    switch (r.below(5)) { case 0: return (int)r.range(1, 30); case 1: return (int)r.range(8, 16);
      case 2: return (int)r.range(22, 26); case 3: return (int)r.range(27, 30); default: return (int)r.range(1, 30); }
  }
};

// ---------------------------------------------------------------- attribute builders
static std::unique_ptr<PointAttribute> make_float_att(GeometryAttribute::Type t, int nc, const std::vector<float> &flat) {
  size_t n = nc ? flat.size() / nc : 0;
  std::unique_ptr<PointAttribute> a(new PointAttribute());
  a->Init(t, (int8_t)nc, DT_FLOAT32, false, n);
  for (size_t i = 0; i < n; i++) a->SetAttributeValue(AttributeValueIndex((uint32_t)i), &flat[i * nc]);
  return a;
}

struct QP { int q = 0; std::vector<float> mins; float range = 0; };
static QP params_of(const AttributeQuantizationTransform &t, int nc) {
  QP p; p.q = t.quantization_bits(); p.range = t.range();
  for (int c = 0; c < nc; c++) p.mins.push_back(t.min_value(c));
  return p;
}
static std::string qp_str(const QP &p) { return S(p.q) + " " + join_f(p.mins) + " " + U(fbits(p.range)); }

// Quantize + dequantize one row with the library's transform class under parameters p (the row is
// alone in its attribute: independent of every other value by construction).
// Returns false when a conversion would be UB.
static bool class_requant_row(const QP &p, const float *row, int nc, std::vector<uint32_t> *words, std::vector<float> *out) {
  float inv = (float)((1 << p.q) - 1) / p.range;
  for (int c = 0; c < nc; c++) if (quantize_would_be_ub(inv, row[c] - p.mins[c])) return false;
  AttributeQuantizationTransform t;
  if (!t.SetParameters(p.q, p.mins.data(), nc, p.range)) return false;
  std::vector<float> one(row, row + nc);
  auto src = make_float_att(GeometryAttribute::GENERIC, nc, one);
  auto port = t.InitTransformedAttribute(*src, 1);
  if (!t.TransformAttribute(*src, {}, port.get())) return false;
  words->resize(nc); port->GetValue(AttributeValueIndex(0), words->data());
  auto dst = make_float_att(GeometryAttribute::GENERIC, nc, one);
  if (!t.InverseTransformAttribute(*port, dst.get())) return false;
  out->resize(nc); dst->GetValue(AttributeValueIndex(0), out->data());
  return true;
}

// ---------------------------------------------------------------- end to end
enum Method { M_PC_SEQ = 0, M_PC_KD = 1, M_MESH_SEQ = 2, M_MESH_EB = 3 };
static const char *method_name(int m) { static const char *n[] = {"pcseq", "pckd", "meshseq", "mesheb"}; return n[m]; }

struct Geo {   // one float attribute of interest (POSITION, nc comps) on a point cloud or a mesh
  int nc = 3;
  std::vector<float> flat;          // n rows
  std::vector<std::array<uint32_t, 3>> faces;  // empty for point clouds
  size_t n() const { return flat.size() / nc; }
};

static void fill_geometry(PointCloud *pc, const Geo &g) {
  pc->set_num_points((uint32_t)g.n());
  GeometryAttribute ga;
  ga.Init(GeometryAttribute::POSITION, nullptr, (int8_t)g.nc, DT_FLOAT32, false, sizeof(float) * g.nc, 0);
  int id = pc->AddAttribute(ga, true, (uint32_t)g.n());
  for (size_t i = 0; i < g.n(); i++) pc->attribute(id)->SetAttributeValue(AttributeValueIndex((uint32_t)i), &g.flat[i * g.nc]);
}
static std::unique_ptr<PointCloud> build_geo(const Geo &g, bool mesh) {
  if (!mesh) { std::unique_ptr<PointCloud> pc(new PointCloud()); fill_geometry(pc.get(), g); return pc; }
  std::unique_ptr<Mesh> m(new Mesh());
  fill_geometry(m.get(), g);
  for (auto &f : g.faces) { Mesh::Face face; face[0] = PointIndex(f[0]); face[1] = PointIndex(f[1]); face[2] = PointIndex(f[2]); m->AddFace(face); }
  return std::unique_ptr<PointCloud>(m.release());
}

struct Decoded {
  bool ok = false; std::string err;
  QP p;                                  // parameters read back from the stream
  std::vector<uint32_t> words;           // decoded integers, value order, flat
  std::vector<float> vals;               // decoded floats, same value order, flat
};

// extra encoder options a caller may set before encode_decode (rarely used paths: raw, not entropy-coded integer values; no prediction)
static bool g_enc_builtin_compression = true; static int g_enc_position_prediction = -1;
// explicit: origin/range (nullptr -> automatic)
static Decoded encode_decode(const Geo &g, int method, int speed, int q, const float *origin, float range) {
  Decoded d;
  bool mesh = method >= M_MESH_SEQ;
  auto geo = build_geo(g, mesh);
  Encoder enc;
  enc.SetSpeedOptions(speed, speed);
  if (origin) enc.SetAttributeExplicitQuantization(GeometryAttribute::POSITION, q, g.nc, origin, range);
  else enc.SetAttributeQuantization(GeometryAttribute::POSITION, q);
  if (!g_enc_builtin_compression) enc.options().SetGlobalBool("use_built_in_attribute_compression", false);
  if (g_enc_position_prediction != -1) enc.SetAttributePredictionScheme(GeometryAttribute::POSITION, g_enc_position_prediction);
  EncoderBuffer eb;
  Status st;
  switch (method) {
    case M_PC_SEQ: enc.SetEncodingMethod(POINT_CLOUD_SEQUENTIAL_ENCODING); st = enc.EncodePointCloudToBuffer(*geo, &eb); break;
    case M_PC_KD: enc.SetEncodingMethod(POINT_CLOUD_KD_TREE_ENCODING); st = enc.EncodePointCloudToBuffer(*geo, &eb); break;
    case M_MESH_SEQ: enc.SetEncodingMethod(MESH_SEQUENTIAL_ENCODING); st = enc.EncodeMeshToBuffer(*static_cast<Mesh *>(geo.get()), &eb); break;
    default: enc.SetEncodingMethod(MESH_EDGEBREAKER_ENCODING); st = enc.EncodeMeshToBuffer(*static_cast<Mesh *>(geo.get()), &eb); break;
  }
  if (!st.ok()) { d.err = std::string("encode: ") + st.error_msg(); return d; }
  std::unique_ptr<PointCloud> out[2];
  for (int pass = 0; pass < 2; pass++) {
    DecoderBuffer db; db.Init(eb.data(), eb.size());
    Decoder dec;
    if (pass == 1) dec.SetSkipAttributeTransform(GeometryAttribute::POSITION);
    if (mesh) { auto r = dec.DecodeMeshFromBuffer(&db); if (!r.ok()) { d.err = std::string("decode: ") + r.status().error_msg(); return d; } out[pass] = std::move(r).value(); }
    else { auto r = dec.DecodePointCloudFromBuffer(&db); if (!r.ok()) { d.err = std::string("decode: ") + r.status().error_msg(); return d; } out[pass] = std::move(r).value(); }
  }
  const PointAttribute *fa = out[0]->GetNamedAttribute(GeometryAttribute::POSITION);
  const PointAttribute *ia = out[1]->GetNamedAttribute(GeometryAttribute::POSITION);
  if (!fa || !ia) { d.err = "decoded geometry has no POSITION"; return d; }
  AttributeQuantizationTransform t;
  if (!t.InitFromAttribute(*ia)) { d.err = "skip-transform decode exposes no quantization transform data"; return d; }
  d.p = params_of(t, g.nc);
  if (fa->size() != ia->size() || fa->num_components() != g.nc || ia->num_components() != g.nc || fa->data_type() != DT_FLOAT32) {
    d.err = "decoded attribute shapes differ between normal and skip-transform decode"; return d; }
  d.words.resize(ia->size() * g.nc); d.vals.resize(fa->size() * g.nc);
  for (uint32_t i = 0; i < ia->size(); i++) {
    ia->GetValue(AttributeValueIndex(i), &d.words[(size_t)i * g.nc]);
    fa->GetValue(AttributeValueIndex(i), &d.vals[(size_t)i * g.nc]);
  }
  d.ok = true;
  return d;
}

// random geometry: point cloud or a triangulated grid whose vertices are all used
static Geo make_geo(Gen &G, int n_target, bool mesh, int nc, int style = -1) {
  Geo g; g.nc = nc;
  if (!mesh) { g.flat = G.rows(n_target, nc, style); return g; }
  int w = 2 + (int)G.r.below(6), h = std::max(2, n_target / w);
  g.flat = G.rows(w * h, nc, style);
  for (int y = 0; y + 1 < h; y++) for (int x = 0; x + 1 < w; x++) {
    uint32_t a = y * w + x, b = a + 1, c = a + w, e = c + 1;
    if (G.r.chance(50)) { g.faces.push_back({a, b, c}); g.faces.push_back({b, e, c}); }
    else { g.faces.push_back({a, b, e}); g.faces.push_back({a, e, c}); }
  }
  return g;
}

typedef std::vector<uint32_t> Row;
static std::set<Row> row_set_bits(const std::vector<float> &flat, int nc) {
  std::set<Row> s;
  for (size_t i = 0; i + nc <= flat.size(); i += nc) { Row r(nc); for (int c = 0; c < nc; c++) r[c] = fbits(flat[i + c]); s.insert(r); }
  return s;
}
static std::set<Row> row_set_u(const std::vector<uint32_t> &flat, int nc) {
  std::set<Row> s;
  for (size_t i = 0; i + nc <= flat.size(); i += nc) s.insert(Row(flat.begin() + i, flat.begin() + i + nc));
  return s;
}
static std::string rows_str(const std::set<Row> &s) {
  if (s.empty()) return "-";
  std::string o; bool first = true;
  for (auto &r : s) for (auto v : r) { if (!first) o += ","; first = false; o += U(v); }
  return o;
}
