// C16 correspondence + search harness: the prediction-correction transforms of /repo
// (wrap, canonicalized octahedron, plain octahedron) and the integer leaves of
// OctahedronToolBox, against the Coq models coq/Model/Wrap.v and coq/Model/Octahedron.v.
//
// Line kinds (see driver/d_C16.ml):
//   weinit/wdinit mn mx | ok max_dif min_corr max_corr | fail
//   wclamp mn mx p | v        wrt mn mx orig pred | corr decoded      wdec mn mx pred corr | v
//   sqb q | ok q mqv maxv c   smq m / smqn m | ok q mqv c
//   isd/invd/modmax/mkpos/canon q ... ; rotc/rotp/isbl ...
//   ocr/onr q os ot ps pt | cs ct ds dt   (encode, then decode the correction)
//   ocd/ond q ps pt cs ct | os ot         (decode an arbitrary, possibly hostile, correction)
// '!' lines: the property itself fails on the implementation (round trip / correction interval).
#include "common.h"
#include <climits>
#include <algorithm>
#include "draco/draco_features.h"
#include "draco/core/encoder_buffer.h"
#include "draco/core/decoder_buffer.h"
#include "draco/compression/attributes/normal_compression_utils.h"
#include "draco/compression/attributes/prediction_schemes/prediction_scheme_wrap_encoding_transform.h"
#include "draco/compression/attributes/prediction_schemes/prediction_scheme_wrap_decoding_transform.h"
#include "draco/compression/attributes/prediction_schemes/prediction_scheme_normal_octahedron_canonicalized_encoding_transform.h"
#include "draco/compression/attributes/prediction_schemes/prediction_scheme_normal_octahedron_canonicalized_decoding_transform.h"
#include "draco/compression/attributes/prediction_schemes/prediction_scheme_normal_octahedron_encoding_transform.h"
#include "draco/compression/attributes/prediction_schemes/prediction_scheme_normal_octahedron_decoding_transform.h"
using namespace draco;

// ------------------------------------------------------------------ access to protected members
struct WEnc : PredictionSchemeWrapEncodingTransform<int32_t> {
  typedef PredictionSchemeWrapTransformBase<int32_t> B;
  using B::max_dif; using B::min_correction; using B::max_correction; using B::min_value; using B::max_value;
};
struct WDec : PredictionSchemeWrapDecodingTransform<int32_t> {
  typedef PredictionSchemeWrapTransformBase<int32_t> B;
  using B::max_dif; using B::min_correction; using B::max_correction; using B::min_value; using B::max_value;
};
struct CEnc : PredictionSchemeNormalOctahedronCanonicalizedEncodingTransform<int32_t> {
  typedef PredictionSchemeNormalOctahedronTransformBase<int32_t> B;
  explicit CEnc(int32_t m) : PredictionSchemeNormalOctahedronCanonicalizedEncodingTransform<int32_t>(m) {}
  using B::IsInDiamond; using B::InvertDiamond; using B::ModMax; using B::MakePositive;
};
typedef PredictionSchemeNormalOctahedronCanonicalizedDecodingTransform<int32_t> CDec;
typedef PredictionSchemeNormalOctahedronEncodingTransform<int32_t> NEnc;
typedef PredictionSchemeNormalOctahedronDecodingTransform<int32_t> NDec;
typedef CEnc::Point2 P2;

static long g_counts[16];
enum { K_WRT, K_WDEC, K_OCR_CANON, K_OCR_NONCANON, K_NONCANON_FAIL, K_ONR_NONCANON_FAIL, K_HOSTILE };

// ------------------------------------------------------------------ wrap
struct WrapPair {
  WEnc enc; WDec dec; bool dec_ok = false; int nc;
  WrapPair(int32_t mn, int32_t mx, int num_components) : nc(num_components) {
    // The encoder learns its bounds from the data, the decoder from the transform data.
    const int32_t data[2] = {mn, mx};
    enc.Init(data, 2, nc);
    EncoderBuffer eb; enc.EncodeTransformData(&eb);
    DecoderBuffer db; db.Init(eb.data(), eb.size());
    dec.Init(nc);
    dec_ok = dec.DecodeTransformData(&db);
  }
};

static std::string bounds_str(int32_t md, int32_t mnc, int32_t mxc) { return "ok " + S(md) + " " + S(mnc) + " " + S(mxc); }

// decoder init on arbitrary (also hostile) transform data
static void wrap_dinit_case(Out &o, int32_t mn, int32_t mx) {
  EncoderBuffer eb; eb.Encode(mn); eb.Encode(mx);
  DecoderBuffer db; db.Init(eb.data(), eb.size());
  WDec d; d.Init(1);
  bool ok = d.DecodeTransformData(&db);
  o.c("wdinit " + S(mn) + " " + S(mx), ok ? bounds_str(d.max_dif(), d.min_correction(), d.max_correction()) : "fail");
}

// One group of (orig,pred) pairs sharing [mn,mx]; requires mn <= mx, mx-mn < 2^31-1, orig in [mn,mx].
struct OP { int32_t o, p; };
static void wrap_group(Out &o, Rng &r, int32_t mn, int32_t mx, const std::vector<OP> &v, bool emit_init) {
  int nc = 1 + (int)r.below(3);
  WrapPair w(mn, mx, nc);
  std::string rg = S(mn) + " " + S(mx);
  if (!w.dec_ok) { o.fail("wrap DecodeTransformData rejected a valid range " + rg); return; }
  if (emit_init) {
    o.c("weinit " + rg, bounds_str(w.enc.max_dif(), w.enc.min_correction(), w.enc.max_correction()));
    o.c("wdinit " + rg, bounds_str(w.dec.max_dif(), w.dec.min_correction(), w.dec.max_correction()));
  }
  if (w.enc.max_dif() != w.dec.max_dif() || w.enc.min_correction() != w.dec.min_correction() ||
      w.enc.max_correction() != w.dec.max_correction() || w.enc.min_value() != mn || w.dec.max_value() != mx)
    o.fail("wrap encoder/decoder bounds differ for " + rg);
  for (size_t i = 0; i < v.size(); i += nc) {
    int32_t orig[3], pred[3], corr[3] = {0, 0, 0}, back[3] = {0, 0, 0};
    for (int k = 0; k < nc; k++) { const OP &e = v[std::min(i + k, v.size() - 1)]; orig[k] = e.o; pred[k] = e.p; }
    w.enc.ComputeCorrection(orig, pred, corr);
    w.dec.ComputeOriginalValue(pred, corr, back);
    for (int k = 0; k < nc && i + k < v.size(); k++) {
      std::string lhs = "wrt " + rg + " " + S(orig[k]) + " " + S(pred[k]);
      o.c(lhs, S(corr[k]) + " " + S(back[k]));
      g_counts[K_WRT]++;
      if (back[k] != orig[k]) o.fail("wrap round trip: " + lhs + " -> corr " + S(corr[k]) + " decoded " + S(back[k]));
      if (corr[k] < w.enc.min_correction() || corr[k] > w.enc.max_correction())
        o.fail("wrap correction outside [min_correction,max_correction]: " + lhs + " -> " + S(corr[k]));
    }
  }
}

static void wrap_clamp_case(Out &o, int32_t mn, int32_t mx, int32_t p) {
  WrapPair w(mn, mx, 1);
  const int32_t *a = w.enc.ClampPredictedValue(&p);
  int32_t ea = a[0];
  const int32_t *b = w.dec.ClampPredictedValue(&p);
  o.c("wclamp " + S(mn) + " " + S(mx) + " " + S(p), S(ea));
  if (ea != b[0]) o.fail("wrap clamp differs between encoder and decoder");
}

// decoder on an arbitrary correction (hostile stream): total, no UB, must agree with the model
static void wrap_dec_case(Out &o, int32_t mn, int32_t mx, int32_t p, int32_t c) {
  WrapPair w(mn, mx, 1);
  if (!w.dec_ok) return;
  int32_t out = 0;
  w.dec.ComputeOriginalValue(&p, &c, &out);
  o.c("wdec " + S(mn) + " " + S(mx) + " " + S(p) + " " + S(c), S(out));
  g_counts[K_WDEC]++;
}

static int32_t clamp64(int64_t v) { return (int32_t)std::max<int64_t>(INT32_MIN, std::min<int64_t>(INT32_MAX, v)); }

// a prediction aimed at the case splits: around orig -/+ max_dif/2 (wrap thresholds), the range
// ends, the int32 limits, far outside, anywhere
static int32_t wrap_pred(Rng &r, int64_t mn, int64_t mx, int64_t orig) {
  int64_t md = mx - mn + 1;
  switch (r.below(10)) {
    case 0: return clamp64(orig - md / 2 + r.range(-2, 2));
    case 1: return clamp64(orig + md / 2 + r.range(-2, 2));
    case 2: return clamp64(mn + r.range(-3, 3));
    case 3: return clamp64(mx + r.range(-3, 3));
    case 4: return clamp64((int64_t)INT32_MIN + r.range(0, 3));
    case 5: return clamp64((int64_t)INT32_MAX - r.range(0, 3));
    case 6: return clamp64(orig + r.range(-2, 2));
    case 7: return clamp64(r.range(mn, mx));
    default: return (int32_t)r.biased(32);
  }
}
static int32_t wrap_orig(Rng &r, int64_t mn, int64_t mx) {
  switch (r.below(6)) {
    case 0: return (int32_t)mn;
    case 1: return (int32_t)mx;
    case 2: return (int32_t)std::min(mx, mn + (int64_t)r.below(3));
    case 3: return (int32_t)std::max(mn, mx - (int64_t)r.below(3));
    case 4: return (int32_t)std::max(mn, std::min(mx, mn + (mx - mn) / 2 + r.range(-2, 2)));
    default: return (int32_t)r.range(mn, mx);
  }
}
// a valid range: mn <= mx, mx - mn <= 2^31-2
static void wrap_range(Rng &r, int64_t &mn, int64_t &mx) {
  const int64_t LO = INT32_MIN, HI = INT32_MAX, MAXW = 2147483646ll;
  switch (r.below(9)) {
    case 0: mn = 1; mx = HI; break;                                   // D8's range
    case 1: mn = LO; mx = -2; break;
    case 2: { mn = LO + r.range(0, 3); mx = mn + MAXW - r.range(0, 3); break; }  // widest ranges
    case 3: { mx = HI - r.range(0, 3); mn = mx - MAXW + r.range(0, 3); break; }
    case 4: { int64_t w = r.range(0, 9); mx = HI - r.range(0, 3); mn = mx - w; break; }     // narrow at the top
    case 5: { int64_t w = r.range(0, 9); mn = LO + r.range(0, 3); mx = mn + w; break; }     // narrow at the bottom
    case 6: { int64_t w = (int64_t)(r.biased(31)); if (w > MAXW) w = MAXW; mn = r.range(LO, HI - w); mx = mn + w; break; }
    case 7: { int64_t w = r.range(0, 40); mn = r.range(-50, 50); mx = mn + w; break; }
    default: {
      int64_t a = (int32_t)r.biased(32), b = (int32_t)r.biased(32);
      mn = std::min(a, b); mx = std::max(a, b);
      if (mx - mn > MAXW) mx = mn + MAXW;
    }
  }
}

static void wrap_all(Out &o, Rng &r, bool thorough) {
  const int32_t ext[] = {INT32_MIN, INT32_MIN + 1, INT32_MIN + 2, INT32_MAX - 2, INT32_MAX - 1, INT32_MAX};
  // exhaustive: every range of width <= 6 around 0, every orig, pred in [-40,40] and the int32 limits
  for (int mn = -4; mn <= 4; mn++) for (int w = 0; w <= 6; w++) {
    std::vector<OP> v;
    for (int og = mn; og <= mn + w; og++) {
      for (int p = -40; p <= 40; p++) v.push_back({og, p});
      for (int32_t p : ext) v.push_back({og, p});
    }
    wrap_group(o, r, mn, mn + w, v, true);
  }
  // the same narrow ranges pushed against both int32 limits
  for (int a = 0; a <= 2; a++) for (int w = 0; w <= 6; w++) for (int side = 0; side < 2; side++) {
    int64_t mn = side ? (int64_t)INT32_MAX - a - w : (int64_t)INT32_MIN + a;
    int64_t mx = mn + w;
    std::vector<OP> v;
    for (int64_t og = mn; og <= mx; og++) {
      for (int d = -9; d <= 9; d++) { v.push_back({(int32_t)og, clamp64(mn + d)}); v.push_back({(int32_t)og, clamp64(mx + d)}); }
      for (int32_t p : ext) v.push_back({(int32_t)og, p});
      v.push_back({(int32_t)og, 0});
    }
    wrap_group(o, r, (int32_t)mn, (int32_t)mx, v, true);
  }
  // boundary-biased random 32-bit tuples
  int n = thorough ? 120000 : 12000;
  for (int i = 0; i < n; i++) {
    int64_t mn, mx; wrap_range(r, mn, mx);
    std::vector<OP> v;
    int m = 1 + (int)r.below(6);
    for (int k = 0; k < m; k++) { int32_t og = wrap_orig(r, mn, mx); v.push_back({og, wrap_pred(r, mn, mx, og)}); }
    wrap_group(o, r, (int32_t)mn, (int32_t)mx, v, i % 4 == 0);
    if (i % 3 == 0) wrap_clamp_case(o, (int32_t)mn, (int32_t)mx, wrap_pred(r, mn, mx, wrap_orig(r, mn, mx)));
    // hostile corrections
    int32_t p = wrap_pred(r, mn, mx, wrap_orig(r, mn, mx));
    int32_t c = r.chance(50) ? (int32_t)r.biased(32) : clamp64((r.chance(50) ? mx - mn + 1 : -(mx - mn + 1)) + r.range(-3, 3));
    wrap_dec_case(o, (int32_t)mn, (int32_t)mx, p, c);
  }
  // decoder initialisation on arbitrary transform data (mn > mx, too wide ranges, ...)
  int k = thorough ? 20000 : 3000;
  for (int i = 0; i < k; i++) {
    int32_t a = (int32_t)r.biased(32), b = (int32_t)r.biased(32);
    if (r.chance(20)) b = clamp64((int64_t)a + 2147483647ll + r.range(-3, 1));
    if (r.chance(10)) b = clamp64((int64_t)a + r.range(-3, 3));
    wrap_dinit_case(o, a, b);
  }
  wrap_dinit_case(o, INT32_MIN, INT32_MAX); wrap_dinit_case(o, INT32_MIN, INT32_MAX - 1); wrap_dinit_case(o, INT32_MIN, INT32_MAX - 2);
  wrap_dinit_case(o, INT32_MIN + 1, INT32_MAX); wrap_dinit_case(o, 0, INT32_MAX); wrap_dinit_case(o, 1, INT32_MAX);
  wrap_dinit_case(o, -1, INT32_MAX - 1); wrap_dinit_case(o, -1, INT32_MAX - 2); wrap_dinit_case(o, 5, 4); wrap_dinit_case(o, INT32_MAX, INT32_MIN);
}

// ------------------------------------------------------------------ octahedron
struct Oct {
  int q; int32_t c, mqv;
  OctahedronToolBox tb; CEnc cenc; CDec cdec; NEnc nenc; NDec ndec; bool ok = true;
  explicit Oct(int q_) : q(q_), mqv((int32_t)((1u << q_) - 1)), cenc(mqv), nenc(mqv) {
    ok = tb.SetQuantizationBits(q);
    c = tb.center_value();
    { EncoderBuffer eb; cenc.EncodeTransformData(&eb); DecoderBuffer db; db.Init(eb.data(), eb.size()); cdec.Init(2); ok = cdec.DecodeTransformData(&db) && ok; }
    { EncoderBuffer eb; nenc.EncodeTransformData(&eb); DecoderBuffer db; db.Init(eb.data(), eb.size());
      db.set_bitstream_version(DRACO_BITSTREAM_VERSION(2, 2)); ndec.Init(2); ok = ndec.DecodeTransformData(&db) && ok; }
    ok = ok && cenc.center_value() == c && cdec.center_value() == c && nenc.center_value() == c && ndec.center_value() == c &&
         cenc.max_quantized_value() == mqv && cdec.max_quantized_value() == mqv && cdec.quantization_bits() == q;
  }
  bool canonical(int32_t s, int32_t t) const { int32_t a, b; tb.CanonicalizeOctahedralCoords(s, t, &a, &b); return a == s && b == t; }
};

static std::string P(int32_t a, int32_t b) { return S(a) + " " + S(b); }

// one (orig, pred) pair through both transforms; emit controls whether correspondence lines are written
static void oct_pair(Out &o, Oct &x, int32_t os, int32_t ot, int32_t ps, int32_t pt, bool emit, bool emit_plain) {
  const int32_t orig[2] = {os, ot}, pred[2] = {ps, pt};
  int32_t corr[2] = {500, 500}, back[2] = {-7, -7};
  x.cenc.ComputeCorrection(orig, pred, corr);
  x.cdec.ComputeOriginalValue(pred, corr, back);
  bool canon = x.canonical(os, ot);
  std::string args = S(x.q) + " " + P(os, ot) + " " + P(ps, pt);
  if (emit) o.c("ocr " + args, P(corr[0], corr[1]) + " " + P(back[0], back[1]));
  bool rt = back[0] == os && back[1] == ot;
  bool inrange = corr[0] >= 0 && corr[1] >= 0 && corr[0] <= 2 * x.c && corr[1] <= 2 * x.c;
  if (!inrange) o.fail("canonicalized octahedron correction outside [0,2c]: ocr " + args + " -> " + P(corr[0], corr[1]));
  if (canon) {
    g_counts[K_OCR_CANON]++;
    if (!rt) o.fail("canonicalized octahedron round trip: ocr " + args + " -> corr " + P(corr[0], corr[1]) + " decoded " + P(back[0], back[1]));
  } else {
    g_counts[K_OCR_NONCANON]++;
    if (!rt) g_counts[K_NONCANON_FAIL]++;   // expected: see oct_noncanonical_refuted
  }
  // plain (non-canonicalized) transform
  int32_t corr2[2] = {500, 500}, back2[2] = {-7, -7};
  x.nenc.ComputeCorrection(orig, pred, corr2);
  x.ndec.ComputeOriginalValue(pred, corr2, back2);
  if (emit_plain) o.c("onr " + args, P(corr2[0], corr2[1]) + " " + P(back2[0], back2[1]));
  bool rt2 = back2[0] == os && back2[1] == ot;
  bool inrange2 = corr2[0] >= 0 && corr2[1] >= 0 && corr2[0] <= 2 * x.c && corr2[1] <= 2 * x.c;
  if (!inrange2) o.fail("octahedron correction outside [0,2c]: onr " + args + " -> " + P(corr2[0], corr2[1]));
  if (canon) { if (!rt2) o.fail("octahedron round trip: onr " + args + " -> corr " + P(corr2[0], corr2[1]) + " decoded " + P(back2[0], back2[1])); }
  else if (!rt2) g_counts[K_ONR_NONCANON_FAIL]++;
}

// decoder with an arbitrary correction (hostile stream); pred in the square
static void oct_hostile(Out &o, Oct &x, int32_t ps, int32_t pt, int32_t cs, int32_t ct) {
  const int32_t pred[2] = {ps, pt}, corr[2] = {cs, ct};
  int32_t back[2] = {-7, -7};
  x.cdec.ComputeOriginalValue(pred, corr, back);
  o.c("ocd " + S(x.q) + " " + P(ps, pt) + " " + P(cs, ct), P(back[0], back[1]));
  int32_t back2[2] = {-7, -7};
  x.ndec.ComputeOriginalValue(pred, corr, back2);
  o.c("ond " + S(x.q) + " " + P(ps, pt) + " " + P(cs, ct), P(back2[0], back2[1]));
  g_counts[K_HOSTILE]++;
}

// coordinate in [0,2c] biased to the edges, the centre and +-1 of them
static int32_t oct_coord(Rng &r, int32_t c) {
  switch (r.below(8)) {
    case 0: return 0;
    case 1: return 2 * c;
    case 2: return c;
    case 3: return (int32_t)std::min<int64_t>(2 * (int64_t)c, r.below(3));
    case 4: return (int32_t)std::max<int64_t>(0, 2 * (int64_t)c - (int64_t)r.below(3));
    case 5: return (int32_t)std::max<int64_t>(0, std::min<int64_t>(2 * (int64_t)c, (int64_t)c + r.range(-2, 2)));
    default: return (int32_t)r.range(0, 2 * (int64_t)c);
  }
}
// point of the square; half of the time on or next to a diamond edge (|s-c|+|t-c| = c + d, d in -1..1)
static void oct_point(Rng &r, int32_t c, int32_t &s, int32_t &t) {
  if (r.chance(40)) {
    int64_t a = r.range(-(int64_t)c, c);              // s - c
    int64_t rem = (int64_t)c - std::llabs(a) + r.range(-1, 1);
    int64_t b = r.chance(50) ? rem : -rem;             // t - c
    b = std::max<int64_t>(-(int64_t)c, std::min<int64_t>(c, b));
    if (r.chance(50)) std::swap(a, b);
    s = (int32_t)(a + c); t = (int32_t)(b + c);
  } else { s = oct_coord(r, c); t = oct_coord(r, c); }
}

static int32_t any_i32(Rng &r, int32_t c) {
  switch (r.below(7)) {
    case 0: return (int32_t)r.range(-3, 3);
    case 1: return clamp64((int64_t)c + r.range(-2, 2));
    case 2: return clamp64(-(int64_t)c + r.range(-2, 2));
    case 3: return clamp64(2 * (int64_t)c + 1 + r.range(-3, 3));
    case 4: return clamp64(-(2 * (int64_t)c + 1) + r.range(-3, 3));
    default: return (int32_t)r.biased(32);
  }
}

static void oct_leaves(Out &o, Rng &r, Oct &x, int n) {
  std::string q = S(x.q);
  for (int i = 0; i < n; i++) {
    int32_t a = any_i32(r, x.c), b = any_i32(r, x.c);
    bool via_tb = r.chance(50);   // the transforms forward to the tool box: exercise both entry points
    o.c("modmax " + q + " " + S(a), S(via_tb ? x.tb.ModMax(a) : x.cenc.ModMax(a)));
    o.c("mkpos " + q + " " + S(a), S(via_tb ? x.tb.MakePositive(a) : x.cenc.MakePositive(a)));
    { int32_t s = a, t = b; if (via_tb) x.tb.InvertDiamond(&s, &t); else x.cenc.InvertDiamond(&s, &t); o.c("invd " + q + " " + P(a, b), P(s, t)); }
    if (a != INT32_MIN && b != INT32_MIN)    // std::abs(INT_MIN) is UB
      o.c("isd " + q + " " + P(a, b), (via_tb ? x.tb.IsInDiamond(a, b) : x.cenc.IsInDiamond(a, b)) ? "1" : "0");
    o.c("rotc " + P(a, b), S(x.cenc.GetRotationCount(P2(a, b))));
    o.c("isbl " + P(a, b), x.cenc.IsInBottomLeft(P2(a, b)) ? "1" : "0");
    if (a != INT32_MIN && b != INT32_MIN) {  // unary minus on INT_MIN is UB
      int32_t k = r.chance(85) ? (int32_t)r.below(4) : (int32_t)r.range(-3, 9);
      P2 p = x.cenc.RotatePoint(P2(a, b), k);
      o.c("rotp " + P(a, b) + " " + S(k), P(p[0], p[1]));
    }
    // small signs for the rotation logic
    { int32_t u = (int32_t)r.range(-2, 2), v = (int32_t)r.range(-2, 2);
      o.c("rotc " + P(u, v), S(x.cenc.GetRotationCount(P2(u, v)))); o.c("isbl " + P(u, v), x.cenc.IsInBottomLeft(P2(u, v)) ? "1" : "0"); }
    // CanonicalizeOctahedralCoords: |s|,|t| <= 2^30 keeps every signed intermediate representable
    { int32_t s, t;
      auto pick = [&](void) -> int32_t {
        switch (r.below(6)) { case 0: return 0; case 1: return 2 * x.c; case 2: return clamp64((int64_t)x.c + r.range(-1, 1));
          case 3: return (int32_t)r.range(0, 2 * (int64_t)x.c); case 4: return (int32_t)r.range(-(1 << 30), 1 << 30);
          default: return clamp64(2 * (int64_t)x.c + r.range(-1, 1)); } };
      s = pick(); t = pick();
      int32_t os, ot; x.tb.CanonicalizeOctahedralCoords(s, t, &os, &ot);
      o.c("canon " + q + " " + P(s, t), P(os, ot));
      if (s >= 0 && t >= 0 && s <= 2 * x.c && t <= 2 * x.c && !x.canonical(os, ot)) o.fail("CanonicalizeOctahedralCoords is not idempotent at " + q + " " + P(s, t));
    }
    // in-domain values too
    { int32_t s, t; oct_point(r, x.c, s, t); s -= x.c; t -= x.c;
      int32_t s2 = s, t2 = t; x.tb.InvertDiamond(&s2, &t2);
      o.c("invd " + q + " " + P(s, t), P(s2, t2));
      o.c("isd " + q + " " + P(s, t), x.tb.IsInDiamond(s, t) ? "1" : "0");
      o.c("modmax " + q + " " + S(s + t), S(x.tb.ModMax(s + t))); o.c("mkpos " + q + " " + S(s - t), S(x.tb.MakePositive(s - t))); }
  }
}

static void oct_all(Out &o, Rng &r, bool thorough) {
  // SetQuantizationBits / set_max_quantized_value (through the canonicalized decoder's DecodeTransformData)
  for (int q = -3; q <= 36; q++) {
    OctahedronToolBox tb; bool ok = tb.SetQuantizationBits(q);
    o.c("sqb " + S(q), ok ? "ok " + S(tb.quantization_bits()) + " " + S(tb.max_quantized_value()) + " " + S(tb.max_value()) + " " + S(tb.center_value()) : "fail");
  }
  int ni = thorough ? 20000 : 3000;
  for (int i = 0; i < ni + 33; i++) {
    int32_t m = i < 33 ? (int32_t)((1ull << i) - 1) : (int32_t)r.biased(32);
    if (i >= 33 && r.chance(50)) m |= 1;
    EncoderBuffer eb; eb.Encode(m); eb.Encode((int32_t)r.next());   // the centre value in the stream is ignored
    { DecoderBuffer db; db.Init(eb.data(), eb.size()); CDec d; bool ok = d.DecodeTransformData(&db);
      o.c("smq " + S(m), ok ? "ok " + S(d.quantization_bits()) + " " + S(d.max_quantized_value()) + " " + S(d.center_value()) : "fail"); }
    { DecoderBuffer db; db.Init(eb.data(), eb.size()); db.set_bitstream_version(DRACO_BITSTREAM_VERSION(2, 2)); NDec d; bool ok = d.DecodeTransformData(&db);
      o.c("smqn " + S(m), ok ? "ok " + S(d.quantization_bits()) + " " + S(d.max_quantized_value()) + " " + S(d.center_value()) : "fail"); }
  }
  // exhaustive grids: every canonical (and non-canonical) original x every point of the square
  int qmax = thorough ? 6 : 5;
  for (int q = 2; q <= qmax; q++) {
    Oct x(q);
    if (!x.ok) { o.fail("octahedron transforms failed to initialise for q=" + S(q)); continue; }
    long before = g_counts[K_NONCANON_FAIL], before2 = g_counts[K_ONR_NONCANON_FAIL];
    int32_t n = 2 * x.c;
    // correspondence lines: everything up to q=4; q=5: everything in thorough, a seeded 1/16 sample in quick; q=6: 1/256 sample
    uint64_t keep = q <= 4 ? 1 : (q == 5 ? (thorough ? 1 : 16) : 256);
    uint64_t phase = r.below(keep);
    uint64_t idx = 0;
    for (int32_t os = 0; os <= n; os++) for (int32_t ot = 0; ot <= n; ot++)
      for (int32_t ps = 0; ps <= n; ps++) for (int32_t pt = 0; pt <= n; pt++) {
        bool emit = ((idx++ * 2654435761ull >> 7) % keep) == phase % keep;
        oct_pair(o, x, os, ot, ps, pt, emit, emit);
      }
    o.note("q=" + S(q) + ": non-canonical originals failing the round trip: canonicalized " + S(g_counts[K_NONCANON_FAIL] - before) +
           ", plain " + S(g_counts[K_ONR_NONCANON_FAIL] - before2) + " (pairs)");
    oct_leaves(o, r, x, thorough ? 2000 : 300);
  }
  // boundary-biased random for every q up to 30
  for (int q = qmax + 1; q <= 30; q++) {
    Oct x(q);
    if (!x.ok) { o.fail("octahedron transforms failed to initialise for q=" + S(q)); continue; }
    int n = thorough ? 40000 : 2000;
    for (int i = 0; i < n; i++) {
      int32_t os, ot, ps, pt;
      oct_point(r, x.c, os, ot); oct_point(r, x.c, ps, pt);
      if (r.chance(70)) x.tb.CanonicalizeOctahedralCoords(os, ot, &os, &ot);
      if (r.chance(15)) { ps = os; pt = ot; }
      if (r.chance(10)) { ps = 2 * x.c - os; pt = 2 * x.c - ot; }
      oct_pair(o, x, os, ot, ps, pt, true, true);
      if (i % 4 == 0) {
        int32_t cs = r.chance(50) ? oct_coord(r, x.c) : any_i32(r, x.c), ct = r.chance(50) ? oct_coord(r, x.c) : any_i32(r, x.c);
        oct_hostile(o, x, ps, pt, cs, ct);
      }
    }
    oct_leaves(o, r, x, thorough ? 1500 : 150);
  }
  // hostile corrections on the small grids as well
  for (int q = 2; q <= 5; q++) {
    Oct x(q);
    for (int i = 0; i < (thorough ? 20000 : 1500); i++) {
      int32_t ps, pt; oct_point(r, x.c, ps, pt);
      oct_hostile(o, x, ps, pt, any_i32(r, x.c), any_i32(r, x.c));
    }
  }
}

int main(int argc, char **argv) {
  if (argc < 4) { fprintf(stderr, "usage: h_C16 quick|thorough seed out\n"); return 2; }
  bool thorough = !strcmp(argv[1], "thorough");
  Rng r(strtoull(argv[2], 0, 10));
  Out o(argv[3]);
  o.note("C16 tier=" + std::string(argv[1]) + " seed=" + argv[2]);
  wrap_all(o, r, thorough);
  oct_all(o, r, thorough);
  o.note("counts: wrap round trips " + S(g_counts[K_WRT]) + ", wrap hostile decodes " + S(g_counts[K_WDEC]) +
         ", octahedron pairs with canonical original " + S(g_counts[K_OCR_CANON]) + ", with non-canonical original " + S(g_counts[K_OCR_NONCANON]) +
         ", hostile octahedron decodes " + S(g_counts[K_HOSTILE]));
  fprintf(stderr, "h_C16: %ld cases, %ld direct failures\n", o.cases, o.fails);
  return 0;
}
