// kd-tree point cloud codec: correspondence with Model/KdTree.v and direct search of the round-trip property
// (C01 for POINT_CLOUD_KD_TREE_ENCODING) on the implementation.
//   h_kd <tier> <seed> <out>
// case kinds
//   kt   <level> <dim> <bit_length> <flat points>            | stream of DynamicIntegerPointsKdTreeEncoder<level>
//   kdt  <level> <dim> <max_points> <hex>                    | ok <n> <flat points in output order> <unread bytes> / fail
//   kpc  <speed> <num_points> <num_atts> <att>...            | stream of Encoder (POINT_CLOUD_KD_TREE_ENCODING) / fail
//   kdpc <hex>                                               | ok <np> <na> <att>... <unread> / fail
//   kdpcs <skipped attribute types> <hex>                    | the same with SetSkipAttributeTransform (portable values, unique id, .T<params>)
#include "common.h"
#include <algorithm>
#include <cmath>
#include <functional>
#include <iterator>
#include <map>
#include <memory>
#include "draco/attributes/attribute_quantization_transform.h"
#include "draco/compression/attributes/point_d_vector.h"
#include "draco/compression/decode.h"
#include "draco/compression/encode.h"
#include "draco/compression/expert_encode.h"
#include "draco/compression/point_cloud/algorithms/dynamic_integer_points_kd_tree_decoder.h"
#include "draco/compression/point_cloud/algorithms/dynamic_integer_points_kd_tree_encoder.h"
#include "draco/point_cloud/point_cloud.h"
using namespace draco;

typedef std::vector<uint32_t> Pt;

// ------------------------------------------------------------------ the tree coder, directly
template <int L>
static bool enc_tree_l(const std::vector<Pt> &pts, int dim, uint32_t bl, EncoderBuffer *buf) {
  PointDVector<uint32_t> pv((uint32_t)pts.size(), (uint32_t)dim);
  for (size_t i = 0; i < pts.size(); i++) pv.CopyAttribute(dim, 0, (uint32_t)i, pts[i].data());
  DynamicIntegerPointsKdTreeEncoder<L> e(dim);
  return e.EncodePoints(pv.begin(), pv.end(), bl, buf);
}
static bool enc_tree(int level, const std::vector<Pt> &pts, int dim, uint32_t bl, EncoderBuffer *buf) {
  switch (level) {
    case 0: return enc_tree_l<0>(pts, dim, bl, buf);
    case 1: return enc_tree_l<1>(pts, dim, bl, buf);
    case 2: return enc_tree_l<2>(pts, dim, bl, buf);
    case 3: return enc_tree_l<3>(pts, dim, bl, buf);
    case 4: return enc_tree_l<4>(pts, dim, bl, buf);
    case 5: return enc_tree_l<5>(pts, dim, bl, buf);
    default: return enc_tree_l<6>(pts, dim, bl, buf);
  }
}
template <int L>
static bool dec_tree_l(const std::vector<uint8_t> &b, int dim, uint32_t maxpts, std::vector<Pt> *out, int64_t *rem, uint32_t *ndec) {
  DecoderBuffer db; db.Init((const char *)b.data(), b.size()); db.set_bitstream_version(DRACO_BITSTREAM_VERSION(2, 3));
  DynamicIntegerPointsKdTreeDecoder<L> d(dim);
  auto it = std::back_inserter(*out);
  bool ok = d.DecodePoints(&db, it, maxpts);
  *rem = db.remaining_size(); *ndec = d.num_decoded_points();
  return ok;
}
static bool dec_tree(int level, const std::vector<uint8_t> &b, int dim, uint32_t maxpts, std::vector<Pt> *out, int64_t *rem, uint32_t *ndec) {
  switch (level) {
    case 0: return dec_tree_l<0>(b, dim, maxpts, out, rem, ndec);
    case 1: return dec_tree_l<1>(b, dim, maxpts, out, rem, ndec);
    case 2: return dec_tree_l<2>(b, dim, maxpts, out, rem, ndec);
    case 3: return dec_tree_l<3>(b, dim, maxpts, out, rem, ndec);
    case 4: return dec_tree_l<4>(b, dim, maxpts, out, rem, ndec);
    case 5: return dec_tree_l<5>(b, dim, maxpts, out, rem, ndec);
    default: return dec_tree_l<6>(b, dim, maxpts, out, rem, ndec);
  }
}
static std::string flat_text(const std::vector<Pt> &pts) {
  std::string t;
  for (auto &p : pts) for (uint32_t v : p) { if (!t.empty()) t += ","; t += U(v); }
  return t.empty() ? "-" : t;
}
static std::vector<Pt> gen_points(Rng &r, int n, int dim, int bl) {
  std::vector<Pt> pts;
  const uint64_t lim = bl == 0 ? 1 : (1ull << bl);
  const int mode = (int)r.below(6);
  Pt centre(dim); for (int c = 0; c < dim; c++) centre[c] = (uint32_t)r.below(lim);
  for (int i = 0; i < n; i++) {
    Pt p(dim);
    if (i > 0 && (mode == 0 ? r.chance(30) : r.chance(4))) { pts.push_back(pts[r.below(i)]); continue; }   // duplicates
    for (int c = 0; c < dim; c++) {
      uint64_t v;
      switch (mode) {
        case 1: v = r.below(std::min<uint64_t>(lim, 4)); break;                          // few distinct values
        case 2: v = (centre[c] + r.below(9)) % lim; break;                               // one cluster
        case 3: v = r.chance(50) ? lim - 1 - r.below(std::min<uint64_t>(lim, 3)) : r.below(std::min<uint64_t>(lim, 3)); break;  // corners
        case 4: v = centre[c]; break;                                                    // all identical
        default: v = r.below(lim); break;
      }
      p[c] = (uint32_t)v;
    }
    pts.push_back(p);
  }
  return pts;
}
static std::vector<uint8_t> corrupt(Rng &r, const std::vector<uint8_t> &in, size_t lo) {
  std::vector<uint8_t> b = in;
  lo = std::min(lo, b.size());
  switch (r.below(7)) {
    case 0: if (b.size() > lo) b.resize(lo + r.below(b.size() - lo)); break;
    case 1: if (b.size() > lo) b[lo + r.below(b.size() - lo)] ^= (uint8_t)(1u << r.below(8)); break;
    case 2: if (b.size() > lo) b[lo + r.below(b.size() - lo)] = (uint8_t)r.next(); break;
    case 3: if (b.size() > lo) { size_t p = lo + r.below(std::min<size_t>(b.size() - lo, 24)); b[p] = (uint8_t)r.below(6); } break;
    case 4: if (b.size() > lo) { size_t p = lo + r.below(b.size() - lo); b.insert(b.begin() + p, (uint8_t)r.next()); } break;
    case 5: if (b.size() > lo + 1) { size_t p = lo + r.below(b.size() - lo - 1); b.erase(b.begin() + p); } break;
    default: if (b.size() > lo) { size_t p = lo + r.below(b.size() - lo); size_t k = 1 + r.below(6); for (size_t i = p; i < b.size() && i < p + k; i++) b[i] = (uint8_t)r.next(); } break;
  }
  return b;
}
static void tree_decode_case(Out &o, int level, int dim, uint32_t maxpts, const std::vector<uint8_t> &b) {
  std::vector<Pt> out; int64_t rem = 0; uint32_t nd = 0;
  bool ok = dec_tree(level, b, dim, maxpts, &out, &rem, &nd);
  std::string res = ok ? "ok " + U(out.size()) + " " + flat_text(out) + " " + S(rem) : std::string("fail");
  o.c("kdt " + S(level) + " " + S(dim) + " " + U(maxpts) + " " + hex(b.data(), b.size()), res);
  if (ok && nd != out.size()) o.fail("KD num_decoded_points != points written: level " + S(level) + " " + hex(b.data(), b.size()));
}
static long g_tree_pts = 0, g_tree_big = 0;
static void tree_round(Out &o, Rng &r, int level, int dim, int bl, int n) {
  std::vector<Pt> pts = gen_points(r, n, dim, bl);
  EncoderBuffer eb;
  bool ok = enc_tree(level, pts, dim, (uint32_t)bl, &eb);
  const std::string args = S(level) + " " + S(dim) + " " + S(bl) + " " + flat_text(pts);
  o.c("kt " + args, ok ? hex(eb.data(), eb.size()) : std::string("fail"));
  if (!ok) { o.fail("KD tree encoder failed: " + args); return; }
  g_tree_pts += n; if (n >= 64) g_tree_big++;
  std::vector<uint8_t> b(eb.data(), eb.data() + eb.size());
  // search: decode gives the same multiset, consumes exactly the stream
  {
    std::vector<Pt> out; int64_t rem = 0; uint32_t nd = 0;
    bool dok = dec_tree(level, b, dim, (uint32_t)n, &out, &rem, &nd);
    std::vector<Pt> a = pts, c = out; std::sort(a.begin(), a.end()); std::sort(c.begin(), c.end());
    if (!dok) o.fail("KD tree round trip: decoder rejects the encoder's stream: " + args);
    else if (a != c) o.fail("KD tree round trip: decoded multiset differs: " + args);
    else if (rem != 0) o.fail("KD tree round trip: stream not consumed exactly: " + args);
    // the same points in another order: the stream may differ (two-point boxes are written in array order) but the multiset must not
    std::vector<Pt> sh = pts; for (size_t i = sh.size(); i > 1; i--) std::swap(sh[i - 1], sh[r.below(i)]);
    EncoderBuffer eb2; enc_tree(level, sh, dim, (uint32_t)bl, &eb2);
    std::vector<uint8_t> b2(eb2.data(), eb2.data() + eb2.size()); std::vector<Pt> out2;
    bool d2 = dec_tree(level, b2, dim, (uint32_t)n, &out2, &rem, &nd);
    std::vector<Pt> c2 = out2; std::sort(c2.begin(), c2.end());
    if (!d2 || c2 != a) o.fail("KD tree round trip (shuffled input): " + args);
  }
  std::vector<uint8_t> tr = b; int junk = (int)r.below(4); for (int i = 0; i < junk; i++) tr.push_back((uint8_t)r.next());
  tree_decode_case(o, level, dim, (uint32_t)n + (uint32_t)r.below(3), tr);
  if (r.chance(20)) tree_decode_case(o, level, dim, n > 1 ? (uint32_t)n - 1 : 0, b);          // oit_max_points too small
  if (r.chance(15)) tree_decode_case(o, (level + 1 + (int)r.below(6)) % 7, dim, (uint32_t)n, b);  // wrong level
  if (r.chance(10)) tree_decode_case(o, level, std::max(1, dim + (r.chance(50) ? 1 : -1)), (uint32_t)n, b);  // wrong dimension
  int nc = 1 + (int)r.below(3);
  for (int i = 0; i < nc; i++) {
    std::vector<uint8_t> cb = corrupt(r, b, r.chance(70) ? 8 : 0);
    // keep the declared number of points small: the decoder writes that many points
    if (cb.size() >= 8) { uint32_t np; memcpy(&np, cb.data() + 4, 4); if (np > 2000) { np = (uint32_t)r.below(2000); memcpy(cb.data() + 4, &np, 4); } }
    tree_decode_case(o, level, dim, 2000, cb);
  }
}

// ------------------------------------------------------------------ whole streams
struct Att {
  GeometryAttribute::Type type; DataType dt; int nc; bool norm; uint32_t uid;
  int q = -1; bool explicit_q = false; std::vector<float> origin; float range = 1.f;
  std::vector<uint8_t> rows;
};
struct Cloud { int np = 0; int speed = 0; std::vector<Att> atts; };
static int dt_len(DataType dt) { return DataTypeLength(dt); }
static std::string att_text(const Att &a) {
  std::string ex = "-";
  if (a.explicit_q) { ex.clear(); for (int c = 0; c < a.nc; c++) { uint32_t b; memcpy(&b, &a.origin[c], 4); ex += (c ? "," : "") + U(b); } uint32_t rb; memcpy(&rb, &a.range, 4); ex += ":" + U(rb); }
  return S(a.type) + "." + S(a.dt) + "." + S(a.nc) + "." + S(a.norm) + "." + U(a.uid) + "." + S(a.q) + "." + ex + "." + hex(a.rows.data(), a.rows.size());
}
static std::string cloud_text(const Cloud &g) {
  std::string t = S(g.speed) + " " + S(g.np) + " " + S(g.atts.size());
  for (auto &a : g.atts) t += " " + att_text(a);
  return t;
}
static std::unique_ptr<PointCloud> build(const Cloud &g) {
  std::unique_ptr<PointCloud> pc(new PointCloud());
  pc->set_num_points(g.np);
  for (auto &a : g.atts) {
    GeometryAttribute ga; ga.Init(a.type, nullptr, a.nc, a.dt, a.norm, (int64_t)a.nc * dt_len(a.dt), 0);
    int id = pc->AddAttribute(ga, true, g.np);
    pc->attribute(id)->set_unique_id(a.uid);
    const int stride = a.nc * dt_len(a.dt);
    for (int p = 0; p < g.np; p++) pc->attribute(id)->SetAttributeValue(AttributeValueIndex(p), a.rows.data() + (size_t)p * stride);
  }
  return pc;
}
static bool encode(const Cloud &g, const PointCloud &pc, EncoderBuffer &eb) {
  ExpertEncoder enc(pc);
  enc.SetEncodingMethod(POINT_CLOUD_KD_TREE_ENCODING);
  enc.SetSpeedOptions(g.speed, g.speed);
  for (size_t i = 0; i < g.atts.size(); i++) {
    const Att &a = g.atts[i];
    if (a.q >= 0) { if (a.explicit_q) enc.SetAttributeExplicitQuantization((int)i, a.q, a.nc, a.origin.data(), a.range); else enc.SetAttributeQuantization((int)i, a.q); }
  }
  return enc.EncodeToBuffer(&eb).ok();
}
static bool g_span_ge_2_31 = false;
static Cloud gen_cloud(Rng &r, bool big) {
  Cloud g; g.np = r.chance(12) ? 1 : (r.chance(10) ? 2 : (int)r.range(1, big ? 120 : 40)); if (r.chance(6)) g.np = (int)r.range(64, 120);
  g.speed = (int)r.below(11);
  int na = (int)r.range(1, 4);
  g_span_ge_2_31 = false;
  const bool dup_points = r.chance(25), all_same = r.chance(6);
  std::vector<int> dup_src(g.np, -1);      // whole points repeated: the same earlier point for every attribute
  for (int p = 1; p < g.np; p++) if (all_same) dup_src[p] = 0; else if (dup_points && r.chance(35)) dup_src[p] = (int)r.below(p);
  for (int i = 0; i < na; i++) {
    Att a; a.uid = r.chance(70) ? (uint32_t)i : (uint32_t)r.biased(32); a.norm = r.chance(15);
    for (auto &b : g.atts) if (b.uid == a.uid) a.uid = b.uid + 1000 + i;
    int sel = (int)r.below(10);
    static const DataType ints[] = {DT_INT8, DT_UINT8, DT_INT16, DT_UINT16, DT_INT32, DT_UINT32};
    if (sel < 3) { a.type = i == 0 ? GeometryAttribute::POSITION : GeometryAttribute::GENERIC; a.dt = DT_FLOAT32; a.nc = r.chance(70) ? 3 : (int)r.range(1, 4); a.q = (int)r.range(1, 16); }
    else if (sel < 4) { a.type = GeometryAttribute::COLOR; a.dt = DT_UINT8; a.nc = (int)r.range(3, 4); }
    else { a.type = r.chance(20) ? GeometryAttribute::POSITION : GeometryAttribute::GENERIC; a.dt = ints[r.below(6)]; a.nc = (int)r.range(1, 4); }
    if (r.chance(3)) a.nc = (int)r.range(5, 9);     // many components (level 6 is lowered to 5 above 15 in total)
    const int w = dt_len(a.dt);
    const int flavor = (int)r.below(5);
    const int lowbits = (int)r.range(1, 8 * w);
    for (int p = 0; p < g.np; p++) {
      if (dup_src[p] >= 0) {
        size_t src = (size_t)dup_src[p];
        for (int k = 0; k < a.nc * w; k++) a.rows.push_back(a.rows[src * a.nc * w + k]);
        continue;
      }
      for (int c = 0; c < a.nc; c++) {
        uint64_t v;
        if (a.dt == DT_FLOAT32) { float f = (float)r.range(-2000, 2000) / (float)(1 << r.below(8)); if (r.chance(5)) f = std::ldexp(f, (int)r.range(-10, 10)); uint32_t b; memcpy(&b, &f, 4); v = b; }
        else switch (flavor) {
          case 0: v = r.below(7); break;
          case 1: v = r.biased(8 * w); break;
          case 2: v = (uint64_t)(int64_t)r.range(-40, 40); break;
          case 3: v = r.next() & ((1ull << lowbits) - 1); break;
          default: v = r.next(); break;
        }
        for (int k = 0; k < w; k++) a.rows.push_back((uint8_t)(v >> (8 * k)));
      }
    }
    if (a.dt == DT_INT32) {   // keep the span of every component below 2^31 (defect D9) except in a few deliberate cases
      const bool keep = r.chance(4);
      for (int c = 0; c < a.nc; c++) {
        int64_t mn = INT64_MAX, mx = INT64_MIN;
        for (int p = 0; p < g.np; p++) { int32_t v; memcpy(&v, a.rows.data() + ((size_t)p * a.nc + c) * 4, 4); mn = std::min<int64_t>(mn, v); mx = std::max<int64_t>(mx, v); }
        if (mx - mn >= (1ll << 31)) {
          if (keep) g_span_ge_2_31 = true;
          else for (int p = 0; p < g.np; p++) { int32_t v; memcpy(&v, a.rows.data() + ((size_t)p * a.nc + c) * 4, 4); v /= 2; memcpy(a.rows.data() + ((size_t)p * a.nc + c) * 4, &v, 4); }
        }
      }
    }
    if (a.dt == DT_FLOAT32 && r.chance(15)) { a.explicit_q = true; for (int c = 0; c < a.nc; c++) a.origin.push_back((float)r.range(-3000, 0)); a.range = (float)r.range(5000, 9000); }
    g.atts.push_back(a);
  }
  return g;
}
static std::string decoded_text(const PointCloud &pc, int64_t rem) {
  std::string t = "ok " + U(pc.num_points()) + " " + S(pc.num_attributes());
  for (int i = 0; i < pc.num_attributes(); i++) {
    const PointAttribute *a = pc.attribute(i);
    std::vector<uint8_t> buf(a->byte_stride()), all;
    for (PointIndex p(0); p < pc.num_points(); ++p) { a->GetMappedValue(p, buf.data()); all.insert(all.end(), buf.begin(), buf.end()); }
    t += " " + S(a->attribute_type()) + "." + S(a->data_type()) + "." + S(a->num_components()) + "." + S(a->normalized()) + "." + U(a->unique_id()) + "." + hex(all.data(), all.size());
    if (a->GetAttributeTransformData() && a->GetAttributeTransformData()->transform_type() == ATTRIBUTE_QUANTIZATION_TRANSFORM) {
      AttributeQuantizationTransform qt;    // a skipped attribute carries the parameters needed to dequantize it
      if (qt.InitFromAttribute(*a)) {
        t += ".T" + S(qt.quantization_bits());
        for (int c = 0; c < a->num_components(); c++) { float m = qt.min_value(c); uint32_t b; memcpy(&b, &m, 4); t += "," + U(b); }
        float rg = qt.range(); uint32_t rb; memcpy(&rb, &rg, 4); t += "," + U(rb);
      }
    }
  }
  return t + " " + S(rem);
}
// streams the model does not cover (legacy versions, metadata) or that would make the decoder allocate for a huge declared count
static bool in_model(const std::vector<uint8_t> &b) {
  if (b.size() >= 11) {
    if (b[5] != 2 || b[6] != 3) { if (b[5] >= 1 && (b[5] < 2 || (b[5] == 2 && b[6] < 3))) return false; }
    if (b[10] & 0x80) return false;
  }
  if (b.size() >= 15) { uint32_t np; memcpy(&np, b.data() + 11, 4); if (np > 5000 && np < 0x80000000u) return false; }
  return true;
}
// skip: attribute types decoded with SetSkipAttributeTransform (the attribute then is its quantized portable form: DT_UINT32,
// the stream's unique id (fix 444a932), the quantization parameters attached)
static void pc_decode_case(Out &o, const std::vector<uint8_t> &b, const std::vector<int> &skip = {}) {
  if (!in_model(b)) return;
  DecoderBuffer db; db.Init((const char *)b.data(), b.size());
  Decoder d; std::string sk;
  for (size_t i = 0; i < skip.size(); i++) { d.SetSkipAttributeTransform((GeometryAttribute::Type)skip[i]); sk += (i ? "," : "") + S(skip[i]); }
  auto res = d.DecodePointCloudFromBuffer(&db);
  std::string t = res.ok() ? decoded_text(*res.value(), db.remaining_size()) : std::string("fail");
  if (skip.empty()) o.c("kdpc " + hex(b.data(), b.size()), t);
  else o.c("kdpcs " + sk + " " + hex(b.data(), b.size()), t);
}
static long g_d9 = 0, g_pc_ok = 0;
// search oracle: the decoded cloud is the input cloud under ONE permutation of the points, integer attributes
// bit-identical, quantized floats within half a step (+ 4 ulp)
static void check_roundtrip(Out &o, const Cloud &g, const PointCloud &dec, const std::string &gt) {
  if ((int)dec.num_points() != g.np) { o.fail("KD point count changed: " + gt); return; }
  if (dec.num_attributes() != (int)g.atts.size()) { o.fail("KD attribute count changed: " + gt); return; }
  // integer key of every decoded / input point: integer attributes raw, float attributes by their quantized cell
  std::vector<std::vector<int64_t>> in_key(g.np), out_key(g.np);
  for (size_t ai = 0; ai < g.atts.size(); ai++) {
    const Att &a = g.atts[ai];
    const PointAttribute *d = dec.attribute((int)ai);
    if (d->attribute_type() != a.type || d->data_type() != a.dt || d->num_components() != a.nc || d->normalized() != a.norm || d->unique_id() != a.uid) { o.fail("KD attribute descriptor changed: " + gt); return; }
    const int stride = a.nc * dt_len(a.dt); std::vector<uint8_t> buf(stride);
    if (a.dt != DT_FLOAT32) {
      for (int p = 0; p < g.np; p++) {
        d->GetMappedValue(PointIndex(p), buf.data());
        for (int k = 0; k < stride; k++) { in_key[p].push_back(a.rows[(size_t)p * stride + k]); out_key[p].push_back(buf[k]); }
      }
    } else {
      std::vector<float> lo(a.nc, INFINITY), hi(a.nc, -INFINITY);
      for (int p = 0; p < g.np; p++) for (int c = 0; c < a.nc; c++) { float f; memcpy(&f, a.rows.data() + (size_t)p * stride + 4 * c, 4); lo[c] = std::min(lo[c], f); hi[c] = std::max(hi[c], f); }
      float range = 0; for (int c = 0; c < a.nc; c++) range = std::max(range, hi[c] - lo[c]); if (range == 0) range = 1; if (a.explicit_q) range = a.range;
      const double step = (double)range / (double)((1u << a.q) - 1);
      for (int p = 0; p < g.np; p++) {
        d->GetMappedValue(PointIndex(p), buf.data());
        for (int c = 0; c < a.nc; c++) {
          float x, y; memcpy(&x, a.rows.data() + (size_t)p * stride + 4 * c, 4); memcpy(&y, buf.data() + 4 * c, 4);
          const float org = a.explicit_q ? a.origin[c] : lo[c];
          // values outside an explicit box are not clamped: they quantize to cells below 0 / above 2^q - 1 and come back as such
          // the encoder's cell in the library's own float arithmetic; the decoded value's cell from its position on the grid
          const float inv = (float)((1u << a.q) - 1) / range; const float fv = (x - org) * inv;
          in_key[p].push_back((int64_t)std::floor(fv + 0.5f));
          out_key[p].push_back((int64_t)std::floor(((double)y - (double)org) / step + 0.5));
        }
      }
    }
  }
  // one permutation for all attributes <=> the multisets of whole-point keys agree
  std::vector<std::vector<int64_t>> a = in_key, b = out_key; std::sort(a.begin(), a.end()); std::sort(b.begin(), b.end());
  if (a == b) return;
  bool has_float = false; for (auto &x : g.atts) if (x.dt == DT_FLOAT32) has_float = true;
  if (!has_float) { o.fail("KD decoded points are not a permutation of the input points (same permutation for all attributes): " + gt); return; }
  // float cells recomputed here may be off by one at a cell border: perfect matching (augmenting paths) between input and
  // decoded points that agree on the integer columns and are within one cell on the float columns
  std::vector<char> is_float; for (auto &x : g.atts) for (int k = 0; k < (x.dt == DT_FLOAT32 ? x.nc : x.nc * dt_len(x.dt)); k++) is_float.push_back(x.dt == DT_FLOAT32);
  auto compatible = [&](int p, int q2) { for (size_t k = 0; k < in_key[p].size(); k++) { int64_t df = in_key[p][k] - out_key[q2][k]; if (is_float[k] ? (df < -1 || df > 1) : df != 0) return false; } return true; };
  std::vector<int> match(g.np, -1);
  std::function<bool(int, std::vector<char> &)> aug = [&](int p, std::vector<char> &seen) {
    for (int q2 = 0; q2 < g.np; q2++) if (!seen[q2] && compatible(p, q2)) { seen[q2] = 1; if (match[q2] < 0 || aug(match[q2], seen)) { match[q2] = p; return true; } }
    return false;
  };
  for (int p = 0; p < g.np; p++) { std::vector<char> seen(g.np, 0); if (!aug(p, seen)) {
    if (getenv("KD_DEBUG")) { for (int q2 = 0; q2 < g.np; q2++) { std::string l = "#dbg "; for (auto v : in_key[q2]) l += S(v) + ","; l += " | "; for (auto v : out_key[q2]) l += S(v) + ","; o.note(l); } } o.fail("KD decoded points are not a permutation of the input points within one quantization cell: " + gt); return; } }
}
static void pc_round(Out &o, Rng &r, bool big) {
  Cloud g = gen_cloud(r, big);
  const bool d9 = g_span_ge_2_31;
  std::unique_ptr<PointCloud> pc = build(g);
  EncoderBuffer eb; bool ok = encode(g, *pc, eb);
  const std::string gt = cloud_text(g);
  o.c("kpc " + gt, ok ? hex(eb.data(), eb.size()) : std::string("fail"));
  // a signed component spanning >= 2^31 must make the encode fail (D9, fix e50b8ba); everything else generated here must encode
  if (d9) { g_d9++; if (ok) o.fail("KD encoder accepted an int32 component spanning >= 2^31: " + gt); return; }
  if (!ok) { o.fail("KD encoder failed on a valid cloud: " + gt); return; }
  std::vector<uint8_t> b(eb.data(), eb.data() + eb.size());
  {
    DecoderBuffer db; db.Init((const char *)b.data(), b.size()); Decoder d; auto res = d.DecodePointCloudFromBuffer(&db);
    if (!res.ok()) o.fail("KD decoder rejects the encoder's stream: " + gt);
    else { if (db.remaining_size() != 0) o.fail("KD stream not consumed exactly: " + gt); g_pc_ok++; check_roundtrip(o, g, *res.value(), gt); }
  }
  std::vector<uint8_t> tr = b; int junk = (int)r.below(4); for (int i = 0; i < junk; i++) tr.push_back((uint8_t)r.next());
  pc_decode_case(o, tr);
  {  // decode with the transform of some attribute types skipped
    std::vector<int> skip; for (auto &a : g.atts) if (a.dt == DT_FLOAT32 && r.chance(70)) { bool have = false; for (int t : skip) have |= t == (int)a.type; if (!have) skip.push_back((int)a.type); }
    if (skip.empty() && r.chance(20)) skip.push_back((int)GeometryAttribute::GENERIC);
    if (!skip.empty()) { pc_decode_case(o, b, skip); if (r.chance(40)) pc_decode_case(o, corrupt(r, b, 16), skip); }
  }
  int nc = 2 + (int)r.below(3);
  for (int i = 0; i < nc; i++) pc_decode_case(o, corrupt(r, b, r.chance(75) ? 16 : 0));
  // the parameter blocks at the end of the stream (quantization data, signed minima as varints): extreme varints in the last bytes
  // (a minimum of INT32_MAX made int32(u) + min overflow before fix 3b2dbf5; now rejected)
  { static const uint8_t pats[][5] = {{0xfe, 0xff, 0xff, 0xff, 0x0f}, {0xff, 0xff, 0xff, 0xff, 0x0f}, {0xfd, 0xff, 0xff, 0xff, 0x0f}, {0x80, 0x80, 0x80, 0x80, 0x08}};
    std::vector<uint8_t> c = b; size_t back = 1 + r.below(std::min<size_t>(c.size(), 6)); std::vector<uint8_t> tail(c.end() - back + 1, c.end()); c.resize(c.size() - back);
    const uint8_t *pt = pats[r.below(4)]; c.insert(c.end(), pt, pt + 5); c.insert(c.end(), tail.begin(), tail.end()); pc_decode_case(o, c); }
}

int main(int argc, char **argv) {
  if (argc < 4) { fprintf(stderr, "usage: h_kd quick|thorough seed out\n"); return 2; }
  const bool thorough = !strcmp(argv[1], "thorough");
  Rng r(strtoull(argv[2], 0, 10));
  Out o(argv[3]);
  const char *mode_env = getenv("KD_MODE"); const std::string mode = mode_env ? mode_env : "all";
  // --- the tree coder for every level, bit lengths 0..32, 1..17 dimensions
  if (mode == "all" || mode == "tree") {
    const int n_tree = thorough ? 6000 : 700;
    for (int i = 0; i < n_tree; i++) {
      int level = i % 7;
      int dim = r.chance(60) ? (int)r.range(1, 4) : (int)r.range(1, 9);
      if (r.chance(3)) dim = (int)r.range(10, level == 6 ? 15 : 17);      // level 6 writes the axis in 4 bits: callers keep dim <= 15 there
      int bl = r.chance(5) ? 0 : (r.chance(25) ? 32 : (r.chance(40) ? (int)r.range(1, 6) : (int)r.range(1, 32)));
      int n = r.chance(10) ? 1 : (r.chance(10) ? 2 : (r.chance(10) ? 3 : (r.chance(25) ? (int)r.range(60, 200) : (int)r.range(1, 60))));
      if (dim >= 8 && n > 80) n = 80;
      tree_round(o, r, level, dim, bl, n);
    }
    {  // empty input: only the two header words
      EncoderBuffer eb; std::vector<Pt> none; enc_tree(3, none, 2, 5, &eb);
      o.c("kt 3 2 5 -", hex(eb.data(), eb.size()));
      tree_decode_case(o, 3, 2, 10, std::vector<uint8_t>(eb.data(), eb.data() + eb.size()));
    }
  }
  // --- whole streams through Encoder / Decoder
  if (mode == "all" || mode == "pc") {
    const int n_pc = thorough ? 3000 : 350;
    for (int i = 0; i < n_pc; i++) pc_round(o, r, i % 5 == 0);
    // the boundary of the signed-span guard (D9, fix e50b8ba): max - min = 2^31 - 1 encodes and round-trips, 2^31 must fail
    for (int k = 0; k < 12; k++) {
      Cloud g; g.np = 2 + (int)r.below(4); g.speed = (int)r.below(11);
      Att a; a.type = GeometryAttribute::GENERIC; a.dt = DT_INT32; a.nc = 1 + (int)r.below(3); a.norm = false; a.uid = 7;
      const bool too_large = k % 2 == 1; const int badc = (int)r.below(a.nc);
      const int64_t lo = k < 4 ? INT32_MIN : (int64_t)INT32_MIN + (int64_t)r.below(1000);
      const int64_t span = too_large ? (1ll << 31) : (1ll << 31) - 1;
      for (int p = 0; p < g.np; p++) for (int c = 0; c < a.nc; c++) {
        int64_t v = c != badc ? (int64_t)r.range(-5, 5) : (p == 0 ? lo : (p == 1 ? std::min<int64_t>(lo + span, INT32_MAX) : lo + (int64_t)r.below((uint64_t)span)));
        if (c == badc && p == 1 && lo + span > INT32_MAX) v = INT32_MAX;
        int32_t w = (int32_t)v; for (int j = 0; j < 4; j++) a.rows.push_back((uint8_t)((uint32_t)w >> (8 * j)));
      }
      // when lo + span exceeds INT32_MAX the cloud spans less than requested: classify by the actual values
      int64_t mn = INT64_MAX, mx = INT64_MIN; for (int p = 0; p < g.np; p++) { int32_t w; memcpy(&w, a.rows.data() + ((size_t)p * a.nc + badc) * 4, 4); mn = std::min<int64_t>(mn, w); mx = std::max<int64_t>(mx, w); }
      const bool expect_fail = mx - mn > INT32_MAX;
      g.atts.push_back(a);
      if (r.chance(50)) { Att b; b.type = GeometryAttribute::COLOR; b.dt = DT_UINT8; b.nc = 3; b.norm = true; b.uid = 9; for (int i = 0; i < g.np * 3; i++) b.rows.push_back((uint8_t)r.next()); g.atts.push_back(b); }
      std::unique_ptr<PointCloud> pc = build(g); EncoderBuffer eb; bool ok = encode(g, *pc, eb);
      o.c("kpc " + cloud_text(g), ok ? hex(eb.data(), eb.size()) : std::string("fail"));
      if (ok == expect_fail) o.fail(std::string("KD signed-span guard: encode ") + (ok ? "succeeded" : "failed") + " for span " + S(mx - mn) + ": " + cloud_text(g));
      if (ok) {
        std::vector<uint8_t> b(eb.data(), eb.data() + eb.size());
        DecoderBuffer db; db.Init((const char *)b.data(), b.size()); Decoder d; auto res = d.DecodePointCloudFromBuffer(&db);
        if (!res.ok()) o.fail("KD decoder rejects the encoder's stream: " + cloud_text(g)); else check_roundtrip(o, g, *res.value(), cloud_text(g));
        pc_decode_case(o, b);
      } else g_d9++;
    }
    {  // a float attribute without quantization cannot use the kd-tree method: the Encoder reports an error
      Cloud g; g.np = 3; g.speed = 3; Att a; a.type = GeometryAttribute::POSITION; a.dt = DT_FLOAT32; a.nc = 3; a.norm = false; a.uid = 0; a.q = -1;
      for (int k = 0; k < 9; k++) { float f = (float)k; uint32_t bb; memcpy(&bb, &f, 4); for (int j = 0; j < 4; j++) a.rows.push_back((uint8_t)(bb >> (8 * j))); }
      g.atts.push_back(a);
      std::unique_ptr<PointCloud> pc = build(g); EncoderBuffer eb; bool ok = encode(g, *pc, eb);
      o.c("kpc " + cloud_text(g), ok ? hex(eb.data(), eb.size()) : std::string("fail"));
      if (ok) o.fail("KD kd-tree method accepted an unquantized float attribute");
    }
  }
  o.note("tree points encoded " + S(g_tree_pts) + ", tree clouds with >= 64 points " + S(g_tree_big) + ", whole clouds round-tripped " + S(g_pc_ok) + ", clouds with a signed span >= 2^31 (encode must fail) " + S(g_d9));
  return 0;
}
