// C06: encoding and decoding are deterministic functions of their inputs (search on the real library).
//   h_c06 <tier> <seed> <out>         parent: runs the battery, re-runs it in child processes (fresh address space,
//                                     MALLOC_PERTURB_ varied) and compares the fingerprints
//   h_c06 child <tier> <seed>         prints the fingerprint of the battery
#include "common.h"
#include <cmath>
#include <fstream>
#include <map>
#include <unistd.h>
#include <sys/wait.h>
#include "draco/compression/decode.h"
#include "draco/compression/encode.h"
#include "draco/compression/expert_encode.h"
#include "draco/mesh/mesh.h"
#include "draco/mesh/triangle_soup_mesh_builder.h"
#include "draco/metadata/metadata_encoder.h"
#include "draco/point_cloud/point_cloud_builder.h"
using namespace draco;

static uint64_t fnv(uint64_t h, const void *p, size_t n) { const uint8_t *b = (const uint8_t *)p; for (size_t i = 0; i < n; i++) { h ^= b[i]; h *= 1099511628211ull; } return h; }
template <class T> static uint64_t fnv_v(uint64_t h, T v) { return fnv(h, &v, sizeof(v)); }

// ordered digest: points, faces, attributes in order, every value in point order, metadata
static std::string digest(const PointCloud &pc, const Mesh *m) {
  uint64_t h = 1469598103934665603ull;
  h = fnv_v<uint32_t>(h, pc.num_points()); h = fnv_v<uint32_t>(h, m ? m->num_faces() : 0xffffffffu);
  if (m) for (FaceIndex f(0); f < m->num_faces(); ++f) for (int j = 0; j < 3; j++) h = fnv_v<uint32_t>(h, m->face(f)[j].value());
  h = fnv_v<int32_t>(h, pc.num_attributes());
  for (int i = 0; i < pc.num_attributes(); i++) {
    const PointAttribute *a = pc.attribute(i);
    h = fnv_v<int32_t>(h, a->attribute_type()); h = fnv_v<int32_t>(h, a->data_type()); h = fnv_v<int32_t>(h, a->num_components()); h = fnv_v<uint8_t>(h, a->normalized()); h = fnv_v<uint32_t>(h, a->unique_id());
    std::vector<uint8_t> buf(a->byte_stride());
    for (PointIndex p(0); p < pc.num_points(); ++p) { a->GetMappedValue(p, buf.data()); h = fnv(h, buf.data(), buf.size()); }
  }
  if (pc.GetMetadata()) { EncoderBuffer mb; MetadataEncoder me; me.EncodeGeometryMetadata(&mb, pc.GetMetadata()); h = fnv(h, mb.data(), mb.size()); }
  char t[40]; snprintf(t, sizeof t, "%016llx", (unsigned long long)h);
  return std::string(t) + ":" + U(pc.num_points()) + ":" + (m ? U(m->num_faces()) : std::string("-")) + ":" + S(pc.num_attributes());
}
static std::string decode_digest(const std::vector<uint8_t> &b, std::string *err = nullptr, int *code = nullptr) {
  DecoderBuffer db; db.Init((const char *)b.data(), b.size());
  auto t = Decoder::GetEncodedGeometryType(&db);
  if (!t.ok()) { if (err) *err = t.status().error_msg(); if (code) *code = t.status().code(); return ""; }
  Decoder d;
  if (t.value() == TRIANGULAR_MESH) { auto m = d.DecodeMeshFromBuffer(&db); if (!m.ok()) { if (err) *err = m.status().error_msg(); if (code) *code = m.status().code(); return ""; } return digest(*m.value(), m.value().get()); }
  auto p = d.DecodePointCloudFromBuffer(&db); if (!p.ok()) { if (err) *err = p.status().error_msg(); if (code) *code = p.status().code(); return ""; } return digest(*p.value(), nullptr);
}

// closed surface of genus 1 (w x h grid wrapped both ways): Edgebreaker needs topology split events for it
static std::unique_ptr<Mesh> gen_torus(Rng &r) {
  int w = (int)r.range(3, 7), h = (int)r.range(3, 7); TriangleSoupMeshBuilder mb; mb.Start(2 * w * h);
  int pos = mb.AddAttribute(GeometryAttribute::POSITION, 3, DT_FLOAT32); int gen = r.chance(50) ? mb.AddAttribute(GeometryAttribute::GENERIC, 1, DT_UINT8) : -1;
  auto P = [&](int x, int y, float *o) { float a = 6.2831853f * (float)(x % w) / (float)w, b = 6.2831853f * (float)(y % h) / (float)h; o[0] = (3.f + std::cos(b)) * std::cos(a); o[1] = (3.f + std::cos(b)) * std::sin(a); o[2] = std::sin(b); };
  int f = 0;
  for (int y = 0; y < h; y++) for (int x = 0; x < w; x++) { float a[3], b[3], c[3], d[3]; P(x, y, a); P(x + 1, y, b); P(x + 1, y + 1, c); P(x, y + 1, d);
    mb.SetAttributeValuesForFace(pos, FaceIndex(f), a, b, c); if (gen >= 0) { uint8_t v = (uint8_t)(f % 3); mb.SetPerFaceAttributeValueForFace(gen, FaceIndex(f), &v); } f++;
    mb.SetAttributeValuesForFace(pos, FaceIndex(f), a, c, d); if (gen >= 0) { uint8_t v = (uint8_t)(f % 3); mb.SetPerFaceAttributeValueForFace(gen, FaceIndex(f), &v); } f++; }
  return mb.Finalize();
}
// many faces over very few points (duplicated / permuted faces): the connectivity takes far more bytes than the attributes
static std::unique_ptr<Mesh> gen_many_faces(Rng &r) {
  std::unique_ptr<Mesh> m(new Mesh()); int np = (int)r.range(3, 7), nf = (int)r.range(150, 500); m->set_num_points(np);
  GeometryAttribute ga; ga.Init(GeometryAttribute::POSITION, nullptr, 3, DT_FLOAT32, false, 12, 0); int id = m->AddAttribute(ga, true, np);
  for (int i = 0; i < np; i++) { float p[3] = {(float)(i % 3), (float)(i / 3) + 0.1f * (float)i, (float)((i * 5) % 4)}; m->attribute(id)->SetAttributeValue(AttributeValueIndex(i), p); }
  for (int f = 0; f < nf; f++) { Mesh::Face fc; int a = (int)r.below(np), b = (a + 1 + (int)r.below(np - 1)) % np, c = (int)r.below(np); if (c == a || c == b) c = (std::max(a, b) + 1) % np; if (c == a || c == b) c = (c + 1) % np; fc[0] = PointIndex(a); fc[1] = PointIndex(b); fc[2] = PointIndex(c); m->AddFace(fc); }
  return m;
}
static std::unique_ptr<Mesh> gen_mesh(Rng &r) {
  if (r.chance(12)) return gen_torus(r);
  if (r.chance(8)) return gen_many_faces(r);
  TriangleSoupMeshBuilder mb; int w = (int)r.range(2, 6), h = (int)r.range(2, 6);
  std::vector<std::array<int, 3>> faces; auto id = [&](int x, int y) { return y * (w + 1) + x; };
  for (int y = 0; y < h; y++) for (int x = 0; x < w; x++) { if (r.chance(10)) continue; faces.push_back({id(x, y), id(x + 1, y), id(x + 1, y + 1)}); faces.push_back({id(x, y), id(x + 1, y + 1), id(x, y + 1)}); }
  if (r.chance(40)) for (int i = 0; i < 3; i++) faces.push_back({(int)r.below((w + 1) * (h + 1)), (int)r.below((w + 1) * (h + 1)), (int)r.below((w + 1) * (h + 1))});
  if (faces.empty()) faces.push_back({0, 1, w + 2});
  mb.Start((int)faces.size());
  int pos = mb.AddAttribute(GeometryAttribute::POSITION, 3, DT_FLOAT32);
  int tex = r.chance(70) ? mb.AddAttribute(GeometryAttribute::TEX_COORD, 2, DT_FLOAT32) : -1;
  int nor = r.chance(50) ? mb.AddAttribute(GeometryAttribute::NORMAL, 3, DT_FLOAT32) : -1;
  int gen = r.chance(50) ? mb.AddAttribute(GeometryAttribute::GENERIC, 2, DT_INT16) : -1;
  int seam = r.chance(50) ? (int)r.range(1, w) : -1;
  for (size_t f = 0; f < faces.size(); f++) { auto &F = faces[f]; float P[3][3], uv[3][2], n[3][3]; int16_t g[3][2];
    for (int k = 0; k < 3; k++) { int x = F[k] % (w + 1), y = F[k] / (w + 1); P[k][0] = (float)x + (float)((F[k] * 7) % 13) / 40.f; P[k][1] = (float)y; P[k][2] = (float)((F[k] * 5) % 11) / 7.f;
      bool right = seam >= 0 && (F[0] % (w + 1)) >= seam; uv[k][0] = (float)x / (w + 1) + (right ? .5f : 0.f); uv[k][1] = (float)y / (h + 1);
      float a = (float)((F[k] * 37) % 100) / 16.f; n[k][0] = std::sin(a); n[k][1] = std::cos(a) * .6f; n[k][2] = .8f * std::cos(a); g[k][0] = (int16_t)(F[k] % 9 - 4); g[k][1] = (int16_t)(f % 3); }
    mb.SetAttributeValuesForFace(pos, FaceIndex((uint32_t)f), P[0], P[1], P[2]);
    if (tex >= 0) mb.SetAttributeValuesForFace(tex, FaceIndex((uint32_t)f), uv[0], uv[1], uv[2]);
    if (nor >= 0) mb.SetAttributeValuesForFace(nor, FaceIndex((uint32_t)f), n[0], n[1], n[2]);
    if (gen >= 0) mb.SetAttributeValuesForFace(gen, FaceIndex((uint32_t)f), g[0], g[1], g[2]); }
  return mb.Finalize();
}
static std::unique_ptr<PointCloud> gen_pc(Rng &r) {
  if (r.chance(12)) {   // many points on very few distinct positions: the kd-tree stream takes far less than one bit per point
    PointCloudBuilder pb; int n = (int)r.range(600, 4000), k = (int)r.range(1, 3); pb.Start(n); int pos = pb.AddAttribute(GeometryAttribute::POSITION, 3, DT_FLOAT32);
    for (int i = 0; i < n; i++) { int j = (int)r.below(k); float p[3] = {(float)j, (float)(j * j), 1.f}; pb.SetAttributeValueForPoint(pos, PointIndex(i), p); }
    return pb.Finalize(false);
  }
  PointCloudBuilder pb; int n = (int)r.range(1, 90); pb.Start(n);
  int wide = r.chance(35) ? pb.AddAttribute(GeometryAttribute::GENERIC, 7, DT_FLOAT32) : -1;   // wider than the explicit quantization origin some option sets give
  if (wide >= 0) for (int i = 0; i < n; i++) { float v[7]; for (int c = 0; c < 7; c++) v[c] = (float)r.range(0, 1000) / 16.f; pb.SetAttributeValueForPoint(wide, PointIndex(i), v); }
  int pos = pb.AddAttribute(GeometryAttribute::POSITION, 3, DT_FLOAT32); int col = r.chance(60) ? pb.AddAttribute(GeometryAttribute::COLOR, 4, DT_UINT8) : -1; int gen = r.chance(40) ? pb.AddAttribute(GeometryAttribute::GENERIC, 1, DT_UINT32) : -1;
  for (int i = 0; i < n; i++) { float p[3] = {(float)r.range(-900, 900) / 16.f, (float)r.range(-900, 900) / 16.f, (float)r.range(-90, 90) / 4.f}; pb.SetAttributeValueForPoint(pos, PointIndex(i), p);
    if (col >= 0) { uint8_t c[4] = {(uint8_t)r.below(256), (uint8_t)r.below(4), (uint8_t)i, 255}; pb.SetAttributeValueForPoint(col, PointIndex(i), c); } if (gen >= 0) { uint32_t g = (uint32_t)r.below(5000); pb.SetAttributeValueForPoint(gen, PointIndex(i), &g); } }
  return pb.Finalize(r.chance(50));
}


struct Opt { bool mesh; int method, speed, sub, qpos; bool builtin; int expl_dims = 0; bool nopred = false; };
static void configure(Encoder &enc, const Opt &o) {
  // explicit quantization shared by all attributes of a type, with an origin of fewer dimensions than some attribute has components
  // (the missing origin components are zero by definition of the option vector, never leftovers of the heap)
  // no prediction for the integer attributes: with raw (not entropy-coded) values the stream then ENDS with the last attribute's value bytes
  if (o.nopred) { enc.SetAttributePredictionScheme(GeometryAttribute::GENERIC, PREDICTION_NONE); enc.SetAttributePredictionScheme(GeometryAttribute::COLOR, PREDICTION_NONE); }
  if (o.expl_dims > 0) { float origin[3] = {-1.f, 0.25f, -3.f}; enc.SetAttributeExplicitQuantization(GeometryAttribute::GENERIC, 12, o.expl_dims, origin, 80.f); }
  enc.SetEncodingMethod(o.method); enc.SetSpeedOptions(o.speed, o.speed);
  enc.SetAttributeQuantization(GeometryAttribute::POSITION, o.qpos); enc.SetAttributeQuantization(GeometryAttribute::TEX_COORD, 10); enc.SetAttributeQuantization(GeometryAttribute::NORMAL, 8);
  if (o.mesh && o.method == MESH_EDGEBREAKER_ENCODING) enc.options().SetGlobalInt("edgebreaker_method", o.sub);
  enc.options().SetGlobalBool("use_built_in_attribute_compression", o.builtin);
}
static bool encode(Encoder &enc, const PointCloud &g, bool mesh, EncoderBuffer &eb) { return mesh ? enc.EncodeMeshToBuffer(static_cast<const Mesh &>(g), &eb).ok() : enc.EncodePointCloudToBuffer(g, &eb).ok(); }

// the battery: returns a fingerprint of every produced stream and every decoded geometry; reports violations found in-process
static uint64_t battery(bool thorough, uint64_t seed, Out *o, long *count) {
  Rng r(seed); uint64_t fp = 1469598103934665603ull;
  int n = thorough ? 2500 : 400;
  Encoder reused_enc; EncoderBuffer reused_buf; Decoder reused_dec; DecoderBuffer reused_db;
  struct Recent { std::vector<uint8_t> bytes; bool mesh; std::string dig; }; std::vector<Recent> recent;
  for (int i = 0; i < n; i++) {
    bool mesh = r.chance(60);
    std::unique_ptr<PointCloud> g = mesh ? std::unique_ptr<PointCloud>(gen_mesh(r).release()) : gen_pc(r);
    if (!g) continue;
    { // one ExpertEncoder used for several encodes with option changes in between (automatic method selection each time) against a fresh
      // ExpertEncoder that received the same setter calls but never encoded: an encode must not leave anything behind in the object
      std::unique_ptr<ExpertEncoder> X(mesh ? new ExpertEncoder(static_cast<const Mesh &>(*g)) : new ExpertEncoder(*g));
      struct Set { int kind, a, b; }; std::vector<Set> hist; const int pos_id = g->GetNamedAttributeId(GeometryAttribute::POSITION);
      auto apply = [&](ExpertEncoder &e, const Set &st) { if (st.kind == 0) e.SetSpeedOptions(st.a, st.b); else if (st.kind == 1) e.SetAttributeQuantization(st.a, st.b); else e.SetUseBuiltInAttributeCompression(st.a != 0); };
      for (int step = 0; step < 3; step++) { Set st; int w = (int)r.below(10);
        if (w < 5) st = {0, r.chance(40) ? 10 : (int)r.below(10), r.chance(40) ? 10 : (int)r.below(10)}; else if (w < 9 && pos_id >= 0) st = {1, pos_id, r.chance(30) ? 0 : (int)r.range(6, 14)}; else st = {2, (int)r.below(2), 0};
        hist.push_back(st); apply(*X, st);
        EncoderBuffer bx, by; bool okx = X->EncodeToBuffer(&bx).ok();
        std::unique_ptr<ExpertEncoder> Y(mesh ? new ExpertEncoder(static_cast<const Mesh &>(*g)) : new ExpertEncoder(*g)); for (auto &h : hist) apply(*Y, h); bool oky = Y->EncodeToBuffer(&by).ok();
        (*count)++; fp = fnv(fp, by.data(), by.size());
        { // ... and from a fresh one that only received the FINAL value of every option (a setter called twice must overwrite)
          std::unique_ptr<ExpertEncoder> Z(mesh ? new ExpertEncoder(static_cast<const Mesh &>(*g)) : new ExpertEncoder(*g)); std::map<std::pair<int, int>, Set> last; for (auto &h : hist) last[{h.kind, h.kind == 1 ? h.a : 0}] = h;
          for (auto &kv : last) apply(*Z, kv.second); EncoderBuffer bz; bool okz = Z->EncodeToBuffer(&bz).ok();
          if (o && (okz != oky || bz.size() != by.size() || memcmp(bz.data(), by.data(), by.size()) != 0))
            o->fail(std::string("C06 setting an option twice differs from setting its final value once (step ") + S(step) + ", " + (oky ? U(by.size()) + " bytes" : std::string("fails")) + " vs " + (okz ? U(bz.size()) + " bytes" : std::string("fails")) + "): " + (mesh ? "mesh" : "pc") + " geo#" + S(i)); }
        if (o && (okx != oky || bx.size() != by.size() || memcmp(bx.data(), by.data(), by.size()) != 0))
          o->fail(std::string("C06 an ExpertEncoder that has encoded before behaves differently from a fresh one with the same option calls (step ") + S(step) + ", " + (okx ? U(bx.size()) + " bytes" : std::string("fails")) + " vs " + (oky ? U(by.size()) + " bytes" : std::string("fails")) + "): " + (mesh ? "mesh" : "pc") + " geo#" + S(i)); } }
    int nopt = thorough ? 4 : 3;
    for (int k = 0; k < nopt; k++) {
      Opt op; op.mesh = mesh; op.method = mesh ? (r.chance(70) ? MESH_EDGEBREAKER_ENCODING : MESH_SEQUENTIAL_ENCODING) : (r.chance(50) ? POINT_CLOUD_KD_TREE_ENCODING : POINT_CLOUD_SEQUENTIAL_ENCODING);
      op.speed = (int)r.below(11); op.sub = r.chance(50) ? MESH_EDGEBREAKER_VALENCE_ENCODING : MESH_EDGEBREAKER_STANDARD_ENCODING; op.qpos = (int)r.range(8, 14); op.builtin = !r.chance(20); op.expl_dims = r.chance(35) ? (int)r.range(1, 3) : 0; op.nopred = r.chance(30);
      Encoder fresh; configure(fresh, op); EncoderBuffer eb1; if (!encode(fresh, *g, mesh, eb1)) continue;
      std::string tag = std::string(mesh ? "mesh" : "pc") + " method=" + S(op.method) + " speed=" + S(op.speed) + " sub=" + S(op.sub) + " q=" + S(op.qpos) + " builtin=" + S(op.builtin) + " geo#" + S(i);
      (*count)++;
      // same Encoder object again (history: everything encoded before), reused buffer after Clear()
      // history of the reused buffer: besides earlier encodes, direct use of its public interface (byte data, bit sequences with and
      // without a size prefix), then Clear()
      if (r.chance(40)) { int steps = (int)r.range(1, 4); for (int q = 0; q < steps; q++) { if (r.chance(30)) { uint32_t v = (uint32_t)r.next(); reused_buf.Encode(v); }
          else { bool with_size = r.chance(60); if (reused_buf.StartBitEncoding(64, with_size)) { int nb = (int)r.range(0, 5); for (int t = 0; t < nb; t++) reused_buf.EncodeLeastSignificantBits32((int)r.range(1, 32), (uint32_t)r.next()); reused_buf.EndBitEncoding(); } } } }
      reused_enc.Reset(); configure(reused_enc, op); reused_buf.Clear();
      bool ok2 = encode(reused_enc, *g, mesh, reused_buf);
      if (o && (!ok2 || reused_buf.size() != eb1.size() || memcmp(reused_buf.data(), eb1.data(), eb1.size()))) o->fail("C06 reused Encoder/EncoderBuffer produced different bytes: " + tag);
      // immediately again with the same fresh encoder
      EncoderBuffer eb3; bool ok3 = encode(fresh, *g, mesh, eb3);
      if (o && (!ok3 || eb3.size() != eb1.size() || memcmp(eb3.data(), eb1.data(), eb1.size()))) o->fail("C06 second encode with the same Encoder differs: " + tag);
      fp = fnv(fp, eb1.data(), eb1.size());
      // decoding: fresh objects, reused objects, trailing junk
      std::vector<uint8_t> bytes(eb1.data(), eb1.data() + eb1.size());
      std::string d1 = decode_digest(bytes);
      if (d1.empty()) { if (o) o->fail("C06/C01 encode ok but decode failed: " + tag); continue; }
      fp = fnv(fp, d1.data(), d1.size());
      int junk = (int)r.range(1, 9); std::vector<uint8_t> b2 = bytes; for (int j = 0; j < junk; j++) b2.push_back((uint8_t)r.next());
      reused_db.Init((const char *)b2.data(), b2.size());
      std::string d2; int64_t rem = -1;
      if (mesh) { auto m = reused_dec.DecodeMeshFromBuffer(&reused_db); if (m.ok()) d2 = digest(*m.value(), m.value().get()); }
      else { auto p = reused_dec.DecodePointCloudFromBuffer(&reused_db); if (p.ok()) d2 = digest(*p.value(), nullptr); }
      rem = reused_db.remaining_size();
      if (o && d2 != d1) o->fail("C06 reused Decoder/DecoderBuffer or trailing bytes changed the decoded geometry: " + tag);
      if (o && rem != junk) o->fail("C06 decoder did not consume exactly the stream (remaining " + S(rem) + ", junk " + S(junk) + "): " + tag);
      // several streams back to back in ONE buffer behind an application header: every decode starts where the previous one stopped
      // (the buffer's read position is not 0 when decoding starts), through both decode entry points
      recent.push_back({bytes, mesh, d1}); if (recent.size() > 3) recent.erase(recent.begin());
      if (recent.size() >= 2 && r.chance(35)) { int k = (int)r.range(1, 40); std::vector<uint8_t> cont(k); for (auto &x : cont) x = (uint8_t)r.next(); std::vector<size_t> ends;
        for (auto &rc : recent) { cont.insert(cont.end(), rc.bytes.begin(), rc.bytes.end()); ends.push_back(cont.size()); }
        DecoderBuffer cb; cb.Init((const char *)cont.data(), cont.size()); cb.Advance(k); bool via_geometry = r.chance(50);
        for (size_t q = 0; q < recent.size(); q++) { Decoder dd; std::string dg;
          if (via_geometry) { if (recent[q].mesh) { Mesh mm; if (dd.DecodeBufferToGeometry(&cb, &mm).ok()) dg = digest(mm, &mm); } else { PointCloud pp; if (dd.DecodeBufferToGeometry(&cb, &pp).ok()) dg = digest(pp, nullptr); } }
          else { if (recent[q].mesh) { auto m2 = dd.DecodeMeshFromBuffer(&cb); if (m2.ok()) dg = digest(*m2.value(), m2.value().get()); } else { auto p2 = dd.DecodePointCloudFromBuffer(&cb); if (p2.ok()) dg = digest(*p2.value(), nullptr); } }
          if (o && dg != recent[q].dig) { o->fail("C06 stream #" + S((int64_t)q) + " of a container (streams back to back behind a " + S(k) + "-byte header, " + (via_geometry ? "DecodeBufferToGeometry" : "Decode*FromBuffer") + ") decodes differently from the stream alone: " + tag); break; }
          // (observed through remaining_size(): some decoders re-base the buffer on the unread tail, which makes decoded_size() relative)
          if (o && (size_t)cb.remaining_size() != cont.size() - ends[q]) { o->fail("C06 after stream #" + S((int64_t)q) + " of a container " + S(cb.remaining_size()) + " bytes remain, expected " + S((int64_t)(cont.size() - ends[q])) + " (" + (via_geometry ? "DecodeBufferToGeometry" : "Decode*FromBuffer") + "): " + tag); break; } } }
    }
  }
  return fp;
}

int main(int argc, char **argv) {
  if (argc >= 4 && !strcmp(argv[1], "child")) { long c = 0; uint64_t fp = battery(!strcmp(argv[2], "thorough"), strtoull(argv[3], 0, 10), nullptr, &c); printf("%016llx\n", (unsigned long long)fp); return 0; }
  if (argc < 4) { fprintf(stderr, "usage: h_c06 quick|thorough seed out\n"); return 2; }
  bool thorough = !strcmp(argv[1], "thorough");
  Out o(argv[3]); long count = 0;
  uint64_t fp = battery(thorough, strtoull(argv[2], 0, 10), &o, &count);
  char mine[32]; snprintf(mine, sizeof mine, "%016llx", (unsigned long long)fp);
  int procs = thorough ? 6 : 3, agree = 0;
  for (int p = 0; p < procs; p++) {
    int fd[2]; if (pipe(fd)) break;
    pid_t pid = fork();
    if (pid == 0) { dup2(fd[1], 1); close(fd[0]); char pert[16]; snprintf(pert, sizeof pert, "%d", 17 + 61 * p); setenv("MALLOC_PERTURB_", pert, 1); setenv("MALLOC_ARENA_MAX", p % 2 ? "1" : "8", 1);
      execl("/proc/self/exe", argv[0], "child", argv[1], argv[2], (char *)nullptr); _exit(127); }
    close(fd[1]); char buf[64] = {0}; ssize_t n = read(fd[0], buf, 63); close(fd[0]); int st; waitpid(pid, &st, 0);
    std::string got(buf, n > 0 ? n : 0); while (!got.empty() && got.back() == '\n') got.pop_back();
    if (got == mine) agree++; else o.fail("C06 a second process (MALLOC_PERTURB_ varied, new address space) produced different bytes/geometry: fingerprint " + got + " vs " + mine);
  }
  o.note("STATS encodes=" + S(count) + " processes=" + S(procs) + " agreeing=" + S(agree) + " fingerprint=" + mine);
  fprintf(stderr, "h_c06: %ld encodes, %ld failures\n", count, o.fails);
  return 0;
}
