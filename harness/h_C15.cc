// C15 correspondence + search harness: PLY / STL / OBJ writers and readers of /repo against the Coq model
// (Model/PlyModel.v, Model/StlModel.v, Model/ObjModel.v; dedups = Model/Dedup.v).
//
// Line protocol (see driver/d_C15.ml):
//   ATT   := <ncomp>/<dtype>/<ident 0|1>/<hex,hex,...|->/<map n,n,...|->       or  '-' (attribute absent)
//   FACES := a,b,c,a,b,c,...  |  '-' (mesh without faces)  |  'pc' (written through the PointCloud entry)
//   GEO   := <np> <na> ( <ncomp> <dtype> <ident> <VALS> <MAP> ){na} <FACES>     (as in C14)
//   plyw <np> <pos> <nrm> <col> <tex> <FACES>            | <hex of the file> or fail
//   plyr <mesh 0|1> <hex of a file>                      | ok <GEO> / reject / oob / unmod
//   stlw <pos> <FACES> <normal hex,...|->                | <hex of the file> or fail
//   stlr <hex of a file>                                 | ok <GEO> / null / reject / short
//   objw <np> <pos> <tex> <nrm> <FACES> <bits=token,...> | <hex of the file> or fail
//   objr <mesh 0|1> <LINES> <token=hex|F,...>            | ok <GEO> / reject
//        LINES := ';'-separated  v:t,t,t | vt:t,t | vn:t,t,t | f:c,c,c | #
// '!' lines: direct failures of the property found on the implementation (full write -> read).
#include "common.h"
#include <algorithm>
#include <array>
#include <clocale>
#include <cmath>
#include <map>
#include <memory>
#include <set>
#include "draco/attributes/point_attribute.h"
#include "draco/core/decoder_buffer.h"
#include "draco/core/encoder_buffer.h"
#include "draco/io/obj_decoder.h"
#include "draco/io/obj_encoder.h"
#include "draco/io/parser_utils.h"
#include "draco/io/ply_decoder.h"
#include "draco/io/ply_encoder.h"
#include "draco/io/ply_property_reader.h"
#include "draco/io/ply_reader.h"
#include "draco/io/stl_decoder.h"
#include "draco/io/stl_encoder.h"
#include "draco/mesh/mesh.h"
#include "draco/point_cloud/point_cloud.h"
using namespace draco;

typedef std::vector<uint8_t> Bytes;
typedef std::array<uint32_t, 3> Tri;
struct AttSpec {
  bool present = false;
  int type = GeometryAttribute::GENERIC;
  int ncomp = 1, dtype = 2;
  bool ident = true;
  std::vector<Bytes> vals;
  std::vector<uint32_t> map;
  uint32_t midx(uint32_t p) const { return ident ? p : map[p]; }
  const Bytes &val(uint32_t p) const { return vals[midx(p)]; }
};
struct GeoSpec {   // what a decoder returned
  uint32_t np = 0;
  std::vector<AttSpec> atts;
  std::vector<Tri> faces;
};
struct InSpec {    // what a writer is given
  uint32_t np = 0;
  AttSpec pos, nrm, col, tex;
  bool is_mesh = true;
  std::vector<Tri> faces;
};

// ------------------------------------------------------------------------------------------- printing
static std::string vals_str(const std::vector<Bytes> &v) {
  if (v.empty()) return "-";
  std::string s;
  for (size_t i = 0; i < v.size(); i++) { if (i) s += ","; s += hex(v[i].data(), v[i].size()); }
  return s;
}
static std::string list_str(const std::vector<uint32_t> &v) {
  if (v.empty()) return "-";
  std::string s;
  for (size_t i = 0; i < v.size(); i++) { if (i) s += ","; s += U(v[i]); }
  return s;
}
static std::string faces_str(const std::vector<Tri> &f) {
  if (f.empty()) return "-";
  std::string s;
  for (size_t i = 0; i < f.size(); i++) { if (i) s += ","; s += U(f[i][0]) + "," + U(f[i][1]) + "," + U(f[i][2]); }
  return s;
}
static std::string att_str(const AttSpec &a) {
  return S(a.ncomp) + " " + S(a.dtype) + " " + (a.ident ? "1" : "0") + " " + vals_str(a.vals) + " " +
         (a.ident ? std::string("-") : list_str(a.map));
}
static std::string geo_str(const GeoSpec &g) {
  std::string s = U(g.np) + " " + U(g.atts.size());
  for (auto &a : g.atts) s += " " + att_str(a);
  return s + " " + faces_str(g.faces);
}
static std::string att_tok(const AttSpec &a) {
  if (!a.present) return "-";
  return S(a.ncomp) + "/" + S(a.dtype) + "/" + (a.ident ? "1" : "0") + "/" + vals_str(a.vals) + "/" +
         (a.ident ? std::string("-") : list_str(a.map));
}
static std::string infaces_tok(const InSpec &m) { return m.is_mesh ? faces_str(m.faces) : "pc"; }

// ------------------------------------------------------------------------- spec <-> library objects
static int stride_of(int dtype, int ncomp) { return DataTypeLength((DataType)dtype) * ncomp; }
static std::unique_ptr<PointAttribute> make_att(const AttSpec &a) {
  auto pa = std::unique_ptr<PointAttribute>(new PointAttribute());
  pa->Init((GeometryAttribute::Type)a.type, (int8_t)a.ncomp, (DataType)a.dtype, false, a.vals.size());
  for (size_t i = 0; i < a.vals.size(); i++) pa->SetAttributeValue(AttributeValueIndex((uint32_t)i), a.vals[i].data());
  if (!a.ident) {
    pa->SetExplicitMapping(a.map.size());
    for (size_t i = 0; i < a.map.size(); i++) pa->SetPointMapEntry(PointIndex((uint32_t)i), AttributeValueIndex(a.map[i]));
  }
  return pa;
}
static AttSpec snap_att(const PointAttribute &pa) {
  AttSpec a; a.present = true;
  a.type = pa.attribute_type(); a.ncomp = pa.num_components(); a.dtype = pa.data_type();
  a.ident = pa.is_mapping_identity();
  const int st = stride_of(a.dtype, a.ncomp);
  for (uint32_t i = 0; i < pa.size(); i++) {
    const uint8_t *p = pa.GetAddress(AttributeValueIndex(i));
    a.vals.push_back(Bytes(p, p + st));
  }
  for (uint32_t i = 0; i < pa.indices_map_size(); i++) a.map.push_back(pa.mapped_index(PointIndex(i)).value());
  return a;
}
static GeoSpec snap_geo(const PointCloud &pc, const Mesh *m) {
  GeoSpec g;
  g.np = pc.num_points();
  for (int i = 0; i < pc.num_attributes(); i++) g.atts.push_back(snap_att(*pc.attribute(i)));
  if (m) for (FaceIndex f(0); f < m->num_faces(); ++f) {
    const Mesh::Face &fc = m->face(f);
    g.faces.push_back(Tri{{fc[0].value(), fc[1].value(), fc[2].value()}});
  }
  return g;
}
// attribute order in the library object: tex, col, nrm, pos  (deliberately NOT the order the writers use:
// they must find attributes by type)
static std::unique_ptr<Mesh> build_mesh(const InSpec &m) {
  std::unique_ptr<Mesh> out(new Mesh());
  out->set_num_points(m.np);
  if (m.tex.present) out->AddAttribute(make_att(m.tex));
  if (m.col.present) out->AddAttribute(make_att(m.col));
  if (m.nrm.present) out->AddAttribute(make_att(m.nrm));
  if (m.pos.present) out->AddAttribute(make_att(m.pos));
  for (auto &f : m.faces) out->AddFace({{PointIndex(f[0]), PointIndex(f[1]), PointIndex(f[2])}});
  return out;
}
static const AttSpec *find_att(const GeoSpec &g, int type) {
  for (auto &a : g.atts) if (a.type == type) return &a;
  return nullptr;
}
static bool geo_wf(const GeoSpec &g) {
  for (auto &a : g.atts) {
    if (a.ident) { if (a.vals.size() < g.np) return false; }
    else { if (a.map.size() < g.np) return false; for (auto v : a.map) if (v >= a.vals.size()) return false; }
  }
  for (auto &f : g.faces) for (int c = 0; c < 3; c++) if (f[c] >= g.np) return false;
  return true;
}

// ------------------------------------------------------------------------------------------ generators
static uint32_t fbits(float f) { uint32_t u; memcpy(&u, &f, 4); return u; }
static float bitsf(uint32_t u) { float f; memcpy(&f, &u, 4); return f; }
// a finite float with magnitude in 1e-6 .. 1e6 (log-uniform), sometimes a "round" decimal
static float rand_coord(Rng &r) {
  switch (r.below(13)) {
    case 12: { // the few floats directly below / above an integer: the fraction prints as .000000 after a carry into the integer part
      float k = (float)r.range(-16, 16); int steps = (int)r.range(1, 3); float v = k; for (int i = 0; i < steps; i++) v = std::nextafter(v, r.chance(50) ? -1e9f : 1e9f); return v; }
    case 0: return 0.0f;
    case 1: return -0.0f;
    case 2: return (float)r.range(-1000, 1000);
    case 3: return (float)r.range(-1000000, 1000000) / 1000.0f;
    case 4: return (r.chance(50) ? 1.f : -1.f) * (float)std::pow(10.0, (double)r.range(-6, 6));
    case 5: return (float)((double)r.range(-999999, 999999) * 1e-6 + (r.chance(50) ? 5e-7 : -5e-7));   // near 6-decimal ties
    default: {
      double e = -6.0 + 12.0 * (double)r.below(1000001) / 1000000.0;
      double m = std::pow(10.0, e);
      if (m > 1e6) m = 1e6;
      return (float)(r.chance(50) ? m : -m);
    }
  }
}
// any bit pattern, biased to the specials (PLY / STL must keep every pattern)
static uint32_t rand_bits(Rng &r) {
  switch (r.below(10)) {
    case 0: return 0x7FC00000u | (uint32_t)r.below(0x400000);   // quiet NaNs with payload
    case 1: return 0x7F800001u + (uint32_t)r.below(0x3FFFFF);   // signalling NaNs
    case 2: return r.chance(50) ? 0x7F800000u : 0xFF800000u;    // infinities
    case 3: return (uint32_t)r.below(0x800000) | (r.chance(50) ? 0x80000000u : 0);   // denormals, +-0
    case 4: return (uint32_t)r.next();
    default: return fbits(rand_coord(r));
  }
}
static Bytes fvec(const std::vector<uint32_t> &bits) {
  Bytes b;
  for (uint32_t u : bits) for (int k = 0; k < 4; k++) b.push_back((uint8_t)(u >> (8 * k)));
  return b;
}
// an attribute with nv values and a point map; [mode] 0: identity (nv = np), 1: explicit with shared values
static AttSpec gen_att(Rng &r, int type, int ncomp, int dtype, uint32_t np, bool anybits, int mode, const std::vector<uint32_t> *follow) {
  AttSpec a; a.present = true; a.type = type; a.ncomp = ncomp; a.dtype = dtype;
  uint32_t nv = np;
  if (mode == 1) nv = 1 + (uint32_t)r.below(np ? np + 2 : 2);
  if (mode == 0) { a.ident = true; }
  else {
    a.ident = false;
    for (uint32_t p = 0; p < np; p++) {
      // follow another attribute's map most of the time (shared vertices), break away sometimes (seams)
      if (follow && !follow->empty() && r.chance(70)) a.map.push_back((*follow)[p] % nv);
      else a.map.push_back((uint32_t)r.below(nv));
    }
  }
  for (uint32_t i = 0; i < nv; i++) {
    Bytes v;
    if (dtype == DT_FLOAT32) {
      std::vector<uint32_t> bits;
      for (int c = 0; c < ncomp; c++) bits.push_back(anybits ? rand_bits(r) : fbits(rand_coord(r)));
      v = fvec(bits);
      // duplicated values (vertices that coincide): copy an earlier value
      if (i > 0 && r.chance(15)) v = a.vals[r.below(i)];
    } else {
      for (int k = 0; k < stride_of(dtype, ncomp); k++) v.push_back((uint8_t)(r.chance(20) ? (r.chance(50) ? 0 : 255) : r.next()));
      if (i > 0 && r.chance(15)) v = a.vals[r.below(i)];
    }
    a.vals.push_back(v);
  }
  return a;
}
static std::vector<Tri> gen_faces(Rng &r, uint32_t np, uint32_t nf) {
  std::vector<Tri> fs;
  if (np == 0) return fs;
  for (uint32_t i = 0; i < nf; i++) {
    Tri t;
    if (i > 0 && r.chance(40)) {          // share an edge with an earlier face (possibly non-manifold)
      const Tri &o = fs[r.below(i)];
      int e = (int)r.below(3);
      t = Tri{{o[(e + 1) % 3], o[e], (uint32_t)r.below(np)}};
    } else t = Tri{{(uint32_t)r.below(np), (uint32_t)r.below(np), (uint32_t)r.below(np)}};
    if (r.chance(8)) t[1] = t[0];          // degenerate faces
    if (r.chance(3)) t[2] = t[1] = t[0];
    fs.push_back(t);
  }
  if (nf > 1 && r.chance(10)) fs.push_back(fs[0]);   // duplicate face
  return fs;
}
// mesh / point cloud for a format. fmt: 0 PLY, 1 STL, 2 OBJ
static InSpec gen_in(Rng &r, int fmt, bool mesh, int maxnp) {
  InSpec m; m.is_mesh = mesh;
  m.np = (uint32_t)(r.chance(5) ? r.below(3) : 1 + r.below(maxnp));
  if (fmt == 2 && m.np == 0) m.np = 1;
  const bool anybits = fmt != 2 && r.chance(40);
  int mode = r.chance(45) ? 0 : 1;
  if (fmt == 2 && !mesh) mode = 0;       // OBJ point clouds: one record per point only if the mapping is the identity
  m.pos = gen_att(r, GeometryAttribute::POSITION, 3, DT_FLOAT32, m.np, anybits, mode, nullptr);
  const std::vector<uint32_t> *fol = m.pos.ident ? nullptr : &m.pos.map;
  if (fmt != 1 && r.chance(55)) m.nrm = gen_att(r, GeometryAttribute::NORMAL, 3, DT_FLOAT32, m.np, anybits, (fmt == 2 && !mesh) ? 0 : (r.chance(40) ? 0 : 1), fol);
  if (fmt == 0 && r.chance(55)) m.col = gen_att(r, GeometryAttribute::COLOR, 1 + (int)r.below(4), DT_UINT8, m.np, false, r.chance(40) ? 0 : 1, fol);
  if (fmt != 1 && r.chance(50)) m.tex = gen_att(r, GeometryAttribute::TEX_COORD, 2, DT_FLOAT32, m.np, anybits, (fmt == 2 && !mesh) ? 0 : (r.chance(40) ? 0 : 1), fol);
  if (mesh) {
    uint32_t nf = (uint32_t)(r.chance(6) ? 0 : 1 + r.below(2 * (uint64_t)maxnp));
    if (fmt == 2 && nf == 0) nf = 1;     // an OBJ without faces is read as a point cloud (tested separately)
    m.faces = gen_faces(r, m.np, nf);
    if (m.np == 0) m.faces.clear();
  }
  return m;
}

// ------------------------------------------------------------------------------------------------ PLY
struct Padded {   // the file followed by a readable guard zone: an over-read of the C++ stays inside our allocation
  std::vector<char> mem; size_t n;
  Padded(const Bytes &b, size_t pad) : mem(b.size() + pad, 0), n(b.size()) { if (n) memcpy(mem.data(), b.data(), n); }
};
static const size_t kPad = 8u << 20;

// runs the reader / decoder on [file]; result text as in the protocol
static std::string ply_read_result(const Bytes &file, bool as_mesh, GeoSpec *out = nullptr) {
  Padded pb(file, kPad);
  {
    DecoderBuffer db; db.Init(pb.mem.data(), pb.n);
    PlyReader rd;
    Status st = rd.Read(&db);
    if (db.decoded_size() > (int64_t)pb.n) return "oob";
    if (!st.ok()) return "reject";
    // face indices the decoder would store unchecked (the dedup then indexes out of bounds): not run
    const PlyElement *fe = rd.GetElementByName("face");
    const PlyElement *ve = rd.GetElementByName("vertex");
    if (as_mesh && fe && ve) {
      const PlyProperty *vi = fe->GetPropertyByName("vertex_indices");
      if (!vi) vi = fe->GetPropertyByName("vertex_index");
      if (vi && vi->is_list()) {
        PlyPropertyReader<uint32_t> pr(vi);
        for (int i = 0; i < fe->num_entries(); i++) {
          int64_t n = vi->GetListEntryNumValues(i), off = vi->GetListEntryOffset(i);
          if (n < 3) continue;
          for (int64_t k = 0; k < n; k++)
            if ((int64_t)pr.ReadValue((int)(off + k)) >= (int64_t)ve->num_entries()) return "unmod";
        }
      }
    }
  }
  DecoderBuffer db; db.Init(pb.mem.data(), pb.n);
  PlyDecoder dec;
  Mesh mesh; PointCloud pc;
  Status st = as_mesh ? dec.DecodeFromBuffer(&db, &mesh) : dec.DecodeFromBuffer(&db, &pc);
  if (!st.ok()) return "reject";
  GeoSpec g = as_mesh ? snap_geo(mesh, &mesh) : snap_geo(pc, nullptr);
  if (out) *out = g;
  return "ok " + geo_str(g);
}

static bool ply_write(const InSpec &m, Bytes *file) {
  std::unique_ptr<Mesh> mesh = build_mesh(m);
  EncoderBuffer eb; PlyEncoder enc;
  bool ok = m.is_mesh ? enc.EncodeToBuffer(*mesh, &eb) : enc.EncodeToBuffer(*static_cast<PointCloud *>(mesh.get()), &eb);
  file->assign((const uint8_t *)eb.data(), (const uint8_t *)eb.data() + eb.size());
  return ok;
}

static std::string in_id(const InSpec &m) {
  return "np=" + U(m.np) + " pos=" + att_tok(m.pos) + " nrm=" + att_tok(m.nrm) + " col=" + att_tok(m.col) + " tex=" + att_tok(m.tex) +
         " faces=" + infaces_tok(m);
}

// search oracle: bit-exact comparison, face i with face i / point i with point i
static void ply_search(Out &o, const InSpec &m, const GeoSpec &g, bool as_mesh) {
  const std::string id = "ply " + in_id(m) + " read_as_mesh=" + (as_mesh ? "1" : "0");
  if (!geo_wf(g)) { o.fail("decoded PLY geometry is malformed: " + id); return; }
  const AttSpec *gp = find_att(g, GeometryAttribute::POSITION), *gn = find_att(g, GeometryAttribute::NORMAL),
                *gc = find_att(g, GeometryAttribute::COLOR);
  const bool want_n = m.nrm.present, want_c = m.col.present;
  if (!gp || (want_n && !gn) || (want_c && !gc) || (!want_n && gn) || (!want_c && gc)) { o.fail("attribute set changed: " + id); return; }
  const bool deduped = as_mesh && m.is_mesh && !m.faces.empty();
  if (!deduped) {
    if (g.np != m.np) { o.fail("point count changed: " + id); return; }
    for (uint32_t p = 0; p < m.np; p++)
      if (gp->val(p) != m.pos.val(p) || (want_n && gn->val(p) != m.nrm.val(p)) || (want_c && gc->val(p) != m.col.val(p))) {
        o.fail("point " + U(p) + " changed: " + id); return;
      }
  }
  if (as_mesh && m.is_mesh) {
    if (g.faces.size() != m.faces.size()) { o.fail("face count changed: " + id); return; }
    for (size_t f = 0; f < m.faces.size(); f++) for (int c = 0; c < 3; c++) {
      uint32_t a = m.faces[f][c], b = g.faces[f][c];
      if (gp->val(b) != m.pos.val(a) || (want_n && gn->val(b) != m.nrm.val(a)) || (want_c && gc->val(b) != m.col.val(a))) {
        o.fail("face " + U(f) + " corner " + S(c) + " changed: " + id); return;
      }
    }
    // points: the same SET of (pos, nrm, col) tuples
    std::set<Bytes> A, B;
    auto tup = [&](const AttSpec &p, const AttSpec *n, const AttSpec *c, uint32_t i) {
      Bytes t = p.val(i); if (n) { auto &x = n->val(i); t.insert(t.end(), x.begin(), x.end()); }
      if (c) { auto &x = c->val(i); t.insert(t.end(), x.begin(), x.end()); } return t; };
    for (uint32_t p = 0; p < m.np; p++) A.insert(tup(m.pos, want_n ? &m.nrm : nullptr, want_c ? &m.col : nullptr, p));
    for (uint32_t p = 0; p < g.np; p++) B.insert(tup(*gp, gn, gc, p));
    if (A != B) o.fail("set of points changed: " + id);
  } else if (!g.faces.empty()) o.fail("faces appeared: " + id);
}

static void ply_cases(Out &o, Rng &r, int n, int maxnp, std::vector<Bytes> *keep) {
  for (int i = 0; i < n; i++) {
    InSpec m = gen_in(r, 0, r.chance(70), maxnp);
    if (r.chance(4) && m.is_mesh && !m.faces.empty() && m.np < 0xFFFF) m.faces[r.below(m.faces.size())][r.below(3)] = m.np + (uint32_t)r.below(3);  // writer must refuse
    if (r.chance(3)) m.nrm = gen_att(r, GeometryAttribute::NORMAL, 2, DT_FLOAT32, m.np, false, 0, nullptr);   // not 3 components: not written
    if (r.chance(3)) m.tex = gen_att(r, GeometryAttribute::TEX_COORD, 3, DT_FLOAT32, m.np, false, 0, nullptr); // not 2 components: not written
    Bytes file; bool ok = ply_write(m, &file);
    o.c("plyw " + U(m.np) + " " + att_tok(m.pos) + " " + att_tok(m.nrm) + " " + att_tok(m.col) + " " + att_tok(m.tex) + " " + infaces_tok(m),
        ok ? hex(file.data(), file.size()) : "fail");
    if (!ok) continue;
    if (keep && keep->size() < 400) keep->push_back(file);
    for (int as_mesh = 0; as_mesh < 2; as_mesh++) {
      GeoSpec g; std::string res = ply_read_result(file, as_mesh, &g);
      o.c("plyr " + S(as_mesh) + " " + hex(file.data(), file.size()), res);
      InSpec eff = m;
      if (eff.nrm.present && eff.nrm.ncomp != 3) eff.nrm.present = false;
      if (res.compare(0, 3, "ok ") != 0) { o.fail("PLY written by PlyEncoder is not read back (" + res + "): ply " + in_id(m)); continue; }
      ply_search(o, eff, g, as_mesh);
    }
  }
}

// ---- hostile / unusual PLY files, built from a description so that every unchecked read of the C++ stays inside
//      the guard zone and no input falls into the unmodelled dialect
struct HProp { std::string name, type, ltype; };   // ltype empty: scalar
struct HElem { std::string name; int count; int declared; std::vector<HProp> props; };
static int tlen(const std::string &t) {
  if (t == "char" || t == "uchar" || t == "int8" || t == "uint8") return 1;
  if (t == "short" || t == "ushort" || t == "int16" || t == "uint16") return 2;
  if (t == "double" || t == "float64") return 8;
  return 4;
}
static bool tint(const std::string &t) { return !(t == "float" || t == "float32" || t == "double" || t == "float64"); }
static void put_le(Bytes &b, uint64_t v, int n) { for (int k = 0; k < n; k++) b.push_back((uint8_t)(v >> (8 * k))); }
static const char *kIntTypes[] = {"char", "uchar", "short", "ushort", "int", "uint", "int8", "uint8", "int16", "uint16", "int32", "uint32"};
static const char *kAllTypes[] = {"char", "uchar", "short", "ushort", "int", "uint", "float", "double", "float32", "float64", "uint8", "int32"};
static Bytes hostile_ply(Rng &r) {
  int nv = (int)r.below(9), nf = (int)r.below(7);
  // risky files (count mismatch, truncation) make the reader interpret arbitrary bytes as list counts: there the
  // count type is kept at one byte so that every unchecked read of the C++ stays inside the guard zone
  std::string eol = r.chance(85) ? "\n" : (r.chance(70) ? "\r\n" : "\r");
  const bool final_eol = r.chance(95);
  const bool risky = r.chance(40) || eol == "\r" || !final_eol;   // (a lone '\r' / a missing line end can swallow data bytes)
  std::vector<HElem> els;
  HElem v{"vertex", nv, nv, {}};
  std::string pt = r.chance(80) ? (r.chance(50) ? "float" : "float32") : (r.chance(60) ? (r.chance(50) ? "int" : "int32") : kAllTypes[r.below(12)]);
  std::vector<HProp> vp = {{"x", pt, ""}, {"y", r.chance(93) ? pt : "double", ""}, {"z", pt, ""}};
  if (r.chance(50)) { std::string nt = r.chance(85) ? "float" : kAllTypes[r.below(12)];
    vp.push_back({"nx", nt, ""}); vp.push_back({"ny", r.chance(90) ? nt : "double", ""}); if (r.chance(92)) vp.push_back({"nz", nt, ""}); }
  if (r.chance(55)) { const char *cn[] = {"red", "green", "blue", "alpha"};
    for (int k = 0; k < 4; k++) if (r.chance(75)) vp.push_back({cn[k], r.chance(93) ? (r.chance(50) ? "uchar" : "uint8") : kAllTypes[r.below(12)], ""}); }
  if (r.chance(30)) vp.push_back({r.chance(50) ? "quality" : "x", kAllTypes[r.below(12)], ""});   // unknown / duplicate name
  if (r.chance(8)) vp.erase(vp.begin() + r.below(3));                                              // x, y or z missing
  if (r.chance(50)) for (size_t k = vp.size(); k > 1; k--) std::swap(vp[k - 1], vp[r.below(k)]);  // any order
  v.props = vp;
  HElem f{"face", nf, nf, {}};
  const char *k1[] = {"uchar", "char", "uint8", "int8"};
  std::string lt = risky ? k1[r.below(4)] : (r.chance(70) ? "uchar" : kIntTypes[r.below(6)]);
  std::string it = r.chance(60) ? "int" : kIntTypes[r.below(12)];
  if (r.chance(92)) f.props.push_back({r.chance(70) ? "vertex_indices" : "vertex_index", it, r.chance(95) ? lt : ""});
  if (r.chance(30)) f.props.push_back({"texcoord", "float", "uchar"});
  if (r.chance(15)) f.props.insert(f.props.begin() + r.below(f.props.size() + 1), {"flags", kAllTypes[r.below(12)], ""});
  bool face_first = r.chance(15);
  if (r.chance(10)) els.push_back({"edge", (int)r.below(3), 0, {{"a", "int", ""}, {"b", "short", ""}}});
  if (face_first) { if (r.chance(85)) els.push_back(f); els.push_back(v); } else { if (r.chance(95)) els.push_back(v); if (r.chance(85)) els.push_back(f); }
  if (r.chance(6)) { HElem v2 = v; v2.count = (int)r.below(4); els.push_back(v2); }                 // second "vertex" element: the last wins
  for (auto &e : els) e.declared = e.count;
  // header text
  std::string h = r.chance(96) ? "ply" : (r.chance(50) ? "plx" : " ply");
  h += eol;
  { std::string fm = r.chance(90) ? "binary_little_endian" : (r.chance(50) ? "binary_big_endian" : "whatever");
    std::string ver = r.chance(94) ? "1.0" : "1.1";
    h += (r.chance(96) ? "format " : "fromat ") + fm + (r.chance(10) ? "\t " : " ") + ver + eol; }
  if (r.chance(30)) h += "comment made by h_C15" + eol;
  for (auto &e : els) {
    int declared = e.count;
    if (risky && r.chance(15)) declared = std::max(0, e.count + (int)r.range(-2, 2));     // count does not match the data
    e.declared = declared;
    h += (r.chance(8) ? "  " : "") + std::string("element ") + e.name + " " + S(declared) + (r.chance(5) ? " trailing" : "") + eol;
    if (r.chance(8)) h += "obj_info something" + eol;
    for (auto &p : e.props) {
      if (p.ltype.empty()) h += "property " + p.type + " " + p.name + eol;
      else h += "property list " + p.ltype + " " + p.type + " " + p.name + eol;
    }
    if (r.chance(4)) h += "property " + std::string(r.chance(50) ? "quad" : "list uchar") + " zz" + eol;   // bad type -> reject / 4-word list line -> ignored
  }
  if (r.chance(5)) h += eol;
  h += "end_header" + std::string(r.chance(5) ? " " : "") + (final_eol ? eol : "");
  Bytes b(h.begin(), h.end());
  // data, in element order, as many entries as [count] (the header may declare another number)
  for (auto &e : els) for (int i = 0; i < e.count; i++) for (auto &p : e.props) {
    if (p.ltype.empty()) {
      if (p.name == "x" || p.name == "y" || p.name == "z" || p.name[0] == 'n') put_le(b, tlen(p.type) == 4 ? rand_bits(r) : r.next(), tlen(p.type));
      else put_le(b, r.next(), tlen(p.type));
    } else {
      int cnt = r.chance(70) ? 3 : (int)r.below(7);
      if (p.ltype == "uchar" && r.chance(3)) cnt = 200 + (int)r.below(56);     // a huge polygon (read stays inside the guard zone)
      put_le(b, (uint64_t)cnt, tlen(p.ltype));
      for (int k = 0; k < cnt && k < 8; k++) {
        uint64_t idx = nv ? r.below(nv) : 0;
        if (tint(p.type) && r.chance(3)) idx = (uint64_t)r.range(-2, 300);        // out of range / negative
        if (!tint(p.type)) idx = 0;                                               // float-typed indices: conversion of 0.0 only
        put_le(b, idx, tlen(p.type));
      }
    }
  }
  if (risky && r.chance(60)) { size_t cut = r.below(b.size() + 1); b.resize(cut); }         // truncation anywhere
  if (r.chance(10)) for (int k = 0; k < 20; k++) b.push_back((uint8_t)r.next());     // trailing bytes
  return b;
}
static bool hostile_ply_ok(const Bytes &b) {
  // keep out what the model does not cover: 8-byte list count types and float-typed index lists cannot be
  // produced above except "double" never being a list type; float index types are produced only with value 0.
  (void)b; return true;
}

static void ply_hostile_cases(Out &o, Rng &r, int n, const std::vector<Bytes> &valid) {
  for (int i = 0; i < n; i++) {
    Bytes b;
    if (!valid.empty() && r.chance(35)) {
      // a writer-made file: truncated, or with corrupted bytes (list counts are uchar there: over-reads stay in the guard zone)
      b = valid[r.below(valid.size())];
      if (r.chance(50)) b.resize(r.below(b.size() + 1));
      else {
        size_t hdr = 0; { std::string s(b.begin(), b.end()); size_t p = s.find("end_header\n"); hdr = p == std::string::npos ? 0 : p + 11; }
        int k = 1 + (int)r.below(3);
        for (int j = 0; j < k && b.size() > hdr; j++) {
          size_t at = hdr + r.below(b.size() - hdr);
          b[at] = (uint8_t)(r.chance(50) ? r.next() : (b[at] ^ (1u << r.below(8))));
        }
        if (r.chance(20) && hdr > 20) {   // header: replace a letter (never a digit: element counts stay small)
          size_t at = r.below(hdr);
          if (!(b[at] >= '0' && b[at] <= '9')) { uint8_t c = (uint8_t)("abcxyz _\n"[r.below(9)]); b[at] = c; }
        }
      }
    } else b = hostile_ply(r);
    if (!hostile_ply_ok(b)) continue;
    int as_mesh = r.chance(75) ? 1 : 0;
    o.c("plyr " + S(as_mesh) + " " + hex(b.data(), b.size()), ply_read_result(b, as_mesh));
  }
}


// ---- boundaries the case splits of the composed PLY proof point at (Proofs/PlyRoundtrip_proofs.v): the first data byte
//      right behind "end_header\n" being a line end / blank (ParseLine must stop after exactly one '\n'), 0..3 points,
//      point cloud / mesh without faces / faces using the last point, int32 positions, every colour count, texture
//      coordinates of each type the header can name (skipped correctly by the reader), bytes following the file
static void ply_boundary_cases(Out &o, Rng &r, int reps) {
  static const uint8_t firsts[] = {0x0A, 0x0D, 0x20, 0x09, 0x0B, 0x0C, 0x00, 0x65, 0xFF};
  for (int rep = 0; rep < reps; rep++)
  for (uint32_t np = 0; np <= 3; np++) for (int shape = 0; shape < 3; shape++) for (int fb = 0; fb < 9; fb++) {
    InSpec m; m.np = np; m.is_mesh = shape != 0;
    const int pdt = r.chance(75) ? DT_FLOAT32 : DT_INT32;
    m.pos = gen_att(r, GeometryAttribute::POSITION, 3, pdt, np, true, r.chance(50) ? 0 : 1, nullptr);
    if (np > 0) {
      Bytes &v0 = m.pos.vals[m.pos.midx(0)];
      v0[0] = firsts[fb];
      if (r.chance(50)) v0[1] = (uint8_t)(firsts[fb] == 0x0D ? 0x0A : (r.chance(50) ? 0x0D : 0x0A));   // "\r\n", "\n\r", "\n\n" as data
      if (r.chance(20)) for (auto &b : v0) b = (uint8_t)(r.chance(50) ? 0x0A : 0x0D);
    }
    if (r.chance(50)) m.nrm = gen_att(r, GeometryAttribute::NORMAL, 3, DT_FLOAT32, np, true, r.chance(50) ? 0 : 1, nullptr);
    if (r.chance(60)) {
      m.col = gen_att(r, GeometryAttribute::COLOR, 1 + (int)r.below(4), DT_UINT8, np, false, r.chance(50) ? 0 : 1, nullptr);
      for (auto &v : m.col.vals) for (auto &b : v) if (r.chance(30)) b = (uint8_t)(r.chance(50) ? 0x0A : 0x0D);
    }
    if (r.chance(50)) { const int tdt[] = {DT_FLOAT32, DT_FLOAT32, DT_UINT8, DT_INT32};
      m.tex = gen_att(r, GeometryAttribute::TEX_COORD, 2, tdt[r.below(4)], np, true, r.chance(50) ? 0 : 1, nullptr); }
    if (shape == 2 && np > 0) {
      uint32_t nf = 1 + (uint32_t)r.below(3);
      for (uint32_t f = 0; f < nf; f++) { Tri t{{(uint32_t)r.below(np), (uint32_t)r.below(np), (uint32_t)r.below(np)}}; t[r.below(3)] = np - 1; m.faces.push_back(t); }
    }
    Bytes file; bool ok = ply_write(m, &file);
    o.c("plyw " + U(m.np) + " " + att_tok(m.pos) + " " + att_tok(m.nrm) + " " + att_tok(m.col) + " " + att_tok(m.tex) + " " + infaces_tok(m),
        ok ? hex(file.data(), file.size()) : "fail");
    if (!ok) { o.fail("PlyEncoder refused an input inside the theorem's hypotheses: ply " + in_id(m)); continue; }
    if (np > 0) {   // the byte behind "end_header\n" must be the first position byte
      std::string s(file.begin(), file.end()); size_t p = s.find("end_header\n");
      if (p == std::string::npos || p + 11 >= file.size() || file[p + 11] != m.pos.val(0)[0]) { o.fail("first data byte is not where the header ends: ply " + in_id(m)); continue; }
    }
    for (int as_mesh = 0; as_mesh < 2; as_mesh++) for (int junk = 0; junk < 2; junk++) {
      Bytes f2 = file;
      if (junk) { f2.push_back((uint8_t)(r.chance(50) ? 0x0A : 0x0D)); for (int k = 0; k < (int)r.below(9); k++) f2.push_back((uint8_t)r.next()); }
      GeoSpec g; std::string res = ply_read_result(f2, as_mesh, &g);
      o.c("plyr " + S(as_mesh) + " " + hex(f2.data(), f2.size()), res);
      if (res.compare(0, 3, "ok ") != 0) { o.fail("PLY written by PlyEncoder is not read back (" + res + "): ply " + in_id(m)); continue; }
      ply_search(o, m, g, as_mesh);
    }
  }
}

// ---- inputs OUTSIDE the hypotheses of the composed PLY theorem that PlyEncoder nevertheless accepts: what happens on the
//      implementation is recorded as a note (these are reported, not counted as violations: the property quantifies over
//      float positions / normals and uint8 colours)
static void ply_accept_probe(Out &o, Rng &r) {
  struct P { const char *what; int which, ncomp, dtype; } ps[] = {
    {"float32 colours", 2, 3, DT_FLOAT32}, {"int32 colours", 2, 3, DT_INT32}, {"5-component uint8 colours", 2, 5, DT_UINT8},
    {"int32 normals", 1, 3, DT_INT32}, {"uint8 normals", 1, 3, DT_UINT8}, {"uint8 positions", 0, 3, DT_UINT8},
    {"2-component float32 positions", 0, 2, DT_FLOAT32}, {"4-component float32 positions", 0, 4, DT_FLOAT32},
    {"int16 positions (a type the header cannot name)", 0, 3, DT_INT16}, {"int16 colours (a type the header cannot name)", 2, 3, DT_INT16}};
  for (auto &p : ps) {
    InSpec m; m.np = 3; m.is_mesh = true; m.faces.push_back(Tri{{0, 1, 2}});
    m.pos = gen_att(r, GeometryAttribute::POSITION, p.which == 0 ? p.ncomp : 3, p.which == 0 ? p.dtype : DT_FLOAT32, 3, false, 0, nullptr);
    if (p.which == 1) m.nrm = gen_att(r, GeometryAttribute::NORMAL, p.ncomp, p.dtype, 3, false, 0, nullptr);
    if (p.which == 2) m.col = gen_att(r, GeometryAttribute::COLOR, p.ncomp, p.dtype, 3, false, 0, nullptr);
    Bytes file; bool ok = ply_write(m, &file);
    std::string outcome;
    if (!ok) outcome = "PlyEncoder refuses";
    else {
      GeoSpec g; std::string res = ply_read_result(file, 1, &g);
      if (res.compare(0, 3, "ok ") != 0) outcome = "PlyEncoder returns true, PlyDecoder: " + res;
      else {
        const AttSpec *gp = find_att(g, GeometryAttribute::POSITION), *gn = find_att(g, GeometryAttribute::NORMAL), *gc = find_att(g, GeometryAttribute::COLOR);
        bool same = gp && g.faces.size() == 1 && geo_wf(g);
        bool dropped = (m.nrm.present && !gn) || (m.col.present && !gc);
        if (same) for (int c = 0; c < 3; c++) {
          uint32_t b = g.faces[0][c];
          if (gp->val(b) != m.pos.val(c) || (gn && m.nrm.present && gn->val(b) != m.nrm.val(c)) || (gc && m.col.present && gc->val(b) != m.col.val(c))) same = false;
        }
        outcome = std::string("PlyEncoder returns true, PlyDecoder ok, ") + (dropped ? "attribute silently dropped" : (same ? "values preserved" : "VALUES CHANGED"));
      }
    }
    o.note(std::string("OUTSIDE-HYPOTHESES ply ") + p.what + ": " + outcome);
  }
}

// ------------------------------------------------------------------------------------------------ STL
static std::string stl_read_result(const Bytes &file, GeoSpec *out = nullptr) {
  if (file.size() < 6) return "short";
  if (memcmp(file.data(), "solid ", 6) != 0) {
    if (file.size() < 84) return "short";
    uint32_t n; memcpy(&n, file.data() + 80, 4);
    if ((uint64_t)file.size() < 84 + 50 * (uint64_t)n) return "short";   // the C++ would read uninitialised memory: not run
  }
  Padded pb(file, 64);
  DecoderBuffer db; db.Init(pb.mem.data(), pb.n);
  StlDecoder dec;
  auto res = dec.DecodeFromBuffer(&db);
  if (!res.ok()) return "reject";
  std::unique_ptr<Mesh> mesh = std::move(res).value();
  if (!mesh) return "null";
  GeoSpec g = snap_geo(*mesh, mesh.get());
  if (out) *out = g;
  return "ok " + geo_str(g);
}
static void stl_cases(Out &o, Rng &r, int n, int maxnp, std::vector<Bytes> *keep) {
  for (int i = 0; i < n; i++) {
    InSpec m = gen_in(r, 1, true, maxnp);
    if (r.chance(3)) m.pos.dtype = DT_INT32;     // writer must refuse
    std::unique_ptr<Mesh> mesh = build_mesh(m);
    EncoderBuffer eb; StlEncoder enc;
    Status st = enc.EncodeToBuffer(*mesh, &eb);
    Bytes file((const uint8_t *)eb.data(), (const uint8_t *)eb.data() + eb.size());
    // the normals the implementation computed (a parameter of the model writer)
    std::vector<Bytes> nrms;
    if (st.ok() && file.size() == 84 + 50 * m.faces.size())
      for (size_t f = 0; f < m.faces.size(); f++) nrms.push_back(Bytes(file.begin() + 84 + 50 * f, file.begin() + 84 + 50 * f + 12));
    else if (st.ok()) { o.fail("STL file has an unexpected size: stl " + in_id(m)); continue; }
    o.c("stlw " + att_tok(m.pos) + " " + faces_str(m.faces) + " " + vals_str(nrms), st.ok() ? hex(file.data(), file.size()) : "fail");
    if (!st.ok()) continue;
    if (keep && keep->size() < 200) keep->push_back(file);
    GeoSpec g; std::string res = stl_read_result(file, &g);
    o.c("stlr " + hex(file.data(), file.size()), res);
    const std::string id = "stl " + in_id(m);
    if (res.compare(0, 3, "ok ") != 0) { o.fail("STL written by StlEncoder is not read back (" + res + "): " + id); continue; }
    const AttSpec *gp = find_att(g, GeometryAttribute::POSITION);
    if (!geo_wf(g) || !gp) { o.fail("decoded STL geometry is malformed: " + id); continue; }
    if (g.faces.size() != m.faces.size()) { o.fail("face count changed: " + id); continue; }
    for (size_t f = 0; f < m.faces.size(); f++) for (int c = 0; c < 3; c++)
      if (gp->val(g.faces[f][c]) != m.pos.val(m.faces[f][c])) { o.fail("face " + U(f) + " corner " + S(c) + " position changed: " + id); f = m.faces.size(); break; }
  }
}
static void stl_hostile_cases(Out &o, Rng &r, int n, const std::vector<Bytes> &valid) {
  for (int i = 0; i < n; i++) {
    Bytes b;
    if (!valid.empty() && r.chance(50)) {
      b = valid[r.below(valid.size())];
      switch (r.below(4)) {
        case 0: b.resize(r.below(b.size() + 1)); break;
        case 1: for (int k = 0; k < 3; k++) b[r.below(b.size())] = (uint8_t)r.next(); break;
        case 2: if (b.size() > 84) { uint32_t nn; memcpy(&nn, b.data() + 80, 4); nn = (uint32_t)std::max<int64_t>(0, (int64_t)nn + r.range(-2, 2)); memcpy(b.data() + 80, &nn, 4); } break;
        default: for (int k = 0; k < (int)r.below(70); k++) b.push_back((uint8_t)r.next()); break;
      }
    } else {
      uint32_t nf = (uint32_t)r.below(6);
      size_t len = r.chance(70) ? 84 + 50 * nf + (r.chance(30) ? r.below(60) : 0) : r.below(84 + 50 * nf + 1);
      for (size_t k = 0; k < len; k++) b.push_back((uint8_t)r.next());
      if (len >= 84) memcpy(b.data() + 80, &nf, 4);
      if (r.chance(25) && len >= 6) memcpy(b.data(), "solid ", 6);
      if (r.chance(10) && len >= 6) memcpy(b.data(), "solid", 5);
    }
    o.c("stlr " + hex(b.data(), b.size()), stl_read_result(b));
  }
}

// ------------------------------------------------------------------------------------------------ OBJ
static bool is_sp(char c) { return c == ' ' || c == '\t' || c == '\n' || c == '\v' || c == '\f' || c == '\r'; }
static std::vector<std::string> words(const std::string &s) {
  std::vector<std::string> w; std::string cur;
  for (char c : s) { if (is_sp(c)) { if (!cur.empty()) w.push_back(cur); cur.clear(); } else cur += c; }
  if (!cur.empty()) w.push_back(cur);
  return w;
}
// the implementation's ParseFloat on one token: "F" if it fails, "?" if it does not consume exactly the token
static std::string parse_token(const std::string &tok) {
  std::string s = tok + " ";
  DecoderBuffer db; db.Init(s.data(), s.size());
  float v = 0;
  if (!parser::ParseFloat(&db, &v)) return "F";
  if (db.remaining_size() != 1) return "?";
  uint32_t u = fbits(v);
  return hex(&u, 4);
}
struct ObjLines {     // a file after tokenisation
  std::vector<std::pair<std::string, std::vector<std::string>>> ls;   // kind ("v","vt","vn","f","#"), tokens
  std::string tok() const {
    std::string s;
    for (size_t i = 0; i < ls.size(); i++) {
      if (i) s += ";";
      s += ls[i].first;
      if (ls[i].first != "#") { s += ":"; for (size_t k = 0; k < ls[i].second.size(); k++) { if (k) s += ","; s += ls[i].second[k]; } }
    }
    return s.empty() ? "-" : s;
  }
  // token=bits table of all number tokens (implementation's ParseFloat); false if some token is consumed only partly
  bool table(std::string *out) const {
    std::map<std::string, std::string> t;
    for (auto &l : ls) if (l.first == "v" || l.first == "vt" || l.first == "vn")
      for (auto &x : l.second) { std::string p = parse_token(x); if (p == "?") return false; t[x] = p; }
    std::string s;
    for (auto &kv : t) { if (!s.empty()) s += ","; s += kv.first + "=" + kv.second; }
    *out = s.empty() ? "-" : s;
    return true;
  }
};
// tokenises a file the way ObjDecoder::ParseDefinition classifies lines (files made of whole lines only)
static ObjLines lex_obj(const std::string &text) {
  ObjLines L; size_t i = 0;
  while (i < text.size()) {
    size_t e = text.find('\n', i); if (e == std::string::npos) e = text.size();
    std::string line = text.substr(i, e - i); i = e + 1;
    size_t s = 0; while (s < line.size() && is_sp(line[s])) s++;
    line = line.substr(s);
    if (line.empty()) continue;
    std::vector<std::string> w;
    if (line[0] == '#') L.ls.push_back({"#", {}});
    else if (line.compare(0, 2, "v ") == 0) L.ls.push_back({"v", words(line.substr(2))});
    else if (line.compare(0, 2, "vn") == 0) L.ls.push_back({"vn", words(line.substr(2))});
    else if (line.compare(0, 2, "vt") == 0) L.ls.push_back({"vt", words(line.substr(2))});
    else if (line[0] == 'f') L.ls.push_back({"f", words(line.substr(1))});
    else L.ls.push_back({"#", {}});
  }
  return L;
}
static std::string obj_read_result(const std::string &text, bool as_mesh, GeoSpec *out = nullptr) {
  DecoderBuffer db; db.Init(text.data(), text.size());
  ObjDecoder dec;
  Mesh mesh; PointCloud pc;
  Status st = as_mesh ? dec.DecodeFromBuffer(&db, &mesh) : dec.DecodeFromBuffer(&db, &pc);
  if (!st.ok()) return "reject";
  GeoSpec g = as_mesh ? snap_geo(mesh, &mesh) : snap_geo(pc, nullptr);
  if (out) *out = g;
  return "ok " + geo_str(g);
}
// allowance of the property for one coordinate: "%F" prints the float to the nearest multiple of 1e-6 (error <= 5e-7),
// ParseFloat accumulates in double (relative error ~1e-15) and rounds once to float32 (<= 2^-24 |y|)
static bool close_enough(float x, float y) {
  double dx = x, dy = y;
  return std::fabs(dy - dx) <= 5e-7 + 1e-12 + 6.1e-8 * std::fabs(dx);
}
static bool vals_close(const Bytes &a, const Bytes &b) {
  if (a.size() != b.size()) return false;
  for (size_t k = 0; k + 4 <= a.size(); k += 4) {
    uint32_t ua, ub; memcpy(&ua, a.data() + k, 4); memcpy(&ub, b.data() + k, 4);
    if (!close_enough(bitsf(ua), bitsf(ub))) return false;
  }
  return true;
}
static void obj_cases(Out &o, Rng &r, int n, int maxnp, std::vector<std::string> *keep) {
  for (int i = 0; i < n; i++) {
    InSpec m = gen_in(r, 2, r.chance(80), maxnp);
    std::unique_ptr<Mesh> mesh = build_mesh(m);
    EncoderBuffer eb; ObjEncoder enc;
    bool ok = m.is_mesh ? enc.EncodeToBuffer(*mesh, &eb) : enc.EncodeToBuffer(*static_cast<PointCloud *>(mesh.get()), &eb);
    std::string text(eb.data(), eb.data() + eb.size());
    const std::string id = "obj " + in_id(m);
    const std::string lhs0 = "objw " + U(m.np) + " " + att_tok(m.pos) + " " + att_tok(m.tex) + " " + att_tok(m.nrm) + " " + infaces_tok(m) + " ";
    if (!ok) { o.c(lhs0 + "-", "fail"); continue; }
    // the number tokens of the implementation, paired with the float they were printed from
    ObjLines L = lex_obj(text);
    std::map<std::string, std::string> fmt; bool clash = false; size_t li = 0;
    auto take = [&](const AttSpec &a, const char *kind, int k) {
      if (!a.present || a.vals.empty()) return;
      for (size_t v = 0; v < a.vals.size(); v++, li++) {
        if (li >= L.ls.size() || L.ls[li].first != kind || (int)L.ls[li].second.size() != k) { clash = true; return; }
        for (int c = 0; c < k; c++) {
          std::string bits = (size_t)(4 * c + 4) <= a.vals[v].size() ? hex(a.vals[v].data() + 4 * c, 4) : "00000000";
          auto it = fmt.find(bits);
          if (it != fmt.end() && it->second != L.ls[li].second[c]) clash = true;
          fmt[bits] = L.ls[li].second[c];
        }
      }
    };
    take(m.pos, "v", 3); take(m.tex, "vt", 2); take(m.nrm, "vn", 3);
    if (clash) { o.fail("OBJ records do not line up with the attribute values: " + id); continue; }
    std::string ft; for (auto &kv : fmt) { if (!ft.empty()) ft += ","; ft += kv.first + "=" + kv.second; }
    o.c(lhs0 + (ft.empty() ? "-" : ft), hex(text.data(), text.size()));
    if (keep && keep->size() < 300) keep->push_back(text);
    // reader correspondence on the writer's own output + search
    for (int as_mesh = 1; as_mesh >= 0; as_mesh--) {
      GeoSpec g; std::string res = obj_read_result(text, as_mesh, &g);
      std::string tbl;
      if (L.table(&tbl)) o.c("objr " + S(as_mesh) + " " + L.tok() + " " + tbl, res);
      if (res.compare(0, 3, "ok ") != 0) { o.fail("OBJ written by ObjEncoder is not read back (" + res + "): " + id); continue; }
      if (!geo_wf(g)) { o.fail("decoded OBJ geometry is malformed: " + id); continue; }
      const AttSpec *gp = find_att(g, GeometryAttribute::POSITION), *gt = find_att(g, GeometryAttribute::TEX_COORD),
                    *gn = find_att(g, GeometryAttribute::NORMAL);
      const bool wt = m.tex.present, wn = m.nrm.present;
      if (!gp || (wt && !gt) || (wn && !gn) || (!wt && gt) || (!wn && gn)) { o.fail("attribute set changed: " + id); continue; }
      if (!m.is_mesh) {
        // point cloud: the reader deduplicates points; every input point must be present within the allowance at the
        // position the dedup's first-occurrence order gives it.  We check point i against its image.
        // (identity-mapped inputs only, see gen_in)
        if (g.np > m.np) { o.fail("point count grew: " + id); continue; }
        if (as_mesh == 0) {
          // without rounding collisions the points are the input points in order; collisions only merge points
          size_t gi = 0; bool bad = false;
          std::vector<char> used(g.np, 0);
          for (uint32_t p = 0; p < m.np && !bad; p++) {
            bool found = false;
            for (uint32_t q = 0; q < g.np; q++)
              if (vals_close(m.pos.val(p), gp->val(q)) && (!wt || vals_close(m.tex.val(p), gt->val(q))) && (!wn || vals_close(m.nrm.val(p), gn->val(q)))) { found = true; used[q] = 1; break; }
            if (!found) bad = true;
          }
          (void)gi;
          if (bad) { o.fail("a point is missing from the OBJ point cloud read back: " + id); continue; }
        }
        continue;
      }
      if (!as_mesh) continue;
      if (g.faces.size() != m.faces.size()) { o.fail("face count changed: " + id); continue; }
      bool bad = false;
      std::map<std::array<uint32_t, 3>, uint32_t> pt_of;   // (pos idx, tex idx, nrm idx) -> decoded point
      std::map<uint32_t, uint32_t> pv, tv, nv;              // original value index -> decoded value index
      for (size_t f = 0; f < m.faces.size() && !bad; f++) for (int c = 0; c < 3 && !bad; c++) {
        uint32_t a = m.faces[f][c], b = g.faces[f][c];
        if (!vals_close(m.pos.val(a), gp->val(b)) || (wt && !vals_close(m.tex.val(a), gt->val(b))) || (wn && !vals_close(m.nrm.val(a), gn->val(b)))) {
          o.fail("face " + U(f) + " corner " + S(c) + ": value outside the 6-decimal allowance: " + id); bad = true; break;
        }
        // connectivity and seams: corners that shared a value record / a whole index triplet still share it
        std::array<uint32_t, 3> key{{m.pos.midx(a), wt ? m.tex.midx(a) : 0, wn ? m.nrm.midx(a) : 0}};
        auto chk = [&](std::map<uint32_t, uint32_t> &mp, uint32_t k, uint32_t v) { auto it = mp.find(k); if (it == mp.end()) { mp[k] = v; return true; } return it->second == v; };
        if (!chk(pv, key[0], gp->midx(b)) || (wt && !chk(tv, key[1], gt->midx(b))) || (wn && !chk(nv, key[2], gn->midx(b)))) {
          o.fail("face " + U(f) + " corner " + S(c) + ": a shared value record was split (seam created): " + id); bad = true; break;
        }
        auto it = pt_of.find(key);
        if (it == pt_of.end()) pt_of[key] = b; else if (it->second != b) { o.fail("face " + U(f) + " corner " + S(c) + ": a shared vertex was split (connectivity changed): " + id); bad = true; }
      }
    }
  }
}
// OBJ point clouds whose attributes are NOT identity-mapped: ObjEncoder writes one record per attribute VALUE and no
// index triplets, so the reader cannot know which normal belongs to which point.
static void obj_pc_explicit_probe(Out &o, Rng &r, int n) {
  for (int i = 0; i < n; i++) {
    InSpec m; m.is_mesh = false; m.np = 2 + (uint32_t)r.below(6);
    m.pos = gen_att(r, GeometryAttribute::POSITION, 3, DT_FLOAT32, m.np, false, 0, nullptr);
    m.nrm = gen_att(r, GeometryAttribute::NORMAL, 3, DT_FLOAT32, m.np, false, 1, nullptr);
    std::unique_ptr<Mesh> mesh = build_mesh(m);
    EncoderBuffer eb; ObjEncoder enc;
    if (!enc.EncodeToBuffer(*static_cast<PointCloud *>(mesh.get()), &eb)) continue;
    std::string text(eb.data(), eb.data() + eb.size());
    GeoSpec g; std::string res = obj_read_result(text, false, &g);
    bool ok = res.compare(0, 3, "ok ") == 0 && geo_wf(g);
    if (ok) {
      const AttSpec *gp = find_att(g, GeometryAttribute::POSITION), *gn = find_att(g, GeometryAttribute::NORMAL);
      ok = gp && gn;
      for (uint32_t p = 0; p < m.np && ok; p++) {
        bool found = false;
        for (uint32_t q = 0; q < g.np; q++) if (vals_close(m.pos.val(p), gp->val(q)) && vals_close(m.nrm.val(p), gn->val(q))) found = true;
        ok = found;
      }
    }
    if (!ok) {
      const std::string msg = "KNOWN obj-point-cloud-explicit-mapping: ObjEncoder accepted a point cloud whose normals are not identity-mapped; read back: " + res.substr(0, 6) + ": obj " + in_id(m);
      // reported as a failure line once known_findings.json carries the tag (props/C15.py sets the variable); a note until then
      if (getenv("C15_REPORT_OBJ_PC")) o.fail(msg); else o.note("FINDING " + msg);
      return;
    }
  }
}

// hostile / unusual OBJ files from a description (indices always inside the records defined so far)
static const char *kNumToks[] = {"0", "1", "-1", "0.5", "-0.25", "1.000000", "123456.789", "0.000001", "1e-5", "2.5E3", "+3", ".5", "5.", "-0.0",
                                 "1e+2", "inf", "-inf", "nan", "NaN", "Inf", "abc", "1e", "--1", "INF", "1.5e-3", "1000000.000000"};
static void obj_hostile_cases(Out &o, Rng &r, int n) {
  for (int i = 0; i < n; i++) {
    ObjLines L; std::string text;
    int nvp = 0, nvt = 0, nvn = 0;
    bool any_t = r.chance(60), any_n = r.chance(60);
    int nl = 1 + (int)r.below(14);
    bool bad_tokens = r.chance(12);
    auto numtok = [&]() { return std::string(bad_tokens ? kNumToks[r.below(26)] : kNumToks[r.below(20)]); };
    auto emit = [&](const std::string &kind, const std::vector<std::string> &toks) {
      L.ls.push_back({kind, toks});
      std::string ln = r.chance(10) ? " " : "";
      ln += kind;
      for (size_t k = 0; k < toks.size(); k++) {
        // "v" must be followed by a blank ("v\t1" is not a vertex line for the decoder)
        std::string sep = r.chance(10) ? (r.chance(50) ? "  " : (k == 0 && kind == "v" ? " \t" : "\t")) : " ";
        ln += sep + toks[k];
      }
      if (r.chance(8)) ln += " ";
      ln += r.chance(90) ? "\n" : "\r\n";
      text += ln;
    };
    for (int l = 0; l < nl; l++) {
      int k = (int)r.below(10);
      if (k < 4 || nvp == 0) { std::vector<std::string> t; int c = 3 + (r.chance(10) ? (int)r.below(3) : 0); for (int j = 0; j < c; j++) t.push_back(numtok()); emit("v", t); nvp++; }
      else if (k == 4 && any_t) { std::vector<std::string> t; int c = 2 + (r.chance(10) ? 1 : 0); for (int j = 0; j < c; j++) t.push_back(numtok()); emit("vt", t); nvt++; }
      else if (k == 5 && any_n) { std::vector<std::string> t; for (int j = 0; j < 3; j++) t.push_back(numtok()); emit("vn", t); nvn++; }
      else if (k == 6) { L.ls.push_back({"#", {}}); text += r.chance(50) ? "# a comment\n" : (r.chance(50) ? "g group1\n" : "s off\n"); }
      else {
        int nc = r.chance(80) ? 3 : (int)r.range(r.chance(10) ? 1 : 3, r.chance(10) ? 10 : 8);
        std::vector<std::string> cs;
        for (int j = 0; j < nc; j++) {
          auto idx = [&](int cnt) { return cnt == 0 ? std::string("1") : (r.chance(75) ? S(1 + (int64_t)r.below(cnt)) : S(-(1 + (int64_t)r.below(cnt)))); };
          std::string c = idx(nvp);
          if (c[0] != '-' && r.chance(4)) c = "+" + c;
          int form = (int)r.below(4);
          if (form == 1 && nvt) c += "/" + idx(nvt);
          else if (form == 2 && nvn) c += "//" + idx(nvn);
          else if (form == 3 && nvt && nvn) c += "/" + idx(nvt) + "/" + idx(nvn);
          if (j < 3 && r.chance(2)) c = "0";            // invalid index -> reject
          if (j < 3 && form == 0 && r.chance(2)) c += "/";  // dangling slash -> reject
          cs.push_back(c);
        }
        L.ls.push_back({"f", cs});
        std::string ln = "f";
        for (auto &c : cs) ln += (r.chance(10) ? "  " : " ") + c;
        ln += r.chance(90) ? "\n" : "\r\n";
        text += ln;
      }
    }
    if (r.chance(5)) { if (!text.empty()) text.pop_back(); }   // no final newline
    std::string tbl; if (!L.table(&tbl)) continue;
    int as_mesh = r.chance(80) ? 1 : 0;
    o.c("objr " + S(as_mesh) + " " + L.tok() + " " + tbl, obj_read_result(text, as_mesh));
  }
}
// ParseVertexIndices alone (through a one-face file is not possible: the decoder keeps it private) is covered by objr;
// here the model's corner parser is exercised on writer-style and odd corner tokens via complete files above.

int main(int argc, char **argv) {
  if (argc < 4) { fprintf(stderr, "usage: h_C15 <tier> <seed> <out>\n"); return 2; }
  setlocale(LC_ALL, "C");
  const bool thorough = !strcmp(argv[1], "thorough");
  Rng r(strtoull(argv[2], nullptr, 10));
  Out o(argv[3]);
  o.note("C15 tier=" + std::string(argv[1]) + " seed=" + argv[2] + " generator=2");
  const int K = thorough ? 8 : 1;
  std::vector<Bytes> plys, stls; std::vector<std::string> objs;
  ply_cases(o, r, 500 * K, 12, &plys);
  ply_cases(o, r, 40 * K, 120, nullptr);
  ply_boundary_cases(o, r, 2 * K);
  ply_accept_probe(o, r);
  ply_hostile_cases(o, r, 2500 * K, plys);
  stl_cases(o, r, 500 * K, 12, &stls);
  stl_cases(o, r, 30 * K, 150, nullptr);
  stl_hostile_cases(o, r, 800 * K, stls);
  obj_cases(o, r, 600 * K, 10, &objs);
  obj_cases(o, r, 30 * K, 80, nullptr);
  obj_hostile_cases(o, r, 2500 * K);
  obj_pc_explicit_probe(o, r, 50);
  o.note("done cases=" + S(o.cases) + " fails=" + S(o.fails));
  return 0;
}
