// C08 correspondence + search harness: EncodeSymbols/DecodeSymbols and RAnsSymbolEncoder<N>/RAnsSymbolDecoder<N>
// of /repo against the Coq model (Model/RansSymbol.v, Model/SymbolCoding.v).
//
// case kinds (one per line, "<lhs> | <implementation result>"):
//   prec b                         ComputeRAnsPrecisionFromUniqueSymbolsBitLength(b)
//   es <method> <auto> <lvl> <nc> <bl> <syms>   EncodeSymbols; method = scheme (forced, or read off the first byte when auto=1),
//                                  lvl = compression level or u (unset), bl = the raw scheme's unique-symbols bit length read off the
//                                  second byte of the output (POLICY like the scheme; - when there is none)  -> <hex> amok=1 | fail
//   rbl <nu> <lvl>                 the level -> bit-length function of the current code (harness replica of EncodeRawSymbols' arithmetic;
//                                  the implementation's own choice is compared with it in the harness: a difference is the # note
//                                  raw-bit-length-policy, not a disagreement)                          -> <bit length>
//   ds <ver> <n> <nc> <hex>        DecodeSymbols on arbitrary bytes           -> ok <vals> <remaining> | fail
//   rse <N> <freqs> <syms>         RAnsSymbolEncoder<N>: Create, StartEncoding, EncodeSymbol (reverse), EndEncoding
//                                                                           -> c=1 <hex> | c=0
//   rsc <N> <freqs>                RAnsSymbolEncoder<N>::Create alone -> c=1 <table hex> | c=0
//   rsd <N> <ver> <n> <pre> <hex>  RAnsSymbolDecoder<N>: Create, StartDecoding, n * DecodeSymbol
//                                  (<pre> = 4 bytes lying in memory in front of the buffer; must not matter) -> ok <syms> <remaining> | fail
//   rwa <N> <E> <freqs> <syms>     RAnsSymbolEncoder<N> on a frequency table that bounds the occurrences of every symbol:
//                                  E = num_expected_bits_ after Create (read through `#define private public`), then
//                                  StartEncoding / EncodeSymbol (reverse) / EndEncoding
//                                  -> w=<bytes_written> used=<bytes_written + size_len> res=<bytes StartEncoding reserved> e=ok
//                                  (the model recomputes w, used, rans_reserved E and checks E against its own enclosure of
//                                  the cross entropy: e=ok | e=E-outside-[lo,hi])
// '!' lines: the property fails on the implementation itself (real round trip with a sentinel behind the block,
// Create() returning false on a table the callers would use blindly).
#include <algorithm>
#include <map>
#include <set>
#include "common.h"
#include "draco/compression/config/compression_shared.h"
#include "draco/compression/entropy/rans_symbol_coding.h"
#include "draco/compression/entropy/rans_symbol_decoder.h"
#include "draco/core/encoder_buffer.h"
#include "draco/core/varint_encoding.h"
#include <cmath>
#include <cstring>
#include <sys/wait.h>
#include <unistd.h>
// num_expected_bits_ of RAnsSymbolEncoder is private and has no accessor; the harness needs it to tie the theorem about
// the write area.  Every standard header and every other draco header used by rans_symbol_encoder.h (ans.h included)
// is already included above, so only the class template RAnsSymbolEncoder is affected.
#define private public
#include "draco/compression/entropy/rans_symbol_encoder.h"
#undef private
#include "draco/compression/entropy/symbol_decoding.h"
#include "draco/compression/entropy/symbol_encoding.h"
#include "draco/core/decoder_buffer.h"
#include "draco/core/encoder_buffer.h"
#include "draco/core/options.h"
using namespace draco;

static const uint8_t kSentinel[3] = {0xA5, 0x5A, 0xC3};
static long g_cov[16];
static bool g_thorough = false;
enum { COV_TAGGED, COV_RAW, COV_AUTO, COV_ENC_FAIL, COV_DEC_OK, COV_DEC_FAIL, COV_CREATE_FALSE, COV_OLDVER, COV_BIG };

template <typename T>
static std::string csv(const std::vector<T> &v) {
  if (v.empty()) return "-";
  std::string s;
  s.reserve(v.size() * 4);
  for (size_t i = 0; i < v.size(); i++) { if (i) s += ','; s += std::to_string(v[i]); }
  return s;
}

// ---------------------------------------------------------------- generators
static uint32_t boundary_max(Rng &r, int maxbits) {
  int k = (int)r.range(0, maxbits);
  int64_t v = ((int64_t)1 << k) + r.range(-2, 2);
  if (v < 0) v = 0;
  if (v > ((int64_t)1 << maxbits)) v = (int64_t)1 << maxbits;
  if (v > 0xffffffffll) v = 0xffffffffll;
  return (uint32_t)v;
}

// kinds: 0 uniform, 1 skewed (geometric), 2 constant, 3 single outlier, 4 all distinct, 5 two-valued, 6 zipf-ish, 7 ramp of bit lengths
static std::vector<uint32_t> gen_syms(Rng &r, int kind, int n, uint32_t maxv) {
  std::vector<uint32_t> s(n);
  switch (kind) {
    case 0: for (auto &x : s) x = (uint32_t)r.below((uint64_t)maxv + 1); break;
    case 1: for (auto &x : s) { uint32_t v = 0; while (v < maxv && r.chance(70)) v++; x = v; } break;
    case 2: { uint32_t c = (uint32_t)r.below((uint64_t)maxv + 1); for (auto &x : s) x = c; } break;
    case 3: { uint32_t c = (uint32_t)r.below(std::min<uint64_t>((uint64_t)maxv + 1, 8)); for (auto &x : s) x = c; s[r.below(n)] = maxv; } break;
    case 4: { uint32_t off = maxv >= (uint32_t)n ? (uint32_t)r.below((uint64_t)maxv - n + 2) : 0;
              for (int i = 0; i < n; i++) s[i] = off + i;
              for (int i = n - 1; i > 0; i--) std::swap(s[i], s[r.below(i + 1)]); } break;
    case 5: { uint32_t a = (uint32_t)r.below((uint64_t)maxv + 1), b = maxv; int pct = (int)r.range(1, 99);
              for (auto &x : s) x = r.chance(pct) ? a : b; } break;
    case 6: for (auto &x : s) { uint64_t u = r.next(); int sh = (int)r.below(24); x = (uint32_t)((u >> 40 >> sh) % ((uint64_t)maxv + 1)); } break;
    case 8: { // one dominant value + k distinct singletons: the coded size is far above the Shannon entropy of the data because every
              // used symbol is forced to probability >= 1/precision (stresses the size of the rANS write area in StartEncoding)
              uint32_t c = (uint32_t)r.below(4); for (auto &x : s) x = c; int k = (int)std::min<int64_t>(r.range(40, 127), n / 4);
              for (int j = 0; j < k; j++) s[r.below(n)] = std::min<uint32_t>(maxv, 4 + (uint32_t)j); } break;
    case 9: { // one-bit values + a few values of every bit length 2..31 (same stress for the tag stream of the tagged scheme)
              for (auto &x : s) x = (uint32_t)r.below(2); for (int b = 2; b <= 31 && b < n; b++) s[r.below(n)] = std::min<uint32_t>(maxv, (1u << (b - 1)) + (uint32_t)r.below(1u << (b - 1))); } break;
    default: for (int i = 0; i < n; i++) { int k = i % 34; uint64_t v = k ? (((uint64_t)1 << (k - 1)) + r.below((uint64_t)1 << (k - 1))) : 0; s[i] = (uint32_t)std::min<uint64_t>(v, maxv); } break;
  }
  return s;
}

// ---------------------------------------------------------------- Create() replica (its bool result is ignored by the callers)
template <int N>
static bool create_ok_N(const std::vector<uint64_t> &freqs) {
  RAnsSymbolEncoder<N> e; EncoderBuffer b;
  return e.Create(freqs.data(), (int)freqs.size(), &b);
}
static bool create_ok(int N, const std::vector<uint64_t> &f) {
  switch (N) {
#define C(n) case n: return create_ok_N<n>(f);
    C(1) C(2) C(3) C(4) C(5) C(6) C(7) C(8) C(9) C(10) C(11) C(12) C(13) C(14) C(15) C(16) C(17) C(18)
#undef C
  }
  return false;
}

// ---------------------------------------------------------------- the rANS write area (StartEncoding reserves, nobody checks)
// Runs RAnsSymbolEncoder<N> directly on (freqs, syms) -- every symbol occurs at most freqs[symbol] times -- inside a
// vector whose CAPACITY is far larger than anything the coder can write, so that a write past the reserved SIZE stays
// inside the allocation and can be reported instead of corrupting the heap.  Returns 0 when Create fails, 2 when the area
// overflowed (the caller then keeps the library away from that input: it would overflow its heap buffer), else 1.
static size_t count_used_fwd(const std::vector<uint64_t> &f) { size_t u = 0; for (auto x : f) u += x > 0; return u; }
enum { COV_AREA = 9, COV_AREA_MODEL = 10, COV_AREA_MAXPCT = 11, COV_POLICY = 12 };
template <int N>
static int area_case_N(Out &o, const std::vector<uint64_t> &freqs, const std::vector<uint32_t> &syms, bool emit, const std::string &ctx) {
  RAnsSymbolEncoder<N> e; EncoderBuffer eb;
  eb.buffer()->reserve(syms.size() * 4 + freqs.size() * 4 + (1 << 16));
  if (!e.Create(freqs.data(), (int)freqs.size(), &eb)) return 0;
  const uint64_t E = e.num_expected_bits_;
  const size_t off0 = eb.size();
  e.StartEncoding(&eb);
  const size_t reserved = eb.size() - off0;
  for (int i = (int)syms.size() - 1; i >= 0; --i) e.EncodeSymbol(syms[i]);
  e.EndEncoding(&eb);
  const size_t used = eb.size() - off0;
  // bytes_written is the varint in front of the block
  uint64_t w = 0; int sh = 0; size_t p = off0; const uint8_t *d = (const uint8_t *)eb.data();
  while (p < eb.size()) { uint8_t c = d[p++]; w |= (uint64_t)(c & 0x7f) << sh; sh += 7; if (!(c & 0x80)) break; }
  g_cov[COV_AREA]++;
  if (reserved > 0) g_cov[COV_AREA_MAXPCT] = std::max<long>(g_cov[COV_AREA_MAXPCT], (long)(used * 100 / reserved));
  std::string lhs = "rwa " + S(N) + " " + U(E) + " " + csv(freqs) + " " + csv(syms);
  if (emit || (used > reserved && count_used_fwd(freqs) <= 300)) { o.c(lhs, "w=" + U(w) + " used=" + U(used) + " res=" + U(reserved) + " e=ok"); g_cov[COV_AREA_MODEL]++; }
  if (used > reserved) {
    o.fail("rANS write area overflow (" + ctx + "): StartEncoding reserved " + U(reserved) + " bytes (num_expected_bits_=" + U(E) + "), " +
           U(w) + " bytes written, " + U(used) + " bytes touched: " + lhs);
    fflush(o.f);
    return 2;
  }
  return 1;
}
static int area_case(Out &o, int N, const std::vector<uint64_t> &f, const std::vector<uint32_t> &s, bool emit, const std::string &ctx) {
  switch (N) {
#define C(k) case k: return area_case_N<k>(o, f, s, emit, ctx);
    C(1) C(2) C(3) C(4) C(5) C(6) C(7) C(8) C(9) C(10) C(11) C(12) C(13) C(14) C(15) C(16) C(17) C(18)
#undef C
  }
  return 0;
}
static size_t count_used(const std::vector<uint64_t> &f) { size_t u = 0; for (auto x : f) u += x > 0; return u; }
// the bit length EncodeRawSymbols derives from the number of unique symbols and the level (used only to pick the
// encoder instance for the area check that runs BEFORE EncodeSymbols; a different choice of the library is harmless)
static int raw_bits_for(size_t num_unique, int lvl) {
  int b = 1; while ((num_unique >> b) != 0) b++;
  if (lvl < 0) lvl = 7;
  if (lvl < 4) b -= 2; else if (lvl < 6) b -= 1; else if (lvl > 9) b += 2; else if (lvl > 7) b += 1;
  return std::min(std::max(1, b), 18);
}

// ---------------------------------------------------------------- DecodeSymbols case
static std::string dec_case(Out &o, uint16_t ver, uint32_t n, int nc, const std::vector<uint8_t> &bytes, bool emit = true) {
  // four spare bytes in front of the buffer (read_init used to read in front of short blocks; fixed in f82c4f5)
  std::vector<uint8_t> mem(4, 0); mem.insert(mem.end(), bytes.begin(), bytes.end());
  DecoderBuffer db; db.Init((const char *)mem.data() + 4, bytes.size(), ver);
  uint32_t groups = nc > 0 ? (n + nc - 1) / nc : n;
  std::vector<uint32_t> out((size_t)groups * std::max(nc, 1) + 8, 0xDEADBEEF);
  bool ok = DecodeSymbols(n, nc, &db, out.data());
  for (size_t k = n; k < out.size(); k++)
    if (out[k] != 0xDEADBEEF) { o.fail("DecodeSymbols wrote past out_values[num_values-1]: ds " + S(ver) + " " + U(n) + " " + S(nc) + " " + hex(bytes.data(), bytes.size())); break; }
  std::string res;
  if (ok) { out.resize(n); res = "ok " + csv(out) + " " + S(db.remaining_size()); g_cov[COV_DEC_OK]++; }
  else { res = "fail"; g_cov[COV_DEC_FAIL]++; }
  if (emit) o.c("ds " + S(ver) + " " + U(n) + " " + S(nc) + " " + hex(bytes.data(), bytes.size()), res);
  return res;
}

// Parse the layout of a valid version >= 2.0 stream far enough to rewrite it in the pre-2.0 layout
// (fixed uint32 num_symbols, fixed uint64 bytes_encoded).  Returns empty on anything unexpected.
static bool read_varint(const std::vector<uint8_t> &b, size_t &p, uint64_t &v) {
  v = 0; int sh = 0;
  while (p < b.size()) { uint8_t c = b[p++]; v |= (uint64_t)(c & 0x7f) << sh; sh += 7; if (!(c & 0x80)) return true; if (sh > 63) return false; }
  return false;
}
static std::vector<uint8_t> to_old_layout(const std::vector<uint8_t> &b) {
  std::vector<uint8_t> o;
  if (b.size() < 3) return o;
  size_t p = 0;
  o.push_back(b[p++]);
  if (b[0] == 1) o.push_back(b[p++]);
  uint64_t ns;
  if (!read_varint(b, p, ns)) return {};
  for (int i = 0; i < 4; i++) o.push_back((uint8_t)(ns >> (8 * i)));
  for (uint64_t i = 0; i < ns; i++) {
    if (p >= b.size()) return {};
    uint8_t t = b[p]; int tok = t & 3;
    if (tok == 3) { o.push_back(b[p++]); i += t >> 2; }
    else { for (int k = 0; k <= tok; k++) { if (p >= b.size()) return {}; o.push_back(b[p++]); } }
  }
  uint64_t len;
  if (!read_varint(b, p, len)) return {};
  for (int i = 0; i < 8; i++) o.push_back((uint8_t)(len >> (8 * i)));
  o.insert(o.end(), b.begin() + p, b.end());
  return o;
}

static void malformed_from(Out &o, Rng &r, const std::vector<uint8_t> &good, uint32_t n, int nc, int count) {
  for (int k = 0; k < count; k++) {
    std::vector<uint8_t> b = good;
    uint32_t n2 = n; int nc2 = nc;
    switch (r.below(9)) {
      case 0: b.resize(r.below(b.size() + 1)); break;                                   // truncation
      case 1: if (!b.empty()) b[r.below(std::min<size_t>(b.size(), 12))] ^= (uint8_t)(1u << r.below(8)); break;  // header/table bit flip
      case 2: if (!b.empty()) b[r.below(b.size())] = (uint8_t)r.next(); break;         // any byte
      case 3: if (!b.empty()) { size_t i = r.below(b.size()); b.erase(b.begin() + i); } break;
      case 4: { size_t i = r.below(b.size() + 1); b.insert(b.begin() + i, (uint8_t)r.next()); } break;
      case 5: if (b.size() > 8) b[b.size() - 4 - r.below(4)] = (uint8_t)(r.chance(50) ? 0xC0 | r.below(64) : r.next()); break;  // the last bytes of the block
      case 6: n2 = (uint32_t)std::max<int64_t>(1, (int64_t)n + r.range(-3, 3)); if (r.chance(40)) nc2 = (int)r.range(0, 4); break;  // other count / component count (non-multiples, 0)
      case 7: if (b.size() > 2) { b[0] = (uint8_t)r.below(3); b[1] = (uint8_t)r.below(22); } break;  // scheme / bit-length byte
      default: for (int j = 0; j < 3 && !b.empty(); j++) b[r.below(std::min<size_t>(b.size(), 40))] = (uint8_t)r.next(); break;
    }
    uint16_t ver = 0x0202;
    if (r.chance(8)) ver = (uint16_t)(r.chance(50) ? 0x0200 : (r.chance(50) ? 0 : 0x0103));
    dec_case(o, ver, n2, nc2, b);
  }
}

// Create()'s result for the table the chosen scheme builds (its callers ignore it): false = the stream was produced from
// an unfinished table.
static bool created_ok(const uint8_t *bytes, size_t nbytes, const std::vector<uint32_t> &syms, int nc, std::string *what) {
  if (nbytes == 0 || syms.empty()) return true;
  if (bytes[0] == SYMBOL_CODING_RAW && nbytes > 1) {
    uint32_t mx = *std::max_element(syms.begin(), syms.end());
    std::vector<uint64_t> f((size_t)mx + 1, 0); for (auto s : syms) f[s]++;
    *what = "raw bits=" + S(bytes[1]);
    return create_ok(bytes[1], f);
  }
  if (bytes[0] == SYMBOL_CODING_TAGGED) {
    std::vector<uint64_t> f(32, 0);
    int c = std::max(nc, 1);
    for (size_t i = 0; i + c <= syms.size(); i += c) { uint32_t m = 0; for (int j = 0; j < c; j++) m = std::max(m, syms[i + j]); int bl = 1; while (bl < 32 && (m >> bl)) bl++; f[bl & 31]++; }
    *what = "tagged";
    return create_ok(5, f);
  }
  return true;
}

// ---------------------------------------------------------------- EncodeSymbols case
static void enc_case(Out &o, Rng &r, const std::vector<uint32_t> &syms, int nc, int forced, int lvl, int n_malformed, bool area_model = false) {
  Options opt;
  if (forced >= 0) SetSymbolEncodingMethod(&opt, (SymbolCodingMethod)forced);
  if (lvl >= 0) opt.SetInt("symbol_encoding_compression_level", lvl);
  // the write area of both rANS streams EncodeSymbols may produce, checked on a safe buffer BEFORE the library writes
  // into its own (a write past the reserved area is a heap overflow there)
  if (!syms.empty() && (forced == 0 || forced == 1 || forced == -1)) {
    uint32_t mx = *std::max_element(syms.begin(), syms.end());
    int c = std::max(nc, 1);
    bool want_model = area_model;
    if ((mx >> 31) == 0 && forced != 1) {   // tags: RAnsSymbolEncoder<5> on the bit lengths
      std::vector<uint64_t> f(32, 0); std::vector<uint32_t> tags;
      for (size_t i = 0; i + c <= syms.size(); i += c) { uint32_t m = 0; for (int j = 0; j < c; j++) m = std::max(m, syms[i + j]); int bl = 1; while (bl < 32 && (m >> bl)) bl++; f[bl & 31]++; tags.push_back(bl & 31); }
      if (area_case(o, 5, f, tags, want_model, "tags of the tagged scheme") == 2) return;
    }
    if ((mx >> 18) == 0 && forced != 0) {   // raw: RAnsSymbolEncoder<bit length> on the values
      std::vector<uint64_t> f((size_t)mx + 1, 0); for (auto s : syms) f[s]++;
      size_t nu = count_used(f);
      if (nu < (1u << 18) && area_case(o, raw_bits_for(nu, lvl), f, syms, want_model && nu <= 300, "raw scheme") == 2) return;
    }
  }
  // EncodeSymbols ignores Create()'s result; when Create fails it goes on with an unfinished table and may corrupt the
  // heap or never return.  Probe the call in a child process first, so that such an input is reported (with the input)
  // instead of taking the harness down.
  if (!syms.empty()) {
    fflush(NULL);
    pid_t pid = fork();
    if (pid == 0) {
      alarm(30);
      EncoderBuffer pb; std::string what;
      bool pok = EncodeSymbols(syms.data(), (int)syms.size(), nc, &opt, &pb);
      _exit(pok && !created_ok((const uint8_t *)pb.data(), pb.size(), syms, nc, &what) ? 3 : 0);
    }
    if (pid > 0) {
      int st = 0; waitpid(pid, &st, 0);
      if (WIFEXITED(st) && WEXITSTATUS(st) == 3) {
        o.fail("Create returned false but EncodeSymbols returned true (found in the probe process; the call is not repeated here): es " + S(forced) + " " +
               S(forced >= 0 ? 0 : 1) + " " + (lvl >= 0 ? S(lvl) : std::string("u")) + " " + S(nc) + " " + csv(syms));
        g_cov[COV_CREATE_FALSE]++; fflush(o.f);
        return;
      }
      if (WIFSIGNALED(st)) {
        o.fail("EncodeSymbols died with signal " + S(WTERMSIG(st)) + " (heap corruption / endless loop) on: es " + S(forced) + " " + S(forced >= 0 ? 0 : 1) + " " +
               (lvl >= 0 ? S(lvl) : std::string("u")) + " " + S(nc) + " " + csv(syms));
        fflush(o.f);
        return;
      }
    }
  }
  EncoderBuffer eb;
  bool ok = EncodeSymbols(syms.data(), (int)syms.size(), nc, &opt, &eb);
  std::vector<uint8_t> bytes((const uint8_t *)eb.data(), (const uint8_t *)eb.data() + eb.size());
  int method = forced >= 0 ? forced : (bytes.empty() ? 0 : bytes[0]);
  // the raw bit length is stored in the stream and the decoder just reads it: policy, read off the output like the scheme
  std::string blf = "-";
  if (ok && method == SYMBOL_CODING_RAW && bytes.size() > 1 && bytes[0] == SYMBOL_CODING_RAW) {
    blf = S(bytes[1]);
    std::set<uint32_t> uniq(syms.begin(), syms.end());
    int expect = raw_bits_for(uniq.size(), lvl);
    if (expect != bytes[1]) {
      if (g_cov[COV_POLICY]++ == 0)
        o.note("policy raw-bit-length-policy: EncodeRawSymbols chose unique-symbols bit length " + S(bytes[1]) + " where the level -> bit-length function the model calls "
               "default_raw_bit_length gives " + S(expect) + " (unique=" + U(uniq.size()) + " level=" + (lvl >= 0 ? S(lvl) : std::string("unset")) +
               "); the value is stored in the stream, every admissible value decodes (C08_symbols_with_roundtrips); further differences are only counted");
    }
  }
  std::string lhs = "es " + S(method) + " " + S(forced >= 0 ? 0 : 1) + " " + (lvl >= 0 ? S(lvl) : std::string("u")) + " " + S(nc) + " " + blf + " " + csv(syms);
  g_cov[forced == 0 ? COV_TAGGED : forced == 1 ? COV_RAW : COV_AUTO]++;
  if (syms.size() >= 20000) g_cov[COV_BIG]++;
  if (!ok) { o.c(lhs, "fail"); g_cov[COV_ENC_FAIL]++; return; }
  o.c(lhs, hex(bytes.data(), bytes.size()) + " amok=1");
  if (syms.empty()) return;
  // Create()'s result, which EncodeTaggedSymbols / EncodeRawSymbolsInternal drop
  {
    std::string what;
    if (!created_ok(bytes.data(), bytes.size(), syms, nc, &what)) { o.fail("Create returned false but EncodeSymbols returned true (" + what + "): " + lhs); g_cov[COV_CREATE_FALSE]++; }
  }
  // the property on the real library: decode with a sentinel behind the block
  std::vector<uint8_t> with = bytes; with.insert(with.end(), kSentinel, kSentinel + 3);
  {
    DecoderBuffer db; db.Init((const char *)with.data(), with.size(), 0x0202);
    std::vector<uint32_t> out(syms.size() + 8, 0xDEADBEEF);
    bool dok = DecodeSymbols((uint32_t)syms.size(), std::max(nc, 1), &db, out.data());
    out.resize(syms.size());
    if (!dok || out != syms || db.remaining_size() != 3)
      o.fail(std::string("round trip ") + (dok ? (out != syms ? "values differ" : "wrong position rem=" + S(db.remaining_size())) : "decode failed") + ": " + lhs);
  }
  // the same bytes through the model's decoder; then malformed variants
  dec_case(o, 0x0202, (uint32_t)syms.size(), std::max(nc, 1), with);
  if (n_malformed > 0) {
    malformed_from(o, r, with, (uint32_t)syms.size(), std::max(nc, 1), n_malformed);
    std::vector<uint8_t> old = to_old_layout(with);
    if (!old.empty()) {
      g_cov[COV_OLDVER]++;
      std::string res = dec_case(o, 0x0103, (uint32_t)syms.size(), std::max(nc, 1), old);
      if (res.compare(0, 2, "ok") != 0) o.fail("pre-2.0 layout of a valid block rejected: " + lhs);
      if (n_malformed > 1) malformed_from(o, r, old, (uint32_t)syms.size(), std::max(nc, 1), 2);
      dec_case(o, 0x0103, (uint32_t)syms.size(), std::max(nc, 1), with);   // new layout read as old
      dec_case(o, 0x0200, (uint32_t)syms.size(), std::max(nc, 1), old);    // old layout read as new
    }
  }
}

// ---------------------------------------------------------------- RAnsSymbolEncoder<N> / RAnsSymbolDecoder<N> directly
template <int N>
static void rsd_case_N(Out &o, uint16_t ver, uint32_t n, const std::vector<uint8_t> &bytes, const uint8_t pre[4]) {
  std::vector<uint8_t> mem(pre, pre + 4); mem.insert(mem.end(), bytes.begin(), bytes.end());
  DecoderBuffer db; db.Init((const char *)mem.data() + 4, bytes.size(), ver);
  RAnsSymbolDecoder<N> d;
  std::string res = "fail";
  std::vector<uint32_t> out;
  if (d.Create(&db) && !(n > 0 && d.num_symbols() == 0) && d.StartDecoding(&db)) {
    for (uint32_t i = 0; i < n; i++) out.push_back(d.DecodeSymbol());
    d.EndDecoding();
    res = "ok " + csv(out) + " " + S(db.remaining_size());
  }
  // pre is printed nearest byte first
  uint8_t prer[4] = {pre[3], pre[2], pre[1], pre[0]};
  o.c("rsd " + S(N) + " " + S(ver) + " " + U(n) + " " + hex(prer, 4) + " " + hex(bytes.data(), bytes.size()), res);
}
static void rsd_case(Out &o, int N, uint16_t ver, uint32_t n, const std::vector<uint8_t> &bytes, const uint8_t pre[4]) {
  switch (N) {
#define C(k) case k: rsd_case_N<k>(o, ver, n, bytes, pre); break;
    C(1) C(2) C(3) C(4) C(5) C(6) C(7) C(8) C(9) C(10) C(11) C(12) C(13) C(14) C(15) C(16) C(17) C(18)
#undef C
  }
}

template <int N>
static void rse_case_N(Out &o, Rng &r, const std::vector<uint64_t> &freqs, const std::vector<uint32_t> &syms, int n_malformed) {
  RAnsSymbolEncoder<N> e; EncoderBuffer eb;
  std::string lhs = "rse " + S(N) + " " + csv(freqs) + " " + csv(syms);
  // every symbol is encoded at most as often as its frequency says (see the callers): the reserved area must suffice
  if (area_case_N<N>(o, freqs, syms, count_used(freqs) <= 300, "RAnsSymbolEncoder<" + S(N) + "> directly") == 2) return;
  bool c = e.Create(freqs.data(), (int)freqs.size(), &eb);
  if (!c) { o.c(lhs, "c=0"); g_cov[COV_CREATE_FALSE]++; return; }
  e.StartEncoding(&eb);
  for (int i = (int)syms.size() - 1; i >= 0; --i) e.EncodeSymbol(syms[i]);
  e.EndEncoding(&eb);
  std::vector<uint8_t> bytes((const uint8_t *)eb.data(), (const uint8_t *)eb.data() + eb.size());
  o.c(lhs, "c=1 " + hex(bytes.data(), bytes.size()));
  std::vector<uint8_t> with = bytes; with.insert(with.end(), kSentinel, kSentinel + 3);
  uint8_t pre[4]; for (auto &p : pre) p = (uint8_t)r.next();
  {  // real round trip
    DecoderBuffer db; db.Init((const char *)with.data(), with.size(), 0x0202);
    RAnsSymbolDecoder<N> d; std::vector<uint32_t> out;
    bool ok = d.Create(&db) && d.StartDecoding(&db);
    if (ok) for (size_t i = 0; i < syms.size(); i++) out.push_back(d.DecodeSymbol());
    if (!ok || out != syms || db.remaining_size() != 3) o.fail("RAnsSymbol round trip: " + lhs);
  }
  rsd_case_N<N>(o, 0x0202, (uint32_t)syms.size(), with, pre);
  for (int k = 0; k < n_malformed; k++) {
    std::vector<uint8_t> b = with; uint32_t n2 = (uint32_t)syms.size();
    switch (r.below(7)) {
      case 0: b.resize(r.below(b.size() + 1)); break;
      case 1: b[r.below(std::min<size_t>(b.size(), 10))] ^= (uint8_t)(1u << r.below(8)); break;
      case 2: b[r.below(b.size())] = (uint8_t)r.next(); break;
      case 3: if (b.size() > 4) b[b.size() - 4 - r.below(std::min<size_t>(b.size() - 4, 3) + 1) + 0] = (uint8_t)(0xC0 | r.below(64)); break;
      case 4: n2 += (uint32_t)r.range(0, 5); break;
      case 5: { // a short block carrying the 4-byte tail tag: read_init then reads in front of the block
        int P = ComputeRAnsPrecisionFromUniqueSymbolsBitLength(N); uint32_t pr = 1u << P;
        b.clear(); b.push_back(1);                                  // one symbol owning the whole precision
        if (pr < (1u << 14)) { b.push_back((uint8_t)((pr << 2) | 1)); b.push_back((uint8_t)(pr >> 6)); }
        else { b.push_back((uint8_t)((pr << 2) | 2)); b.push_back((uint8_t)(pr >> 6)); b.push_back((uint8_t)(pr >> 14)); }
        int len = (int)r.range(1, 3); b.push_back((uint8_t)len);
        for (int j = 0; j < len; j++) b.push_back((uint8_t)(j == len - 1 ? (0xC0 | r.below(2)) : r.below(4)));
        b.push_back(0x77); n2 = (uint32_t)r.range(1, 4); break; }
      default: b.insert(b.begin() + r.below(b.size() + 1), (uint8_t)r.next()); break;
    }
    uint16_t ver = r.chance(10) ? (uint16_t)(r.chance(50) ? 0 : 0x0103) : 0x0202;
    rsd_case_N<N>(o, ver, n2, b, pre);
  }
}
static void rse_case(Out &o, Rng &r, int N, const std::vector<uint64_t> &f, const std::vector<uint32_t> &s, int nm) {
  switch (N) {
#define C(k) case k: rse_case_N<k>(o, r, f, s, nm); break;
    C(1) C(2) C(3) C(4) C(5) C(6) C(7) C(8) C(9) C(10) C(11) C(12) C(13) C(14) C(15) C(16) C(17) C(18)
#undef C
  }
}

// Create() alone (table bytes), for frequency values far beyond what can be encoded: exercises the double arithmetic
template <int N>
static void rsc_case_N(Out &o, const std::vector<uint64_t> &freqs) {
  RAnsSymbolEncoder<N> e; EncoderBuffer eb;
  bool c = e.Create(freqs.data(), (int)freqs.size(), &eb);
  o.c("rsc " + S(N) + " " + csv(freqs), c ? "c=1 " + hex(eb.data(), eb.size()) : std::string("c=0"));
  if (!c) g_cov[COV_CREATE_FALSE]++;
}
static void rsc_case(Out &o, int N, const std::vector<uint64_t> &f) {
  switch (N) {
#define C(k) case k: rsc_case_N<k>(o, f); break;
    C(1) C(2) C(3) C(4) C(5) C(6) C(7) C(8) C(9) C(10) C(11) C(12) C(13) C(14) C(15) C(16) C(17) C(18)
#undef C
  }
}

// frequency tables that are not the histogram of the encoded sequence (each used symbol is encoded at most as
// often as its frequency says, so that StartEncoding's buffer estimate is an upper bound)
static void adversarial_rse(Out &o, Rng &r, int N, int nm) {
  int P = ComputeRAnsPrecisionFromUniqueSymbolsBitLength(N);
  int prec = 1 << P;
  int kind = (int)r.below(8);
  int n;
  switch (kind) {
    case 0: n = (int)r.range(1, 40); break;
    case 1: n = (int)r.range(prec / 4 - 2, prec / 4 + 2); break;   // the callers' bound: used symbols <= precision / 4
    case 2: n = (int)r.range(prec - 3, prec + 3); break;           // as many symbols as probability slots
    case 3: n = (int)r.range(prec / 2, prec); break;
    default: n = (int)r.range(2, 300); break;
  }
  if (n > 6000 && !r.chance(4)) n = (int)r.range(2, 3000);
  if (n > 20000 && !(g_thorough && r.chance(10))) n = (int)r.range(10000, 20000);
  std::vector<uint64_t> f(n, 0);
  for (int i = 0; i < n; i++) {
    switch (kind) {
      case 0: f[i] = r.biased(14); break;
      case 1: case 2: case 3: f[i] = r.chance(90) ? 1 + r.below(3) : r.below(2000); break;
      case 4: f[i] = 1; break;                                       // all equal: the sort is all ties
      case 5: f[i] = r.chance(50) ? 0 : r.below(1000); break;        // many holes (zero runs in the table)
      case 6: f[i] = i == 0 ? ((uint64_t)1 << r.range(8, 20)) : r.below(3); break;  // one dominant
      default: f[i] = (uint64_t)1 << r.below(14); break;
    }
  }
  if (kind == 5 && r.chance(50)) { int z = (int)r.range(60, 200); f.insert(f.begin() + r.below(f.size()), z, 0); }
  f[r.below(f.size())] += 1;   // total > 0
  std::vector<uint32_t> syms;
  for (size_t i = 0; i < f.size() && syms.size() < 4000; i++) { uint64_t c = std::min<uint64_t>(f[i], r.below(3)); for (uint64_t k = 0; k < c; k++) syms.push_back((uint32_t)i); }
  for (int i = (int)syms.size() - 1; i > 0; i--) std::swap(syms[i], syms[r.below(i + 1)]);
  rse_case(o, r, N, f, syms, nm);
}

int main(int argc, char **argv) {
  if (argc < 4) { fprintf(stderr, "usage: h_C08 quick|thorough seed out\n"); return 2; }
  bool thorough = !strcmp(argv[1], "thorough"); g_thorough = thorough;
  Rng r(strtoull(argv[2], 0, 10));
  Out o(argv[3]);
  o.note("C08 tier=" + std::string(argv[1]) + " seed=" + argv[2]);
  for (int b = 0; b <= 40; b++) o.c("prec " + S(b), S(ComputeRAnsPrecisionFromUniqueSymbolsBitLength(b)));
  // the level -> bit-length policy of the current code: replica (raw_bits_for) against the model's default_raw_bit_length
  for (int b = 0; b <= 18; b++)
    for (int64_t nu : {((int64_t)1 << b) - 1, (int64_t)1 << b, ((int64_t)1 << b) + 1})
      for (int lvl = -1; lvl <= 10; lvl++)
        if (nu >= 1 && nu < (1 << 18)) o.c("rbl " + S(nu) + " " + (lvl >= 0 ? S(lvl) : std::string("u")), S(raw_bits_for((size_t)nu, lvl)));

  // 1. EncodeSymbols: small/medium arrays, all distributions x schemes x levels x components
  int n_small = thorough ? 6000 : 700;
  for (int i = 0; i < n_small; i++) {
    int nc = (int)r.range(1, 4);
    if (r.chance(3)) nc = (int)r.range(-1, 0);   // <= 0 is replaced by 1
    int kind = (int)r.below(8);
    int groups;
    switch (r.below(6)) { case 0: groups = (int)r.range(1, 4); break; case 1: groups = (int)r.range(1, 40); break;
                          case 2: groups = (int)r.range(200, 1100); break; default: groups = (int)r.range(5, 300); break; }
    int n = groups * std::max(nc, 1);
    // 17/18: symbol values above 65535 that the raw scheme (<= 18 bits) still accepts
    int maxbits = r.chance(55) ? 10 : (r.chance(45) ? 16 : (r.chance(45) ? (r.chance(50) ? 17 : 18) : (r.chance(50) ? 20 : 32)));
    uint32_t maxv = boundary_max(r, maxbits);
    if (maxbits == 32 && r.chance(50)) maxv = (uint32_t)(0x80000000ull + r.range(-3, 2));   // the 31/32-bit edge (D6)
    std::vector<uint32_t> s = gen_syms(r, kind, n, maxv);
    int forced = (int)r.range(-1, 1);
    int lvl = r.chance(15) ? -1 : (int)r.range(0, 10);
    enc_case(o, r, s, nc, forced, lvl, i % 3 == 0 ? 3 : 0, i % 4 == 1);
  }
  // 2. a few large arrays (lengths up to 1e5) and large alphabets
  int n_large = thorough ? 60 : 7;
  for (int i = 0; i < n_large; i++) {
    int nc = (int)r.range(1, 4);
    int n = (int)(thorough ? r.range(4000, 100000) : (i == 0 ? 100000 : r.range(4000, 30000))) / nc * nc;
    int kind = i < 5 ? i : (int)r.below(8);
    int maxbits = thorough ? (int)r.range(4, 22) : (i == 1 ? 22 : (int)r.range(4, 18));
    uint32_t maxv = boundary_max(r, maxbits);
    if (kind == 4 && maxv < (uint32_t)n) maxv = n;
    std::vector<uint32_t> s = gen_syms(r, kind, n, maxv);
    enc_case(o, r, s, nc, (int)r.range(-1, 1), r.chance(30) ? -1 : (int)r.range(0, 10), 2, true);
  }
  // 2b. dominated arrays long enough that a write area sized from the ideal entropy (instead of the entropy under the
  //     quantised table) would be too small: n >= ~70000 at 12-bit precision
  for (int i = 0; i < (thorough ? 12 : 3); i++) {
    int n = (int)r.range(100000, thorough ? 220000 : 130000); int kind = i % 3 == 2 ? 9 : 8;
    std::vector<uint32_t> s = gen_syms(r, kind, n, kind == 9 ? 0x7fffffffu : 1000);
    enc_case(o, r, s, 1, kind == 9 ? 0 : (i % 3 == 0 ? 1 : -1), (int)r.range(0, 10), 1, true);
  }
  if (thorough) {
    // up to 2^18 distinct symbols (and beyond: the raw scheme must refuse more than 2^18 - 1)
    for (int k : {1 << 17, (1 << 18) - 1, 1 << 18}) {
      std::vector<uint32_t> s = gen_syms(r, 4, k, k + 5);
      for (int f = -1; f <= 1; f++) enc_case(o, r, s, 1, f, (int)r.range(0, 10), 1);
    }
  }
  // 3. unknown scheme values through the option, the empty array
  {
    std::vector<uint32_t> s = gen_syms(r, 0, 12, 9);
    for (int m : {2, 3, 255, 256, 1000}) enc_case(o, r, s, 1, m, 7, 0);
    enc_case(o, r, std::vector<uint32_t>(), 1, -1, -1, 0);
    dec_case(o, 0x0202, 0, 1, std::vector<uint8_t>{1, 2, 3});
  }
  // 4. RAnsSymbolEncoder<N>/Decoder<N> directly, N = 1..18, histogram tables and adversarial tables
  int n_direct = thorough ? 3000 : 400;
  for (int i = 0; i < n_direct; i++) {
    int N = (int)r.range(1, 18);
    if (i % 2 == 0) {
      int n = (int)r.range(1, r.chance(80) ? 300 : 3000);
      uint32_t maxv = boundary_max(r, std::min(N + 1, 12));
      std::vector<uint32_t> s = gen_syms(r, (int)r.below(8), n, maxv);
      uint32_t mx = *std::max_element(s.begin(), s.end());
      std::vector<uint64_t> f((size_t)mx + 1 + (r.chance(20) ? r.below(70) : 0), 0);
      for (auto x : s) f[x]++;
      if (r.chance(20)) { uint64_t m = 1 + r.below(1000); for (auto &x : f) x *= m; }
      rse_case(o, r, N, f, s, 3);
    } else {
      adversarial_rse(o, r, N, 2);
    }
  }
  // 4a. two-symbol tables with dyadic frequencies and 1..2 symbol messages: the final rANS state sweeps the
  //     boundaries of write_end's 1/2/3-byte tails (state - l_rans_base = 2^6, 2^14 exactly among them)
  for (int k = 1; k <= 8; k++)
    for (int a = 1; a < (1 << k); a++) {
      std::vector<uint64_t> f = {(uint64_t)a, (uint64_t)((1 << k) - a)};
      int N = (a % 5 == 0) ? 9 : (a % 7 == 0 ? 10 : 1);
      rse_case(o, r, N, f, std::vector<uint32_t>{0}, 0);
      rse_case(o, r, N, f, std::vector<uint32_t>{1}, 0);
      if (k <= 4) for (int m = 0; m < 4; m++) rse_case(o, r, N, f, std::vector<uint32_t>{(uint32_t)(m & 1), (uint32_t)(m >> 1)}, 0);
    }
  // 4b. Create() on tables with very large / very uneven frequencies
  int n_create = thorough ? 4000 : 500;
  for (int i = 0; i < n_create; i++) {
    int N = (int)r.range(1, 18);
    int n = (int)r.range(1, r.chance(85) ? 50 : 1500);
    std::vector<uint64_t> f(n);
    int w = (int)r.range(1, 58);
    for (auto &x : f) x = r.chance(15) ? 0 : (r.chance(50) ? r.biased(w) : r.below(((uint64_t)1 << w)));
    f[r.below(n)] += 1;
    rsc_case(o, N, f);
  }
  // 5. pure garbage through both decoders
  int n_garbage = thorough ? 20000 : 1500;
  for (int i = 0; i < n_garbage; i++) {
    int len = (int)r.below(40);
    std::vector<uint8_t> b(len);
    for (auto &x : b) x = (uint8_t)(r.chance(30) ? r.below(8) : r.next());
    if (len > 0 && r.chance(80)) b[0] = (uint8_t)r.below(2);
    if (len > 1 && b[0] == 1 && r.chance(80)) b[1] = (uint8_t)r.range(1, 18);
    int nc = (int)r.range(1, 4);
    uint32_t n = (uint32_t)(nc * r.range(1, 6));
    if (r.chance(15)) { n += (uint32_t)r.below(3); if (r.chance(30)) nc = 0; }   // counts the tagged scheme must refuse
    uint16_t ver = r.chance(85) ? 0x0202 : (uint16_t)(r.chance(50) ? 0x0103 : 0x0200);
    dec_case(o, ver, n, nc, b);
    if (i % 4 == 0) { uint8_t pre[4]; for (auto &p : pre) p = (uint8_t)r.next(); rsd_case(o, (int)r.range(1, 18), ver, n, b, pre); }
  }
  o.note("cov tagged=" + S(g_cov[COV_TAGGED]) + " raw=" + S(g_cov[COV_RAW]) + " auto=" + S(g_cov[COV_AUTO]) + " enc_fail=" + S(g_cov[COV_ENC_FAIL]) +
         " dec_ok=" + S(g_cov[COV_DEC_OK]) + " dec_fail=" + S(g_cov[COV_DEC_FAIL]) + " create_false=" + S(g_cov[COV_CREATE_FALSE]) +
         " oldver=" + S(g_cov[COV_OLDVER]) + " big=" + S(g_cov[COV_BIG]) + " area_checks=" + S(g_cov[COV_AREA]) +
         " area_model_cases=" + S(g_cov[COV_AREA_MODEL]) + " area_max_fill_pct=" + S(g_cov[COV_AREA_MAXPCT]) +
         " raw_bit_length_policy_diffs=" + S(g_cov[COV_POLICY]));
  fprintf(stderr, "h_C08: %ld cases, %ld direct failures\n", o.cases, o.fails);
  return 0;
}
